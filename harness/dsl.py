"""The expression language shared by the Lean model (`LcmModel/Dsl.lean`) and the harness.

A model specification travels as JSON:

    {"n_periods": T,
     "states":  [[name, grid], ...],      (declaration order)
     "choices": [[name, grid], ...],
     "functions": [{"name", "args": [...], "body": expr, "stochastic": bool}, ...]}

    grid := {"k": "lin", "a": "p/q", "b": "p/q", "n": n} | {"k": "disc", "n": n}
          | {"k": "log", "a": "p/q", "b": "p/q", "n": n}          (tolerance stream only)
    expr := ["num", "p/q"] | ["var", x] | [op, e...]   op in add sub mul neg min max le lt eq and or not ite

`build_model` turns it into a real `lcm.Model` whose functions are ordinary Python functions with
exactly those signatures (source generated and exec-ed), so `inspect.signature`, `dags` and lcm's
naming conventions see plain user code.
"""
from __future__ import annotations

import json

from dataclasses import field, make_dataclass
from fractions import Fraction as Fr

from common import impl


def N(x) -> list:
    q = Fr(x)
    return ["num", f"{q.numerator}/{q.denominator}" if q.denominator != 1 else f"{q.numerator}"]


def V(x: str) -> list:
    return ["var", x]


_BIN = {"add": "+", "sub": "-", "mul": "*", "div": "/", "le": "<=", "lt": "<", "eq": "=="}


def src(e, ints: bool = True) -> str:
    """Python source of an expression. `ints=True`: integral constants are int literals (needed
    where the value is a label used for indexing); `ints=False`: every constant is a float literal
    (utility-like functions, so that value arrays are floating point)."""
    k = e[0]

    def s(x):
        return src(x, ints)

    if k == "num":
        q = Fr(e[1])
        return repr(int(q)) if (q.denominator == 1 and ints) else repr(float(q))
    if k == "var":
        return e[1]
    if k in _BIN:
        return f"({s(e[1])} {_BIN[k]} {s(e[2])})"
    if k == "neg":
        return f"(-{s(e[1])})"
    if k == "and":
        return f"jnp.logical_and({s(e[1])}, {s(e[2])})"
    if k == "or":
        return f"jnp.logical_or({s(e[1])}, {s(e[2])})"
    if k == "not":
        return f"jnp.logical_not({s(e[1])})"
    if k == "ite":
        return f"jnp.where({s(e[1])}, {s(e[2])}, {s(e[3])})"
    if k == "min":
        return f"jnp.minimum({s(e[1])}, {s(e[2])})"
    if k == "max":
        return f"jnp.maximum({s(e[1])}, {s(e[2])})"
    raise ValueError(k)


def ev(e, env):
    """Exact evaluation (Fractions / bools), same semantics as `Expr.eval` in the Lean model."""
    k = e[0]

    def num(x):
        return Fr(int(x)) if isinstance(x, bool) else x

    if k == "num":
        return Fr(e[1])
    if k == "var":
        return env[e[1]]
    if k == "neg":
        return -num(ev(e[1], env))
    if k == "not":
        return not bool(ev(e[1], env))
    a = ev(e[1], env)
    b = ev(e[2], env)
    if k == "add":
        return num(a) + num(b)
    if k == "sub":
        return num(a) - num(b)
    if k == "mul":
        return num(a) * num(b)
    if k == "div":
        return num(a) / num(b)      # ZeroDivisionError where the model says "undefined"
    if k == "le":
        return num(a) <= num(b)
    if k == "lt":
        return num(a) < num(b)
    if k == "eq":
        return num(a) == num(b)
    if k == "and":
        return bool(a) and bool(b)
    if k == "or":
        return bool(a) or bool(b)
    if k == "min":
        return min(num(a), num(b))
    if k == "max":
        return max(num(a), num(b))
    if k == "ite":
        return b if bool(a) else ev(e[3], env)
    raise ValueError(k)


def expr_vars(e, acc=None) -> set:
    acc = set() if acc is None else acc
    if e[0] == "var":
        acc.add(e[1])
    elif e[0] != "num":
        for x in e[1:]:
            expr_vars(x, acc)
    return acc


_FUNCS: dict = {}


def _sig(args, kwonly):
    kw = [a for a in args if a in (kwonly or [])]
    pos = [a for a in args if a not in kw]
    return ", ".join(pos + (["*"] + kw if kw else []))


def mkfunc(name: str, args: list[str], body, stochastic: bool = False, ints: bool = True, stacked: bool = False, kwonly=None, narrow=None):
    """The same source text gives the same function *object* within a process - as for a user who defines the model
    functions once at module level and uses them in several specifications (what a cache keyed on function objects
    inside the library would see)."""
    I = impl()
    code = f"def {name}({_sig(args, kwonly)}):\n    return {src(body, ints)}\n"
    if stacked and isinstance(body, list) and body and body[0] == "add":
        # the same scalar function written with a reduction over a small stacked vector: legal for lcm (model functions are
        # evaluated on scalars under vmap), but not broadcast-safe - calling it on whole columns gives one number
        code = f"def {name}({_sig(args, kwonly)}):\n    return jnp.array([{src(body[1], ints)}, {src(body[2], ints)}]).sum()\n"
    if narrow:
        # the function returns its (integer) result in a narrow dtype, e.g. a transition written with `.astype(jnp.int8)` or a
        # lookup in a table that came from pandas categorical codes
        code = f"def {name}({_sig(args, kwonly)}):\n    return jnp.asarray({src(body, ints)}).astype(jnp.{narrow})\n"
    if stacked and isinstance(body, list) and body and body[0] in ("or", "and"):
        # a boolean function written with a reduction over a small stacked vector (`jnp.any(jnp.array([...]))`): correct
        # for the scalars lcm evaluates model functions on, not for whole grids
        red = "any" if body[0] == "or" else "all"
        code = f"def {name}({_sig(args, kwonly)}):\n    return jnp.{red}(jnp.array([{src(body[1], ints)}, {src(body[2], ints)}]))\n"
    if (code, stochastic) in _FUNCS:
        return _FUNCS[(code, stochastic)]
    f = _mkfunc(I, name, code, stochastic)
    _FUNCS[(code, stochastic)] = f
    return f


def _mkfunc(I, name, code, stochastic):
    ns = {"jnp": I.jnp}
    exec(code, ns)  # noqa: S102
    f = ns[name]
    f.__verif_src__ = code
    if stochastic:
        from lcm.mark import stochastic as mark

        f = mark(f)
    return f


def num_py(s: str):
    q = Fr(s)
    return int(q) if q.denominator == 1 else float(q)


_GRIDS: dict = {}


def mkgrid(g: dict):
    """Equal grid descriptions give the same grid *object* within a process (a user who reorders the entries of a dict keeps
    the objects; `DiscreteGrid` compares by identity)."""
    key = json.dumps(g, sort_keys=True, default=str)
    if key not in _GRIDS:
        _GRIDS[key] = _mkgrid(g)
    return _GRIDS[key]


def _mkgrid(g: dict):
    impl()
    from lcm import DiscreteGrid, LinspaceGrid, LogspaceGrid

    if g["k"] == "disc":
        if g.get("float_codes"):
            cls = make_dataclass("Cat", [(f"c{i}", float, field(default=float(i))) for i in range(g["n"])])
        else:
            cls = make_dataclass("Cat", [(f"c{i}", int, field(default=i)) for i in range(g["n"])])
        return DiscreteGrid(cls)
    if g["k"] == "lin":
        return LinspaceGrid(start=num_py(g["a"]), stop=num_py(g["b"]), n_points=g["n"])
    if g["k"] == "log":
        return LogspaceGrid(start=num_py(g["a"]), stop=num_py(g["b"]), n_points=g["n"])
    raise ValueError(g)


def _affine_wrapper(base, a, b):
    import functools

    @functools.wraps(base)
    def wrapper(*args, **kwargs):
        return a * base(*args, **kwargs) + b

    return wrapper


def build_model(mj: dict):
    impl()
    from lcm import Model

    made = {f["name"]: mkfunc(f["name"], f["args"], f["body"], f.get("stochastic", False), f.get("ints", True), f.get("stacked", False), f.get("kwonly"), f.get("narrow"))
            for f in mj["functions"] if not f.get("same_as")}
    for f in mj["functions"]:
        if f.get("affine_wrap"):
            # a*f + b written the way a user would write it on top of an existing function: a decorator built with
            # functools.wraps (the wrapper has the signature of the wrapped function and carries `__wrapped__`)
            made[f["name"]] = _affine_wrapper(made[f["name"]], float(Fr(f["affine_wrap"][0])), float(Fr(f["affine_wrap"][1])))
    # declaration order is kept; `same_as`: the very same callable under a second name
    fobjs = {f["name"]: made[f["same_as"]] if f.get("same_as") else made[f["name"]] for f in mj["functions"]}
    return Model(
        n_periods=mj["n_periods"],
        functions=fobjs,
        choices={k: mkgrid(g) for k, g in mj["choices"]},
        states={k: mkgrid(g) for k, g in mj["states"]},
    )


def grid_points(g: dict) -> list[Fr]:
    if g["k"] == "disc":
        return [Fr(i) for i in range(g["n"])]
    if g["k"] == "lin":
        a, b, n = Fr(g["a"]), Fr(g["b"]), g["n"]
        return [a + (b - a) / (n - 1) * i for i in range(n)] if n > 1 else [a]
    if g["k"] == "log":
        import math

        a, b, n = float(Fr(g["a"])), float(Fr(g["b"])), g["n"]
        return [Fr(math.exp(math.log(a) + i * (math.log(b) - math.log(a)) / (n - 1))) for i in range(n)] if n > 1 else [Fr(a)]
    raise ValueError(g)


def grid_size(g: dict) -> int:
    return g["n"]


# --------------------------------------------------------------------------------------
# parameters: computed by the harness from the specification alone (independent of both
# the implementation's template and the model's), so that C07 can compare the two templates
# --------------------------------------------------------------------------------------
def param_slots(mj: dict) -> dict[str, list[str]]:
    variables = (
        {f["name"] for f in mj["functions"]}
        | {k for k, _ in mj["choices"]}
        | {k for k, _ in mj["states"]}
        | {"_period"}
    )
    return {f["name"]: sorted(set(f["args"]) - variables) for f in mj["functions"]}


def shock_shapes(mj: dict) -> dict[str, list[int]]:
    sizes = {k: g["n"] for k, g in mj["states"] + mj["choices"]}
    sizes["_period"] = mj["n_periods"]
    out = {}
    for f in mj["functions"]:
        if f.get("stochastic"):
            x = f["name"].removeprefix("next_")
            out[x] = [sizes[a] for a in f["args"]] + [sizes[x]]
    return out


def params_json(P: dict) -> dict:
    """harness params {"beta": Fr, "funcs": {f: {p: Fr}}, "shocks": {x: {"shape", "data": [Fr]}}} -> JSON"""
    from common import fr

    return {
        "beta": fr(P["beta"]),
        "funcs": {f: {p: fr(v) for p, v in ps.items()} for f, ps in P["funcs"].items()},
        "shocks": {x: {"shape": t["shape"], "data": [fr(v) for v in t["data"]]} for x, t in P["shocks"].items()},
    }


def params_impl(P: dict, leaf: str = "float"):
    """harness params -> the dict the generated functions expect"""
    I = impl()
    np = I.np

    def lf(v):
        if leaf == "float":
            return float(v)
        if leaf == "numpy":
            return np.float64(float(v))
        return I.jnp.asarray(float(v))

    out = {"beta": lf(P["beta"])}
    for f, ps in P["funcs"].items():
        out[f] = {p: lf(v) for p, v in ps.items()}
    if P["shocks"]:
        out["shocks"] = {
            x: I.jnp.asarray(np.array([float(v) for v in t["data"]]).reshape(t["shape"]))
            for x, t in P["shocks"].items()
        }
    return out
