import Mathlib.Analysis.SpecialFunctions.Log.Basic
import Mathlib.Analysis.SpecialFunctions.Exp
import Mathlib.Algebra.Order.Floor.Ring
import Mathlib.Tactic

open Real

namespace Lcm

/-- `get_logspace_coordinate` over the reals, line by line -/
noncomputable def logCoord (v a b : ℝ) (n : ℕ) : ℝ :=
  let startL := log a
  let stopL := log b
  let valueL := log v
  let step := (stopL - startL) / ((n : ℝ) - 1)
  let c := (valueL - startL) / step
  let rLo : ℝ := (⌊c⌋ : ℤ)
  let rUp := rLo + 1
  let lo := exp (startL + step * rLo)
  let up := exp (startL + step * rUp)
  rLo + (v - lo) / (up - lo)

/-- node k of `logspace(a, b, n)` -/
noncomputable def logNode (a b : ℝ) (n : ℕ) (k : ℝ) : ℝ :=
  exp (log a + (log b - log a) / ((n : ℝ) - 1) * k)

theorem step_pos (a b : ℝ) (n : ℕ) (ha : 0 < a) (hab : a < b) (hn : 2 ≤ n) :
    0 < (log b - log a) / ((n : ℝ) - 1) := by
  have h1 : log a < log b := log_lt_log ha hab
  have h2 : (0 : ℝ) < (n : ℝ) - 1 := by
    have : (2 : ℝ) ≤ n := by exact_mod_cast hn
    linarith
  exact div_pos (by linarith) h2

/-- the cell found in log space really contains the value: node_r ≤ v < node_{r+1} -/
theorem log_cell (v a b : ℝ) (n : ℕ) (ha : 0 < a) (hab : a < b) (hn : 2 ≤ n) (hv : 0 < v)
    (r : ℝ) (hr : r = ((⌊(log v - log a) / ((log b - log a) / ((n : ℝ) - 1))⌋ : ℤ) : ℝ)) :
    logNode a b n r ≤ v ∧ v < logNode a b n (r + 1) := by
  have hs := step_pos a b n ha hab hn
  have hfl : r ≤ (log v - log a) / ((log b - log a) / ((n : ℝ) - 1)) := by rw [hr]; exact Int.floor_le _
  have hfu : (log v - log a) / ((log b - log a) / ((n : ℝ) - 1)) < r + 1 := by
    rw [hr]; exact Int.lt_floor_add_one _
  have h1 : log a + (log b - log a) / ((n : ℝ) - 1) * r ≤ log v := by
    have := (le_div_iff₀ hs).mp hfl
    linarith
  have h2 : log v < log a + (log b - log a) / ((n : ℝ) - 1) * (r + 1) := by
    have := (div_lt_iff₀ hs).mp hfu
    linarith
  constructor
  · unfold logNode
    calc exp (log a + (log b - log a) / ((n : ℝ) - 1) * r) ≤ exp (log v) := exp_le_exp.mpr h1
      _ = v := exp_log hv
  · unfold logNode
    calc v = exp (log v) := (exp_log hv).symm
      _ < exp (log a + (log b - log a) / ((n : ℝ) - 1) * (r + 1)) := exp_lt_exp.mpr h2

theorem logCoord_eq (v a b : ℝ) (n : ℕ) (r : ℝ)
    (hr : r = ((⌊(log v - log a) / ((log b - log a) / ((n : ℝ) - 1))⌋ : ℤ) : ℝ)) :
    logCoord v a b n = r + (v - logNode a b n r) / (logNode a b n (r + 1) - logNode a b n r) := by
  subst hr; rfl

/-- hence the coordinate lies in [r, r+1) -/
theorem logCoord_in_cell (v a b : ℝ) (n : ℕ) (ha : 0 < a) (hab : a < b) (hn : 2 ≤ n) (hv : 0 < v)
    (r : ℝ) (hr : r = ((⌊(log v - log a) / ((log b - log a) / ((n : ℝ) - 1))⌋ : ℤ) : ℝ)) :
    r ≤ logCoord v a b n ∧ logCoord v a b n < r + 1 := by
  obtain ⟨hlo, hup⟩ := log_cell v a b n ha hab hn hv r hr
  have hwidth : 0 < logNode a b n (r + 1) - logNode a b n r := by linarith
  rw [logCoord_eq v a b n r hr]
  constructor
  · have : 0 ≤ (v - logNode a b n r) / (logNode a b n (r + 1) - logNode a b n r) :=
      div_nonneg (by linarith) hwidth.le
    linarith
  · have : (v - logNode a b n r) / (logNode a b n (r + 1) - logNode a b n r) < 1 := by
      rw [div_lt_one hwidth]; linarith
    linarith

/-- the generalised coordinate of grid node k is k -/
theorem logCoord_node (a b : ℝ) (n : ℕ) (ha : 0 < a) (hab : a < b) (hn : 2 ≤ n) (k : ℕ) :
    logCoord (logNode a b n k) a b n = k := by
  have hs := step_pos a b n ha hab hn
  have hlogv : log (logNode a b n k) = log a + (log b - log a) / ((n : ℝ) - 1) * k := by
    unfold logNode; rw [log_exp]
  have hc : (log (logNode a b n k) - log a) / ((log b - log a) / ((n : ℝ) - 1)) = (k : ℝ) := by
    rw [hlogv]
    have h1 : log a + (log b - log a) / ((n : ℝ) - 1) * k - log a = (log b - log a) / ((n : ℝ) - 1) * k := by ring
    rw [h1, mul_comm, mul_div_assoc, div_self hs.ne', mul_one]
  have hr : (k : ℝ) = ((⌊(log (logNode a b n k) - log a) / ((log b - log a) / ((n : ℝ) - 1))⌋ : ℤ) : ℝ) := by
    rw [hc]; simp
  rw [logCoord_eq _ a b n (k : ℝ) hr]
  simp

#print axioms logCoord_node
#print axioms logCoord_in_cell
end Lcm
