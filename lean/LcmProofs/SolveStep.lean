import LcmModel.SolveStep
import LcmProofs.Argmax
namespace Lcm
variable {S C E Y : Type}

/-- order-free specification of "v is the maximum of f over the choices satisfying P
(−inf when there is none)" -/
def IsMaxOver {X : Type} (P : X → Prop) (f : X → Rat) (v : Ext) : Prop :=
  (∀ x, P x → Ext.le (.fin (f x)) v) ∧
  ((∃ x, P x ∧ v = .fin (f x)) ∨ ((∀ x, ¬ P x) ∧ v = .ninf))

theorem foldMax_eq_ninf_iff (xs : List Ext) : foldMax xs = .ninf ↔ ∀ x ∈ xs, x = .ninf := by
  induction xs with
  | nil => simp [foldMax_nil]
  | cons y ys ih =>
    rw [foldMax_cons]
    constructor
    · intro h
      have hy : y = .ninf := by
        cases y with
        | ninf => rfl
        | fin a => cases hfy : foldMax ys <;> simp [Ext.max, hfy] at h
      subst hy
      rw [Ext.max_ninf_left] at h
      intro x hx
      rcases List.mem_cons.mp hx with rfl | hx
      · rfl
      · exact (ih.mp h) x hx
    · intro h
      have hy := h y (by simp)
      subst hy
      rw [Ext.max_ninf_left]
      exact ih.mpr (fun x hx => h x (List.mem_cons_of_mem _ hx))

/-- generic: foldMax of a list of `fin (f x)` over the members of `xs` satisfying a Boolean test -/
theorem isMaxOver_filter {X : Type} (xs : List X) (test : X → Bool) (f : X → Rat) :
    IsMaxOver (fun x => x ∈ xs ∧ test x = true) f
      (foldMax ((xs.filter test).map fun x => Ext.fin (f x))) := by
  constructor
  · intro x ⟨hx, ht⟩
    exact le_foldMax _ _ (List.mem_map.mpr ⟨x, List.mem_filter.mpr ⟨hx, ht⟩, rfl⟩)
  · by_cases hne : (xs.filter test).map (fun x => Ext.fin (f x)) = []
    · right
      refine ⟨?_, by rw [hne]; rfl⟩
      intro x ⟨hx, ht⟩
      have : x ∈ xs.filter test := List.mem_filter.mpr ⟨hx, ht⟩
      simp only [List.map_eq_nil_iff] at hne
      rw [hne] at this; simp at this
    · left
      have := foldMax_mem _ hne
      obtain ⟨x, hx, hfx⟩ := List.mem_map.mp this
      exact ⟨x, ⟨(List.mem_filter.mp hx).1, (List.mem_filter.mp hx).2⟩, hfx.symm⟩

/-- maskedMax over a mapped grid is the foldMax over the filtered grid -/
theorem maskedMax_map {X : Type} (xs : List X) (f : X → Rat) (test : X → Bool) :
    maskedMax (xs.map fun x => Ext.fin (f x)) (xs.map test)
      = foldMax ((xs.filter test).map fun x => Ext.fin (f x)) := by
  unfold maskedMax
  congr 1
  induction xs with
  | nil => simp
  | cons x xs ih =>
    simp only [List.map_cons, List.zip_cons_cons, List.filterMap_cons, List.filter_cons]
    cases test x <;> simp [ih]

/-- nested max = max over the product: monotone gluing of two `IsMaxOver` levels -/
theorem isMaxOver_nested {A B : Type} (as : List A) (PA : A → Prop) (hPA : ∀ a, PA a → a ∈ as)
    (PB : A → B → Prop) (f : A → B → Rat) (inner : A → Ext)
    (hinner : ∀ a, PA a → IsMaxOver (PB a) (f a) (inner a))
    (asP : List A) (hasP : ∀ a, a ∈ asP ↔ PA a) :
    IsMaxOver (fun p : A × B => PA p.1 ∧ PB p.1 p.2) (fun p => f p.1 p.2)
      (foldMax (asP.map inner)) := by
  constructor
  · intro ⟨a, b⟩ ⟨ha, hb⟩
    have h1 := (hinner a ha).1 b hb
    have h2 := le_foldMax (asP.map inner) (inner a) (List.mem_map.mpr ⟨a, (hasP a).mpr ha, rfl⟩)
    exact Ext.le_trans h1 h2
  · by_cases hall : ∀ x ∈ asP.map inner, x = Ext.ninf
    · right
      refine ⟨?_, (foldMax_eq_ninf_iff _).mpr hall⟩
      intro ⟨a, b⟩ ⟨ha, hb⟩
      have hin : inner a = .ninf := hall _ (List.mem_map.mpr ⟨a, (hasP a).mpr ha, rfl⟩)
      have := (hinner a ha).1 b hb
      rw [hin] at this
      simp [Ext.le] at this
    · left
      have hne : asP.map inner ≠ [] := by
        intro h; apply hall; rw [h]; simp
      have hmem := foldMax_mem _ hne
      obtain ⟨a, ha, hfa⟩ := List.mem_map.mp hmem
      have hPa := (hasP a).mp ha
      rcases (hinner a hPa).2 with ⟨b, hb, hv⟩ | ⟨_, hv⟩
      · exact ⟨(a, b), ⟨hPa, hb⟩, by rw [← hfa, hv]⟩
      · -- inner a = ninf is the fold max, so every entry is ninf: contradiction with ¬hall
        exfalso
        apply hall
        rw [← foldMax_eq_ninf_iff, ← hfa, hv]

#print axioms isMaxOver_nested
end Lcm

namespace Lcm
variable {S C E Y : Type}

/-- **R1, one period, one state** (prototype): what `solve` stores for the k-th feasible
restricted state is the maximum of the objective over *all* grid choice combinations — restricted
choices `c`, unrestricted discrete choices `e`, continuous choices `y` — that pass the filter and
the constraints; −inf iff there is none. Arbitrary types, grids, filter, constraint, objective. -/
theorem vImpl_isMax (ssGrid : List S) (scGrid : List C) (filt : S → C → Bool) (dcGrid : List E)
    (ccGrid : List Y) (q : S → C → E → Y → Rat) (feas : S → C → E → Y → Bool) (k : Nat)
    (hk : k < (feasStates ssGrid scGrid filt).length) :
    IsMaxOver
      (fun x : C × (E × Y) =>
        (x.1 ∈ scGrid ∧ filt ((feasStates ssGrid scGrid filt)[k]) x.1 = true) ∧
          (x.2.1 ∈ dcGrid ∧
            (x.2.2 ∈ ccGrid ∧ feas ((feasStates ssGrid scGrid filt)[k]) x.1 x.2.1 x.2.2 = true)))
      (fun x => q ((feasStates ssGrid scGrid filt)[k]) x.1 x.2.1 x.2.2)
      (vImpl ssGrid scGrid filt dcGrid ccGrid q feas k) := by
  unfold vImpl
  rw [segMaxAt_combos ssGrid scGrid filt _ k hk]
  generalize (feasStates ssGrid scGrid filt)[k] = s
  -- outer level: restricted choices passing the filter
  refine isMaxOver_nested scGrid (fun c => c ∈ scGrid ∧ filt s c = true) (fun _ h => h.1)
    (fun c (x : E × Y) => x.1 ∈ dcGrid ∧ (x.2 ∈ ccGrid ∧ feas s c x.1 x.2 = true))
    (fun c x => q s c x.1 x.2) (fun c => denseMaxAt dcGrid ccGrid q feas (s, c)) ?_
    (scGrid.filter (filt s)) (fun c => by simp [List.mem_filter]) 
  intro c _
  -- middle level: unrestricted discrete choices
  unfold denseMaxAt
  refine isMaxOver_nested dcGrid (fun e => e ∈ dcGrid) (fun _ h => h)
    (fun e (y : Y) => y ∈ ccGrid ∧ feas s c e y = true)
    (fun e y => q s c e y) (fun e => ccvAt ccGrid q feas s c e) ?_ dcGrid (fun e => Iff.rfl)
  intro e _
  -- inner level: continuous choices under the feasibility mask
  unfold ccvAt
  rw [maskedMax_map ccGrid (fun y => q s c e y) (fun y => feas s c e y)]
  exact isMaxOver_filter ccGrid (fun y => feas s c e y) (fun y => q s c e y)

#print axioms vImpl_isMax
end Lcm
