namespace Lcm

/-- the arithmetic the model needs; `Rat` for theorems and the exact stream, `Float` for the
tolerance stream -/
class Scalar (α : Type) extends Add α, Sub α, Mul α, Div α, Neg α, LE α, LT α where
  ofInt : Int → α
  floor : α → Int
  log : α → α
  exp : α → α
  decLe : DecidableRel (α := α) (· ≤ ·)

instance {α} [Scalar α] : DecidableRel (α := α) (· ≤ ·) := Scalar.decLe

instance : Scalar Rat where
  ofInt := fun i => (i : Rat)
  floor := Rat.floor
  log := fun x => x      -- not available exactly; never used by the exact stream
  exp := fun x => x
  decLe := inferInstance

instance : Scalar Float where
  ofInt := fun i => Float.ofInt i
  floor := fun x => x.floor.toInt64.toInt
  log := Float.log
  exp := Float.exp
  decLe := inferInstance

/-- generic linear-grid coordinate and 1-d interpolation -/
def gLinCoord {α} [Scalar α] (v a b : α) (n : Nat) : α :=
  (v - a) / ((b - a) / (Scalar.ofInt (n : Int) - Scalar.ofInt 1))

def gLower {α} [Scalar α] (c : α) (size : Nat) : Nat :=
  (max 0 (min (Scalar.floor c) ((size : Int) - 2))).toNat

def gInterp1 {α} [Scalar α] [Inhabited α] (xs : List α) (c : α) : α :=
  let lo := gLower c xs.length
  let w := c - Scalar.ofInt (lo : Int)
  (Scalar.ofInt 1 - w) * xs.getD lo default + w * xs.getD (lo + 1) default

#eval gInterp1 [(1 : Rat), 3, 7] (5 / 4)
#eval gInterp1 [(1 : Float), 3, 7] 1.25
#eval gLinCoord (Float.exp 1.0) 0 8 5

end Lcm
