import LcmProofs.Laws
import LcmProofs.Congr
import LcmProofs.FuncPerm
import LcmProofs.EnvPerm
namespace Lcm

/-! # C10 — equivalent model specifications yield equal solutions (partial)

Proved at the specification level: the value of a state is a maximum over a *set* of admissible choices
(`IsMaxOver`, order-free), so it cannot depend on enumeration order, on how a restriction is classified, or on
always-true restrictions; and the by-name evaluation of the model functions reads environments only through
lookups, so the order of declarations / of arguments is irrelevant. Not proved in Lean (covered by the
metamorphic correspondence only): that the *layout re-indexing* of `solve`'s arrays under a permutation of the
declarations is the one C05 describes for both specifications simultaneously, and consistent renaming (needs a
commutation lemma for every name-handling function: `next_` prefix, `_filter` / `_constraint` suffixes). -/

/-- the value is determined by the admissible set and the objective on it: two specifications with the same
admissible choices and the same objective have the same value at that state -/
theorem C10_same_set_same_value {X : Type} {P P' : X → Prop} {f f' : X → Rat} {v v' : Ext}
    (hv : IsMaxOver P f v) (hv' : IsMaxOver P' f' v') (hP : ∀ x, P x ↔ P' x) (hf : ∀ x, P x → f x = f' x) : v = v' :=
  (hv.congr hP hf).unique hv'

/-- permuting the enumeration order of the choice grid (declaration order of the choices, order of the grid
product) does not change the value -/
theorem C10_choice_order_irrelevant {X : Type} (xs ys : List X) (h : xs.Perm ys) (adm : X → Bool)
    (u cont : X → Rat) (β : Rat) : bellmanStep xs adm u cont β = bellmanStep ys adm u cont β :=
  bellmanStep_perm xs ys h adm u cont β

/-- adding a constraint or filter that is always true leaves every value unchanged -/
theorem C10_true_restriction {X : Type} (xs : List X) (adm tr : X → Bool) (htr : ∀ x ∈ xs, tr x = true)
    (u cont : X → Rat) (β : Rat) :
    bellmanStep xs (fun x => adm x && tr x) u cont β = bellmanStep xs adm u cont β :=
  bellmanStep_true_restriction xs adm tr htr u cont β

/-- the same restriction expressed as a filter (applied when the space is built) or as a constraint (applied
as a mask when maximising) gives the same value at every state that remains in the space -/
theorem C10_filter_vs_constraint {X : Type} (xs : List X) (r1 r2 : X → Bool) (u cont : X → Rat) (β : Rat) :
    bellmanStep (xs.filter r1) r2 u cont β = bellmanStep (xs.filter r2) r1 u cont β := by
  obtain ⟨h1, h2⟩ := bellmanStep_restrictions xs r1 r2 u cont β
  rw [h1, h2]

/-- the order in which variables are declared / arguments are collected is irrelevant to every model
function: by-name evaluation reads the environment only through lookups -/
theorem C10_env_order_irrelevant (m : Model) (P : Params) (g : Groups) (t : Nat)
    (next : Option (Tensor Ext × List (List (Name × Rat)))) (e e' : Env) (h : EnvEq e e') :
    uAndF m P g t next e = uAndF m P g t next e' := uAndF_congr_env m P g t next e e' h

/-- permuting the declaration order of the **functions** does not change the value of any model function (names are
dict keys, hence distinct): utility, constraints, filters, transitions and auxiliary functions evaluate alike -/
theorem C10_function_order_irrelevant (m : Model) (fs' : List Func) (hp : m.functions.Perm fs')
    (hnd : (m.functions.map (·.name)).Nodup) (P : Params) (fuel : Nat) (e : Env) (fname : Name) :
    callF m P fuel e fname = callF { m with functions := fs' } P fuel e fname :=
  callF_perm_functions m fs' hp hnd P fuel e fname

/-- permuting the declaration order of the **variables** permutes the (name, value) lists that environments are
built from; with distinct names no lookup changes -/
theorem C10_variable_order_irrelevant (a b : List (Name × Rat)) (hp : a.Perm b) (hnd : (a.map (·.1)).Nodup) :
    EnvEq (toEnv a) (toEnv b) := envEq_of_perm a b hp hnd

/-- the combined filter / constraint is a conjunction: the order of the functions in the dict is irrelevant
(stated for two restrictions; `allTrue` folds `&&` over the list) -/
theorem C10_conjunction_order (a b : Bool) : (true && a && b) = (true && b && a) := by
  cases a <;> cases b <;> rfl

-- non-vacuity
example : bellmanStep [0, 1, 2] (fun x => x != 1) (fun x => (x : Rat)) (fun _ => 0) 1
    = bellmanStep [2, 0, 1] (fun x => x != 1) (fun x => (x : Rat)) (fun _ => 0) 1 := by decide +kernel

end Lcm
