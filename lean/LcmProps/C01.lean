import LcmProofs.SolveFull
import LcmProps.Examples
namespace Lcm

/-! # C01 — `solve()` returns the exact backward-induction (Bellman) solution on the grid

Model: `Lcm.solve` (`LcmModel/Solve.lean`), the executable, implementation-shaped model that the
driver runs against `get_lcm_function(model, "solve")` (op `solve`). The period objective is the model's
`uAndF` (`utility + beta * Σ_nodes (Π weights) * V̂(next state)`, `V̂` = `vhat`: exact lookup in discrete
states through the feasible-rank of period `t+1`, multilinear inter/extrapolation in continuous states;
no continuation in the last period) together with the combined constraint.

Statement of the property at full strength = `C01_entry_isMax_restricted` + `C01_entry_isMax_unrestricted`
(the two layouts of the value array) for the arrays `C01_backward_recursion` describes. JIT does not exist
in the model: "independent of JIT" is a correspondence obligation (both settings are run), not a theorem. -/

/-- one value array per period -/
theorem C01_length (m : Model) (P : Params) : (solve m P true).length = m.nPeriods :=
  solve_length m P true

/-- period `t` is computed from the array of period `t+1`; the last period has no continuation -/
theorem C01_backward_recursion (m : Model) (P : Params) (t : Nat) (ht : t < m.nPeriods) :
    (solve m P true).getD t default
      = solvePeriod m P (groups m) t (mkSpace m P (groups m) t) (nextOf m P (solve m P true) t) :=
  solve_getD m P t ht

theorem C01_no_continuation_in_last_period (m : Model) (P : Params) (V : List (Tensor Ext)) :
    nextOf m P V (m.nPeriods - 1) = none := by
  unfold nextOf
  split
  · omega
  · rfl

/-- **Bellman value, models with filter-restricted variables**: the entry for the `k`-th feasible
restricted-state combination, unrestricted discrete state `dIdx` and continuous node `xIdx` is the maximum
of the objective over all grid choice combinations that pass every filter and every constraint. -/
theorem C01_entry_isMax_restricted (m : Model) (P : Params) (t : Nat) (ht : t < m.nPeriods)
    (hsparse : (!((groups m).sS.isEmpty && (groups m).sC.isEmpty)) = true)
    (k : Nat) (hk : k < (feasOf m P t).length) (dIdx xIdx : List Nat)
    (hd : InBounds (sizes (groups m).dS) dIdx) (hx : InBounds (sizes (cStateGrids (groups m))) xIdx) :
    let g := groups m
    let next := nextOf m P (solve m P true) t
    IsMaxOver
      (fun x : List (Name × Rat) × (List (Name × Rat) × List (Name × Rat)) =>
        (x.1 ∈ assignments g.sC ∧ spaceFilt m P t ((feasOf m P t)[k]) x.1 = true) ∧
          (x.2.1 ∈ assignments g.dC ∧ (x.2.2 ∈ assignments g.cC ∧
            feasibleOf (objAt m P g t next ((feasOf m P t)[k]) dIdx xIdx x.1 x.2.1 x.2.2) = true)))
      (fun x => valueOf (objAt m P g t next ((feasOf m P t)[k]) dIdx xIdx x.1 x.2.1 x.2.2))
      (((solve m P true).getD t default).get (k :: (dIdx ++ xIdx))) :=
  solve_entry_isMax_restricted m P t ht hsparse k hk dIdx xIdx hd hx

/-- **Bellman value, models without filter-restricted variables.** -/
theorem C01_entry_isMax_unrestricted (m : Model) (P : Params) (t : Nat) (ht : t < m.nPeriods)
    (hdense : (!((groups m).sS.isEmpty && (groups m).sC.isEmpty)) = false)
    (dIdx xIdx : List Nat)
    (hd : InBounds (sizes (groups m).dS) dIdx) (hx : InBounds (sizes (cStateGrids (groups m))) xIdx) :
    let g := groups m
    let next := nextOf m P (solve m P true) t
    IsMaxOver
      (fun x : List (Name × Rat) × List (Name × Rat) =>
        x.1 ∈ assignments g.dC ∧ (x.2 ∈ assignments g.cC ∧
          feasibleOf (objAtDense m P g t next dIdx xIdx x.1 x.2) = true))
      (fun x => valueOf (objAtDense m P g t next dIdx xIdx x.1 x.2))
      (((solve m P true).getD t default).get (dIdx ++ xIdx)) :=
  solve_entry_isMax_unrestricted m P t ht hdense dIdx xIdx hd hx

/-- a state without any feasible choice has value −inf, and only such a state -/
theorem C01_ninf_iff_no_feasible_choice {X : Type} {P : X → Prop} {f : X → Rat} {v : Ext}
    (h : IsMaxOver P f v) : v = .ninf ↔ ∀ x, ¬ P x :=
  h.eq_ninf_iff

/-- an infeasible choice never determines a value: a finite value is the objective at a feasible choice -/
theorem C01_attained_at_feasible_choice {X : Type} {P : X → Prop} {f : X → Rat} {v : Ext}
    (h : IsMaxOver P f v) (hne : v ≠ .ninf) : ∃ x, P x ∧ v = .fin (f x) :=
  h.attained hne

/-- the Bellman value is unique: two arrays satisfying the specification agree entry-wise -/
theorem C01_value_unique {X : Type} {P : X → Prop} {f : X → Rat} {v w : Ext}
    (hv : IsMaxOver P f v) (hw : IsMaxOver P f w) : v = w :=
  hv.unique hw

/-- in the last period the objective is the utility alone -/
theorem C01_last_period_objective (m : Model) (P : Params) (g : Groups) (t : Nat) (env0 : Env) :
    uAndF m P g t none env0 = (do
      let f ← allTrue m P (env0 ++ periodEnv t) (((functionInfo m).filter (·.isConstraint)).map (·.name))
      let u ← (callF m P m.fuel (env0 ++ periodEnv t) "utility").map Val.toRat
      pure (u, f)) := by
  simp [uAndF]

-- non-vacuity: the hypotheses are met by concrete specifications, and the numbers are the Bellman values
-- (`#guard` = compiled evaluation; the kernel cannot reduce the `String` functions used by the name plumbing)
#guard 0 < Ex.f1Model.nPeriods ∧ (!((groups Ex.f1Model).sS.isEmpty && (groups Ex.f1Model).sC.isEmpty)) = true
#guard (!((groups Ex.consModel).sS.isEmpty && (groups Ex.consModel).sC.isEmpty)) = false
#guard (feasOf Ex.f1Model Ex.f1Params 1).length = 2 ∧ (feasOf Ex.f1Model Ex.f1Params 0).length = 3

end Lcm
