import LcmProofs.SimPanel
import LcmProofs.Targets
import LcmProps.Examples
namespace Lcm

/-! # C13 — the simulation result is a complete, correctly indexed panel

Model: `simulate` returns one list of records per period; `panel` (`_process_simulated_data`) concatenates
them period-major; `MultiIndex.from_product([range(T), range(n)])` enumerates (t, i) in the same order, so
row `t * n + i` carries the index (t, i). Additional targets (`_compute_targets`) are `targetColumns`: one column per
requested name, every cell the by-name evaluation `evalAt` (= `callF`; driver op `eval_funcs`) of that model function at the
row's states, choices, `_period` and the parameters. -/

/-- exactly `n_periods * n_agents` rows -/
theorem C13_rows (m : Model) (P : Params) (V : List (Tensor Ext)) (init : List (List (Name × Rat)))
    (draws : Draws) : (panel (simulate m P V init draws true)).length = m.nPeriods * init.length :=
  panel_length m P V init draws

/-- one list of records per period, one record per agent in every period -/
theorem C13_periods (m : Model) (P : Params) (V : List (Tensor Ext)) (init : List (List (Name × Rat)))
    (draws : Draws) : (simulate m P V init draws true).length = m.nPeriods :=
  simulate_length m P V init draws

theorem C13_agents_per_period (m : Model) (P : Params) (V : List (Tensor Ext))
    (init : List (List (Name × Rat))) (draws : Draws) (t : Nat) (ht : t < m.nPeriods) :
    ((simulate m P V init draws true).getD t []).length = init.length :=
  simulate_period_length m P V init draws t ht

/-- **period-major index**: row `t * n + i` of the panel is the record of agent `i` in period `t` -/
theorem C13_row_index (m : Model) (P : Params) (V : List (Tensor Ext)) (init : List (List (Name × Rat)))
    (draws : Draws) (t i : Nat) (ht : t < m.nPeriods) (hi : i < init.length) :
    (panel (simulate m P V init draws true))[t * init.length + i]?
      = ((simulate m P V init draws true).getD t [])[i]? :=
  panel_row m P V init draws t i ht hi

/-- the index (t, i) is recovered from the row number: `_period = row / n`, `initial_state_id = row % n` -/
theorem C13_index_of_row (n t i : Nat) (hi : i < n) : (t * n + i) / n = t ∧ (t * n + i) % n = i := by
  have hn : 0 < n := by omega
  constructor
  · rw [Nat.mul_comm, Nat.mul_add_div hn, Nat.div_eq_of_lt hi, Nat.add_zero]
  · rw [Nat.mul_comm, Nat.mul_add_mod, Nat.mod_eq_of_lt hi]

/-- row (t, i) describes agent `i` in period `t`: its record is that agent's decision at its own state -/
theorem C13_row_content (m : Model) (P : Params) (V : List (Tensor Ext))
    (init : List (List (Name × Rat))) (draws : Draws) (t i : Nat) (ht : t < m.nPeriods) (hi : i < init.length) :
    ((simulate m P V init draws true).getD t []).getD i default
      = agentDecision m P (groups m) t (simNext m P V t) (statesAt m P V init draws t) i := by
  rw [simulate_getD m P V init draws t ht]
  exact periodOut_record_getD m P V draws t _ i (by rw [statesAt_length]; exact hi)

/-! ## additional targets -/

/-- a target column has exactly `n_periods * n_agents` entries -/
theorem C13_target_rows (m : Model) (P : Params) (V : List (Tensor Ext)) (init : List (List (Name × Rat)))
    (draws : Draws) (name : Name) :
    (targetColumn m P (simulate m P V init draws true) name).length = m.nPeriods * init.length :=
  targetColumn_length m P V init draws name

/-- **entry (t, i) of a target column is that model function evaluated at the row's states, choices, period and the
parameters** (function arguments that are themselves model functions are computed from the same row) -/
theorem C13_target_cell (m : Model) (P : Params) (V : List (Tensor Ext)) (init : List (List (Name × Rat)))
    (draws : Draws) (name : Name) (t i : Nat) (ht : t < m.nPeriods) (hi : i < init.length) :
    (targetColumn m P (simulate m P V init draws true) name)[t * init.length + i]?
      = (((simulate m P V init draws true).getD t [])[i]?).map fun r =>
          callF m P m.fuel (toEnv (r.states ++ r.choices) ++ periodEnv t) name :=
  targetColumn_row m P V init draws name t i ht hi

/-- the column of a target depends neither on which other targets are requested nor on their order -/
theorem C13_target_set_irrelevant (m : Model) (P : Params) (results : List (List Record)) (names names' : List Name)
    (n : Name) (hn : n ∈ names) (hn' : n ∈ names') :
    ((targetColumns m P results names).find? (·.1 == n)).map (·.2)
      = ((targetColumns m P results names').find? (·.1 == n)).map (·.2) := by
  rw [targetColumns_lookup m P results names n hn, targetColumns_lookup m P results names' n hn']

/-- the variables of the row are read by name: their order (the column order of the frame) is irrelevant -/
theorem C13_target_reads_row_by_name (m : Model) (P : Params) (row row' : List (Name × Rat)) (hp : row.Perm row')
    (hnd : (row.map (·.1)).Nodup) (t : Nat) (name : Name) : evalAt m P row t name = evalAt m P row' t name :=
  evalAt_perm m P row row' hp hnd t name

/-- **constraint targets**: in every row whose value is not `-inf`, every constraint requested as a target evaluates
to true - the reported choices are feasible, and the target column says so (hypothesis: the names of the agent's
states and of the choices are pairwise distinct) -/
theorem C13_constraint_targets_hold (m : Model) (P : Params) (t : Nat)
    (next : Option (Tensor Ext × List (List (Name × Rat)))) (states : List (List (Name × Rat)))
    (i : Nat) (hi : i < states.length)
    (hst : ((states.getD i []).map (·.1) ++ m.choices.map (·.1)).Nodup)
    (hfin : (agentDecision m P (groups m) t next states i).value ≠ .ninf)
    (n : Name) (hn : n ∈ constraintNames m) :
    ∃ v, targetCell m P t (agentDecision m P (groups m) t next states i) n = some v ∧ v.toBool = true := by
  obtain ⟨q, _, hq⟩ := agentDecision_obj_at_row m P t next states i hi hst hfin
  have := uAndF_true_constraints m P (groups m) t next _ q hq
  exact allTrue_true_all m P _ _ this n hn

/-- **the `utility` target of the last period is the value column**: with no continuation, the value of a row is the
utility evaluated at the row -/
theorem C13_last_period_utility_target_is_value (m : Model) (P : Params) (t : Nat)
    (states : List (List (Name × Rat))) (i : Nat) (hi : i < states.length)
    (hst : ((states.getD i []).map (·.1) ++ m.choices.map (·.1)).Nodup)
    (hfin : (agentDecision m P (groups m) t none states i).value ≠ .ninf) :
    ∃ q : Rat, (agentDecision m P (groups m) t none states i).value = .fin q ∧
      (targetCell m P t (agentDecision m P (groups m) t none states i) "utility").map Val.toRat = some q := by
  obtain ⟨q, hv, hq⟩ := agentDecision_obj_at_row m P t none states i hi hst hfin
  exact ⟨q, hv, uAndF_none_utility m P (groups m) t _ q true hq⟩

/-- **a deterministic-transition target is the state column one period later**: state `x` of agent `i` in period
`t+1` is the target `next_x` of row (t, i) (hypothesis: the transition functions feed pairwise distinct states) -/
theorem C13_transition_target_is_next_state (m : Model) (P : Params) (V : List (Tensor Ext))
    (init : List (List (Name × Rat))) (draws : Draws) (t i : Nat) (hi : i < init.length)
    (nf : FunctionInfo) (hnf : nf ∈ (functionInfo m).filter (·.isNext)) (hdet : nf.isStochasticNext = false)
    (hnd : (((functionInfo m).filter (·.isNext)).map fun nf => stripNext nf.name).Nodup)
    (hx : stripNext nf.name ∈ m.states.map (·.1)) :
    (((statesAt m P V init draws (t + 1)).getD i []).find? (·.1 == stripNext nf.name)).map (·.2)
      = some (((targetCell m P t ((periodOut m P V draws t (statesAt m P V init draws t)).1.getD i default)
          nf.name).map Val.toRat).getD 0) :=
  next_state_is_transition_target m P V init draws t i hi nf hnf hdet hnd hx

-- non-vacuity / pinned numbers: the consumption example, two agents, all three kinds of target
private def exSim := simulate Ex.consModel Ex.consParams (solve Ex.consModel Ex.consParams) [[("w", 2)], [("w", 1)]] (fun _ _ _ _ => 0)
#guard (exSim.map fun recs => recs.map fun r => (r.value, r.states, r.choices))
  == [[(.fin (55/16), [("w", 2)], [("d", 1), ("c", 1)]), (.fin (39/16), [("w", 1)], [("d", 1), ("c", 1)])],
      [(.fin (19/8), [("w", 1)], [("d", 1), ("c", 1)]), (.fin (3/8), [("w", 0)], [("d", 1), ("c", 0)])],
      [(.fin (1/4), [("w", 0)], [("d", 1), ("c", 0)]), (.fin (1/4), [("w", 0)], [("d", 1), ("c", 0)])]]
#guard targetColumn Ex.consModel Ex.consParams exSim "budget_constraint" == List.replicate 6 (some (.bool true))
#guard (targetColumn Ex.consModel Ex.consParams exSim "utility").drop 4 == [some (.num (1/4)), some (.num (1/4))]
#guard targetColumn Ex.consModel Ex.consParams exSim "next_w"
  == [some (.num 1), some (.num 0), some (.num 0), some (.num 0), some (.num 0), some (.num 0)]
example : ((([("w", (2 : Rat))] : List (Name × Rat)).map (·.1)) ++ Ex.consModel.choices.map (·.1)).Nodup := by decide

end Lcm
