import LcmProofs.Lse
namespace Lcm
open Real Finset

/-! # C20 — extreme-value aggregation of choice values is an exact, stable log-sum-exp

Model over ℝ (`LcmProofs/Lse.lean`): `lse s v = s·log Σ exp(v_i/s)` is the mathematical aggregation;
`lseStable s v m = m + s·log Σ exp((v_i − m)/s)` is what `_segment_logsumexp` / `jax.scipy.special.logsumexp`
compute after the division by the scale (max `m`, subtract, `exp`, sum, `log`, add). `v` ranges over the
choices of one state - whether they are laid out along array axes or as the rows of one segment is invisible
at this level (the choices of a state are an index set `Fin n`). The driver runs the same definitions over
`Float` (`emaxExtremeValueF`); `Float` is opaque to the kernel, IEEE overflow is outside the model. -/

variable {n : ℕ}

/-- the stable form equals `s·log Σ exp(v/s)` (for any shift `m`, in particular the maximum) -/
theorem C20_eq_lse (s : ℝ) (hs : 0 < s) (v : Fin n → ℝ) (m : ℝ) (hn : 0 < n) :
    lseStable s v m = lse s v := lseStable_eq_lse s hs v m hn

/-- axes layout = segment layout: the result depends on the choices of the state only as a family, not on
their arrangement (any re-indexing `e` of the choices gives the same value) -/
theorem C20_layout_irrelevant (s : ℝ) (v : Fin n → ℝ) (e : Fin n ≃ Fin n) :
    lse s (v ∘ e) = lse s v := by
  unfold lse
  congr 2
  exact Equiv.sum_comp e (fun i => exp (v i / s))

/-- `max ≤ result ≤ max + s·log(number of choices)` -/
theorem C20_bounds (s : ℝ) (hs : 0 < s) (v : Fin n → ℝ) (m : ℝ) (hn : 0 < n)
    (hmax : ∀ i, v i ≤ m) (hatt : ∃ i, v i = m) :
    m ≤ lse s v ∧ lse s v ≤ m + s * log n := by
  rw [← lseStable_eq_lse s hs v m hn]
  exact lseStable_bounds s hs v m hmax hatt

/-- adding `c` to all values shifts the result by `c` -/
theorem C20_shift (s : ℝ) (hs : 0 < s) (v : Fin n → ℝ) (c : ℝ) (hn : 0 < n) :
    lse s (fun i => v i + c) = lse s v + c := lse_shift s hs v c hn

open Filter Topology in
/-- the result approaches the maximum as the scale goes to zero -/
theorem C20_limit (v : Fin n → ℝ) (m : ℝ) (hn : 0 < n) (hmax : ∀ i, v i ≤ m) (hatt : ∃ i, v i = m) :
    Tendsto (fun s => lse s v) (𝓝[>] 0) (𝓝 m) := lse_tendsto_max v m hn hmax hatt

/-- why the stable form cannot overflow (partial: the arithmetic reason, not IEEE semantics): with `m` the
maximum every exponent is ≤ 0, every term lies in (0, 1] and the sum in [1, n] -/
theorem C20_no_overflow_partial (s : ℝ) (hs : 0 < s) (v : Fin n → ℝ) (m : ℝ)
    (hmax : ∀ i, v i ≤ m) (hatt : ∃ i, v i = m) :
    (∀ i, (v i - m) / s ≤ 0 ∧ 0 < exp ((v i - m) / s) ∧ exp ((v i - m) / s) ≤ 1) ∧
      1 ≤ ∑ i : Fin n, exp ((v i - m) / s) ∧ ∑ i : Fin n, exp ((v i - m) / s) ≤ n := by
  have hle : ∀ i, (v i - m) / s ≤ 0 := fun i =>
    div_nonpos_of_nonpos_of_nonneg (by linarith [hmax i]) hs.le
  have hterm : ∀ i, exp ((v i - m) / s) ≤ 1 := fun i => exp_le_one_iff.mpr (hle i)
  refine ⟨fun i => ⟨hle i, exp_pos _, hterm i⟩, ?_, ?_⟩
  · obtain ⟨i0, hi0⟩ := hatt
    have h1 : exp ((v i0 - m) / s) = 1 := by simp [hi0]
    calc (1 : ℝ) = exp ((v i0 - m) / s) := h1.symm
      _ ≤ ∑ i : Fin n, exp ((v i - m) / s) :=
        Finset.single_le_sum (f := fun i => exp ((v i - m) / s)) (fun i _ => (exp_pos _).le) (Finset.mem_univ i0)
  · calc ∑ i : Fin n, exp ((v i - m) / s) ≤ ∑ _i : Fin n, (1 : ℝ) := Finset.sum_le_sum (fun i _ => hterm i)
      _ = n := by simp

-- non-vacuity: two choices with values 1 and 3 at scale 2
example : ∃ v : Fin 2 → ℝ, (∀ i, v i ≤ 3) ∧ ∃ i, v i = 3 := ⟨![1, 3], by intro i; fin_cases i <;> simp, 1, by simp⟩

end Lcm
