import LcmModel.Dispatch
namespace Lcm
variable {α : Type} [Inhabited α]

theorem baseProductmap_cons (f : List (Tensor α) → Tensor α) (p : Nat) (ps : List Nat) :
    baseProductmap f (p :: ps) = vmapAt (baseProductmap f ps) p := by
  simp [baseProductmap, List.foldl_append]

/-- C19 core: entry (i₁,…,i_k, rest) of the product map is `f` applied to the i_j-th slices,
axes in the order in which the positions were listed. -/
theorem baseProductmap_get (f : List (Tensor α) → Tensor α) (ps is : List Nat)
    (hlen : is.length = ps.length) (args : List (Tensor α)) (rest : List Nat) :
    (baseProductmap f ps args).get (is ++ rest) = (f (setSlices args ps is)).get rest := by
  induction ps generalizing is args with
  | nil =>
    cases is with
    | nil => simp [baseProductmap, setSlices]
    | cons _ _ => simp at hlen
  | cons p ps ih =>
    cases is with
    | nil => simp at hlen
    | cons i is =>
      rw [baseProductmap_cons]
      simp only [vmapAt, List.cons_append, setSlices]
      exact ih is (by simpa using hlen) _

#print axioms baseProductmap_get
end Lcm
