"""Finding 1 (C13): additional targets that use `_period` are evaluated with `_period` as a
traced int64 JAX array, while solve and the decision step of simulate evaluate the very
same model functions with `_period` as a Python int.

(A) silent wrong column: halving(_period) = 2 ** -_period
(B) crash: experience(_period) = min(_period, 2)

Run: LCM_WT=/tmp/hunt_C13 /venv/bin/python finding_1.py   (exit code 1 while the defect is present)
"""
import os as _os
exec(open(_os.path.join(_os.path.dirname(_os.path.abspath(__file__)), "..", "seeded", "shim_for_demos.py")).read())
import sys
from dataclasses import make_dataclass

import jax.numpy as jnp
import numpy as np

from lcm import DiscreteGrid, LinspaceGrid, Model
from lcm.entry_point import get_lcm_function

Work = make_dataclass("Work", [("no", int, 0), ("yes", int, 1)])


def make_model(aux_name, aux_func):
    # utility with an explicit signature that contains the auxiliary function's name
    src = (
        f"def utility(consumption, work, wealth, {aux_name}):\n"
        f"    return jnp.log(consumption) - 0.4 * work * {aux_name} + 0.0 * wealth\n"
    )
    ns = {"jnp": jnp}
    exec(src, ns)

    def next_wealth(wealth, consumption, work):
        return 1.02 * (wealth - consumption) + 5.0 * work

    def consumption_constraint(consumption, wealth):
        return consumption <= wealth

    model = Model(
        n_periods=4,
        functions={
            "utility": ns["utility"],
            aux_name: aux_func,
            "next_wealth": next_wealth,
            "consumption_constraint": consumption_constraint,
        },
        choices={
            "consumption": LinspaceGrid(start=1, stop=60, n_points=30),
            "work": DiscreteGrid(Work),
        },
        states={"wealth": LinspaceGrid(start=1, stop=100, n_points=25)},
    )
    params = {
        "beta": 0.93,
        "utility": {},
        aux_name: {},
        "next_wealth": {},
        "consumption_constraint": {},
    }
    return model, params


initial_states = {"wealth": jnp.array([10.0, 50.0, 90.0])}
defect = False

# --------------------------------------------------------------------------------------
# (A) silent wrong result
# --------------------------------------------------------------------------------------
def halving(_period):
    return 2 ** -_period  # 1, 0.5, 0.25, 0.125 for the Python ints 0, 1, 2, 3


model, params = make_model("halving", halving)
sim, _ = get_lcm_function(model, targets="solve_and_simulate", debug_mode=False)
df = sim(params, initial_states=initial_states, additional_targets=["halving", "utility"])

periods = df.index.get_level_values("period").to_numpy()
expected_halving = np.array([halving(int(t)) for t in periods])
expected_utility = (
    np.log(df["consumption"].to_numpy())
    - 0.4 * df["work"].to_numpy() * expected_halving
)
print("(A) model: utility = log(c) - 0.4 * work * halving,  halving(_period) = 2 ** -_period")
print("    input: n_periods=4, initial wealth [10, 50, 90], additional_targets=['halving', 'utility']")
print(df[["_period", "work", "consumption", "halving", "utility"]].to_string())
bad_h = ~np.isclose(df["halving"].to_numpy().astype(float), expected_halving)
bad_u = ~np.isclose(df["utility"].to_numpy(), expected_utility)
if bad_h.any() or bad_u.any():
    defect = True
    print(f"    DEFECT: {bad_h.sum()} of {len(df)} entries of column 'halving' are wrong")
    print(f"            observed {df['halving'].to_numpy()[bad_h][:4]} ..., expected {expected_halving[bad_h][:4]} ...")
    print(f"            {bad_u.sum()} of {len(df)} entries of column 'utility' are wrong")
    print(f"            observed {df['utility'].to_numpy()[bad_u][:3]} ..., expected {expected_utility[bad_u][:3]} ...")
    # the solution itself used the right numbers: in the last period value == utility
    last = df.loc[3]
    exp_last = expected_utility[periods == 3]
    print("    (the value column of the last period equals the expected utility, i.e. solve and "
          f"simulate used 2 ** -3 = 0.125: {np.allclose(last['value'].to_numpy(), exp_last)})")
else:
    print("    ok")

# --------------------------------------------------------------------------------------
# (B) crash only when requested as additional target
# --------------------------------------------------------------------------------------
def experience(_period):
    return min(_period, 2)


model, params = make_model("experience", experience)
sim, _ = get_lcm_function(model, targets="solve_and_simulate", debug_mode=False)
df = sim(params, initial_states=initial_states)  # works
print("\n(B) model: experience(_period) = min(_period, 2); solve_and_simulate without targets works:",
      df.shape)
try:
    df = sim(params, initial_states=initial_states, additional_targets=["experience"])
    exp = np.minimum(df.index.get_level_values("period").to_numpy(), 2)
    assert np.array_equal(df["experience"].to_numpy(), exp)
    print("    ok with additional_targets=['experience']")
except Exception as e:  # noqa: BLE001
    defect = True
    print("    DEFECT: additional_targets=['experience'] raises", type(e).__name__ + ":",
          str(e).splitlines()[0])
    print("    expected: column 'experience' = [0,0,0,1,1,1,2,2,2,2,2,2]")

sys.exit(1 if defect else 0)
