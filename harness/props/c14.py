"""C14 - pre-computed values on a grid are represented as a faithful function.

Tie: `get_function_representation(space_info, 'vf_arr', input_prefix='next_')` called directly with generated
`SpaceInfo` objects (0-2 restricted states with random feasibility masks incl. -1 entries, 0-2 unrestricted
discrete states, 0-3 continuous states on linear or log grids), random dyadic arrays and points on nodes, in
cells and outside the range, against the Lean model `functionRepresentation` (exact; log grids: tolerance,
the model gets the implementation's materialised nodes as a tabulated grid).
Oracle (property clauses evaluated on the implementation alone): stored value reproduced at every grid node;
affine along each continuous variable between neighbouring nodes (midpoint test); linear continuation of the
outermost segment outside a linear grid; interpolation axes not last => ValueError.
"""
from __future__ import annotations

import itertools
import random
from dataclasses import field, make_dataclass
from fractions import Fraction as Fr

from common import driver, fr, impl, impl_site, same_number

RULE = ("cases = generated SpaceInfo objects (restricted states with random feasibility masks, unrestricted discrete states, 0-3 continuous "
        "states, linear/log grids) x random dyadic arrays x evaluation points (nodes, in-cell, outside); distinct = (numbers of restricted, "
        "unrestricted, continuous axes, grid kinds and sizes); evaluations = function evaluations compared")
ASSUMPTIONS = ["log grids: relative tolerance 1e-9 and evaluation points inside the range", "JAX's wrap-around for negative indices (infeasible combinations) is outside the property and not evaluated"]


def cases(seed, tier):
    n = 120 if tier == "quick" else 2000
    return [{"seed": seed * 1_000_003 + 14001 + i, "log": i % 4 == 3, "bad_axes": i % 15 == 14} for i in range(n)]


def DG(n):
    from lcm import DiscreteGrid

    return DiscreteGrid(make_dataclass("Cat", [(f"c{i}", int, field(default=i)) for i in range(n)]))


def run_case(case):
    I = impl()
    jnp, np = I.jnp, I.np
    from lcm import LinspaceGrid, LogspaceGrid
    from lcm.function_representation import get_function_representation
    from lcm.interfaces import IndexerInfo, SpaceInfo

    r = random.Random(case["seed"])
    use_log = case.get("log", False)
    n_sp, n_dd, n_c = r.randint(0, 2), r.randint(0, 2), r.randint(0, 3)
    if case.get("bad_axes"):
        n_c = max(n_c, 1)
        n_dd = max(n_dd, 1)
    names = ["wa", "hb", "xc", "yd", "ze", "kf", "lg"]
    r.shuffle(names)
    sp = [(names.pop(), r.randint(2, 4)) for _ in range(n_sp)]
    dd = [(names.pop(), r.randint(2, 4)) for _ in range(n_dd)]
    cs = []
    for _ in range(n_c):
        n = r.choice([2, 3, 5])
        if use_log and r.random() < 0.7:
            a = r.choice([0.5, 1.0, 2.0, 0.1])
            b = a * r.choice([3.0, 10.0, 50.0])
            cs.append((names.pop(), "log", a, b, n))
        else:
            step = r.choice([Fr(1, 2), Fr(1), Fr(2)])
            a = Fr(r.randint(-2, 2)) if r.random() < 0.5 else Fr(r.randint(1, 3))
            cs.append((names.pop(), "lin", a, a + step * (n - 1), n))
    exact = all(c[1] == "lin" for c in cs)
    tol = None if exact else 1e-9
    lookup = {k: DG(n) for k, n in sp + dd}
    interp_info = {}
    for k, kind, a, b, n in cs:
        interp_info[k] = LinspaceGrid(start=float(a), stop=float(b), n_points=n) if kind == "lin" else LogspaceGrid(start=a, stop=b, n_points=n)
    axis_names = (["state_index"] if sp else []) + [k for k, _ in dd] + [c[0] for c in cs]
    if case.get("bad_axes"):
        # put a continuous axis in front of a discrete one
        axis_names = (["state_index"] if sp else []) + [cs[0][0]] + [k for k, _ in dd] + [c[0] for c in cs[1:]]
    idx_infos = [IndexerInfo(axis_names=[k for k, _ in sp], name="state_indexer", out_name="state_index")] if sp else []
    if len(interp_info) > 1 and r.random() < 0.5:
        # the interpolation info is a mapping name -> grid: its insertion order need not be the order of the axes
        ks_ = list(interp_info)
        r.shuffle(ks_)
        interp_info = {k_: interp_info[k_] for k_ in ks_}
    si = SpaceInfo(axis_names=axis_names, lookup_info=lookup, interpolation_info=interp_info, indexer_infos=idx_infos)
    sig = f"sp={[n for _, n in sp]} dd={[n for _, n in dd]} cs={[(c[1], c[4]) for c in cs]} bad={bool(case.get('bad_axes'))}"
    out = {"sig": sig, "nontrivial": True, "evals": 0, "violations": [], "corr_breaks": [], "hist": {f"n_cont={n_c}": 1, f"n_restricted={n_sp}": 1, f"n_unrestricted={n_dd}": 1, f"log={not exact}": 1}}
    # model-side description
    def gjson(c):
        k, kind, a, b, n = c
        if kind == "lin":
            return {"k": "lin", "a": fr(a), "b": fr(b), "n": n}
        nodes = np.asarray(interp_info[k].to_jax())
        return {"k": "tab", "nodes": [fr(float(x)) for x in nodes]}
    sij = {"axis_names": axis_names, "lookup": list(lookup), "interp": [[c[0], gjson(c)] for c in cs],
           "indexers": [{"axis_names": [k for k, _ in sp], "name": "state_indexer", "out_name": "state_index"}] if sp else []}
    try:
        f = get_function_representation(si, "vf_arr", input_prefix="next_")
        built = "ok"
    except ValueError:
        built = "ValueError"
    except Exception as e:  # noqa: BLE001
        built = f"Internal:{impl_site(e)}"
    if case.get("bad_axes"):
        out["evals"] = 1
        if built != "ValueError":
            out["violations"].append({"clause": "interpolation axes not last => ValueError", "detail": f"axis_names {axis_names}: {built}", "key": "C14:axes"})
        out["sample"] = {"axis_names": axis_names, "outcome": built}
        return out
    if built != "ok":
        out["violations"].append({"clause": "the function is built for a well-formed space", "detail": f"{built}", "key": "C14:build"})
        return out
    # indexer with random feasibility
    arrays = {}
    nfe = None
    if sp:
        shape = tuple(n for _, n in sp)
        mask = np.array([r.random() < 0.7 for _ in range(int(np.prod(shape)))]).reshape(shape)
        if not mask.any():
            mask.flat[r.randrange(mask.size)] = True
        indexer = np.full(shape, -1)
        indexer[mask] = np.arange(mask.sum())
        nfe = int(mask.sum())
        arrays["state_indexer"] = {"shape": list(shape), "data": [int(x) for x in indexer.ravel()]}
    vshape = ([nfe] if sp else []) + [n for _, n in dd] + [c[4] for c in cs]
    size = int(np.prod(vshape)) if vshape else 1
    varr = np.array([r.randint(-16, 16) / 4 for _ in range(size)], dtype=float).reshape(vshape)
    Vj = {"shape": vshape, "data": [fr(float(x)) for x in varr.ravel()]}
    pts, kinds = [], []
    for _ in range(8):
        pt = {}
        if sp:
            feas = list(zip(*np.nonzero(mask)))
            lab = r.choice(feas)
            for (k, _), v in zip(sp, lab):
                pt[k] = Fr(int(v))
        for k, n in dd:
            pt[k] = Fr(r.randint(0, n - 1))
        # "outside" moves the *linear* axes out of their range; log axes stay inside theirs (C14's quantifier)
        kind = r.choice(["node", "cell", "outside"]) if (exact or any(c[1] == "lin" for c in cs)) else r.choice(["node", "cell"])
        for k, gk, a, b, n in cs:
            if gk == "lin":
                if kind == "node":
                    pt[k] = a + (b - a) / (n - 1) * r.randint(0, n - 1)
                elif kind == "cell":
                    pt[k] = a + (b - a) * Fr(r.randint(0, 16), 16)
                else:
                    pt[k] = a + (b - a) * r.choice([Fr(-1, 2), Fr(-1, 8), Fr(9, 8), Fr(2)])
            else:
                nodes = np.asarray(interp_info[k].to_jax())
                pt[k] = Fr(float(nodes[r.randint(0, n - 1)])) if kind == "node" else Fr(r.uniform(a, b))
        pts.append(pt)
        kinds.append(kind)

    def call(pt):
        kw = {"vf_arr": jnp.asarray(varr)}
        if sp:
            kw["state_indexer"] = jnp.asarray(indexer)
        for k, _ in sp + dd:
            kw[f"next_{k}"] = int(pt[k])
        for c in cs:
            kw[f"next_{c[0]}"] = float(pt[c[0]])
        return float(f(**kw))

    ans = driver().call({"op": "function_representation", "space_info": sij, "prefix": "next_", "arrays": arrays, "V": Vj,
                         "points": [[[f"next_{k}", fr(v)] for k, v in pt.items()] for pt in pts]})
    for pt, kind, a in zip(pts, kinds, ans):
        try:
            got = call(pt)
        except Exception as e:  # noqa: BLE001
            out["violations"].append({"clause": "the function evaluates at a feasible point", "detail": f"{impl_site(e)}: {str(e)[:200]}", "key": "C14:eval"})
            break
        out["evals"] += 1
        out["hist"][f"point={kind}"] = out["hist"].get(f"point={kind}", 0) + 1
        if a in ("undefined", "ValueError"):
            continue
        if not same_number(got, a, tol):
            out["violations"].append({"clause": "value = stored entry selected by the labels (through the indexer), multilinearly interpolated", "detail": f"{sig} point { {k: str(v) for k, v in pt.items()} } ({kind}): implementation {fr(got)}, model {a}", "key": "C14:value"})
            break
        # property clauses on the implementation alone
        if kind in ("node", "cell"):
            # C14_no_overshoot_inside_grid: inside the grid the value stays within the range of the selected stored values
            sel = []
            if sp:
                sel.append(int(indexer[tuple(int(pt[k]) for k, _ in sp)]))
            sel += [int(pt[k]) for k, _ in dd]
            sub = np.asarray(varr)[tuple(sel)] if sel else np.asarray(varr)
            lo_v, hi_v = float(np.min(sub)), float(np.max(sub))
            slack = 1e-9 * max(1.0, abs(lo_v), abs(hi_v))
            out["hist"]["no_overshoot_checked"] = out["hist"].get("no_overshoot_checked", 0) + 1
            if not (lo_v - slack <= got <= hi_v + slack):
                out["violations"].append({"clause": "inside the grid the value lies within the range of the stored values it interpolates", "detail": f"{sig} point { {k: str(v) for k, v in pt.items()} } ({kind}): {got} outside [{lo_v}, {hi_v}]", "key": "C14:overshoot"})
                break
        if kind == "node":
            idx = []
            if sp:
                idx.append(int(indexer[tuple(int(pt[k]) for k, _ in sp)]))
            idx += [int(pt[k]) for k, _ in dd]
            for c in cs:
                k, gk, a_, b_, n = c
                if gk == "lin":
                    idx.append(int((pt[k] - a_) / ((b_ - a_) / (n - 1))))
                else:
                    nodes = [Fr(float(x)) for x in np.asarray(interp_info[k].to_jax())]
                    idx.append(nodes.index(pt[k]))
            want = float(varr[tuple(idx)]) if idx else float(varr[()])
            if not same_number(got, fr(want), tol or 1e-12):
                out["violations"].append({"clause": "stored values are reproduced at grid nodes", "detail": f"{sig} node {idx}: {got} vs stored {want}", "key": "C14:node"})
                break
    # affine per continuous axis inside a cell / linear continuation outside (linear grids, exact)
    if exact and cs and not out["violations"]:
        pt = dict(pts[0])
        k, gk, a_, b_, n = r.choice(cs)
        h = (b_ - a_) / (n - 1)
        cell = r.randint(0, n - 2)
        for lo_, hi_ in ((a_ + h * cell, a_ + h * (cell + 1)), (a_ - 2 * h, a_), (b_, b_ + 3 * h)):
            p0, p1, pm = dict(pt), dict(pt), dict(pt)
            w = Fr(r.randint(1, 7), 8)
            p0[k], p1[k], pm[k] = lo_, hi_, lo_ + (hi_ - lo_) * w
            v0, v1, vm = Fr(call(p0)), Fr(call(p1)), Fr(call(pm))
            out["evals"] += 3
            if vm != v0 + (v1 - v0) * w:
                out["violations"].append({"clause": "linear in each continuous variable between neighbouring nodes / linear continuation outside a linear grid",
                                          "detail": f"{sig} along {k} on [{lo_}, {hi_}] at weight {w}: {vm} vs {v0 + (v1 - v0) * w}", "key": "C14:affine"})
                break
        # continuation: the segment outside equals the extension of the outermost cell
        p_in0, p_in1, p_out = dict(pt), dict(pt), dict(pt)
        p_in0[k], p_in1[k], p_out[k] = b_ - h, b_, b_ + 2 * h
        v0, v1, vo = Fr(call(p_in0)), Fr(call(p_in1)), Fr(call(p_out))
        if vo != v1 + 2 * (v1 - v0):
            out["violations"].append({"clause": "continues the outermost segment linearly outside a linear grid", "detail": f"{sig} along {k}: f(b+2h)={vo}, extension {v1 + 2 * (v1 - v0)}", "key": "C14:extrapolate"})
    # twin space: the same variable names and the same (start, stop, n_points), but the *other* grid kind for every
    # continuous axis with a positive start - a representation must depend on its own space description only
    twin_cs = [(k, ("log" if gk == "lin" else "lin"), float(a_), float(b_), n) for k, gk, a_, b_, n in cs if float(a_) > 0]
    if twin_cs and len(twin_cs) == len(cs) and not out["violations"]:
        interp2 = {k: (LinspaceGrid(start=a_, stop=b_, n_points=n) if gk == "lin" else LogspaceGrid(start=a_, stop=b_, n_points=n)) for k, gk, a_, b_, n in twin_cs}
        si2 = SpaceInfo(axis_names=axis_names, lookup_info=lookup, interpolation_info=interp2, indexer_infos=idx_infos)
        try:
            f2 = get_function_representation(si2, "vf_arr", input_prefix="next_")
            for pt in pts[:3]:
                kw = {"vf_arr": jnp.asarray(varr)}
                if sp:
                    kw["state_indexer"] = jnp.asarray(indexer)
                for k, _ in sp + dd:
                    kw[f"next_{k}"] = int(pt[k])
                # evaluate at a node of the twin grid: the stored value must come back
                idx = []
                if sp:
                    idx.append(int(indexer[tuple(int(pt[k]) for k, _ in sp)]))
                idx += [int(pt[k]) for k, _ in dd]
                for k, gk, a_, b_, n in twin_cs:
                    nodes = np.asarray(interp2[k].to_jax())
                    j = r.randint(0, n - 1)
                    kw[f"next_{k}"] = float(nodes[j])
                    idx.append(j)
                got = float(f2(**kw))
                want = float(varr[tuple(idx)])
                out["evals"] += 1
                if abs(got - want) > 1e-9 * max(1.0, abs(want)):
                    out["violations"].append({"clause": "stored values are reproduced at grid nodes (second representation in the same process: same names and parameters, other grid kind)",
                                              "detail": f"{sig}: twin grids {[(k, gk, a_, b_, n) for k, gk, a_, b_, n in twin_cs]} node {idx}: {got} vs stored {want}", "key": "C14:twin"})
                    break
            out["hist"]["twin_representation"] = 1
        except Exception as e:  # noqa: BLE001
            out["violations"].append({"clause": "a second representation is built and evaluated", "detail": f"{impl_site(e)}: {str(e)[:200]}", "key": "C14:twin-eval"})
    out["sample"] = {"axis_names": axis_names, "value_shape": vshape, "point": {k: str(v) for k, v in pts[0].items()}, "model": ans[0]}
    return out
