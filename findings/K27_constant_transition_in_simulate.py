"""Finding 1 (C03): a deterministic transition that is constant across agents crashes simulate.

A next function whose value does not depend on any per-agent array (a constant such
as `return 1`, or a function of model parameters only) is accepted by Model and by
get_lcm_function, and the model is solved without problems.  In simulate the
transition functions are called once with the whole vectors of states and choices, so
such a function returns a 0-d value instead of one value per agent, and the next
period fails with an internal `TypeError: len() of unsized object`.

Exit code 1 while the defect is present.
"""
# ---- shim -----------------------------------------------------------------------------
import sys, types, os
WT = os.environ.get("LCM_WT", "/tmp/hunt2_C03")
sys.path.insert(0, os.path.join(WT, "src"))
import jax, jax._src.util as _u
m = types.ModuleType("jax.util"); m.safe_zip = _u.safe_zip; m.unzip2 = _u.unzip2
sys.modules["jax.util"] = m; jax.util = m
jax.config.update("jax_enable_x64", True)
import lcm
assert lcm.__file__.startswith(WT), lcm.__file__
# ---------------------------------------------------------------------------------------
import traceback
from dataclasses import dataclass

import jax.numpy as jnp
import numpy as np

from lcm import DiscreteGrid, LinspaceGrid, Model
from lcm.entry_point import get_lcm_function


@dataclass
class Phase:
    novice: int = 0
    experienced: int = 1


def utility(consumption, wealth, phase):
    return jnp.log(consumption) + 0.1 * phase + 0.0 * wealth


def next_wealth(wealth, consumption):
    return wealth - consumption + 1.0


def cc_constraint(consumption, wealth):
    return consumption <= wealth


# (a) everybody is experienced from the second period on
def next_phase_constant(phase):  # noqa: ARG001
    return 1


# (b) the next phase is a model parameter
def next_phase_param(target_phase):
    return target_phase


def build(next_phase):
    return Model(
        n_periods=3,
        functions={
            "utility": utility,
            "next_wealth": next_wealth,
            "next_phase": next_phase,
            "cc_constraint": cc_constraint,
        },
        choices={"consumption": LinspaceGrid(start=1, stop=10, n_points=5)},
        states={
            "phase": DiscreteGrid(Phase),
            "wealth": LinspaceGrid(start=1, stop=20, n_points=6),
        },
    )


initial_states = {"phase": np.array([0, 1, 0]), "wealth": np.array([5.0, 10.0, 15.0])}

failed = False
for label, fn, extra in [
    ("next_phase(phase) -> 1", next_phase_constant, {}),
    ("next_phase(target_phase) -> target_phase, target_phase=1", next_phase_param,
     {"target_phase": 1}),
]:
    model = build(fn)
    params = {"beta": 0.9, "utility": {}, "next_wealth": {}, "next_phase": extra,
              "cc_constraint": {}}
    print("=" * 80)
    print("input: 3 periods, 3 agents, transition", label)
    solve, _ = get_lcm_function(model, targets="solve", debug_mode=False)
    vf = solve(params)
    print("solve: accepted, value function shapes", [v.shape for v in vf])
    simulate, _ = get_lcm_function(model, targets="simulate", debug_mode=False)
    try:
        df = simulate(params, initial_states=initial_states, vf_arr_list=vf)
    except Exception as e:  # noqa: BLE001
        failed = True
        print("observed: simulate raises", type(e).__name__ + ":", e)
        for fr in traceback.extract_tb(e.__traceback__):
            if "/src/lcm/" in fr.filename:
                print("   at", fr.filename.split("/src/")[1], "line", fr.lineno, fr.name)
        print("expected: a frame in which phase == 1 for all agents in periods 1 and 2 "
              "(the transition function evaluated at each agent's period-t state)")
        continue
    got = df["phase"].unstack("period").to_numpy()
    ok = (got[:, 0] == initial_states["phase"]).all() and (got[:, 1:] == 1).all()
    print("observed phase (agents x periods):\n", got, "\nlaw of motion holds:", ok)
    failed |= not ok

sys.exit(1 if failed else 0)
