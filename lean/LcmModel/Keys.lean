namespace Lcm

/-- a PRNG key is its path in the split tree below `PRNGKey(seed)` -/
abbrev Key := List Nat

/-- `jax.random.split(key, n)` -/
def split (k : Key) (n : Nat) : List Key := (List.range n).map fun i => k ++ [i]

/-- `_generate_simulation_keys`: split into `nv + 1`; element 0 is carried to the next period,
element `j + 1` belongs to the `j`-th stochastic transition. -/
def simulationKeys (key : Key) (nv : Nat) : Key × List Key :=
  let ks := split key (nv + 1)
  (ks.headD key, ks.tail)

/-- carried key at the start of period `t` -/
def carried : Nat → Key
  | 0 => []
  | t + 1 => (simulationKeys (carried t) 0).1

/-- key handed to `random_choice` for variable `j` in period `t` (with `nv` stochastic variables) -/
def varKey (nv t j : Nat) : Key := ((simulationKeys (carried t) nv).2).getD j []

/-- key consumed by `jax.random.choice` for agent `i` (`random_choice` splits once per agent) -/
def agentKey (nv nAgents t j i : Nat) : Key := (split (varKey nv t j) nAgents).getD i []

end Lcm

namespace Lcm

/-- `searchsorted(cumsum(p), r)` (side = left): index of the first cumulative sum that reaches `r` -/
def searchCum : List Rat → Rat → Rat → Nat
  | [], _, _ => 0
  | p :: ps, acc, r => if r ≤ acc + p then 0 else 1 + searchCum ps (acc + p) r

/-- the sampler behind `jax.random.choice(key, a, p=p)`: `r = total * (1 - uniform(key))` lies in
`(0, total]`, the label is the first index whose cumulative probability reaches `r` -/
def choiceOfUniform (p : List Rat) (r : Rat) : Nat := searchCum p 0 r

end Lcm
