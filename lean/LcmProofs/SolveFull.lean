import LcmProofs.SolveLoop
import LcmProofs.SolveDense
import LcmProofs.IsMax
namespace Lcm

/-! R1 assembled: every entry of every array returned by the executable `solve` is the maximum of
the period objective over the admissible grid choices, the objective of period `t` being built from
the array `solve` returned for period `t+1` (none in the last period). -/

/-- the continuation `solve` hands to period `t`: the array of period `t+1` together with the
feasible restricted states of period `t+1` (repair F1), nothing in the last period -/
def nextOf (m : Model) (P : Params) (V : List (Tensor Ext)) (t : Nat) :
    Option (Tensor Ext × List (List (Name × Rat))) :=
  if t + 1 < m.nPeriods then
    some (V.getD (t + 1) default, (mkSpace m P (groups m) (t + 1)).feas)
  else none

theorem bw_snd (m : Model) (P : Params) (shift : Bool) (j : Nat) :
    (bw m P shift j).2 = mkSpace m P (groups m) (m.nPeriods - 1 - j) := by
  cases j <;> simp [bw]

theorem solve_getD_eq_bw (m : Model) (P : Params) (shift : Bool) (t : Nat) (ht : t < m.nPeriods) :
    (solve m P shift).getD t default = (bw m P shift (m.nPeriods - 1 - t)).1 := by
  rw [solve_eq]
  rw [List.getD_eq_getElem?_getD, List.getElem?_map, List.getElem?_range ht]
  rfl

/-- **the backward recursion of `solve`**: the array of period `t` is `solvePeriod` applied to the
space of period `t` and the array of period `t+1` -/
theorem solve_getD (m : Model) (P : Params) (t : Nat) (ht : t < m.nPeriods) :
    (solve m P true).getD t default
      = solvePeriod m P (groups m) t (mkSpace m P (groups m) t) (nextOf m P (solve m P true) t) := by
  rw [solve_getD_eq_bw m P true t ht]
  unfold nextOf
  by_cases hlast : t + 1 < m.nPeriods
  · -- not the last period: bw (j+1)
    have hj : m.nPeriods - 1 - t = (m.nPeriods - 1 - (t + 1)) + 1 := by omega
    have ht' : m.nPeriods - 1 - ((m.nPeriods - 1 - (t + 1)) + 1) = t := by omega
    rw [hj]
    simp only [bw, ht', hlast, if_true]
    rw [solve_getD_eq_bw m P true (t + 1) hlast, bw_snd]
    have : m.nPeriods - 1 - (m.nPeriods - 1 - (t + 1)) = t + 1 := by omega
    rw [this]
  · have h0 : m.nPeriods - 1 - t = 0 := by omega
    have hT : m.nPeriods - 1 = t := by omega
    rw [h0]
    simp only [bw, hT, hlast, if_false]

/-- the filter of the stored space of period `t` (`create_filter_mask` with `_period = t`) -/
def spaceFilt (m : Model) (P : Params) (t : Nat) (s c : List (Name × Rat)) : Bool :=
  (allTrue m P (toEnv (s ++ c) ++ periodEnv t)
    (((functionInfo m).filter (·.isFilter)).map (·.name))).getD false

/-- feasible restricted-state combinations of period `t`, row-major in canonical order -/
def feasOf (m : Model) (P : Params) (t : Nat) : List (List (Name × Rat)) :=
  feasStates (assignments (groups m).sS) (assignments (groups m).sC) (spaceFilt m P t)

theorem mkSpace_feas (m : Model) (P : Params) (t : Nat) :
    (mkSpace m P (groups m) t).feas = feasOf m P t := rfl

/-- **R1, models with filter-restricted variables.** -/
theorem solve_entry_isMax_restricted (m : Model) (P : Params) (t : Nat) (ht : t < m.nPeriods)
    (hsparse : (!((groups m).sS.isEmpty && (groups m).sC.isEmpty)) = true)
    (k : Nat) (hk : k < (feasOf m P t).length) (dIdx xIdx : List Nat)
    (hd : InBounds (sizes (groups m).dS) dIdx) (hx : InBounds (sizes (cStateGrids (groups m))) xIdx) :
    let g := groups m
    let next := nextOf m P (solve m P true) t
    IsMaxOver
      (fun x : List (Name × Rat) × (List (Name × Rat) × List (Name × Rat)) =>
        (x.1 ∈ assignments g.sC ∧ spaceFilt m P t ((feasOf m P t)[k]) x.1 = true) ∧
          (x.2.1 ∈ assignments g.dC ∧ (x.2.2 ∈ assignments g.cC ∧
            feasibleOf (objAt m P g t next ((feasOf m P t)[k]) dIdx xIdx x.1 x.2.1 x.2.2) = true)))
      (fun x => valueOf (objAt m P g t next ((feasOf m P t)[k]) dIdx xIdx x.1 x.2.1 x.2.2))
      (((solve m P true).getD t default).get (k :: (dIdx ++ xIdx))) := by
  intro g next
  rw [solve_getD m P t ht]
  exact solvePeriod_isMax m P g t (mkSpace m P g t) next (assignments g.sS) (assignments g.sC)
    (spaceFilt m P t) rfl rfl rfl hsparse k hk dIdx xIdx hd hx

/-- **R1, models without filter-restricted variables.** -/
theorem solve_entry_isMax_unrestricted (m : Model) (P : Params) (t : Nat) (ht : t < m.nPeriods)
    (hdense : (!((groups m).sS.isEmpty && (groups m).sC.isEmpty)) = false)
    (dIdx xIdx : List Nat)
    (hd : InBounds (sizes (groups m).dS) dIdx) (hx : InBounds (sizes (cStateGrids (groups m))) xIdx) :
    let g := groups m
    let next := nextOf m P (solve m P true) t
    IsMaxOver
      (fun x : List (Name × Rat) × List (Name × Rat) =>
        x.1 ∈ assignments g.dC ∧ (x.2 ∈ assignments g.cC ∧
          feasibleOf (objAtDense m P g t next dIdx xIdx x.1 x.2) = true))
      (fun x => valueOf (objAtDense m P g t next dIdx xIdx x.1 x.2))
      (((solve m P true).getD t default).get (dIdx ++ xIdx)) := by
  intro g next
  rw [solve_getD m P t ht]
  exact solvePeriod_isMax_dense m P g t (mkSpace m P g t) next hdense dIdx xIdx hd hx

#print axioms solve_entry_isMax_restricted
#print axioms solve_entry_isMax_unrestricted
end Lcm
