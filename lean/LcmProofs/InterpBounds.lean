import LcmProofs.InterpT
namespace Lcm

/-! C14/C15: inside the grid the interpolated value never leaves the range of the stored values (no overshoot): the
weights of the two neighbours of every axis lie in `[0, 1]` when the coordinate lies in `[0, size - 1]`, for any rank. -/

theorem rat_floor_le (c : Rat) : (c.floor : Rat) ≤ c := Rat.le_floor_iff.mp le_rfl

theorem rat_lt_floor_add_one (c : Rat) : c < (c.floor : Rat) + 1 := by
  by_contra h
  have h' : ((c.floor + 1 : Int) : Rat) ≤ c := by push_cast; linarith
  have := Rat.le_floor_iff.mpr h'
  omega

/-- inside the grid the weight of the upper neighbour lies in `[0, 1]` -/
theorem weight_mem_unit (c : Rat) (size : Nat) (h2 : 2 ≤ size) (h0 : 0 ≤ c) (h1 : c ≤ (size : Rat) - 1) :
    0 ≤ c - (lowerIdx' c size : Rat) ∧ c - (lowerIdx' c size : Rat) ≤ 1 := by
  unfold lowerIdx'
  have hf0 : 0 ≤ c.floor := by rw [Rat.le_floor_iff]; simpa using h0
  have hfl := rat_floor_le c
  have hlt := rat_lt_floor_add_one c
  by_cases hc : c.floor ≤ (size : Int) - 2
  · have e : max 0 (min c.floor ((size : Int) - 2)) = c.floor := by omega
    rw [e]
    have e2 : ((c.floor.toNat : Nat) : Rat) = (c.floor : Rat) := by
      have := Int.toNat_of_nonneg hf0
      exact_mod_cast congrArg (Int.cast (R := Rat)) this
    rw [e2]; constructor <;> linarith
  · have e : max 0 (min c.floor ((size : Int) - 2)) = (size : Int) - 2 := by omega
    rw [e]
    have e2 : ((((size : Int) - 2).toNat : Nat) : Rat) = (size : Rat) - 2 := by
      have hnn : (0 : Int) ≤ (size : Int) - 2 := by omega
      have := Int.toNat_of_nonneg hnn
      have := congrArg (Int.cast (R := Rat)) this
      push_cast at this
      exact this
    rw [e2]
    have hge : ((size : Rat) - 1) ≤ (c.floor : Rat) := by
      have : (size : Int) - 1 ≤ c.floor := by omega
      exact_mod_cast this
    constructor <;> linarith

/-- **no overshoot inside the grid**: all coordinates inside `[0, size - 1]` and all stored entries inside `[L, U]` ⇒ the
interpolated value lies inside `[L, U]`, for any number of axes -/
theorem interp_bounds (t : Tensor Rat) (cs : List Rat) (L U : Rat)
    (hlen : cs.length = t.shape.length)
    (h2 : ∀ n ∈ t.shape, 2 ≤ n)
    (hin : ∀ p ∈ cs.zip t.shape, 0 ≤ p.1 ∧ p.1 ≤ (p.2 : Rat) - 1)
    (hb : ∀ idx, InBounds t.shape idx → L ≤ t.get idx ∧ t.get idx ≤ U) :
    L ≤ interp t cs ∧ interp t cs ≤ U := by
  induction cs generalizing t with
  | nil =>
    obtain ⟨shape, get⟩ := t
    cases shape with
    | nil => simpa [interp, InBounds] using hb []
    | cons n s => simp at hlen
  | cons c cs ih =>
    obtain ⟨shape, get⟩ := t
    cases shape with
    | nil => simp at hlen
    | cons n s =>
      have hn2 : 2 ≤ n := h2 n (by simp)
      have hc := hin (c, n) (by simp)
      have hw := weight_mem_unit c n hn2 hc.1 hc.2
      have hlo := lowerIdx'_le c n hn2
      simp only [interp, List.headD_cons]
      have hslice : ∀ i, i < n → L ≤ interp (Tensor.slice ⟨n :: s, get⟩ i) cs ∧ interp (Tensor.slice ⟨n :: s, get⟩ i) cs ≤ U := by
        intro i hi
        apply ih
        · simpa [Tensor.slice] using hlen
        · intro k hk; exact h2 k (by simp [Tensor.slice] at hk; simp [hk])
        · intro p hp
          apply hin p
          simp only [Tensor.slice, List.tail_cons] at hp
          simp [hp]
        · intro idx hidx
          simp only [Tensor.slice, List.tail_cons] at hidx ⊢
          exact hb (i :: idx) ⟨hi, hidx⟩
      have ha := hslice (lowerIdx' c n) (by omega)
      have hb' := hslice (lowerIdx' c n + 1) hlo
      set w := c - (lowerIdx' c n : Rat) with hwdef
      set A := interp (Tensor.slice ⟨n :: s, get⟩ (lowerIdx' c n)) cs
      set B := interp (Tensor.slice ⟨n :: s, get⟩ (lowerIdx' c n + 1)) cs
      have h1w : 0 ≤ 1 - w := by linarith [hw.2]
      constructor
      · have : L = (1 - w) * L + w * L := by ring
        rw [this]
        exact add_le_add (mul_le_mul_of_nonneg_left ha.1 h1w) (mul_le_mul_of_nonneg_left hb'.1 hw.1)
      · have : U = (1 - w) * U + w * U := by ring
        rw [this]
        exact add_le_add (mul_le_mul_of_nonneg_left ha.2 h1w) (mul_le_mul_of_nonneg_left hb'.2 hw.1)

#print axioms interp_bounds

/-- **monotone in the stored values inside the grid**: the weights are non-negative there, so a pointwise larger array gives
a larger value (outside the grid one weight is negative and this fails) -/
theorem interp_mono (t t' : Tensor Rat) (cs : List Rat)
    (hshape : t'.shape = t.shape)
    (hlen : cs.length = t.shape.length)
    (h2 : ∀ n ∈ t.shape, 2 ≤ n)
    (hin : ∀ p ∈ cs.zip t.shape, 0 ≤ p.1 ∧ p.1 ≤ (p.2 : Rat) - 1)
    (hle : ∀ idx, InBounds t.shape idx → t.get idx ≤ t'.get idx) :
    interp t cs ≤ interp t' cs := by
  induction cs generalizing t t' with
  | nil =>
    obtain ⟨shape, get⟩ := t
    obtain ⟨shape', get'⟩ := t'
    cases shape with
    | nil => simpa [interp, InBounds] using hle []
    | cons n s => simp at hlen
  | cons c cs ih =>
    obtain ⟨shape, get⟩ := t
    obtain ⟨shape', get'⟩ := t'
    simp only at hshape
    subst hshape
    cases shape' with
    | nil => simp at hlen
    | cons n s =>
      have hn2 : 2 ≤ n := h2 n (by simp)
      have hc := hin (c, n) (by simp)
      have hw := weight_mem_unit c n hn2 hc.1 hc.2
      have hlo := lowerIdx'_le c n hn2
      simp only [interp, List.headD_cons]
      have hslice : ∀ i, i < n →
          interp (Tensor.slice ⟨n :: s, get⟩ i) cs ≤ interp (Tensor.slice ⟨n :: s, get'⟩ i) cs := by
        intro i hi
        apply ih
        · simp [Tensor.slice]
        · simpa [Tensor.slice] using hlen
        · intro k hk; exact h2 k (by simp [Tensor.slice] at hk; simp [hk])
        · intro p hp
          apply hin p
          simp only [Tensor.slice, List.tail_cons] at hp
          simp [hp]
        · intro idx hidx
          simp only [Tensor.slice, List.tail_cons] at hidx ⊢
          exact hle (i :: idx) ⟨hi, hidx⟩
      have ha := hslice (lowerIdx' c n) (by omega)
      have hb' := hslice (lowerIdx' c n + 1) hlo
      have h1w : 0 ≤ 1 - (c - (lowerIdx' c n : Rat)) := by linarith [hw.2]
      exact add_le_add (mul_le_mul_of_nonneg_left ha h1w) (mul_le_mul_of_nonneg_left hb' hw.1)

#print axioms interp_mono

/-- the same for the continuation values of `solve` (`interpExt`, entries in `Rat ∪ {-inf}`): whenever the interpolated
continuation value is defined, inside the grid it lies within the range of the finite next-period values -/
theorem interpExt_bounds (t : Tensor Ext) (cs : List Rat) (L U : Rat)
    (hlen : cs.length = t.shape.length)
    (h2 : ∀ n ∈ t.shape, 2 ≤ n)
    (hin : ∀ p ∈ cs.zip t.shape, 0 ≤ p.1 ∧ p.1 ≤ (p.2 : Rat) - 1)
    (hb : ∀ idx v, InBounds t.shape idx → t.get idx = .fin v → L ≤ v ∧ v ≤ U)
    (q : Rat) (hq : interpExt t cs = some q) : L ≤ q ∧ q ≤ U := by
  induction cs generalizing t q with
  | nil =>
    obtain ⟨shape, get⟩ := t
    cases shape with
    | nil =>
      simp only [interpExt] at hq
      cases hg : get [] with
      | ninf => rw [hg] at hq; cases hq
      | fin v =>
        rw [hg] at hq
        have hvq : v = q := Option.some.inj hq
        rw [← hvq]
        exact hb [] v (by simp [InBounds]) hg
    | cons n s => simp at hlen
  | cons c cs ih =>
    obtain ⟨shape, get⟩ := t
    cases shape with
    | nil => simp at hlen
    | cons n s =>
      have hn2 : 2 ≤ n := h2 n (by simp)
      have hc := hin (c, n) (by simp)
      have hw := weight_mem_unit c n hn2 hc.1 hc.2
      have hlo := lowerIdx'_le c n hn2
      simp only [interpExt, List.headD_cons, Option.bind_eq_bind, Option.pure_def] at hq
      obtain ⟨A, hA, hq⟩ := Option.bind_eq_some_iff.mp hq
      obtain ⟨B, hB, hq⟩ := Option.bind_eq_some_iff.mp hq
      cases hq
      have hslice : ∀ i x, i < n → interpExt (Tensor.slice ⟨n :: s, get⟩ i) cs = some x → L ≤ x ∧ x ≤ U := by
        intro i x hi hx
        refine ih (Tensor.slice ⟨n :: s, get⟩ i) ?_ ?_ ?_ ?_ x hx
        · simpa [Tensor.slice] using hlen
        · intro k hk; exact h2 k (by simp [Tensor.slice] at hk; simp [hk])
        · intro p hp
          apply hin p
          simp only [Tensor.slice, List.tail_cons] at hp
          simp [hp]
        · intro idx v hidx hv
          simp only [Tensor.slice, List.tail_cons] at hidx hv
          exact hb (i :: idx) v ⟨hi, hidx⟩ hv
      have ha := hslice (lowerIdx' c n) A (by omega) hA
      have hb' := hslice (lowerIdx' c n + 1) B hlo hB
      have h1w : 0 ≤ 1 - (c - (lowerIdx' c n : Rat)) := by linarith [hw.2]
      constructor
      · have : L = (1 - (c - (lowerIdx' c n : Rat))) * L + (c - (lowerIdx' c n : Rat)) * L := by ring
        rw [this]
        exact add_le_add (mul_le_mul_of_nonneg_left ha.1 h1w) (mul_le_mul_of_nonneg_left hb'.1 hw.1)
      · have : U = (1 - (c - (lowerIdx' c n : Rat))) * U + (c - (lowerIdx' c n : Rat)) * U := by ring
        rw [this]
        exact add_le_add (mul_le_mul_of_nonneg_left ha.2 h1w) (mul_le_mul_of_nonneg_left hb'.2 hw.1)

#print axioms interpExt_bounds
end Lcm
