"""C20 - extreme-value aggregation of choice values is an exact, stable log-sum-exp.

Tie (tolerance stream): `_calculate_emax_extreme_value_shocks` and `_segment_logsumexp` against the Float
instance of the Lean definitions `emaxExtremeValueF` / `segmentLogSumExpF` (max, subtract, exp, sum, log, add);
the theorems of LcmProps/C20 are about the same definitions over the reals: equality with s*log(sum exp(v/s)),
bounds max <= result <= max + s*log n, shift, limit s -> 0+, and the no-overflow argument.
Oracle on the implementation alone: finiteness for finite inputs of magnitude up to 1e6; bounds; shift by c;
equality of the axes layout and the segment layout of the same choices; approach to the maximum as s -> 0.
"""
from __future__ import annotations

import math
import random
import struct

from common import driver, impl, impl_site
from props.c15 import bits, unbits

RULE = ("cases = random value arrays (rank 1-3, magnitudes 1 .. 1e6, scales 1e-3 .. 1e3) x choice-axis subsets x sorted segmentations; distinct = "
        "(rank, axes, segments?, magnitude decade, scale decade); evaluations = aggregations compared and property clauses evaluated")
ASSUMPTIONS = ["relative tolerance 1e-9 (+ absolute 1e-9*magnitude)", "the comparison with the model uses |v|/s <= 1e9; the finiteness / bounds clause is additionally evaluated for scales down to 1e-305, eager and jitted with a constant scale"]


def cases(seed, tier):
    n = 150 if tier == "quick" else 3000
    return [{"seed": seed * 1_000_003 + 20001 + i} for i in range(n)]


def run_case(case):
    I = impl()
    jnp, np = I.jnp, I.np
    from lcm.discrete_problem import _calculate_emax_extreme_value_shocks, _segment_logsumexp

    r = random.Random(case["seed"])
    out = {"nontrivial": True, "evals": 0, "violations": [], "hist": {}}
    vs = out["violations"]
    nd = r.randint(1, 4)
    sh = [r.randint(2, 6)] + [r.randint(1, 4) for _ in range(nd - 1)]
    mag = 10 ** r.uniform(0, 6)
    sc = 10 ** r.uniform(-3, 3)
    vals = np.array([r.uniform(-mag, mag) for _ in range(int(np.prod(sh)))]).reshape(sh)
    u = r.random()
    if u < 0.15:
        vals = np.round(vals)  # exact ties (small magnitudes only)
    elif u < 0.4:
        # exact ties *at the maximum* of a choice set (a choice without effect, a constant array): two levels only
        lv = [r.uniform(-mag, mag), r.uniform(-mag, mag)]
        vals = np.array([r.choice(lv + [max(lv)]) for _ in range(int(np.prod(sh)))]).reshape(sh)
    out["hist"]["ties_at_max"] = int(0.15 <= u < 0.4)
    want_seg = r.random() < 0.6
    lo_ax = 1 if want_seg else 0       # with segments the leading axis carries them; without, it may be a choice axis too
    axes_opts = [None] + [tuple(c) for k in range(1, nd - lo_ax + 1) for c in __import__("itertools").combinations(range(lo_ax, nd), k)]
    axes = r.choice(axes_opts)
    if axes is not None and len(axes) >= 2 and r.random() < 0.5:
        # prefer subsets with a gap (choice axes separated by a state axis)
        gaps = [c for c in axes_opts[1:] if len(c) >= 2 and any(b - a > 1 for a, b in zip(c, c[1:]))]
        if gaps:
            axes = r.choice(gaps)
    n = sh[0]
    nseg = r.randint(1, min(3, n))
    cuts = sorted(r.sample(range(1, n), nseg - 1)) if nseg > 1 else []
    ids = []
    for s, (lo, hi) in enumerate(zip([0] + cuts, cuts + [n])):
        ids += [s] * (hi - lo)
    use_seg = want_seg or axes is None
    seginfo = {"segment_ids": jnp.asarray(ids), "num_segments": nseg} if use_seg else None
    out["sig"] = f"nd={nd} axes={axes} seg={use_seg} mag=1e{int(math.log10(mag))} scale=1e{int(math.floor(math.log10(sc)))}"
    out["hist"][f"mag=1e{int(math.log10(mag))}"] = 1
    out["hist"][f"scale=1e{int(math.floor(math.log10(sc)))}"] = 1
    params = {"additive_utility_shock": {"scale": sc}}

    def emax(v, ax, si, scale=sc):
        return np.asarray(_calculate_emax_extreme_value_shocks(jnp.asarray(v), ax, si, {"additive_utility_shock": {"scale": scale}}))

    try:
        got = emax(vals, axes, seginfo)
    except Exception as e:  # noqa: BLE001
        vs.append({"clause": "the aggregation evaluates", "detail": f"{impl_site(e)}: {str(e)[:200]}", "key": "C20:eval"})
        return out
    req = {"op": "lse", "values": {"shape": sh, "bits": [bits(x) for x in vals.ravel()]}, "scale": bits(sc), "axes": list(axes or [])}
    if use_seg:
        req["seg_ids"] = ids
        req["num"] = nseg
    mo = driver().call(req)
    model = np.array([unbits(b) for b in mo["bits"]]).reshape(mo["shape"])
    out["evals"] += 1
    desc = f"values shape {sh} magnitude {mag:.3g} scale {sc:.3g} axes {axes} segments {ids if use_seg else None}"
    tol = lambda ref: 1e-9 * np.maximum(1.0, np.abs(ref)) + 1e-9 * mag  # noqa: E731
    if not np.all(np.isfinite(got)):
        vs.append({"clause": "the result is finite for finite inputs of any magnitude", "detail": f"{desc}: {got.ravel()[:6].tolist()}", "key": "C20:finite"})
        return out
    if list(got.shape) != mo["shape"] or np.any(np.abs(got - model) > tol(model)):
        vs.append({"clause": "equals s * log(sum exp(value / s)) over all discrete choices of each state", "detail": f"{desc}: implementation {got.ravel()[:4].tolist()}, model {model.ravel()[:4].tolist()}", "key": "C20:value"})
        return out
    # bounds: max <= result <= max + s*log(#choices)
    mx = vals
    cnt = np.ones_like(vals)
    if axes is not None:
        mx = mx.max(axis=axes)
        cnt = cnt.sum(axis=axes)
    if use_seg:
        mx = np.stack([mx[np.array(ids) == k].max(axis=0) for k in range(nseg)])
        cnt = np.stack([cnt[np.array(ids) == k].sum(axis=0) for k in range(nseg)])
    out["evals"] += 1
    if np.any(got < mx - tol(mx)) or np.any(got > mx + sc * np.log(cnt) + tol(mx)):
        vs.append({"clause": "lies between the maximum and the maximum plus s*log(number of choices)", "detail": f"{desc}: result {got.ravel()[:4].tolist()}, max {mx.ravel()[:4].tolist()}, n {cnt.ravel()[:4].tolist()}", "key": "C20:bounds"})
    # shift
    c = r.uniform(-mag, mag)
    shifted = emax(vals + c, axes, seginfo)
    out["evals"] += 1
    if np.any(np.abs(shifted - (got + c)) > 2 * tol(got + c)):
        vs.append({"clause": "shifts by c when c is added to all values", "detail": f"{desc} c={c}: {shifted.ravel()[:4].tolist()} vs {(got + c).ravel()[:4].tolist()}", "key": "C20:shift"})
    # s -> 0+
    tiny = 1e-3 * max(1e-300, (np.abs(vals).max() + 1) * 1e-9) + 1e-6
    lim = emax(vals, axes, seginfo, scale=tiny)
    out["evals"] += 1
    if not np.all(np.isfinite(lim)) or np.any(np.abs(lim - mx) > tiny * np.log(np.maximum(cnt, 1)) + tol(mx)):
        vs.append({"clause": "approaches the maximum as s goes to zero", "detail": f"{desc} scale {tiny}: {lim.ravel()[:4].tolist()} vs max {mx.ravel()[:4].tolist()}", "key": "C20:limit"})
    # very small scales (any scale > 0 is in the quantifier), eager and inside a jitted function in which the scale is a
    # constant: the result must stay finite and within [max, max + s * log(number of choices)]
    import functools

    for tiny2 in (r.choice([1e-13, 1e-14, 1.7e-15, 1e-16, 1e-20]), r.choice([1e-300, 1e-305])):
        p2 = {"additive_utility_shock": {"scale": tiny2}}
        fj = I.jax.jit(functools.partial(_calculate_emax_extreme_value_shocks, choice_axes=axes, choice_segments=seginfo, params=p2))
        for label, res in (("eager", emax(vals, axes, seginfo, scale=tiny2)), ("jit, constant scale", np.asarray(fj(jnp.asarray(vals))))):
            out["evals"] += 1
            if not np.all(np.isfinite(res)) or np.any(res < mx - tol(mx)) or np.any(res > mx + tiny2 * np.log(np.maximum(cnt, 1)) + tol(mx)):
                vs.append({"clause": "the result is finite for finite inputs of any magnitude and lies between the maximum and the maximum plus s*log(number of choices)",
                           "detail": f"{desc} scale {tiny2} ({label}): {res.ravel()[:4].tolist()} vs max {mx.ravel()[:4].tolist()}", "key": "C20:tinyscale"})
                break
        if vs:
            break
    # axes layout == segment layout of the same choices: choices along axis 1 vs rows of segments
    if nd >= 2:
        a2 = vals.reshape(sh[0], -1)[:, : max(1, min(4, int(np.prod(sh[1:]))))]
        k = a2.shape[1]
        by_axis = emax(a2, (1,), None)
        flat = a2.ravel()
        seg_ids2 = np.repeat(np.arange(sh[0]), k)
        by_seg = emax(flat, None, {"segment_ids": jnp.asarray(seg_ids2), "num_segments": sh[0]})
        out["evals"] += 1
        if np.any(np.abs(by_axis - by_seg) > 2 * tol(by_axis)):
            vs.append({"clause": "same result whether the choices are laid out along array axes or as segments of the leading axis", "detail": f"{desc}: axes {by_axis[:4].tolist()} segments {by_seg[:4].tolist()}", "key": "C20:layouts"})
    # the private segment kernel on its own
    try:
        sl = np.asarray(_segment_logsumexp(jnp.asarray(vals / sc), {"segment_ids": jnp.asarray(ids), "num_segments": nseg}))
        ms = driver().call({"op": "segment_lse", "a": {"shape": sh, "bits": [bits(x) for x in (vals / sc).ravel()]}, "seg_ids": ids, "num": nseg})
        msl = np.array([unbits(b) for b in ms["bits"]]).reshape(ms["shape"])
        out["evals"] += 1
        if not np.all(np.isfinite(sl)) or np.any(np.abs(sl - msl) > 1e-9 * np.maximum(1.0, np.abs(msl))):
            vs.append({"clause": "_segment_logsumexp equals the stable form", "detail": f"{desc}: {sl.ravel()[:4].tolist()} vs {msl.ravel()[:4].tolist()}", "key": "C20:segkernel"})
    except Exception as e:  # noqa: BLE001
        vs.append({"clause": "the segment kernel evaluates", "detail": f"{impl_site(e)}: {str(e)[:200]}", "key": "C20:eval"})
    vs[:] = vs[:3]
    out["sample"] = {"shape": sh, "axes": axes, "segment_ids": ids if use_seg else None, "scale": sc, "magnitude": mag, "result_head": got.ravel()[:3].tolist()}
    return out
