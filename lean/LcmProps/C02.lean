import LcmProofs.SimPanel
import LcmProofs.SpecRefine
import LcmProps.Examples
import LcmProofs.InfeasibleSim
import LcmProofs.UtilityBody
namespace Lcm

/-! # C02 — simulated decisions are feasible maximisers of the agent's objective

Model: `Lcm.simulate` / `agentDecision` / `simChoice` (`LcmModel/Sim.lean`, `SimStep.lean`): the arg-max
chain of `simulate.py` — data state-choice space (agents × restricted choices, filter, boolean-mask
selection), masked arg-max over the flattened product of the continuous-choice grids, arg-max over the
unrestricted discrete choices, segment arg-max over the rows of the agent, re-indexing of the dense and the
continuous arg-max by the selected row (repair F2), index → grid value. The objective of period `t` is
`uAndF` built from *the value array in use* for period `t+1`. -/

/-- the records of period `t` of a simulation are the decisions of the agents at their period-`t` states -/
theorem C02_records_are_decisions (m : Model) (P : Params) (V : List (Tensor Ext))
    (init : List (List (Name × Rat))) (draws : Draws) (t i : Nat) (ht : t < m.nPeriods) (hi : i < init.length) :
    ((simulate m P V init draws true).getD t []).getD i default
      = agentDecision m P (groups m) t (simNext m P V t) (statesAt m P V init draws t) i := by
  rw [simulate_getD m P V init draws t ht]
  exact periodOut_record_getD m P V draws t _ i (by rw [statesAt_length]; exact hi)

/-- **R2 per agent and period**: for any mix of restricted / unrestricted discrete choices and any number
and sizes of continuous-choice grids, (1) the reported value is the maximum of the agent's own objective
over all grid choices that pass the filter and the constraints, (2) if that maximum is not −inf the reported
choices are grid values, pass the filter and the constraints, and attain it. -/
theorem C02_decision_is_feasible_maximiser (m : Model) (P : Params) (g : Groups) (t : Nat)
    (next : Option (Tensor Ext × List (List (Name × Rat)))) (states : List (List (Name × Rat)))
    (i : Nat) (hi : i < states.length) :
    let st := states.getD i []
    let out := simChoice states.length (assignments g.sC) (assignments g.dC) (assignments g.cC)
      (fun k c => agentFilt m P g t (states.getD k []) c)
      (fun k c e y => valueOf (agentObj m P g t next (states.getD k []) c e y))
      (fun k c e y => feasibleOf (agentObj m P g t next (states.getD k []) c e y)) i
    (agentDecision m P g t next states i).value = out.2.2.2 ∧
    IsMaxOver
      (fun x : List (Name × Rat) × (List (Name × Rat) × List (Name × Rat)) =>
        (x.1 ∈ assignments g.sC ∧ agentFilt m P g t st x.1 = true) ∧
          (x.2.1 ∈ assignments g.dC ∧ (x.2.2 ∈ assignments g.cC ∧
            feasibleOf (agentObj m P g t next st x.1 x.2.1 x.2.2) = true)))
      (fun x => valueOf (agentObj m P g t next st x.1 x.2.1 x.2.2))
      (agentDecision m P g t next states i).value ∧
    ((agentDecision m P g t next states i).value ≠ .ninf →
      out.1 ∈ assignments g.sC ∧ agentFilt m P g t st out.1 = true ∧
      out.2.1 ∈ assignments g.dC ∧ out.2.2.1 ∈ assignments g.cC ∧
      feasibleOf (agentObj m P g t next st out.1 out.2.1 out.2.2.1) = true ∧
      (agentDecision m P g t next states i).value
        = .fin (valueOf (agentObj m P g t next st out.1 out.2.1 out.2.2.1))) :=
  agentDecision_spec m P g t next states i hi

/-- the reported choices are exactly the three components selected by the chain (restricted, unrestricted
discrete, continuous), so "the reported choice attains the value" is the statement above -/
theorem C02_reported_choices (m : Model) (P : Params) (g : Groups) (t : Nat)
    (next : Option (Tensor Ext × List (List (Name × Rat)))) (states : List (List (Name × Rat))) (i : Nat) :
    let out := simChoice states.length (assignments g.sC) (assignments g.dC) (assignments g.cC)
      (fun k c => agentFilt m P g t (states.getD k []) c)
      (fun k c e y => valueOf (agentObj m P g t next (states.getD k []) c e y))
      (fun k c e y => feasibleOf (agentObj m P g t next (states.getD k []) c e y)) i
    (agentDecision m P g t next states i).choices = out.2.1 ++ out.1 ++ out.2.2.1 := rfl

/-- the reported value is *the* maximum: any value satisfying the specification equals it -/
theorem C02_value_is_the_maximum {X : Type} {Pr : X → Prop} {f : X → Rat} {v w : Ext}
    (hv : IsMaxOver Pr f v) (hw : IsMaxOver Pr f w) : v = w := hv.unique hw

/-- the continuation of period `t` is built from the value array in use for period `t+1`; none in the last
period -/
theorem C02_uses_next_period_array (m : Model) (P : Params) (V : List (Tensor Ext)) (t : Nat) :
    simNext m P V t = if t + 1 < m.nPeriods then
      some (V.getD (t + 1) default, (mkSpace m P (groups m) (t + 1)).feas) else none := rfl

-- non-vacuity / pinned numbers: the F1 witness simulated from s = 1 and s = 2
#guard ((simulate Ex.f1Model Ex.f1Params (solve Ex.f1Model Ex.f1Params) [[("s", 1)], [("s", 2)]] (fun _ _ _ _ => 0)).map
  fun recs => recs.map fun r => (r.value, r.choices, r.states))
  == [[(.fin 22, [("d", 1)], [("s", 1)]), (.fin 42, [("d", 1)], [("s", 2)])],
     [(.fin 11, [("d", 1)], [("s", 1)]), (.fin 21, [("d", 1)], [("s", 2)])]]


/-- **the reported value at the specification level**: the value `simulate` reports for an agent - on or off the
grid - is the maximum, found by plain enumeration of *all declared choices in declaration order* (no groups, no
segments, no arg-max chain), of the objective over the combinations that pass every filter and every constraint
(`specAgent.best`, the quantity the harness' oracle `sim_spec` returns). Hypotheses: names pairwise distinct; and for
models without a filter-restricted choice - where `simulate` evaluates no filter - the agent's state passes the
filters (the implementation reports a choice for an agent in an excluded state as well; the property speaks about
feasible choices "at the agent's current state", which such an agent does not have). -/
theorem C02_value_is_plain_enumeration_max (m : Model) (P : Params) (t : Nat)
    (next : Option (Tensor Ext × List (List (Name × Rat)))) (states : List (List (Name × Rat)))
    (i : Nat) (hi : i < states.length)
    (hnd : ((m.states ++ m.choices).map (·.1)).Nodup)
    (hst : ((states.getD i []).map (·.1) ++ m.choices.map (·.1)).Nodup)
    (hfs : (groups m).sC.isEmpty = true →
      allTrue m P (toEnv (states.getD i []) ++ periodEnv t) (filterNames m) = some true)
    (chRep : List (Name × Rat)) :
    (specAgent m P (groups m) t next (states.getD i []) chRep).best
      = (agentDecision m P (groups m) t next states i).value :=
  specAgent_best_eq_value m P t next states i hi hnd hst hfs chRep

/-- **the reported choices at the specification level**: when the value is not `-inf`, the reported choices are - as a
set of (name, value) pairs - one of the grid combinations of *all* declared choices, pass every filter and every
constraint (`specQ … = some (v, true)`), and their objective `v` is the reported value, which is the maximum -/
theorem C02_reported_choices_are_an_admissible_maximiser (m : Model) (P : Params) (t : Nat)
    (next : Option (Tensor Ext × List (List (Name × Rat)))) (states : List (List (Name × Rat)))
    (i : Nat) (hi : i < states.length)
    (hnd : ((m.states ++ m.choices).map (·.1)).Nodup)
    (hst : ((states.getD i []).map (·.1) ++ m.choices.map (·.1)).Nodup)
    (hfs : (groups m).sC.isEmpty = true →
      allTrue m P (toEnv (states.getD i []) ++ periodEnv t) (filterNames m) = some true)
    (hfin : (agentDecision m P (groups m) t next states i).value ≠ .ninf) :
    ∃ ch ∈ allChoices m, ch.Perm (agentDecision m P (groups m) t next states i).choices ∧
      ∃ v : Rat, specQ m P (groups m) t next (states.getD i []) ch = some (v, true) ∧
        (agentDecision m P (groups m) t next states i).value = .fin v ∧
        (specAgent m P (groups m) t next (states.getD i []) ch).best = .fin v := by
  obtain ⟨_, _, h3⟩ := agentDecision_spec m P (groups m) t next states i hi
  obtain ⟨hc, hf, he, hy, hfeas, hval⟩ := h3 hfin
  set out := simChoice states.length (assignments (groups m).sC) (assignments (groups m).dC) (assignments (groups m).cC)
      (fun k c => agentFilt m P (groups m) t (states.getD k []) c)
      (fun k c e y => valueOf (agentObj m P (groups m) t next (states.getD k []) c e y))
      (fun k c e y => feasibleOf (agentObj m P (groups m) t next (states.getD k []) c e y)) i with hout
  have hmem : out.1 ++ out.2.1 ++ out.2.2.1 ∈ assignments ((groups m).sC ++ (groups m).dC ++ (groups m).cC) :=
    (mem_assignments_append _ _ _).mpr ⟨out.1 ++ out.2.1, (mem_assignments_append _ _ _).mpr ⟨out.1, hc, out.2.1, he, rfl⟩,
      out.2.2.1, hy, rfl⟩
  obtain ⟨ch, hch, hperm⟩ := assignments_perm _ _ (choices_perm m hnd).symm _ hmem
  obtain ⟨F, hF1, hF2⟩ := spec_choice_agreement m P t next (states.getD i []) out.1 out.2.1 out.2.2.1 ch hst hc he hy hch hperm hfs
  have hFt : F = some true := by
    rw [hF1] at hf
    cases F with
    | none => simp at hf
    | some b => cases b <;> simp_all
  cases hO : agentObj m P (groups m) t next (states.getD i []) out.1 out.2.1 out.2.2.1 with
  | none => rw [hO] at hfeas; simp [feasibleOf] at hfeas
  | some qf =>
    obtain ⟨q, fb⟩ := qf
    rw [hO] at hfeas hval
    have hfb : fb = true := by simpa [feasibleOf] using hfeas
    subst hfb
    refine ⟨ch, hch, ?_, q, ?_, ?_, ?_⟩
    · refine hperm.trans ?_
      show (out.1 ++ out.2.1 ++ out.2.2.1).Perm (out.2.1 ++ out.1 ++ out.2.2.1)
      exact List.Perm.append_right _ List.perm_append_comm
    · rw [hF2, hFt, hO]; rfl
    · simpa [valueOf] using hval
    · rw [specAgent_best_eq_value m P t next states i hi hnd hst hfs ch]
      simpa [valueOf] using hval

-- the hypotheses are satisfiable and the two sides are the pinned number: F1 witness, agent in state s = 2, period 0
example : ((Ex.f1Model.states ++ Ex.f1Model.choices).map (·.1)).Nodup := by decide
#guard (groups Ex.f1Model).sC.isEmpty
#guard allTrue Ex.f1Model Ex.f1Params (toEnv [("s", 2)] ++ periodEnv 0) (filterNames Ex.f1Model) == some true
#guard (specAgent Ex.f1Model Ex.f1Params (groups Ex.f1Model) 0 (simNext Ex.f1Model Ex.f1Params (solve Ex.f1Model Ex.f1Params) 0)
    [("s", 2)] [("d", 1)]).best == .fin 42
#guard (specAgent Ex.consModel Ex.consParams (groups Ex.consModel) 0
    (simNext Ex.consModel Ex.consParams (solve Ex.consModel Ex.consParams) 0) [("w", 3/2)] []).best
  == (agentDecision Ex.consModel Ex.consParams (groups Ex.consModel) 0
    (simNext Ex.consModel Ex.consParams (solve Ex.consModel Ex.consParams) 0) [[("w", 3/2)]] 0).value

/-- **the reported decisions never depend on what utility returns at an infeasible choice** (`+inf`, `nan`, or nothing at
all - `Expr.div` by zero in the model): two specifications whose utilities agree wherever all constraints hold produce the
same panel - values, choices, states - for every batch, every value arrays and every draw. -/
theorem C02_infeasible_choices_do_not_influence_decisions {m m' : Model} {P : Params}
    (h : UtilityAgreesOnFeasible m m' P) (hstates : m'.states = m.states)
    (V : List (Tensor Ext)) (init : List (List (Name × Rat))) (draws : Draws) :
    simulate m' P V init draws true = simulate m P V init draws true :=
  simulate_eq_of_utility_agrees_on_feasible h hstates V init draws

/-- per agent and period, with the value arrays in use left arbitrary -/
theorem C02_decision_ignores_infeasible_utility {m m' : Model} {P : Params} (h : UtilityAgreesOnFeasible m m' P)
    (g : Groups) (t : Nat) (next : Option (Tensor Ext × List (List (Name × Rat)))) (states : List (List (Name × Rat)))
    (i : Nat) : agentDecision m' P g t next states i = agentDecision m P g t next states i :=
  h.agentDecision g t next states i

end Lcm
