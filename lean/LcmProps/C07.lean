import LcmProofs.Input
import LcmProofs.Congr
import LcmProofs.ParamsSolve
import LcmProps.Examples
import Mathlib.Data.String.Basic
import Mathlib.Order.Basic
namespace Lcm

/-! # C07 — the parameter template is complete and parameters are routed by function name

Model: `functionParams` / `shockShapes` (`LcmModel/Input.lean`) for `create_params_template`; `callF` for the
wrappers of `process_model._get_internal_functions` (a function named `f` receives `params[f]` and nothing
else); `uAndF` for `beta` (`big_u = u + params["beta"] * ccv`). -/

/-- one entry per model function, in the order of the function dict -/
theorem C07_template_functions (m : Model) : (functionParams m).map (·.1) = m.functions.map (·.name) := by
  simp [functionParams]

/-- the entry of `f` lists **exactly** the arguments of `f` that are neither model functions, choices, states
nor the period -/
theorem C07_function_params (m : Model) (f : Func) (hf : f ∈ m.functions) (p : Name) :
    p ∈ sortNames (f.args.filter fun a =>
        !(m.functions.map (·.name) ++ m.choices.map (·.1) ++ m.states.map (·.1) ++ ["_period"]).contains a) ↔
      p ∈ f.args ∧ p ∉ m.functions.map (·.name) ∧ p ∉ m.choices.map (·.1) ∧ p ∉ m.states.map (·.1) ∧
        p ≠ "_period" := mem_functionParams m f hf p

theorem insertName_sorted (x : Name) (ys : List Name) (h : ys.Pairwise (· < ·)) :
    (insertName x ys).Pairwise (· < ·) := by
  induction ys with
  | nil => simp [insertName]
  | cons y ys ih =>
    rw [List.pairwise_cons] at h
    unfold insertName
    split_ifs with h1 h2
    · refine List.pairwise_cons.mpr ⟨fun z hz => ?_, List.pairwise_cons.mpr h⟩
      rcases List.mem_cons.mp hz with rfl | hz
      · exact h1
      · exact lt_trans h1 (h.1 z hz)
    · exact List.pairwise_cons.mpr h
    · refine List.pairwise_cons.mpr ⟨fun z hz => ?_, ih h.2⟩
      rw [mem_insertName] at hz
      rcases hz with rfl | hz
      · exact lt_of_le_of_ne (not_lt.mp h1) (Ne.symm h2)
      · exact h.1 z hz

/-- the parameters of a function are listed in strictly increasing (alphabetical) order - in particular
without duplicates (the code sorts a set difference) -/
theorem C07_params_sorted (xs : List Name) : (sortNames xs).Pairwise (· < ·) := by
  unfold sortNames
  induction xs with
  | nil => simp
  | cons x xs ih => exact insertName_sorted x _ ih

theorem C07_params_nodup (xs : List Name) : (sortNames xs).Nodup :=
  (C07_params_sorted xs).imp (fun h => ne_of_lt h)

/-- the transition array of a stochastic state has one leading dimension per dependency **in signature
order** (the number of periods for `_period`), and the number of labels last -/
theorem C07_shock_shape (m : Model) (v : VariableInfo) (f : Func) (hv : v ∈ (variableInfo m).filter (·.isStochastic))
    (hf : m.func? ("next_" ++ v.name) = some f) :
    let size := fun (x : Name) =>
      if x = "_period" then m.nPeriods
      else (((m.states ++ m.choices).find? (·.1 == x)).map (·.2.points.length)).getD 0
    (v.name, f.args.map size ++ [size v.name]) ∈ shockShapes m := by
  intro size
  unfold shockShapes
  rw [List.mem_map]
  exact ⟨v, hv, by simp only [hf]; rfl⟩

/-- **routing**: a model function called through the generated wrappers evaluates the user body on its
arguments, where an argument that is another model function is computed, a variable is read from the
environment, and anything else is read from `params[<name of this function>]` -/
theorem C07_routing (m : Model) (P : Params) (fuel : Nat) (env : Env) (fname : Name) (f : Func)
    (hf : m.func? fname = some f) :
    callF m P (fuel + 1) env fname = (do
      let argVals ← f.args.mapM fun a =>
        match m.func? a with
        | some _ => callF m P fuel env a
        | none => match env.get? a with
          | some v => some v
          | none => (P.get? fname a).map Val.num
      f.body.eval (f.args.zip argVals)) := by
  rw [callF, hf]
  rfl

/-- **equal parameter names in different functions never interact**: the value of any model function is
unchanged when the params differ only in entries that no `get?` reads the same way - precisely: if `P` and
`P'` agree on every (function, parameter) pair, in particular when only *another* function's entry for the
same parameter name changed back and forth -/
theorem C07_noninterference (m : Model) (P P' : Params) (hP : ∀ f p, P.get? f p = P'.get? f p)
    (fuel : Nat) (e : Env) (fname : Name) : callF m P fuel e fname = callF m P' fuel e fname :=
  callF_congr_params m P P' hP fuel e fname

/-- `Params.get? f p` only looks under the name `f`: changing the entry of another function `g ≠ f` is
invisible to `f` -/
theorem C07_lookup_by_function_name (beta : Rat) (shocks : List (Name × Tensor Rat))
    (fs : List (Name × List (Name × Rat))) (g : Name) (ps ps' : List (Name × Rat)) (f p : Name) (hfg : f ≠ g) :
    ({ beta, funcs := (g, ps) :: fs, shocks } : Params).get? f p
      = ({ beta, funcs := (g, ps') :: fs, shocks } : Params).get? f p := by
  have : (g == f) = false := by rw [beq_eq_false_iff_ne]; exact fun h => hfg h.symm
  simp [Params.get?, List.find?, this]

/-- `beta` is the only discount factor and enters once per period: the objective is `u + beta * E` -/
theorem C07_beta_once (m : Model) (P : Params) (g : Groups) (t : Nat) (env0 : Env)
    (V : Tensor Ext) (feasNext : List (List (Name × Rat))) (q : Rat) (f : Bool)
    (h : uAndF m P g t (some (V, feasNext)) env0 = some (q, f)) :
    ∃ u ev : Rat, q = u + P.beta * ev ∧ (callF m P m.fuel (env0 ++ periodEnv t) "utility").map Val.toRat = some u := by
  unfold uAndF at h
  simp only [Option.bind_eq_bind, Option.pure_def, Option.bind_eq_some_iff] at h
  obtain ⟨f', _, u, hu, rest⟩ := h
  obtain ⟨det, _, wrows, _, ev, _, hq⟩ := rest
  simp only [Option.some.injEq, Prod.mk.injEq] at hq
  exact ⟨u, ev, hq.1.symm, hu⟩


/-- **routing for the executable `solve`, every period**: two parameter sets that agree on `beta`, on the transition
arrays and on the value stored *under each function's own name for each of that function's own arguments* give the same
value arrays. Whatever else a parameter set contains - the same parameter name under another function, entries for
names that are not arguments, entries for functions that do not exist - never reaches any function. -/
theorem C07_solve_reads_own_slots_only (m : Model) (P P' : Params) (h : SameSlots m P P') (j : Nat) (hj : j < m.nPeriods) :
    (solve m P' true).getD (m.nPeriods - 1 - j) default = (solve m P true).getD (m.nPeriods - 1 - j) default :=
  solve_sameSlots h j hj

-- non-vacuity: kappa stored under a constraint that does not take it, and under a function that does not exist
def Ex.consParams' : Params :=
  { Ex.consParams with funcs := Ex.consParams.funcs ++ [("budget_constraint", [("kappa", 99)]), ("ghost", [("kappa", -7)])] }
#guard (Ex.consModel.functions.all fun f => f.args.all fun p =>
  Ex.consParams'.get? f.name p == Ex.consParams.get? f.name p)
#guard ((solve Ex.consModel Ex.consParams').map (·.toFlat)) == ((solve Ex.consModel Ex.consParams).map (·.toFlat))

end Lcm
