"""C01 - solve() returns the exact backward-induction (Bellman) solution on the grid.

Tie: op `solve` of the Lean model (for which R1 is proved: every entry satisfies `IsMaxOver` over the
feasible grid choices of utility + beta * E V-hat) against `get_lcm_function(model, 'solve', jit=...)`
on generated dyadic specifications; comparison of exact rationals, entry by entry.
Oracle: the property *is* "equals the Bellman value", so every difference is a violation with the
generated specification as the failing input.
"""
from __future__ import annotations

import random

from common import HarnessError, impl, impl_site
from gen import has_log, nontrivial, signature
from pipeline import compare_value_arrays, explicit_case, impl_solve, materialise_case, model_solve

CANARY = True
RULE = (
    "cases = generated dyadic model specifications (gen.py grammar: 1-4 periods, 0-2 continuous and 0-3 discrete "
    "states, 0-2 continuous and 0-2 discrete choices, filters incl. period-dependent ones, binding constraints, "
    "auxiliary functions with parameters, stochastic transitions) x parameter sets x jit on/off; distinct = distinct "
    "structural signature (periods, variable kinds and sizes, function classes and argument kinds); non-trivial = "
    "has a choice variable and (>= 2 periods or a filter or a constraint); evaluations = value-array entries compared"
)
ASSUMPTIONS = [
    "supported class of C01: periods whose later value arrays contain -inf, or in which a feasible transition leaves the stored state space, are skipped (the model reports them)",
    "dyadic inputs: implementation float arithmetic is exact, comparison is equality of rationals",
]

FORCES = [None, ["constraint", "pconstraint", "noperiod"], ["twin"], ["stacked", "aux"], ["log"], ["log", "filter"], ["f1two"], ["stoch3"], ["stoch3", "eqsize"], ["stoch", "eqsize", "filter"], ["ninf"], ["intutil"], ["intutil", "constraint"], ["intconstraint", "constraint"], ["intconstraint"], ["divguard"], ["f1"], ["divguard", "constraint", "stoch"], ["mixed"], ["stoch"], ["filter"], ["constraint"], ["cont2"], ["aux"], ["nofilter"], ["f1", "stoch"], ["filter", "constraint"], None]


def cases(seed, tier):
    n = 48 if tier == "quick" else 800
    out = []
    for i in range(n):
        out.append({"kind": "gen", "seed": seed * 1_000_003 + i, "force": FORCES[i % len(FORCES)], "jit": bool(i % 3), "n_params": 2,
                    "budget": 4000 if tier == "quick" else 20000})
    return out


def run_case(case):
    mj, meta, Ps, r = materialise_case(case)
    jit = case.get("jit", True)
    out = {"sig": signature(mj), "nontrivial": nontrivial(mj), "evals": 0, "violations": [], "hist": {}}
    h = out["hist"]
    h[f"T={mj['n_periods']}"] = 1
    h[f"filter_family={meta.get('filter_family')}"] = 1
    h[f"jit={jit}"] = 1
    from pipeline import wf_hist

    wf_hist(mj, h)
    for k in ("n_cs", "n_ds", "n_cc", "n_dc", "n_stoch", "n_constraints"):
        if k in meta:
            h[f"{k}={meta[k]}"] = 1
    for pi, P in enumerate(Ps):
        Vm = model_solve(mj, P)
        try:
            Vi, _ = impl_solve(mj, P, jit=jit)
        except Exception as e:  # noqa: BLE001
            out["violations"].append({"clause": "solve runs on a supported specification", "detail": f"{impl_site(e)}: {str(e)[:300]}",
                                      "key": f"raise:{impl_site(e)}", "shrink_case": explicit_case(mj, [P], jit=jit)})
            break
        tol = 1e-9 if has_log(mj) else None
        diffs, st = compare_value_arrays(Vi, Vm, mj["n_periods"], tol)
        h[f"log_grids={has_log(mj)}"] = 1
        out["evals"] += st["entries"]
        h["periods_skipped_unsupported"] = h.get("periods_skipped_unsupported", 0) + st["periods_skipped"]
        h["ninf_entries"] = h.get("ninf_entries", 0) + st["ninf"]
        h[f"beta={P['beta']}"] = h.get(f"beta={P['beta']}", 0) + 1
        for d in diffs:
            d["key"] = "value"
            d["shrink_case"] = explicit_case(mj, [P], jit=jit)
            out["violations"].append(d)
        if diffs:
            break
        if pi == 0:
            out["sample"] = {"model": {"n_periods": mj["n_periods"], "states": mj["states"], "choices": mj["choices"],
                                       "functions": [(f["name"], f["args"]) for f in mj["functions"]]},
                             "beta": str(P["beta"]), "jit": jit, "entries_compared": st["entries"],
                             "V0_first_entries_impl": [float(x) for x in (Vi[0].ravel()[:4] if Vi[0].shape else [Vi[0][()]])]}
    if out["evals"] == 0 and not out["violations"]:
        out["skipped"] = "unsupported (no comparable period)"
    return out


def shrink(v):
    from shrink import shrink_model_case

    return shrink_model_case(v, run_case)
