import LcmProofs.SimPanel
import LcmProofs.SimPath
namespace Lcm

/-! # C08 — agents are simulated independently of each other

Model: `agentDecision` inside `simulatePeriod`; all agents of a batch share one data state-choice space
(`repeat` × `tile` product with the restricted choices, one boolean mask, segment ids). The theorems show that
this sharing is not observable: the decision of an agent is a function of its own state. Hypothesis: the agent
has at least one filter-passing restricted choice (otherwise `num_segments = #unique` shifts the rows - outside
the supported inputs). -/

/-- the decision of agent `i` inside any batch equals its decision when simulated alone, tie rule included -/
theorem C08_decision_alone (m : Model) (P : Params) (g : Groups) (t : Nat)
    (next : Option (Tensor Ext × List (List (Name × Rat)))) (states : List (List (Name × Rat)))
    (i : Nat) (hi : i < states.length)
    (hne : (assignments g.sC).filter (agentFilt m P g t (states.getD i [])) ≠ []) :
    agentDecision m P g t next states i = agentDecision m P g t next [states.getD i []] 0 :=
  agentDecision_alone m P g t next states i hi hne

/-- permutation, subset and duplication in one statement: whatever two batches look like, an agent with the
same state gets the same decision and value in both -/
theorem C08_batch_irrelevant (m : Model) (P : Params) (g : Groups) (t : Nat)
    (next : Option (Tensor Ext × List (List (Name × Rat)))) (B B' : List (List (Name × Rat)))
    (i i' : Nat) (hi : i < B.length) (hi' : i' < B'.length) (hst : B.getD i [] = B'.getD i' [])
    (hne : (assignments g.sC).filter (agentFilt m P g t (B.getD i [])) ≠ []) :
    agentDecision m P g t next B i = agentDecision m P g t next B' i' :=
  agentDecision_batch_irrelevant m P g t next B B' i i' hi hi' hst hne

/-- in any model (stochastic or not) the period-0 decision and value of an agent depend only on its own state -/
theorem C08_period0_any_model (m : Model) (P : Params) (V : List (Tensor Ext))
    (B B' : List (List (Name × Rat))) (draws draws' : Draws) (i i' : Nat) (hT : 0 < m.nPeriods)
    (hi : i < B.length) (hi' : i' < B'.length) (hst : B.getD i [] = B'.getD i' [])
    (hne : (assignments (groups m).sC).filter (agentFilt m P (groups m) 0 (B.getD i [])) ≠ []) :
    ((simulate m P V B draws true).getD 0 []).getD i default
      = ((simulate m P V B' draws' true).getD 0 []).getD i' default := by
  rw [simulate_getD m P V B draws 0 hT, simulate_getD m P V B' draws' 0 hT,
    periodOut_record_getD _ _ _ _ _ _ i (by rw [statesAt_length]; exact hi),
    periodOut_record_getD _ _ _ _ _ _ i' (by rw [statesAt_length]; exact hi')]
  exact agentDecision_batch_irrelevant m P (groups m) 0 (simNext m P V 0) B B' i i' hi hi' hst hne

/-- **whole paths, models without stochastic transitions**: the record (value, choices, states) of agent `i`
in *every* period equals the record the agent gets when simulated alone; hence permuting the agents permutes
the rows, any subset gives the same paths, duplicating an agent duplicates its path -/
theorem C08_path_alone (m : Model) (P : Params) (V : List (Tensor Ext)) (init : List (List (Name × Rat)))
    (draws draws' : Draws) (i : Nat) (hi : i < init.length) (hdet : Deterministic m)
    (hne : ∀ t, (assignments (groups m).sC).filter
      (agentFilt m P (groups m) t ((statesAt m P V [init.getD i []] draws' t).getD 0 [])) ≠ [])
    (t : Nat) (ht : t < m.nPeriods) :
    ((simulate m P V init draws true).getD t []).getD i default
      = ((simulate m P V [init.getD i []] draws' true).getD t []).getD 0 default :=
  record_alone m P V init draws draws' i hi hdet hne t ht

/-- two batches (permutation / subset / duplication of each other) give an agent with the same initial state
the same path -/
theorem C08_paths_batch_irrelevant (m : Model) (P : Params) (V : List (Tensor Ext))
    (B B' : List (List (Name × Rat))) (draws draws' draws'' : Draws) (i i' : Nat) (hi : i < B.length) (hi' : i' < B'.length)
    (hst : B.getD i [] = B'.getD i' []) (hdet : Deterministic m)
    (hne : ∀ t, (assignments (groups m).sC).filter
      (agentFilt m P (groups m) t ((statesAt m P V [B.getD i []] draws'' t).getD 0 [])) ≠ [])
    (t : Nat) (ht : t < m.nPeriods) :
    ((simulate m P V B draws true).getD t []).getD i default
      = ((simulate m P V B' draws' true).getD t []).getD i' default := by
  rw [record_alone m P V B draws draws'' i hi hdet hne t ht,
    record_alone m P V B' draws' draws'' i' hi' hdet (by rw [← hst]; exact hne) t ht, hst]

/-- the number of agents is preserved over the periods (no agent is lost or duplicated by the loop) -/
theorem C08_batch_size_constant (m : Model) (P : Params) (V : List (Tensor Ext))
    (init : List (List (Name × Rat))) (draws : Draws) (t : Nat) :
    (statesAt m P V init draws t).length = init.length :=
  statesAt_length m P V init draws t

/-- **the empty batch**: simulating no agents gives, in every period, no records (what finding K23 says the implementation
should return instead of raising) -/
theorem C08_empty_batch (m : Model) (P : Params) (V : List (Tensor Ext)) (draws : Draws) (t : Nat) (ht : t < m.nPeriods) :
    (simulate m P V [] draws true).getD t [] = [] := by
  have := simulate_period_length m P V [] draws t ht
  simpa using this

end Lcm
