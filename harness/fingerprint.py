"""Which parts of the modelled source differ from the tree the model was written against?

The Lean model is hand-written; the correspondence check ties it to whatever /repo contains now. This module adds a
cheap structural comparison: the docstring-free AST of every function and class under src/lcm is hashed and compared
with `source_fingerprint.json` (recorded for the tree the model was last validated on). A difference is *not* a
violation - it tells the check where the code moved away from what the model was written against, is listed in the
evidence file, and makes the check explore more cases (seeds seed, seed+1000, ...), because a change that needs
something specific to manifest is more likely where the code has just changed.

    python harness/fingerprint.py --write      # development: record the current tree
"""
from __future__ import annotations

import ast
import hashlib
import json
import sys
from pathlib import Path

HERE = Path(__file__).resolve().parent
STORE = HERE / "source_fingerprint.json"


def _strip_doc(node):
    for n in ast.walk(node):
        if isinstance(n, (ast.FunctionDef, ast.AsyncFunctionDef, ast.ClassDef, ast.Module)) and n.body:
            b = n.body[0]
            if isinstance(b, ast.Expr) and isinstance(getattr(b, "value", None), ast.Constant) and isinstance(b.value.value, str):
                n.body = n.body[1:] or [ast.Pass()]
    return node


def fingerprint(repo: Path) -> dict:
    out = {}
    root = repo / "src" / "lcm"
    for p in sorted(root.rglob("*.py")):
        rel = str(p.relative_to(repo))
        try:
            tree = _strip_doc(ast.parse(p.read_text()))
        except SyntaxError:
            out[rel + ":<syntax error>"] = "x"
            continue

        def visit(node, prefix):
            for ch in node.body if hasattr(node, "body") else []:
                if isinstance(ch, (ast.FunctionDef, ast.AsyncFunctionDef, ast.ClassDef)):
                    q = f"{prefix}{ch.name}"
                    out[f"{rel}:{q}"] = hashlib.sha256(ast.dump(ch, include_attributes=False).encode()).hexdigest()[:16]
                    if isinstance(ch, ast.ClassDef):
                        visit(ch, q + ".")

        visit(tree, "")
        # module level statements other than definitions (constants, imports)
        rest = [n for n in tree.body if not isinstance(n, (ast.FunctionDef, ast.AsyncFunctionDef, ast.ClassDef))]
        out[f"{rel}:<module>"] = hashlib.sha256("".join(ast.dump(n, include_attributes=False) for n in rest).encode()).hexdigest()[:16]
    return out


def changes(repo: Path) -> list[str]:
    """names (file:qualname) whose structure differs from the recorded tree; [] when the store is missing"""
    if not STORE.exists():
        return []
    old = json.loads(STORE.read_text())["functions"]
    new = fingerprint(repo)
    ch = [k for k in new if k in old and new[k] != old[k]]
    ch += [k + " (new)" for k in new if k not in old]
    ch += [k + " (removed)" for k in old if k not in new]
    return sorted(ch)


def anchored(prop: str) -> list[str]:
    for line in (HERE.parent / "properties.jsonl").read_text().splitlines():
        if line.strip():
            d = json.loads(line)
            if d["id"] == prop:
                return list(d.get("anchors", {}).get("files", []))
    return []


if __name__ == "__main__":
    sys.path.insert(0, str(HERE))
    from common import REPO

    if "--write" in sys.argv:
        import subprocess

        head = subprocess.run(["git", "-C", str(REPO), "rev-parse", "HEAD"], capture_output=True, text=True).stdout.strip()
        STORE.write_text(json.dumps({"repo_head": head, "functions": fingerprint(REPO)}, indent=0, sort_keys=True))
        print(f"recorded {len(fingerprint(REPO))} definitions at {head}")
    else:
        print(json.dumps(changes(REPO), indent=1))
