import LcmModel.Tensor
namespace Lcm
variable {α : Type} [Inhabited α]

def Tensor.slice (t : Tensor α) (i : Nat) : Tensor α :=
  { shape := t.shape.tail, get := fun idx => t.get (i :: idx) }

instance : Inhabited (Tensor α) := ⟨{ shape := [], get := fun _ => default }⟩

/-- `jax.vmap(f, in_axes)` with `in_axes[p] = 0` and `None` elsewhere: the mapped axis becomes
the first axis of the output. -/
def vmapAt (f : List (Tensor α) → Tensor α) (p : Nat) (args : List (Tensor α)) : Tensor α :=
  { shape := (args[p]!).shape.headD 0 :: (f (args.set p ((args[p]!).slice 0))).shape
    get := fun idx => match idx with
      | [] => default
      | i :: rest => (f (args.set p ((args[p]!).slice i))).get rest }

/-- `_base_productmap`: iterate over `reversed(positions)`, wrapping with vmap each time. -/
def baseProductmap (f : List (Tensor α) → Tensor α) (positions : List Nat) :
    List (Tensor α) → Tensor α :=
  positions.reverse.foldl (fun g p => vmapAt g p) f

/-- replace the arguments at `positions` by their slices at `is` (pairwise) -/
def setSlices (args : List (Tensor α)) : List Nat → List Nat → List (Tensor α)
  | p :: ps, i :: is => setSlices (args.set p ((args[p]!).slice i)) ps is
  | _, _ => args

end Lcm
