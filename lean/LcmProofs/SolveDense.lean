import LcmProofs.SolvePeriod
namespace Lcm

/-! R1 for one period on the executable model `solvePeriod`, branch without filter-restricted
variables (no stored rows, no segments): `spacemap` over the dense axes, max over the dense discrete
choice axes `[nd, nd+nc)`. -/

theorem maxMid_shape_dense (g : Groups) :
    List.take g.dS.length (sizes g.dS ++ sizes g.dC ++ sizes (cStateGrids g))
        ++ List.drop (g.dS.length + g.dC.length) (sizes g.dS ++ sizes g.dC ++ sizes (cStateGrids g))
      = sizes g.dS ++ sizes (cStateGrids g) := by
  rw [take_app3 _ _ _ _ (sizes_length g.dS), drop_app3' _ _ _ _ _ (sizes_length g.dS) (sizes_length g.dC)]

theorem block_shape_dense (g : Groups) :
    List.take g.dC.length (List.drop g.dS.length (sizes g.dS ++ sizes g.dC ++ sizes (cStateGrids g)))
      = sizes g.dC := by
  rw [drop_app3 _ _ _ _ (sizes_length g.dS)]
  exact List.take_left' (sizes_length g.dC)

theorem solvePeriod_get_dense (m : Model) (P : Params) (g : Groups) (t : Nat) (sp : Space)
    (next : Option (Tensor Ext × List (List (Name × Rat))))
    (hdense : (!(g.sS.isEmpty && g.sC.isEmpty)) = false)
    (dIdx xIdx : List Nat)
    (hd : InBounds (sizes g.dS) dIdx) (hx : InBounds (sizes (cStateGrids g)) xIdx) :
    (solvePeriod m P g t sp next).get (dIdx ++ xIdx)
      = foldMax ((assignments g.dC).map fun e =>
          ccvEnv m P g t next (toEnv (pickAt g.dS dIdx ++ e ++ pickAt (cStateGrids g) xIdx))) := by
  have hdl : dIdx.length = g.dS.length := by rw [inBounds_length _ _ hd, sizes_length]
  unfold solvePeriod
  simp only [hdense, Bool.false_eq_true, if_false]
  rw [materialize_get]
  swap
  · show InBounds _ (dIdx ++ xIdx)
    simp only [Tensor.maxMid, Tensor.materialize, ccvDense]
    rw [maxMid_shape_dense]
    exact inBounds_append _ _ _ _ hd hx
  simp only [Tensor.maxMid]
  have hblock : List.take g.dC.length (List.drop g.dS.length (ccvDense m P g t next).materialize.shape)
      = sizes g.dC := by
    simp only [Tensor.materialize, ccvDense]
    exact block_shape_dense g
  rw [hblock, ← allIdx_pickAt g.dC, List.map_map]
  congr 1
  apply List.map_congr_left
  intro j hj
  have hjb := mem_allIdx_inBounds _ _ hj
  have hjl : j.length = g.dC.length := by rw [inBounds_length _ _ hjb, sizes_length]
  rw [List.take_left' hdl, List.drop_left' hdl, materialize_get]
  · show ccvEnv m P g t next (denseEnv g (dIdx ++ j ++ xIdx)) = _
    simp only [Function.comp]
    rw [denseEnv_append g dIdx j xIdx hdl hjl]
  · show InBounds _ (dIdx ++ j ++ xIdx)
    exact inBounds_append _ _ _ _ (inBounds_append _ _ _ _ hd hjb) hx

/-- objective-and-feasibility evaluation for the dense state addressed by `(dIdx, xIdx)` -/
def objAtDense (m : Model) (P : Params) (g : Groups) (t : Nat)
    (next : Option (Tensor Ext × List (List (Name × Rat)))) (dIdx xIdx : List Nat)
    (e y : List (Name × Rat)) : Option (Rat × Bool) :=
  uAndF m P g t next (toEnv (pickAt g.dS dIdx ++ e ++ pickAt (cStateGrids g) xIdx) ++ toEnv y)

theorem ccvEnv_eq_ccvAt_dense (m : Model) (P : Params) (g : Groups) (t : Nat)
    (next : Option (Tensor Ext × List (List (Name × Rat)))) (dIdx xIdx : List Nat)
    (e : List (Name × Rat)) :
    ccvEnv m P g t next (toEnv (pickAt g.dS dIdx ++ e ++ pickAt (cStateGrids g) xIdx))
      = ccvAt (assignments g.cC)
          (fun (_ : Unit) (_ : Unit) e y => valueOf (objAtDense m P g t next dIdx xIdx e y))
          (fun (_ : Unit) (_ : Unit) e y => feasibleOf (objAtDense m P g t next dIdx xIdx e y)) () () e := by
  unfold ccvEnv ccvAt
  apply maskedMax_map_congr
  intro y _ hy
  simp only [objAtDense] at hy ⊢
  cases h : uAndF m P g t next (toEnv (pickAt g.dS dIdx ++ e ++ pickAt (cStateGrids g) xIdx) ++ toEnv y) with
  | none => rw [h] at hy; simp [feasibleOf] at hy
  | some p => rfl

/-- **R1 for one period, no restricted variables**: the entry at `(dIdx, xIdx)` is the maximum of the
objective over all (unrestricted discrete `e`, continuous `y`) grid choices for which `uAndF` reports
feasibility; −inf iff there is none -/
theorem solvePeriod_isMax_dense (m : Model) (P : Params) (g : Groups) (t : Nat) (sp : Space)
    (next : Option (Tensor Ext × List (List (Name × Rat))))
    (hdense : (!(g.sS.isEmpty && g.sC.isEmpty)) = false)
    (dIdx xIdx : List Nat)
    (hd : InBounds (sizes g.dS) dIdx) (hx : InBounds (sizes (cStateGrids g)) xIdx) :
    IsMaxOver
      (fun x : List (Name × Rat) × List (Name × Rat) =>
        x.1 ∈ assignments g.dC ∧ (x.2 ∈ assignments g.cC ∧
          feasibleOf (objAtDense m P g t next dIdx xIdx x.1 x.2) = true))
      (fun x => valueOf (objAtDense m P g t next dIdx xIdx x.1 x.2))
      ((solvePeriod m P g t sp next).get (dIdx ++ xIdx)) := by
  rw [solvePeriod_get_dense m P g t sp next hdense dIdx xIdx hd hx]
  simp only [ccvEnv_eq_ccvAt_dense]
  -- nested max: dense discrete choices outside, continuous choices inside
  have hin : ∀ e, IsMaxOver (fun y => y ∈ assignments g.cC ∧ feasibleOf (objAtDense m P g t next dIdx xIdx e y) = true)
      (fun y => valueOf (objAtDense m P g t next dIdx xIdx e y))
      (ccvAt (assignments g.cC)
        (fun (_ : Unit) (_ : Unit) e y => valueOf (objAtDense m P g t next dIdx xIdx e y))
        (fun (_ : Unit) (_ : Unit) e y => feasibleOf (objAtDense m P g t next dIdx xIdx e y)) () () e) := by
    intro e
    unfold ccvAt
    rw [maskedMax_map]
    exact isMaxOver_filter _ _ _
  exact isMaxOver_nested (assignments g.dC) (fun e => e ∈ assignments g.dC) (fun _ h => h)
    (fun e y => y ∈ assignments g.cC ∧ feasibleOf (objAtDense m P g t next dIdx xIdx e y) = true)
    (fun e y => valueOf (objAtDense m P g t next dIdx xIdx e y)) _ (fun e _ => hin e)
    (assignments g.dC) (fun _ => Iff.rfl)

#print axioms solvePeriod_isMax_dense
end Lcm
