import LcmModel.Space
import Mathlib.Algebra.Order.Field.Rat
namespace Lcm
variable {S C : Type}

theorem Ext.max_ninf_left (a : Ext) : Ext.max .ninf a = a := by cases a <;> rfl
theorem Ext.max_ninf_right (a : Ext) : Ext.max a .ninf = a := by cases a <;> rfl

theorem Ext.max_assoc (a b c : Ext) : Ext.max (Ext.max a b) c = Ext.max a (Ext.max b c) := by
  cases a <;> cases b <;> cases c <;> simp [Ext.max]
  rename_i a b c
  grind

theorem foldl_max_init (xs : List Ext) (a : Ext) :
    xs.foldl Ext.max a = Ext.max a (foldMax xs) := by
  induction xs generalizing a with
  | nil => simp [foldMax, Ext.max_ninf_right]
  | cons x xs ih =>
    simp only [foldMax, List.foldl_cons]
    rw [ih, ih (Ext.max .ninf x), Ext.max_ninf_left, Ext.max_assoc]

theorem foldMax_append (xs ys : List Ext) :
    foldMax (xs ++ ys) = Ext.max (foldMax xs) (foldMax ys) := by
  simp only [foldMax, List.foldl_append]
  rw [foldl_max_init]; rfl

theorem foldMax_nil : foldMax [] = .ninf := rfl

/-- combos of (s :: rest) splits into the block of s and the combos of rest -/
theorem combos_cons (s : S) (rest : List S) (scGrid : List C) (filt : S → C → Bool) :
    combos (s :: rest) scGrid filt
      = ((scGrid.filter (filt s)).map fun c => (s, c)) ++ combos rest scGrid filt := by
  simp [combos, List.filter_map, Function.comp_def]

end Lcm

namespace Lcm
variable {S C : Type}

theorem repeatArange_cons (c : Nat) (cs : List Nat) (off : Nat) :
    repeatArange (c :: cs) off = List.replicate c off ++ repeatArange cs (off + 1) := by
  simp [repeatArange, List.zipIdx_cons]

theorem mem_repeatArange_ge (cs : List Nat) (off x : Nat) (h : x ∈ repeatArange cs off) : off ≤ x := by
  induction cs generalizing off with
  | nil => simp [repeatArange] at h
  | cons c cs ih =>
    rw [repeatArange_cons] at h
    rcases List.mem_append.mp h with h | h
    · have := (List.mem_replicate.mp h).2; omega
    · have := ih (off + 1) h; omega

/-- a block whose ids are all ≠ k contributes nothing -/
theorem filterMap_zip_ne (vals : List Ext) (ids : List Nat) (k : Nat) (h : ∀ x ∈ ids, x ≠ k) :
    ((vals.zip ids).filterMap fun p => if p.2 = k then some p.1 else none) = [] := by
  induction vals generalizing ids with
  | nil => simp
  | cons v vs ih =>
    cases ids with
    | nil => simp
    | cons i is =>
      have hi : i ≠ k := h i (by simp)
      simp [List.zip_cons_cons, List.filterMap_cons, hi]
      intro a b hab
      exact h b (List.mem_cons_of_mem _ (List.of_mem_zip hab).2)

/-- a block whose ids are all = k contributes all its values -/
theorem filterMap_zip_eq (vals : List Ext) (n k : Nat) (hlen : vals.length = n) :
    ((vals.zip (List.replicate n k)).filterMap fun p => if p.2 = k then some p.1 else none) = vals := by
  induction vals generalizing n with
  | nil => simp
  | cons v vs ih =>
    cases n with
    | zero => simp at hlen
    | succ m =>
      simp [List.replicate_succ, List.zip_cons_cons, List.filterMap_cons]
      exact ih m (by simpa using hlen)

theorem zip_append_of_length {α β} (a1 a2 : List α) (b1 b2 : List β) (h : a1.length = b1.length) :
    (a1 ++ a2).zip (b1 ++ b2) = a1.zip b1 ++ a2.zip b2 := List.zip_append h

/-- Main lemma: the segment max over the stored rows, for segment `k + off`, is the max over the
filter-passing choices of the `k`-th feasible state. Offset-generalised for the induction. -/
theorem segMaxAt_combos_aux (ssGrid : List S) (scGrid : List C) (filt : S → C → Bool)
    (g : S × C → Ext) (off k : Nat) (hk : k < (feasStates ssGrid scGrid filt).length) :
    segMaxAt ((combos ssGrid scGrid filt).map g)
        (repeatArange ((feasStates ssGrid scGrid filt).map fun s => (scGrid.filter (filt s)).length) off)
        (k + off)
      = foldMax ((scGrid.filter (filt ((feasStates ssGrid scGrid filt)[k]))).map
          fun c => g ((feasStates ssGrid scGrid filt)[k], c)) := by
  induction ssGrid generalizing off k with
  | nil => simp [feasStates] at hk
  | cons s rest ih =>
    rw [combos_cons]
    by_cases hs : scGrid.any (filt s) = true
    · -- s is feasible: it is the head of feasStates
      have hfs : feasStates (s :: rest) scGrid filt = s :: feasStates rest scGrid filt := by
        simp only [feasStates, List.filter_cons, hs, if_true]
      simp only [hfs, List.map_cons, repeatArange_cons, List.map_append, List.map_map]
      unfold segMaxAt
      rw [List.zip_append (by simp), List.filterMap_append, foldMax_append]
      cases k with
      | zero =>
        simp only [Nat.zero_add, List.getElem_cons_zero]
        rw [filterMap_zip_eq _ _ _ (by simp)]
        rw [filterMap_zip_ne _ _ off (by
          intro x hx; have := mem_repeatArange_ge _ _ _ hx; omega)]
        simp [foldMax_nil, Ext.max_ninf_right, Function.comp_def]
      | succ k' =>
        rw [filterMap_zip_ne _ (List.replicate _ off) (k' + 1 + off) (by
          intro x hx; have := (List.mem_replicate.mp hx).2; omega)]
        simp only [foldMax_nil, Ext.max_ninf_left, List.getElem_cons_succ]
        have hk' : k' < (feasStates rest scGrid filt).length := by
          simpa [hfs] using hk
        have := ih (off + 1) k' hk'
        unfold segMaxAt at this
        have e : k' + 1 + off = k' + (off + 1) := by omega
        rw [e]; exact this
    · -- s infeasible: no passing choice, block empty, feasStates unchanged
      have hfs : feasStates (s :: rest) scGrid filt = feasStates rest scGrid filt := by
        simp only [feasStates, List.filter_cons, hs]; simp
      have hempty : scGrid.filter (filt s) = [] := by
        simp only [List.any_eq_true, not_exists, not_and] at hs
        exact List.filter_eq_nil_iff.mpr (fun c hc => by simpa using hs c hc)
      simp only [hfs, hempty, List.map_nil, List.nil_append]
      exact ih off k (by simpa [hfs] using hk)

theorem segMaxAt_combos (ssGrid : List S) (scGrid : List C) (filt : S → C → Bool)
    (g : S × C → Ext) (k : Nat) (hk : k < (feasStates ssGrid scGrid filt).length) :
    segMaxAt ((combos ssGrid scGrid filt).map g) (segIdsImpl ssGrid scGrid filt) k
      = foldMax ((scGrid.filter (filt ((feasStates ssGrid scGrid filt)[k]))).map
          fun c => g ((feasStates ssGrid scGrid filt)[k], c)) := by
  have := segMaxAt_combos_aux ssGrid scGrid filt g 0 k hk
  simpa [segIdsImpl] using this

#print axioms segMaxAt_combos
end Lcm
