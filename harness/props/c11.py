"""C11 - the solution obeys the algebraic laws of finite-horizon dynamic programming.

Metamorphic oracle (two implementation runs each; no reference solution needed, so the thorough tier also
uses specifications far larger than the Lean driver enumerates):
  affine     utility -> a*utility + b (a > 0)  =>  V'_t = a V_t + b * sum_{k < T-t} beta^k
  beta0      beta = 0  =>  V_t = value of the one-period problem of period t (the (t+1)-period model's last array)
  stationary no function reads _period  =>  V^T_{T-1-j} = V^{T'}_{T'-1-j}
  degenerate stochastic state with point-mass rows  =>  same solution as the deterministic transition
On the quick tier the base run is also compared with the Lean model. The Lean theorems (LcmProps/C11) prove
the laws for the specification-level Bellman operator by backward induction.
"""
from __future__ import annotations

import copy
import itertools
import random
from fractions import Fraction as Fr

from common import close_floats, fr, impl, impl_site
from dsl import N, V, ev, params_impl
from gen import nontrivial, signature
from pipeline import ImplFns, compare_value_arrays, explicit_case, materialise_case, model_solve
from props.simcommon import base_out

CANARY = True
RULE = ("cases = generated dyadic specifications x {affine transformation of utility, beta = 0, horizon change of a period-independent "
        "model, degenerate stochastic transition}; distinct = structural signature x law; evaluations = array entries related by the law")
ASSUMPTIONS = ["exact comparison on dyadic inputs (a, b, beta dyadic)", "rows of every transition array sum to one (generator)"]
LAWS = ["affine", "beta0", "stationary", "degenerate"]
FORCES = [None, ["filter"], ["stoch"], ["mixed"], ["constraint"], ["cont2"], ["aux"], ["stoch", "filter"], ["stoch3", "eqsize"], ["stoch3"],
          ["constraint", "pconstraint", "noperiod"]]


def cases(seed, tier):
    n = 44 if tier == "quick" else 528
    out = []
    for i in range(n):
        law = LAWS[i % 4]
        f = list(FORCES[(i // 4) % len(FORCES)] or [])
        if law == "stationary":
            f.append("noperiod")
        if law == "degenerate":
            f = [x for x in f if x != "stoch"] + ["nostoch", "discrete"]
        big = tier == "thorough" and i % 10 == 9
        out.append({"kind": "gen", "seed": seed * 1_000_003 + 11001 + i, "force": f, "n_params": 1, "law": law,
                    "budget": 200000 if big else 2500, "model_compare": not big})
    return out


def finite(V):
    import numpy as np

    return all(np.all(np.isfinite(v)) for v in V)


def run_case(case):
    I = impl()
    np = I.np
    mj, meta, Ps, r = materialise_case(case)
    P = Ps[0]
    law = case.get("law", "affine")
    info = {"mj": mj, "meta": meta}
    out = base_out(info, case)
    out["sig"] += "|" + law
    out["hist"][f"law={law}"] = 1
    T = mj["n_periods"]
    rc = explicit_case(mj, [P], law=law, seed=case.get("seed", 0), meta=meta, model_compare=case.get("model_compare", True))
    vs = []
    evals = 0

    def solve(m, p):
        return [np.asarray(v) for v in ImplFns(m).solve(params_impl(p))]

    try:
        if law == "beta0":
            P = copy.deepcopy(P)
            P["beta"] = Fr(0)
        if law in ("stationary", "degenerate") and P["beta"] == 0:
            P = copy.deepcopy(P)
            P["beta"] = Fr(3, 4)
        V1 = solve(mj, P)
        if case.get("model_compare", True):
            Vm = model_solve(mj, P)
            diffs, _ = compare_value_arrays(V1, Vm, T)
            for d in diffs[:1]:
                vs.append({"clause": "base specification equals the model", "detail": d["detail"]})
            if any(Vm["undef"]):
                out["skipped"] = "unsupported (undefined transition)"
                return out
        if not finite(V1):
            out["skipped"] = "unsupported (-inf value)"
            return out
        if law == "affine":
            a = r.choice([Fr(1, 2), Fr(2), Fr(3), Fr(3, 2)])
            b = r.choice([Fr(1), Fr(-1), Fr(1, 2), Fr(-3)])
            m2 = copy.deepcopy(mj)
            wrapped = case.get("seed", 0) % 2 == 1
            out["hist"][f"affine_as_decorator={wrapped}"] = 1
            for f in m2["functions"]:
                if f["name"] == "utility":
                    if wrapped:
                        f["affine_wrap"] = [str(a), str(b)]      # see dsl.build_model: functools.wraps decorator around the old utility
                    else:
                        f["body"] = ["add", ["mul", N(a), f["body"]], N(b)]
            V2 = solve(m2, P)
            for t in range(T):
                geo = sum(P["beta"] ** k for k in range(T - t))
                want = float(a) * V1[t] + float(b * geo)
                evals += int(V1[t].size)
                if not close_floats(want, V2[t]):
                    k = int(np.nonzero(np.ravel(want != V2[t]))[0][0])
                    vs.append({"clause": "utility -> a*utility + b gives a*V + b*sum beta^k", "detail": f"a={a} b={b} beta={P['beta']} period {t} flat index {k}: expected {fr(float(np.ravel(want)[k]))}, got {fr(float(np.ravel(V2[t])[k]))}"})
                    break
        elif law == "beta0":
            for t in range(T):
                m2 = copy.deepcopy(mj)
                m2["n_periods"] = t + 1
                P2 = copy.deepcopy(P)
                # transition arrays that depend on _period: keep the first t+1 slices along that axis
                for f in mj["functions"]:
                    if f.get("stochastic") and "_period" in f["args"]:
                        x = f["name"].removeprefix("next_")
                        ax = f["args"].index("_period")
                        arr = np.array(P["shocks"][x]["data"], dtype=object).reshape(P["shocks"][x]["shape"])
                        arr = np.take(arr, range(t + 1), axis=ax)
                        P2["shocks"][x] = {"shape": list(arr.shape), "data": list(arr.ravel())}
                # the f1 / ninf families mention the last period index through constants of the *generated* model: they are
                # functions of _period only, hence unchanged
                V2 = solve(m2, P2)
                evals += int(V1[t].size)
                if V2[t].shape != V1[t].shape or not close_floats(V2[t], V1[t]):
                    vs.append({"clause": "with beta = 0 every period equals its one-period problem", "detail": f"period {t}: {V1[t].ravel()[:4]} vs one-period {V2[t].ravel()[:4]}"})
                    break
        elif law == "stationary":
            if any("_period" in f["args"] for f in mj["functions"]):
                out["skipped"] = "specification reads _period"
                return out
            T2 = T + r.choice([1, 2])
            m2 = copy.deepcopy(mj)
            m2["n_periods"] = T2
            V2 = solve(m2, P)
            for j in range(T):
                evals += int(V1[T - 1 - j].size)
                if not close_floats(V1[T - 1 - j], V2[T2 - 1 - j]):
                    vs.append({"clause": "period-independent model: values j periods before the end are the same for every horizon", "detail": f"T={T}, T'={T2}, j={j}"})
                    break
        elif law == "degenerate":
            cand = [f for f in mj["functions"] if f["name"].startswith("next_") and not f.get("stochastic") and f.get("ints")
                    and dict(mj["states"]).get(f["name"][5:], {}).get("k") == "disc"]
            if not cand:
                out["skipped"] = "no deterministic discrete transition to make degenerate"
                return out
            f0 = r.choice(cand)
            x = f0["name"][5:]
            sizes = {k: g["n"] for k, g in mj["states"] + mj["choices"]}
            sizes["_period"] = T
            m2 = copy.deepcopy(mj)
            for f in m2["functions"]:
                if f["name"] == f0["name"]:
                    f["stochastic"] = True
                    f["body"] = N(0)
            nlab = sizes[x]
            shape = [sizes[a] for a in f0["args"]] + [nlab]
            data = []
            for idx in itertools.product(*[range(sizes[a]) for a in f0["args"]]):
                lab = int(ev(f0["body"], dict(zip(f0["args"], [Fr(i) for i in idx]))))
                data.extend(Fr(1) if k == lab else Fr(0) for k in range(nlab))
            P2 = copy.deepcopy(P)
            P2["shocks"][x] = {"shape": shape, "data": data}
            V2 = solve(m2, P2)
            for t in range(T):
                evals += int(V1[t].size)
                if V1[t].shape != V2[t].shape or not close_floats(V1[t], V2[t]):
                    vs.append({"clause": "degenerate transition rows give the same solution as the deterministic transition", "detail": f"state {x} period {t}: {V1[t].ravel()[:4]} vs {V2[t].ravel()[:4]}"})
                    break
    except Exception as e:  # noqa: BLE001
        out["violations"].append({"clause": "related specifications are solved", "detail": f"{law}: {impl_site(e)}: {str(e)[:300]}", "key": f"raise:{impl_site(e)}", "shrink_case": rc})
        return out
    out["evals"] = evals
    for v in vs[:3]:
        v["key"] = "C11:" + v["clause"]
        v["shrink_case"] = rc
        out["violations"].append(v)
    out["sample"] = {"law": law, "T": T, "beta": str(P["beta"]), "entries_related": evals}
    return out
