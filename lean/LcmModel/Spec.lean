import LcmModel.Solve
import LcmModel.Sim
namespace Lcm

/-! Specification level (DESIGN §3.3): plain enumeration, no axes, no segments, no arg-max chain.
The driver serves these to the harness as the *oracle side* of the pipeline properties; the
refinement theorems relate the implementation-shaped definitions (`solvePeriod`, `agentDecision`)
to statements of this shape. -/

/-- all grid choice combinations, in declaration order of the choices -/
def allChoices (m : Model) : List (List (Name × Rat)) :=
  assignments (m.choices.map fun p => (p.1, p.2.points))

def filterNames (m : Model) : List Name := ((functionInfo m).filter (·.isFilter)).map (·.name)

/-- objective of a state-choice pair and whether the pair is admissible (every filter and every
constraint holds); `none` = undefined (outside the supported class) -/
def specQ (m : Model) (P : Params) (g : Groups) (t : Nat)
    (next : Option (Tensor Ext × List (List (Name × Rat)))) (st ch : List (Name × Rat)) :
    Option (Rat × Bool) := do
  let env := toEnv (st ++ ch)
  let filt ← allTrue m P (env ++ periodEnv t) (filterNames m)
  match uAndF m P g t next env with
  | some (q, f) => pure (q, filt && f)
  | none => if filt then none else pure (0, false)

structure AgentSpec where
  best : Ext                       -- max of Q over admissible grid choices
  nOptimal : Nat                   -- number of admissible grid choices attaining it
  nAdmissible : Nat
  undefined : Bool                 -- some admissible-by-filter choice has an undefined objective
  qReported : Option (Rat × Bool)  -- objective / admissibility of the reported choice
  onGrid : Bool                    -- the reported choice is a combination of grid values
  nextDet : List (Name × Rat)      -- deterministic transitions evaluated at the reported choice
  rows : List (Name × List Rat)    -- transition row of every stochastic state at the reported choice
deriving Inhabited

def specAgent (m : Model) (P : Params) (g : Groups) (t : Nat)
    (next : Option (Tensor Ext × List (List (Name × Rat)))) (st ch : List (Name × Rat)) : AgentSpec :=
  let cands := (allChoices m).map fun c => specQ m P g t next st c
  let adm := cands.filterMap fun o => match o with | some (q, true) => some q | _ => none
  let best := foldMax (adm.map Ext.fin)
  let env := toEnv (st ++ ch) ++ periodEnv t
  let nexts := (functionInfo m).filter (·.isNext)
  { best := best
    nOptimal := (adm.filter fun q => Ext.fin q == best).length
    nAdmissible := adm.length
    undefined := cands.any (·.isNone)
    qReported := specQ m P g t next st ch
    onGrid := (allChoices m).any fun c => m.choices.all fun p =>
      (c.find? (·.1 == p.1)).map (·.2) == (ch.find? (·.1 == p.1)).map (·.2)
    nextDet := (nexts.filter (!·.isStochasticNext)).filterMap fun nf =>
      (callF m P m.fuel env nf.name).map fun v => (stripNext nf.name, v.toRat)
    rows := (nexts.filter (·.isStochasticNext)).filterMap fun nf => do
      let f ← m.func? nf.name
      let x := stripNext nf.name
      let deps ← f.args.mapM fun a => (env.get? a).map fun v => natOfRat v.toRat
      let arr ← (P.shocks.find? (·.1 == x)).map (·.2)
      let nlab := arr.shape.getLastD 0
      pure (x, (List.range nlab).map fun l => arr.get (deps ++ [l])) }

/-- Bellman value of one grid state by plain enumeration (independent of `solvePeriod`) -/
def specV (m : Model) (P : Params) (g : Groups) (t : Nat)
    (next : Option (Tensor Ext × List (List (Name × Rat)))) (st : List (Name × Rat)) : Ext :=
  foldMax (((allChoices m).filterMap fun c =>
    match specQ m P g t next st c with | some (q, true) => some q | _ => none).map Ext.fin)

end Lcm
