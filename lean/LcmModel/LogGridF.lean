namespace Lcm

/-! `Float` transcription of `lcm.grid_helpers.logspace` / `get_logspace_coordinate` (tolerance
stream of C15/C16). The same text over `ℝ` (`LcmProofs/LogGrid.lean`: `logCoord`, `logNode`) is what the
theorems are about; `Float` is opaque to the kernel, so this instance carries no theorem. -/

def linCoordF (v a b : Float) (n : Nat) : Float :=
  let step := (b - a) / (n.toFloat - 1.0)
  (v - a) / step

def logCoordF (v a b : Float) (n : Nat) : Float :=
  let startLin := Float.log a
  let stopLin := Float.log b
  let valueLin := Float.log v
  let coordLin := linCoordF valueLin startLin stopLin n
  let rankLower := Float.floor coordLin
  let rankUpper := rankLower + 1.0
  let stepLin := (stopLin - startLin) / (n.toFloat - 1.0)
  let lower := Float.exp (startLin + stepLin * rankLower)
  let upper := Float.exp (startLin + stepLin * rankUpper)
  let decimal := (v - lower) / (upper - lower)
  rankLower + decimal

def logspaceF (a b : Float) (n : Nat) : List Float :=
  let la := Float.log a
  let lb := Float.log b
  if n ≤ 1 then [Float.exp la]
  else (List.range n).map fun i => Float.exp (la + i.toFloat * ((lb - la) / (n.toFloat - 1.0)))

def linspaceF (a b : Float) (n : Nat) : List Float :=
  if n ≤ 1 then [a] else (List.range n).map fun i => a + i.toFloat * ((b - a) / (n.toFloat - 1.0))

end Lcm
