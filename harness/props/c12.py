"""C12 - specifications are rejected up front or run to completion.

Malformed stream: a valid generated specification plus 1-3 rule violations (n_periods < 1, no utility, state
without transition, name used as state and choice, non-grid / non-callable entries, non-string keys,
stochastic transition on / depending on a continuous variable, filter with parameters, invalid grid).
The Lean model (`validateModel`, `validateContinuous`) predicts the stage and kind of the rejection;
oracle: the implementation rejects while the grid, the model or the functions are created, with the
library's initialization error or a ValueError - never later, never silently.
Accepted stream: generated supported specifications must be solved and simulated with parameters that
follow the *implementation's own* template without any error.
Unsupported-shape stream: the accepted-but-failing shapes listed in known_findings.json.
"""
from __future__ import annotations

import copy
import random
from fractions import Fraction as Fr

from common import driver, impl, impl_site
from dsl import mkfunc, mkgrid, num_py, params_impl
from gen import gen_initial_states, gen_model, gen_params, nontrivial, signature, strip
from pipeline import init_impl, materialise_case
from props.simcommon import base_out

RULE = ("cases = generated valid specifications x {0 violations (accepted stream), 1-3 combined rule violations (malformed stream)} + the "
        "accepted-but-unsupported shapes of the known findings; distinct = structural signature x set of violated rules; evaluations = "
        "specifications classified (constructed, functions created, solved, simulated)")
ASSUMPTIONS = ["wrong *types* of n_periods and non-dict containers are not among the listed rules and are not generated"]
VIOLATIONS = ["n_periods", "no_utility", "no_next", "overlap", "non_grid", "non_callable", "key_not_str", "stoch_on_cont", "stoch_dep_cont", "stoch_dep_other",
              "filter_param", "filter_param_aux", "bad_grid", "bad_disc"]
BAD_DISC = [[0, 2, 1, 3], [0, 0.5, 2], [1, 0], [0, 2], [0, 1, 1], [0, 3, 1, 2, 4], [0, 1, 3], [1, 2, 3], [0, "a"], [0, None, 2], [0, 5, 7, 3]]
FORCES = [None, ["filter"], ["stoch"], ["mixed"], ["constraint"], ["cont2"], ["aux"], ["f1"]]


def cases(seed, tier):
    n = 195 if tier == "quick" else 1500
    out = []
    for i in range(n):
        c = {"kind": "gen", "seed": seed * 1_000_003 + 12001 + i, "force": FORCES[i % len(FORCES)], "n_params": 1, "budget": 1500}
        if i % 3 == 0:
            c["violations"] = []
        elif i % 3 == 1:
            # systematic: every single rule on top of every base family (rules that need a specific base, e.g. another
            # valid stochastic state next to the offending one, are then met)
            j = i // 3
            c["violations"] = [VIOLATIONS[j % len(VIOLATIONS)]]
            c["force"] = [None, ["stoch3"], ["stoch", "filter"], ["cont2", "stoch"], ["stoch3", "aux"]][(j // len(VIOLATIONS)) % 5]
            if c["violations"][0] == "stoch_dep_other":
                c["force"] = sorted(set((c["force"] or []) + ["stoch3"]))
            if c["violations"][0] in ("stoch_on_cont", "stoch_dep_cont"):
                c["force"] = sorted(set((c["force"] or []) + ["stoch", "cs"]))   # "cs" guarantees a continuous state
        else:
            r = random.Random(c["seed"] + 5)
            k = r.choice([1, 2, 2, 3])
            c["violations"] = sorted(r.sample(VIOLATIONS, k=k))
        out.append(c)
    # every invalid grid of the two tables once (the grid is rejected before any model is created: cheap)
    for k in range(len(BAD_GRIDS) + len(BAD_DISC)):
        out.append({"kind": "gen", "seed": seed * 1_000_003 + 12901 + k, "force": None, "n_params": 1, "budget": 600,
                    "violations": ["bad_grid" if k < len(BAD_GRIDS) else "bad_disc"], "bad_index": k if k < len(BAD_GRIDS) else k - len(BAD_GRIDS)})
    return out


BAD_GRIDS = [  # (kind, start, stop, n_points) as python values, and their PyVal JSON
    ("lin", 1, 1, 3), ("lin", 2, 1, 3), ("lin", 0, 1, 0), ("lin", 0, 1, -2), ("lin", 0, 1, 2.0), ("lin", "a", 1, 3), ("lin", 0, None, 3),
    ("log", 3, 2, 4), ("lin", 0.5, 0.5, 1),
    ("lin", float("nan"), 1.0, 3), ("lin", 1.0, float("nan"), 3), ("log", 1.0, float("nan"), 3), ("log", float("nan"), 10.0, 4),
    ("lin", float("inf"), 1.0, 3), ("lin", 0.0, float("inf"), 3), ("log", 1.0, float("inf"), 3), ("lin", float("-inf"), 0.0, 2),
]


def pyval_json(v):
    if isinstance(v, bool):
        return ["bool", v]
    if isinstance(v, int):
        return ["int", v]
    if isinstance(v, float):
        if v != v:
            return ["float", "nan"]
        if v in (float("inf"), float("-inf")):
            return ["float", "inf" if v > 0 else "-inf"]
        return ["float", str(Fr(v))]
    if isinstance(v, str):
        return ["str"]
    if v is None:
        return ["none"]
    return ["other"]


def apply_violations(r, mj, kinds, bad_index=None):
    """-> (raw model description for the builder and for the Lean model, applied kinds, bad grid or None)"""
    raw = copy.deepcopy(strip(mj))
    raw["states"] = [[k, g, True, True] for k, g in raw["states"]]
    raw["choices"] = [[k, g, True, True] for k, g in raw["choices"]]
    for f in raw["functions"]:
        f["key_ok"] = True
        f["value_ok"] = True
        f["ints"] = next(x.get("ints", True) for x in mj["functions"] if x["name"] == f["name"])
    applied = []
    bad_grid = None
    snames = [s[0] for s in raw["states"]]
    cstates = [s[0] for s in raw["states"] if s[1]["k"] != "disc"]
    dstates = [s[0] for s in raw["states"] if s[1]["k"] == "disc"]
    cont = [v[0] for v in raw["states"] + raw["choices"] if v[1]["k"] != "disc"]
    for k in kinds:
        if k == "n_periods":
            raw["n_periods"] = r.choice([0, -1, -3])
        elif k == "no_utility":
            raw["functions"] = [f for f in raw["functions"] if f["name"] != "utility"]
        elif k == "no_next":
            s = r.choice(snames)
            raw["functions"] = [f for f in raw["functions"] if f["name"] != f"next_{s}"]
        elif k == "overlap":
            s = r.choice(raw["states"])
            raw["choices"].append([s[0], {"k": "disc", "n": 2}, True, True])
        elif k == "non_grid":
            tgt = r.choice(raw["states"] + raw["choices"])
            tgt[2] = False
        elif k == "non_callable":
            r.choice(raw["functions"])["value_ok"] = False
        elif k == "key_not_str":
            u = r.random()
            if u < 0.5:
                r.choice(raw["functions"])["key_ok"] = False
            else:
                r.choice(raw["states"] + raw["choices"])[3] = False
        elif k == "stoch_on_cont":
            if not cstates:
                continue
            s = r.choice(cstates)
            f = next((f for f in raw["functions"] if f["name"] == f"next_{s}"), None)
            if f is None:
                continue
            f["stochastic"] = True
            f["args"] = [a for a in f["args"] if a in dstates or a == "_period"] or ([dstates[0]] if dstates else ["_period"])
            f["body"] = ["num", "0"]
        elif k == "stoch_dep_cont":
            if not cont or not dstates:
                continue
            s = r.choice(dstates)
            f = next((f for f in raw["functions"] if f["name"] == f"next_{s}"), None)
            if f is None:
                continue
            f["stochastic"] = True
            f["args"] = [r.choice(cont)] + [a for a in f["args"] if a in dstates][:1]
            f["body"] = ["num", "0"]
        elif k == "stoch_dep_other":
            # a stochastic transition that depends on something that is not a model variable: a free parameter or an auxiliary
            # function - preferably not the last stochastic state (so that valid ones follow it)
            st = [f for f in raw["functions"] if f.get("stochastic") and f["name"].startswith("next_")]
            auxn = [f["name"] for f in raw["functions"] if f["name"].startswith("aux")]
            if st:
                f = st[0] if len(st) > 1 and r.random() < 0.7 else r.choice(st)
            elif dstates:
                f = next((f for f in raw["functions"] if f["name"] == f"next_{dstates[0]}"), None)
                if f is None:
                    continue
                f["stochastic"] = True
                f["args"] = [a for a in f["args"] if a in dstates][:1]
                f["body"] = ["num", "0"]
            else:
                continue
            f["args"] = f["args"] + [r.choice(auxn) if auxn and r.random() < 0.5 else "theta"]
        elif k == "filter_param":
            fl = [f for f in raw["functions"] if f["name"].endswith("_filter")]
            if fl:
                f = r.choice(fl)
                f["args"] = f["args"] + ["theta"]
            elif dstates:
                raw["functions"].append({"name": "p_filter", "args": [dstates[0], "theta"], "body": ["le", ["num", "0"], ["var", dstates[0]]], "stochastic": False, "key_ok": True, "value_ok": True, "ints": True})
            else:
                continue
        elif k == "filter_param_aux":
            # the filter reaches a parameter through an auxiliary function
            fl = [f for f in raw["functions"] if f["name"].endswith("_filter")]
            if not dstates:
                continue
            raw["functions"].append({"name": "fpa", "args": [dstates[0], "theta"], "body": ["add", ["var", dstates[0]], ["var", "theta"]], "stochastic": False, "key_ok": True, "value_ok": True, "ints": True})
            if fl:
                f = r.choice(fl)
                f["args"] = f["args"] + ["fpa"]
                f["body"] = ["or", f["body"], ["le", ["num", "-1000"], ["var", "fpa"]]]
            else:
                raw["functions"].append({"name": "p_filter", "args": [dstates[0], "fpa"], "body": ["le", ["num", "-1000"], ["var", "fpa"]], "stochastic": False, "key_ok": True, "value_ok": True, "ints": True})
        elif k == "bad_grid":
            bad_grid = BAD_GRIDS[bad_index % len(BAD_GRIDS)] if bad_index is not None else r.choice(BAD_GRIDS)
        elif k == "bad_disc":
            bad_grid = ("disc", BAD_DISC[bad_index % len(BAD_DISC)] if bad_index is not None else r.choice(BAD_DISC))
        applied.append(k)
    return raw, applied, bad_grid


def classify_impl(raw, bad_grid, solve_and_simulate, r, meta, mj_for_init, via_replace=False):
    """-> (stage, kind, detail). `via_replace`: the specification is derived from the valid base model with
    `Model.replace(<only the changed fields>)` instead of being constructed directly."""
    I = impl()
    from lcm import LinspaceGrid, LogspaceGrid, Model
    from lcm.entry_point import get_lcm_function
    from lcm.exceptions import GridInitializationError, ModelInitilizationError

    try:
        if bad_grid is not None and bad_grid[0] == "disc":
            from dataclasses import field, make_dataclass

            from lcm import DiscreteGrid

            DiscreteGrid(make_dataclass("Cat", [(f"c{i}", object, field(default=v)) for i, v in enumerate(bad_grid[1])]))
        elif bad_grid is not None:
            cls = LinspaceGrid if bad_grid[0] == "lin" else LogspaceGrid
            cls(start=bad_grid[1], stop=bad_grid[2], n_points=bad_grid[3])
        grids = {}
        for coll in ("states", "choices"):
            grids[coll] = {}
            for name, g, is_grid, key_ok in raw[coll]:
                key = name if key_ok else (hash(name) % 97)
                grids[coll][key] = mkgrid(g) if is_grid else [0, 1]
    except GridInitializationError as e:
        return "grid", "GridInit", str(e)[:100]
    except Exception as e:  # noqa: BLE001
        return "grid", f"Internal:{impl_site(e)}", str(e)[:200]
    try:
        funcs = {}
        for f in raw["functions"]:
            key = f["name"] if f["key_ok"] else (hash(f["name"]) % 89)
            funcs[key] = mkfunc(f["name"], f["args"], f["body"], f.get("stochastic", False), f.get("ints", True)) if f["value_ok"] else 3
        if via_replace:
            from dsl import build_model

            base = build_model(mj_for_init)
            # the user's workflow: the functions of the valid base specification were created in this process before the
            # specification was edited (anything the library remembers about the base must not leak into the edited one)
            try:
                get_lcm_function(base, targets="solve")
            except Exception:  # noqa: BLE001, S110 - the base is judged by its own cases
                pass
            changed = {}
            if raw["n_periods"] != mj_for_init["n_periods"]:
                changed["n_periods"] = raw["n_periods"]
            if list(funcs) != list(base.functions) or any(funcs[k] is not base.functions.get(k) for k in funcs):
                changed["functions"] = funcs
            for coll in ("choices", "states"):
                bg = getattr(base, coll)
                if list(grids[coll]) != list(bg) or any(grids[coll][k] is not bg.get(k) for k in grids[coll]):
                    changed[coll] = grids[coll]
            model = base.replace(**changed)
        else:
            model = Model(n_periods=raw["n_periods"], functions=funcs, choices=grids["choices"], states=grids["states"])
    except ModelInitilizationError as e:
        return "model", "ModelInit", str(e)[:100]
    except Exception as e:  # noqa: BLE001
        return "model", f"Internal:{impl_site(e)}", str(e)[:200]
    try:
        fn, tmpl = get_lcm_function(model, targets="solve_and_simulate")
    except (ValueError, ModelInitilizationError, GridInitializationError) as e:
        if type(e).__name__ == "ValueError" and impl_site(e).split("@")[1].split(":")[0] not in ("create_params_template.py", "process_model.py", "user_model.py", "grids.py"):
            return "functions", f"Internal:{impl_site(e)}", str(e)[:200]
        return "functions", type(e).__name__, str(e)[:100]
    except Exception as e:  # noqa: BLE001
        return "functions", f"Internal:{impl_site(e)}", str(e)[:200]
    if not solve_and_simulate:
        return "accepted", "accepted", ""
    # parameters that follow the implementation's template
    np = I.np
    try:
        params = {}
        for k, v in tmpl.items():
            if k == "beta":
                params[k] = float(r.choice([0.5, 0.75, 1.0]))
            elif k == "shocks":
                params[k] = {}
                for x, arr in v.items():
                    shp = np.asarray(arr).shape
                    a = np.zeros(shp)
                    for idx in np.ndindex(*shp[:-1]):
                        cuts = sorted(r.randint(0, 8) for _ in range(shp[-1] - 1))
                        a[idx] = [(b - a_) / 8 for a_, b in zip([0] + cuts, cuts + [8])]
                    params[k][x] = I.jnp.asarray(a)
            else:
                params[k] = {p: float(r.choice([0.5, 1.0, -0.5, 2.0])) for p in v}
        init = gen_initial_states(r, mj_for_init, 4, meta=meta)
        df = fn(params, initial_states=init_impl(mj_for_init, init))
        if len(df) != 4 * raw["n_periods"]:
            return "run", "Internal:wrong-length-frame", str(len(df))
    except Exception as e:  # noqa: BLE001
        return "run", f"Internal:{impl_site(e)}", str(e)[:200]
    return "accepted", "accepted", ""


def run_case(case):
    impl()
    if case.get("kind") == "raw":
        raw, applied, bad_grid, meta, mj = case["raw"], case.get("violations", []), case.get("bad_grid"), case.get("meta", {}), case["model"]
        r = random.Random(case.get("seed", 0))
    else:
        mj, meta, Ps, r = materialise_case(case)
        raw, applied, bad_grid = apply_violations(r, mj, case.get("violations", []), case.get("bad_index"))
    out = {"sig": signature(mj) + "|" + ",".join(applied), "nontrivial": True, "evals": 1, "violations": [], "corr_breaks": [], "hist": {}}
    h = out["hist"]
    h[f"n_violations={len(applied)}"] = 1
    for k in applied:
        h[f"rule:{k}"] = 1
    # model prediction
    if bad_grid is not None and bad_grid[0] == "disc" and not driver().call({"op": "discrete_validate", "dataclass": True, "vals": [pyval_json(v) for v in bad_grid[1]]}):
        want = ("grid", "GridInit")
    elif bad_grid is not None and bad_grid[0] != "disc" and not driver().call({"op": "grid_validate", "start": pyval_json(bad_grid[1]), "stop": pyval_json(bad_grid[2]), "n": pyval_json(bad_grid[3]), "repaired": True, "log": bad_grid[0] == "log"}):
        want = ("grid", "GridInit")
    else:
        mraw = {"n_periods": raw["n_periods"], "functions": [{k: f[k] for k in ("name", "args", "stochastic", "key_ok", "value_ok")} for f in raw["functions"]],
                "states": raw["states"], "choices": raw["choices"]}
        o = driver().call({"op": "validate_model", "model": mraw})
        want = {"accepted": ("accepted", "accepted"), "ModelInit": ("model", "ModelInit"), "ValueError": ("functions", "ValueError")}[o]
    if "filter_param_aux" in applied and want[0] == "accepted":
        # the Lean rule looks at the filter's own arguments; a parameter reached through an auxiliary function makes it "a filter
        # with parameters" all the same
        want = ("functions", "ValueError")
    supported = not applied
    via_replace = bool(applied) and bad_grid is None and (case.get("seed", 0) % 2 == 1)
    stage, kind, detail = classify_impl(raw, tuple(bad_grid) if bad_grid else None, want[0] == "accepted" and supported, r, meta, mj, via_replace=via_replace)
    if "filter_param_aux" in applied and stage == "functions" and kind.startswith("Internal:ValueError"):
        kind = "ValueError"     # a ValueError when the functions are created is what the property asks for, whichever module raises it
    h[f"via_replace={via_replace}"] = 1
    h[f"outcome={stage}:{kind.split(':')[0]}"] = 1
    rc = {"kind": "raw", "raw": raw, "violations": applied, "bad_grid": list(bad_grid) if bad_grid else None, "meta": meta, "model": mj, "seed": case.get("seed", 0)}
    ok_kinds = {"GridInit", "ModelInit", "ValueError", "ModelInitilizationError", "GridInitializationError"}
    if want[0] == "accepted":
        if stage == "run":
            out["violations"].append({"clause": "an accepted specification is solved and simulated without an internal error", "detail": f"{kind}: {detail}", "key": f"run:{kind}", "shrink_case": rc})
        elif stage != "accepted":
            if kind in ok_kinds:
                out["corr_breaks"].append({"clause": "model accepts, implementation rejects up front", "detail": f"rules violated: none; implementation: {stage}/{kind}: {detail}", "key": "reject-valid", "nofail": True})
            else:
                out["violations"].append({"clause": "a valid specification is accepted (or rejected with the library's errors)", "detail": f"{stage}/{kind}: {detail}", "key": f"create:{kind}", "shrink_case": rc})
    else:
        if stage in ("accepted", "run"):
            out["violations"].append({"clause": "a rule-violating specification is rejected when the model or the functions are created, never later and never silently",
                                      "detail": f"violated rules {applied}: implementation outcome {stage}/{kind} {detail}; model predicts {want}", "key": f"accepts:{','.join(applied)}", "shrink_case": rc})
        elif kind not in ok_kinds:
            out["violations"].append({"clause": "rejection uses the library's initialization error or a ValueError", "detail": f"violated rules {applied}: {stage}/{kind}: {detail}", "key": f"errkind:{kind}", "shrink_case": rc})
        elif (stage, kind.replace("ModelInitilizationError", "ModelInit")) != want:
            out["corr_breaks"].append({"clause": "stage and kind of the rejection as predicted by the model", "detail": f"violated rules {applied}: implementation {stage}/{kind}, model {want}", "key": "stage", "nofail": True})
    out["sample"] = {"violated_rules": applied, "bad_grid": bad_grid, "model_prediction": want, "implementation": [stage, kind]}
    return out
