"""Finding 2: a parameter that is passed as a length-1 array (e.g. beta = np.array([0.9])
or a utility parameter np.array([0.3]), as it comes out of an optimiser's parameter
vector or a pandas object) instead of a Python / 0-d scalar is accepted silently, the
returned value arrays have the usual shapes, but the values are WRONG: the constraints
are ignored (an infeasible choice determines the value).

Mechanism: utility (+ beta * continuation) then has shape (1,) per choice, i.e. (n_c, 1)
after the productmap over the continuous choice, while the feasibility mask has shape
(n_c,).  `u.max(where=f, initial=-inf)` in entry_point.create_compute_conditional_
continuation_value broadcasts the two to (n_c, n_c) and returns max_i u[i] as soon as ANY
choice j is feasible.

Run:  LCM_WT=/tmp/hunt2_C01 /venv/bin/python finding_2.py     (exit code 1 = defect)
"""
# --- shim -----------------------------------------------------------------------------
import sys, types, os
WT = os.environ.get("LCM_WT")
sys.path.insert(0, os.path.join(WT, "src"))
import jax, jax._src.util as _u
m = types.ModuleType("jax.util"); m.safe_zip = _u.safe_zip; m.unzip2 = _u.unzip2
sys.modules["jax.util"] = m; jax.util = m
jax.config.update("jax_enable_x64", True)
import lcm
assert lcm.__file__.startswith(WT), lcm.__file__
# --------------------------------------------------------------------------------------
import logging
import numpy as np
import jax.numpy as jnp
from lcm import LinspaceGrid, Model
from lcm.entry_point import get_lcm_function

logging.disable(logging.CRITICAL)
W = LinspaceGrid(start=1.0, stop=5.0, n_points=4)
C = LinspaceGrid(start=0.5, stop=4.0, n_points=5)


def utility(consumption, wealth, risk):
    return risk * jnp.log(consumption) + 0.01 * wealth


def next_wealth(wealth, consumption):
    return 1.05 * (wealth - consumption) + 1.0


def budget_constraint(consumption, wealth):
    return consumption <= wealth


model = Model(n_periods=2, functions={"utility": utility, "next_wealth": next_wealth,
              "budget_constraint": budget_constraint}, states={"wealth": W}, choices={"consumption": C})


def reference(beta, risk):
    w = np.asarray(W.to_jax()); c = np.asarray(C.to_jax())
    v1 = np.array([max(risk * np.log(ci) + 0.01 * wi for ci in c if ci <= wi) for wi in w])
    def interp(x):
        j = int(np.clip(np.searchsorted(w, x, side="right") - 1, 0, len(w) - 2))
        t = (x - w[j]) / (w[j + 1] - w[j])
        return (1 - t) * v1[j] + t * v1[j + 1]
    v0 = np.array([max(risk * np.log(ci) + 0.01 * wi + beta * interp(1.05 * (wi - ci) + 1.0)
                       for ci in c if ci <= wi) for wi in w])
    return [v0, v1]


ref = reference(0.9, 1.5)
cases = {
    "all scalars            ": {"beta": 0.9, "utility": {"risk": 1.5}},
    "beta = np.array([0.9]) ": {"beta": np.array([0.9]), "utility": {"risk": 1.5}},
    "risk = np.array([1.5]) ": {"beta": 0.9, "utility": {"risk": np.array([1.5])}},
    "beta = jnp.array([[.9]])": {"beta": jnp.array([[0.9]]), "utility": {"risk": 1.5}},
}
defect = False
for jit in (True, False):
    solve, _ = get_lcm_function(model, targets="solve", jit=jit)
    for name, p in cases.items():
        params = {**p, "next_wealth": {}, "budget_constraint": {}}
        try:
            vf = solve(params)
        except Exception as e:  # noqa: BLE001  (a clean error would be fine)
            print(f"jit={jit} {name}: raised {type(e).__name__}: {str(e)[:100]}")
            continue
        ok = all(np.asarray(a).shape == b.shape and np.allclose(np.asarray(a), b, rtol=1e-12, atol=1e-12)
                 for a, b in zip(vf, ref))
        print(f"jit={jit} {name}: shapes {[np.asarray(a).shape for a in vf]} "
              f"V0={np.asarray(vf[0]).round(4).tolist()} V1={np.asarray(vf[1]).round(4).tolist()} "
              f"{'== Bellman' if ok else '!= Bellman  <-- WRONG'}")
        defect |= not ok
print("expected (Bellman)      :", "V0=", ref[0].round(4).tolist(), "V1=", ref[1].round(4).tolist())
print("note: wealth grid", np.asarray(W.to_jax()).round(3).tolist(), "consumption grid",
      np.asarray(C.to_jax()).round(3).tolist(), "- at wealth 1.0 only consumption 0.5 is feasible;"
      " the wrong values use consumption levels above wealth")
if defect:
    print("DEFECT PRESENT: length-1 array parameter accepted, constraints silently ignored")
    sys.exit(1)
print("no defect")
