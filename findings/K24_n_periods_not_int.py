"""Finding 4: a number of periods that is not a positive integer is not rejected properly.

Model(...) documents and reports "Number of periods must be a positive integer", but the
check is only `model.n_periods < 1`:

  * n_periods = 2.5, 2.0, float("nan"), float("inf"): Model(...) ACCEPTS the value; the
    failure appears in get_lcm_function(...) as
    "TypeError: can't multiply sequence by non-int of type 'float'" (or an
    OverflowError / 'float' object cannot be interpreted as an integer), i.e. neither the
    library's ModelInitilizationError nor a ValueError.
  * n_periods = "3" or None: Model(...) itself raises a bare TypeError
    ("'<' not supported between instances of 'str' and 'int'").

Expected: ModelInitilizationError (or ValueError) from Model(...).

Cause: lcm/user_model.py:_validate_logical_consistency l. 89 only tests
`model.n_periods < 1`; _validate_attribute_types ignores n_periods. The TypeError for
floats comes from lcm/entry_point.py l. 76 `[_choice_grids] * _mod.n_periods`.

Minimal repair: in _validate_attribute_types add
`if not isinstance(model.n_periods, int) or isinstance(model.n_periods, bool): error`
and skip the `< 1` comparison when the type is wrong.

Exits 1 while the defect is present.
"""

# ---- shim ---------------------------------------------------------------------------
import sys, types, os

WT = os.environ.get("LCM_WT", "/tmp/hunt_C12")
sys.path.insert(0, os.path.join(WT, "src"))
import jax, jax._src.util as _u

m = types.ModuleType("jax.util")
m.safe_zip = _u.safe_zip
m.unzip2 = _u.unzip2
sys.modules["jax.util"] = m
jax.util = m
jax.config.update("jax_enable_x64", True)
import lcm

assert lcm.__file__.startswith(WT), lcm.__file__
# -------------------------------------------------------------------------------------

import jax.numpy as jnp

from lcm import LinspaceGrid, Model
from lcm.entry_point import get_lcm_function
from lcm.exceptions import ModelInitilizationError


def utility(c, w):
    return jnp.log(c) + 0 * w


def next_w(w, c):
    return w - c + 1.0


def cc_constraint(c, w):
    return c <= w


defect = False
for n_periods in (2.5, 2.0, float("nan"), float("inf"), "3", None):
    stage = "Model(...)"
    try:
        model = Model(
            n_periods=n_periods,
            functions={
                "utility": utility,
                "next_w": next_w,
                "cc_constraint": cc_constraint,
            },
            choices={"c": LinspaceGrid(start=1, stop=10, n_points=4)},
            states={"w": LinspaceGrid(start=1, stop=10, n_points=4)},
        )
        stage = "get_lcm_function(...)"
        func, template = get_lcm_function(
            model, targets="solve_and_simulate", debug_mode=False
        )
        stage = "call"
        func(
            {"beta": 0.9, "utility": {}, "next_w": {}, "cc_constraint": {}},
            initial_states={"w": jnp.array([2.0])},
        )
        print(f"n_periods={n_periods!r}: accepted and ran (DEFECT: not an integer)")
        defect = True
    except (ModelInitilizationError, ValueError) as e:
        ok = stage != "call"
        print(
            f"n_periods={n_periods!r}: {type(e).__name__} at {stage}"
            f"{' (fine)' if ok else ' (DEFECT: too late)'}"
        )
        defect |= not ok
    except Exception as e:  # noqa: BLE001
        print(
            f"n_periods={n_periods!r}: DEFECT: {type(e).__name__} at {stage}: "
            f"{str(e)[:100]}"
        )
        defect = True

sys.exit(1 if defect else 0)
