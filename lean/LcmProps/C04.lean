import LcmProofs.Keys
import Mathlib.Tactic.Linarith
import Mathlib.Algebra.Order.Field.Rat
namespace Lcm

/-! # C04 — stochastic draws: specified probabilities, independent, seed-reproducible (partial)

What is provable: (1) the **key schedule** of `simulate` (`LcmModel/Keys.lean`: PRNG keys as paths in the
split tree below `PRNGKey(seed)`; per period `split(key, n_vars + 1)`, element 0 carried, element j+1 handed
to the j-th stochastic transition, which splits once per agent) never uses a key twice and never consumes a
key that is also split - the JAX contract under which draws are independent across agents, periods and
variables; (2) the **sampler arithmetic** of `jax.random.choice(p=...)`: a label of probability zero is never
returned, the result is a valid label, and label `k` is hit exactly on an interval of length `p_k`.
The distribution itself rests on the uniformity of threefry bits (trusted) and is *not* a theorem; it is
covered by the exact reproduction of every draw along the model's key paths and by chi-square tests. -/

/-- (period, variable, agent) ↦ consumed key is injective: no two draws share a key -/
theorem C04_key_injective (nv nA : Nat) (t j i t' j' i' : Nat) (hj : j < nv) (hi : i < nA)
    (hj' : j' < nv) (hi' : i' < nA) (h : agentKey nv nA t j i = agentKey nv nA t' j' i') :
    t = t' ∧ j = j' ∧ i = i' :=
  agentKey_injective nv nA t j i t' j' i' hj hi hj' hi' h

/-- no consumed key is an ancestor (in the split tree) of another consumed key -/
theorem C04_key_prefix_free (nv nA : Nat) (t j i t' j' i' : Nat) (hj : j < nv) (hi : i < nA)
    (hj' : j' < nv) (hi' : i' < nA) (h : agentKey nv nA t j i <+: agentKey nv nA t' j' i') :
    t = t' ∧ j = j' ∧ i = i' :=
  agentKey_prefix_free nv nA t j i t' j' i' hj hi hj' hi' h

/-- the closed form of the schedule: the key of (t, j, i) is the path 0^t · (j+1) · i -/
theorem C04_key_path (nv nA t j i : Nat) (hj : j < nv) (hi : i < nA) :
    agentKey nv nA t j i = List.replicate t 0 ++ [j + 1, i] :=
  agentKey_eq nv nA t j i hj hi

/-- the key carried to the next period is never consumed by a draw (it is only ever split) -/
theorem C04_carried_never_consumed (nv nA t t' j i : Nat) (hj : j < nv) (hi : i < nA) :
    carried t' ≠ agentKey nv nA t j i := by
  rw [carried_eq, agentKey_eq nv nA t j i hj hi]
  intro h
  have h1 : (List.replicate t' 0)[t]? = (List.replicate t 0 ++ [j + 1, i])[t]? := by rw [h]
  rw [List.getElem?_append_right (by simp)] at h1
  simp [List.getElem?_replicate] at h1

/-- the per-variable key (which is split per agent) is never itself consumed -/
theorem C04_variable_key_never_consumed (nv nA t t' j j' i : Nat) (hj : j < nv) (hj' : j' < nv) (hi : i < nA) :
    varKey nv t' j' ≠ agentKey nv nA t j i := by
  rw [varKey_eq nv t' j' hj', agentKey_eq nv nA t j i hj hi]
  intro h
  have hlen : (List.replicate t' 0 ++ [j' + 1]).length = (List.replicate t 0 ++ [j + 1, i]).length := by rw [h]
  simp at hlen
  have ht : t' = t + 1 := by omega
  subst ht
  have h1 : (List.replicate (t + 1) 0 ++ [j' + 1])[t]? = (List.replicate t 0 ++ [j + 1, i])[t]? := by rw [h]
  rw [List.getElem?_append_left (by simp), List.getElem?_append_right (by simp)] at h1
  simp [List.getElem?_replicate] at h1

/-- seed-determinism is a triviality of the model (the schedule is a function of the seed's root key);
period 0 consumes no key at all: the first draw happens *after* the period-0 decisions -/
theorem C04_period0_seed_free (nv nA t j i : Nat) (hj : j < nv) (hi : i < nA) :
    (agentKey nv nA t j i).length = t + 2 := by
  rw [agentKey_eq nv nA t j i hj hi]; simp

-- ---------------------------------------------------------------- sampler arithmetic
theorem searchCum_pos (ps : List Rat) (acc r : Rat) (hr : acc < r)
    (hk : searchCum ps acc r < ps.length) : 0 < ps[searchCum ps acc r]'hk := by
  induction ps generalizing acc with
  | nil => simp at hk
  | cons p ps ih =>
    unfold searchCum at hk ⊢
    split
    · next h => simp only [List.getElem_cons_zero]; linarith
    · next h =>
      have hacc : acc + p < r := by linarith [not_le.mp h]
      have hk' : searchCum ps (acc + p) r < ps.length := by
        simp only [h, if_false, List.length_cons] at hk; omega
      have := ih (acc + p) hacc hk'
      simpa [Nat.add_comm 1] using this

/-- **a label with probability zero is never drawn** (for every `r` in `(0, total]`, i.e. every key) -/
theorem C04_zero_never_drawn (p : List Rat) (r : Rat) (hr : 0 < r)
    (hk : choiceOfUniform p r < p.length) : 0 < p[choiceOfUniform p r]'hk :=
  searchCum_pos p 0 r hr hk

theorem searchCum_lt (ps : List Rat) (acc r : Rat) (hr : r ≤ acc + ps.sum) (hne : ps ≠ []) :
    searchCum ps acc r < ps.length := by
  induction ps generalizing acc with
  | nil => exact absurd rfl hne
  | cons p ps ih =>
    unfold searchCum
    split
    · simp
    · next h =>
      by_cases hps : ps = []
      · subst hps; simp at hr; exact absurd hr h
      · have := ih (acc + p) (by simp [List.sum_cons] at hr; linarith) hps
        simp only [List.length_cons]; omega

/-- the drawn index is a valid label whenever `r ≤ total` -/
theorem C04_label_in_range (p : List Rat) (r : Rat) (hr : r ≤ p.sum) (hne : p ≠ []) :
    choiceOfUniform p r < p.length :=
  searchCum_lt p 0 r (by simpa using hr) hne

/-- cumulative probability before label `k` -/
def cumBefore (p : List Rat) (k : Nat) : Rat := (p.take k).sum

theorem searchCum_interval (ps : List Rat) (acc r : Rat) (k : Nat) (hk : k < ps.length)
    (h : searchCum ps acc r = k) (hr : acc < r) :
    acc + (ps.take k).sum < r ∧ r ≤ acc + (ps.take k).sum + ps[k] := by
  induction ps generalizing acc k with
  | nil => simp at hk
  | cons p ps ih =>
    unfold searchCum at h
    split at h
    · next hle => subst h; simp; exact ⟨hr, hle⟩
    · next hnle =>
      obtain ⟨k', rfl⟩ : ∃ k', k = k' + 1 := ⟨searchCum ps (acc + p) r, by omega⟩
      have hk' : k' < ps.length := by simpa using hk
      have := ih (acc + p) k' hk' (by omega) (by linarith [not_le.mp hnle])
      simp only [List.take_succ_cons, List.sum_cons, List.getElem_cons_succ]
      constructor <;> linarith [this.1, this.2]

/-- **label `k` is drawn exactly when `r` falls into an interval of length `p_k`**:
`cum_{k-1} < r ≤ cum_{k-1} + p_k` (necessity; with uniform `r` this is probability `p_k / total`) -/
theorem C04_interval_of_label (p : List Rat) (r : Rat) (k : Nat) (hk : k < p.length)
    (h : choiceOfUniform p r = k) (hr : 0 < r) :
    cumBefore p k < r ∧ r ≤ cumBefore p k + p[k] := by
  have := searchCum_interval p 0 r k hk h hr
  simpa [cumBefore] using this

-- non-vacuity: a row with a zero and a point mass
example : choiceOfUniform [0, 1/2, 0, 1/2] (1/4) = 1 ∧ choiceOfUniform [0, 1/2, 0, 1/2] (3/4) = 3 ∧
    choiceOfUniform [0, 0, 1] 1 = 2 := by decide +kernel
example : agentKey 2 3 1 1 2 = [0, 2, 2] := by decide

end Lcm
