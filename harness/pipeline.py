"""Helpers shared by the pipeline properties (C01-C13): run solve / simulate of the implementation
on a specification given as JSON, run the same through the Lean model, compare."""
from __future__ import annotations

import random
from fractions import Fraction as Fr

from common import HarnessError, driver, fr, impl, impl_site, same_number
from dsl import build_model, params_impl, params_json
from gen import gen_model, gen_params, nontrivial, signature, strip


def materialise_case(case):
    """case -> (model_json, meta, [params...], rng)"""
    if case.get("kind", "gen") == "gen":
        r = random.Random(case["seed"])
        mj, meta = gen_model(r, force=case.get("force"), max_T=case.get("max_T", 4), budget=case.get("budget", 6000))
        Ps = [gen_params(r, mj, beta=case.get("beta")) for _ in range(case.get("n_params", 1))]
        return mj, meta, Ps, r
    mj = case["model"]
    Ps = [unjson_params(p) for p in case["params"]]
    return mj, case.get("meta", {}), Ps, random.Random(case.get("seed", 0))


def unjson_params(pj):
    return {
        "beta": Fr(pj["beta"]),
        "funcs": {f: {p: Fr(v) for p, v in ps.items()} for f, ps in pj["funcs"].items()},
        "shocks": {x: {"shape": t["shape"], "data": [Fr(v) for v in t["data"]]} for x, t in pj["shocks"].items()},
    }


def explicit_case(mj, Ps, **kw):
    return {"kind": "explicit", "model": mj, "params": [params_json(P) for P in Ps], **kw}


def impl_solve(mj, P, jit=True, leaf="float"):
    """Returns (list of numpy arrays, template) or raises."""
    I = impl()
    from lcm.entry_point import get_lcm_function

    model = build_model(mj)
    solve, tmpl = get_lcm_function(model, targets="solve", jit=jit)
    V = solve(params_impl(P, leaf))
    return [I.np.asarray(v) for v in V], tmpl


def model_solve(mj, P):
    return driver().call({"op": "solve", "model": strip(mj), "params": params_json(P)})


def compare_value_arrays(Vimpl, Vmodel, n_periods, tol=None):
    """Entry-wise comparison honouring the supported class (see DESIGN 6/C01): period t is compared
    only if the model's arrays of all later periods are finite. Returns (diffs, stats)."""
    diffs = []
    stats = {"entries": 0, "ninf": 0, "periods_skipped": 0}
    if len(Vimpl) != len(Vmodel["V"]):
        return [{"clause": "one value array per period", "detail": f"impl {len(Vimpl)} arrays, model {len(Vmodel['V'])}"}], stats
    later_finite = True
    for t in reversed(range(len(Vimpl))):
        a = Vimpl[t]
        b = Vmodel["V"][t]
        undef = Vmodel["undef"][t] if "undef" in Vmodel else 0
        if not later_finite or undef:
            stats["periods_skipped"] += 1
        else:
            if list(a.shape) != b["shape"]:
                diffs.append({"clause": "axis layout / shape", "detail": f"period {t}: impl shape {list(a.shape)}, model shape {b['shape']}"})
            else:
                flat = a.ravel() if a.shape else [a[()]]
                for j, (x, y) in enumerate(zip(flat, b["data"])):
                    stats["entries"] += 1
                    if y == "-inf":
                        stats["ninf"] += 1
                    if not same_number(x, y, tol):
                        diffs.append({"clause": "value equals the Bellman value", "detail": f"period {t} flat index {j} shape {b['shape']}: impl {fr(x)} ({float(x)}), model {y}"})
                        break
        if any(y == "-inf" for y in b["data"]) or undef:
            later_finite = False
    return diffs, stats
