import Mathlib.Analysis.SpecialFunctions.Log.Basic
import Mathlib.Analysis.SpecialFunctions.Exp
import Mathlib.Algebra.BigOperators.Group.Finset.Basic
import Mathlib.Algebra.Order.BigOperators.Group.Finset
import Mathlib.Tactic
import Mathlib.Topology.Order.Basic
import Mathlib.Topology.Algebra.Order.Field

open Real Finset

namespace Lcm

variable {n : ℕ}

/-- s · log Σ exp(v/s) -/
noncomputable def lse (s : ℝ) (v : Fin n → ℝ) : ℝ := s * log (∑ i, exp (v i / s))

/-- the max-shifted form computed by `_segment_logsumexp` (after the division by the scale):
m + s · log Σ exp((v − m)/s) -/
noncomputable def lseStable (s : ℝ) (v : Fin n → ℝ) (m : ℝ) : ℝ :=
  m + s * log (∑ i, exp ((v i - m) / s))

theorem lseStable_eq_lse (s : ℝ) (hs : 0 < s) (v : Fin n → ℝ) (m : ℝ) (hn : 0 < n) :
    lseStable s v m = lse s v := by
  unfold lseStable lse
  have hpos : 0 < ∑ i : Fin n, exp ((v i - m) / s) := by
    haveI : Nonempty (Fin n) := ⟨⟨0, hn⟩⟩
    exact Finset.sum_pos (fun i _ => exp_pos _) Finset.univ_nonempty
  have : ∑ i : Fin n, exp (v i / s) = exp (m / s) * ∑ i : Fin n, exp ((v i - m) / s) := by
    rw [Finset.mul_sum]
    refine Finset.sum_congr rfl (fun i _ => ?_)
    rw [← exp_add]; congr 1; field_simp; ring
  rw [this, log_mul (exp_pos _).ne' hpos.ne', log_exp]
  field_simp

/-- bounds: with m the maximum, every shifted exponent is ≤ 0 and the sum lies in [1, n] -/
theorem lseStable_bounds (s : ℝ) (hs : 0 < s) (v : Fin n → ℝ) (m : ℝ)
    (hmax : ∀ i, v i ≤ m) (hatt : ∃ i, v i = m) :
    m ≤ lseStable s v m ∧ lseStable s v m ≤ m + s * log n := by
  obtain ⟨i0, hi0⟩ := hatt
  have hterm_le : ∀ i, exp ((v i - m) / s) ≤ 1 := by
    intro i
    rw [exp_le_one_iff]
    exact div_nonpos_of_nonpos_of_nonneg (by linarith [hmax i]) hs.le
  have hsum_ge : 1 ≤ ∑ i : Fin n, exp ((v i - m) / s) := by
    have h1 : exp ((v i0 - m) / s) = 1 := by simp [hi0]
    calc (1 : ℝ) = exp ((v i0 - m) / s) := h1.symm
      _ ≤ ∑ i : Fin n, exp ((v i - m) / s) :=
        Finset.single_le_sum (f := fun i => exp ((v i - m) / s)) (fun i _ => (exp_pos _).le) (Finset.mem_univ i0)
  have hsum_le : ∑ i : Fin n, exp ((v i - m) / s) ≤ n := by
    calc ∑ i : Fin n, exp ((v i - m) / s) ≤ ∑ _i : Fin n, (1 : ℝ) := Finset.sum_le_sum (fun i _ => hterm_le i)
      _ = n := by simp
  unfold lseStable
  constructor
  · have : 0 ≤ log (∑ i : Fin n, exp ((v i - m) / s)) := log_nonneg hsum_ge
    nlinarith [mul_nonneg hs.le this]
  · have : log (∑ i : Fin n, exp ((v i - m) / s)) ≤ log n :=
      log_le_log (by linarith) hsum_le
    nlinarith [mul_le_mul_of_nonneg_left this hs.le]

/-- shift equivariance -/
theorem lse_shift (s : ℝ) (hs : 0 < s) (v : Fin n → ℝ) (c : ℝ) (hn : 0 < n) :
    lse s (fun i => v i + c) = lse s v + c := by
  rw [← lseStable_eq_lse s hs _ c hn]
  unfold lseStable lse
  simp only [add_sub_cancel_right]
  ring

open Filter Topology in
/-- as the scale goes to 0⁺ the aggregation approaches the maximum (squeeze from the bounds) -/
theorem lse_tendsto_max (v : Fin n → ℝ) (m : ℝ) (hn : 0 < n)
    (hmax : ∀ i, v i ≤ m) (hatt : ∃ i, v i = m) :
    Tendsto (fun s => lse s v) (𝓝[>] 0) (𝓝 m) := by
  have hlow : ∀ᶠ s in 𝓝[>] (0 : ℝ), m ≤ lse s v := by
    filter_upwards [self_mem_nhdsWithin] with s hs
    rw [← lseStable_eq_lse s hs v m hn]
    exact (lseStable_bounds s hs v m hmax hatt).1
  have hupp : ∀ᶠ s in 𝓝[>] (0 : ℝ), lse s v ≤ m + s * log n := by
    filter_upwards [self_mem_nhdsWithin] with s hs
    rw [← lseStable_eq_lse s hs v m hn]
    exact (lseStable_bounds s hs v m hmax hatt).2
  have hlim : Tendsto (fun s : ℝ => m + s * log n) (𝓝[>] 0) (𝓝 m) := by
    have : Tendsto (fun s : ℝ => m + s * log n) (𝓝 0) (𝓝 (m + 0 * log n)) :=
      (continuous_const.add (continuous_id.mul continuous_const)).tendsto 0
    simp only [zero_mul, add_zero] at this
    exact this.mono_left nhdsWithin_le_nhds
  exact tendsto_of_tendsto_of_tendsto_of_le_of_le' tendsto_const_nhds hlim hlow hupp

#print axioms lse_tendsto_max
#print axioms lseStable_bounds
#print axioms lse_shift
end Lcm
