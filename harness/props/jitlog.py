"""Transcendental-utility stream for C02 (finding F6b): consumption/gift models with two continuous choices, utilities built
from log / sqrt, a budget constraint, simulated with JIT on. Not representable in the rational Lean model; the oracle is
a plain numpy enumeration built from lcm's own value arrays, and the relation is the one C02 states: the reported choices
are feasible and attain the maximum *up to floating-point tolerance*, the reported value equals it.

What the stream is after is the runtime behaviour a model with one value per array element cannot exhibit: XLA evaluating
the objective twice with different rounding inside the jitted arg-max.
"""
from __future__ import annotations

import random

from common import impl, impl_site

SIZES = [(4, 4), (5, 4), (9, 4), (3, 4), (6, 4), (4, 8), (7, 5), (3, 3), (8, 4), (2, 4)]


def spec_of(case):
    if case.get("explicit"):
        return dict(case["explicit"])
    r = random.Random(case["seed"])
    nc, ng = r.choice(SIZES)
    return {"n_periods": r.choice([1, 2, 2, 3]), "beta": r.choice([0.93, 0.5, 1.0]),
            "w_grid": [1.0, 20.0, r.choice([4, 5, 7])], "c_grid": [0.5, r.choice([6.0, 9.0, 12.0]), nc], "g_grid": [0.0, r.choice([3.0, 4.5]), ng],
            "utility": r.choice(["loglog", "loglin", "sqrt"]), "w0": [round(r.uniform(1.2, 14.0), 4) for _ in range(r.choice([1, 6, 9]))]}


def run_jitlog(case):
    I = impl()
    jnp, np = I.jnp, I.np
    from lcm import LinspaceGrid, Model
    from lcm.entry_point import get_lcm_function

    sp = spec_of(case)
    kind = sp["utility"]

    def u_of(xp, c, g):
        if kind == "loglog":
            return xp.log(c) + 0.6 * xp.log(1.0 + g)
        if kind == "loglin":
            return xp.log(c) + 0.6 * g
        return xp.sqrt(c) + 0.6 * xp.sqrt(g)

    def utility(consumption, gift):
        return u_of(jnp, consumption, gift)

    def next_wealth(wealth, consumption, gift):
        return wealth - consumption - gift + 1.0

    def budget_constraint(consumption, gift, wealth):
        return consumption + gift <= wealth

    out = {"sig": f"jitlog|{kind}|{sp['c_grid'][2]}x{sp['g_grid'][2]}|T={sp['n_periods']}", "nontrivial": True, "evals": 0, "violations": [], "corr_breaks": [],
           "hist": {"kind=jitlog": 1, f"jitlog_utility={kind}": 1, f"jitlog_grids={sp['c_grid'][2]}x{sp['g_grid'][2]}": 1}}
    T, beta = sp["n_periods"], sp["beta"]
    try:
        model = Model(n_periods=T, functions={"utility": utility, "next_wealth": next_wealth, "budget_constraint": budget_constraint},
                      choices={"consumption": LinspaceGrid(start=sp["c_grid"][0], stop=sp["c_grid"][1], n_points=sp["c_grid"][2]),
                               "gift": LinspaceGrid(start=sp["g_grid"][0], stop=sp["g_grid"][1], n_points=sp["g_grid"][2])},
                      states={"wealth": LinspaceGrid(start=sp["w_grid"][0], stop=sp["w_grid"][1], n_points=sp["w_grid"][2])})
        params = {"beta": beta, "utility": {}, "next_wealth": {}, "budget_constraint": {}}
        solve, _ = get_lcm_function(model, targets="solve")
        simulate, _ = get_lcm_function(model, targets="simulate")
        vf = solve(params)
        df = simulate(params, initial_states={"wealth": jnp.array(sp["w0"])}, vf_arr_list=vf)
    except Exception as e:  # noqa: BLE001
        out["violations"].append({"clause": "simulate runs on a supported specification", "detail": f"{impl_site(e)}: {str(e)[:200]}", "key": f"raise:{impl_site(e)}",
                                  "shrink_case": {"kind": "jitlog", "seed": case.get("seed", 0), "explicit": sp}})
        return out
    wgrid = np.linspace(*sp["w_grid"][:2], sp["w_grid"][2])
    cgrid = np.linspace(*sp["c_grid"][:2], sp["c_grid"][2])
    ggrid = np.linspace(*sp["g_grid"][:2], sp["g_grid"][2])
    V = [np.asarray(v) for v in vf]

    def interp(x, t):
        # linear interpolation with linear extrapolation (C14) on the wealth grid
        k = int(np.clip(np.searchsorted(wgrid, x, side="right") - 1, 0, len(wgrid) - 2))
        s = (x - wgrid[k]) / (wgrid[k + 1] - wgrid[k])
        return (1 - s) * V[t][k] + s * V[t][k + 1]

    def objective(t, w, c, g):
        u = float(u_of(np, c, g))
        return u if t == T - 1 else u + beta * float(interp(w - c - g + 1.0, t + 1))

    for (t, i), row in df.iterrows():
        w, c, g, val = float(row["wealth"]), float(row["consumption"]), float(row["gift"]), float(row["value"])
        feas = [(cc, gg) for cc in cgrid for gg in ggrid if cc + gg <= w]
        if not feas or not all(np.isfinite(objective(t, w, cc, gg)) for cc, gg in feas):
            continue
        out["evals"] += 1
        best, arg = max(((objective(t, w, cc, gg), (cc, gg)) for cc, gg in feas), key=lambda p: p[0])
        tol = 1e-9 * max(1.0, abs(best))
        on_grid = bool(np.isclose(cgrid, c, rtol=0, atol=1e-12).any() and np.isclose(ggrid, g, rtol=0, atol=1e-12).any())
        attained = objective(t, w, c, g) if (on_grid and c + g <= w) else float("-inf")
        if attained < best - tol or abs(val - best) > tol:
            out["violations"].append({
                "clause": "reported choices attain the maximum (transcendental utility, JIT)",
                "detail": f"{kind} grids {len(cgrid)}x{len(ggrid)} period {t} agent {i} wealth {w!r}: reported (consumption={c}, gift={g}) on-grid/feasible={on_grid and c + g <= w} objective there {attained!r}; "
                          f"maximum {best!r} at (consumption={arg[0]}, gift={arg[1]}); reported value {val!r}",
                "key": "C02:reported choices attain the maximum (transcendental utility, JIT)",
                "shrink_case": {"kind": "jitlog", "seed": case.get("seed", 0), "explicit": dict(sp, w0=[w] if t == 0 else sp["w0"])}})
            break
    out["sample"] = {"jitlog": sp}
    return out
