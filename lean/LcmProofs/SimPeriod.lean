import LcmModel.Sim
import LcmProofs.SimStep
namespace Lcm

/-- **R2 for one agent and one period on the executable model**: the record produced by
`agentDecision` for agent `i` of any batch has (1) a value that is the maximum of that agent's own
objective over all grid choices passing the (per-agent) filter and the feasibility evaluation,
and (2) whenever that value is not −inf, choices on the grids that pass filter and feasibility and
attain the value. -/
theorem agentDecision_spec (m : Model) (P : Params) (g : Groups) (t : Nat)
    (next : Option (Tensor Ext × List (List (Name × Rat)))) (states : List (List (Name × Rat)))
    (i : Nat) (hi : i < states.length) :
    let st := states.getD i []
    let out := simChoice states.length (assignments g.sC) (assignments g.dC) (assignments g.cC)
      (fun k c => agentFilt m P g t (states.getD k []) c)
      (fun k c e y => valueOf (agentObj m P g t next (states.getD k []) c e y))
      (fun k c e y => feasibleOf (agentObj m P g t next (states.getD k []) c e y)) i
    (agentDecision m P g t next states i).value = out.2.2.2 ∧
    IsMaxOver
      (fun x : List (Name × Rat) × (List (Name × Rat) × List (Name × Rat)) =>
        (x.1 ∈ assignments g.sC ∧ agentFilt m P g t st x.1 = true) ∧
          (x.2.1 ∈ assignments g.dC ∧ (x.2.2 ∈ assignments g.cC ∧
            feasibleOf (agentObj m P g t next st x.1 x.2.1 x.2.2) = true)))
      (fun x => valueOf (agentObj m P g t next st x.1 x.2.1 x.2.2))
      (agentDecision m P g t next states i).value ∧
    ((agentDecision m P g t next states i).value ≠ .ninf →
      out.1 ∈ assignments g.sC ∧ agentFilt m P g t st out.1 = true ∧
      out.2.1 ∈ assignments g.dC ∧ out.2.2.1 ∈ assignments g.cC ∧
      feasibleOf (agentObj m P g t next st out.1 out.2.1 out.2.2.1) = true ∧
      (agentDecision m P g t next states i).value
        = .fin (valueOf (agentObj m P g t next st out.1 out.2.1 out.2.2.1))) := by
  intro st out
  have h := simChoice_spec states.length (assignments g.sC) (assignments g.dC) (assignments g.cC)
    (fun k c => agentFilt m P g t (states.getD k []) c)
    (fun k c e y => valueOf (agentObj m P g t next (states.getD k []) c e y))
    (fun k c e y => feasibleOf (agentObj m P g t next (states.getD k []) c e y)) i hi
  exact ⟨rfl, h.1, h.2⟩

#print axioms agentDecision_spec
end Lcm
