"""C02 - simulated decisions are feasible maximisers of the agent's objective.

Oracle: for every agent-period of an implementation panel the Lean specification (`specAgent`: plain
enumeration of all grid choices with utility + beta * E V-hat built from the value arrays in use)
supplies the maximum and the admissibility/objective of the *reported* choice; relation: choice on the
grids, admissible, attains the maximum, value equals the maximum (exact rationals on the dyadic stream).
R2 (`agentDecision_spec`) proves the same relation for the implementation-shaped model.
"""
from __future__ import annotations

from props.simcommon import base_out, replay_case, run_panel, sim_cases

CANARY = True
RULE = ("cases = generated dyadic specifications (bias: mixed filter-restricted/unrestricted discrete choices, 0-2 continuous "
        "choice grids of unequal sizes) x parameters x batches of 1/6/7/11 agents on and off the grid, solved or random value "
        "arrays, jit on; distinct = structural signature; evaluations = agent-periods checked against the specification")
ASSUMPTIONS = ["stream `jitlog` (utilities built from log / sqrt, two continuous choices, JIT on): numpy oracle from lcm's own value arrays, tolerance 1e-9 relative - searches what the rational model cannot exhibit (finding F6b)",
               "agent-periods whose objective is undefined in the model (transition into an excluded state, -inf continuation) are skipped",
               "dyadic inputs: exact comparison; ties accepted (any maximiser)"]


def cases(seed, tier):
    n_jl = 12 if tier == "quick" else 150
    return sim_cases(seed, tier) + [{"kind": "jitlog", "seed": seed * 1_000_003 + 20201 + i} for i in range(n_jl)]


def run_case(case):
    if case.get("kind") == "jitlog":
        from props.jitlog import run_jitlog

        return run_jitlog(case)
    info = run_panel(case)
    out = base_out(info, case)
    if "skip" in info:
        out["skipped"] = info["skip"]
        return out
    if "raise" in info:
        out["violations"].append({"clause": "simulate runs on a supported specification", "detail": info["raise"], "key": info["raise_key"],
                                  "shrink_case": replay_case(info, case)})
        return out
    res = info["res"]
    out["evals"] = res["stats"]["agent_periods"]
    for k, v in res["stats"].items():
        out["hist"][k] = v
    for v in res["C02"][:3]:
        v["key"] = "C02:" + v["clause"]
        v["shrink_case"] = replay_case(info, case)
        out["violations"].append(v)
    r0 = info["rows"][0][0]
    out["sample"] = {"states": [s for s, _ in info["mj"]["states"]], "choices": [c for c, _ in info["mj"]["choices"]],
                     "n_agents": case.get("n_agents"), "row_0_0": r0, "ties": res["stats"]["ties"]}
    return out
