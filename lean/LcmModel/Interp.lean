namespace Lcm

/-- Nested array of rank n: rank-0 is a scalar. -/
inductive NArr where
  | scalar (x : Rat)
  | arr (xs : List NArr)
deriving Repr

def lowerIdx (c : Rat) (size : Nat) : Nat :=
  (max 0 (min c.floor ((size : Int) - 2))).toNat

/-- Recursive multilinear interpolation (model of map_coordinates, recursive form). -/
def interpRec : NArr → List Rat → Rat
  | .scalar x, _ => x
  | .arr xs, [] => 0
  | .arr xs, c :: cs =>
    let lo := lowerIdx c xs.length
    let w := c - (lo : Rat)
    (1 - w) * (match xs[lo]? with | some a => interpRec a cs | none => 0)
      + w * (match xs[lo+1]? with | some a => interpRec a cs | none => 0)

end Lcm
