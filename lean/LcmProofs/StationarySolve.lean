import LcmProofs.AffineSolve
import LcmProofs.Frame
namespace Lcm

/-! C11, horizon invariance, for the executable model itself: if no function takes `_period` as an argument, the array
`solve` returns `j` periods before the end is the same for every horizon. -/

/-- no function of the specification reads the period -/
def NoPeriod (m : Model) : Prop := ∀ f ∈ m.functions, "_period" ∉ f.args

theorem ancestorsAux_no_period (m : Model) (h : NoPeriod m) (fuel : Nat) (n x : Name)
    (hx : x ∈ ancestorsAux m fuel n) : x ≠ "_period" := by
  induction fuel generalizing n with
  | zero => simp [ancestorsAux] at hx
  | succ k ih =>
    unfold ancestorsAux at hx
    cases hf : m.func? n with
    | none => simp [hf] at hx
    | some f =>
      simp only [hf, List.mem_append, List.mem_flatMap] at hx
      have hmem : f ∈ m.functions := List.mem_of_find?_eq_some hf
      rcases hx with hx | ⟨y, _, hy⟩
      · intro hxe; exact h f hmem (hxe ▸ hx)
      · exact ih y hy

theorem get?_period_irrelevant (env0 : Env) (t t' : Nat) (x : Name) (hx : x ≠ "_period") :
    (env0 ++ periodEnv t).get? x = (env0 ++ periodEnv t').get? x := by
  rw [get?_append, get?_append]
  cases env0.get? x with
  | some v => rfl
  | none =>
    have : ∀ s : Nat, (periodEnv s).get? x = none := by
      intro s
      unfold periodEnv Env.get?
      have hne : ("_period" == x) = false := by
        rw [beq_eq_false_iff_ne]; exact fun h => hx h.symm
      simp [List.find?, hne]
    simp only [this]

variable {m : Model}

theorem callF_period (h : NoPeriod m) (P : Params) (env0 : Env) (t t' : Nat) (n : Name) :
    callF m P m.fuel (env0 ++ periodEnv t) n = callF m P m.fuel (env0 ++ periodEnv t') n :=
  callF_frame m P m.fuel _ _ n fun x hx =>
    get?_period_irrelevant env0 t t' x (ancestorsAux_no_period m h _ n x hx)

theorem allTrue_period (h : NoPeriod m) (P : Params) (env0 : Env) (t t' : Nat) (names : List Name) :
    allTrue m P (env0 ++ periodEnv t) names = allTrue m P (env0 ++ periodEnv t') names :=
  allTrue_frame m P _ _ names fun n _ x hx =>
    get?_period_irrelevant env0 t t' x (ancestorsAux_no_period m h _ n x hx)

theorem utilOf_period (h : NoPeriod m) (P : Params) (env0 : Env) (t t' : Nat) :
    utilOf m P (env0 ++ periodEnv t) = utilOf m P (env0 ++ periodEnv t') := by
  unfold utilOf; rw [callF_period h]

theorem detOf_period (h : NoPeriod m) (P : Params) (env0 : Env) (t t' : Nat) :
    detOf m P (env0 ++ periodEnv t) = detOf m P (env0 ++ periodEnv t') := by
  unfold detOf
  apply mapM_congr_option
  intro fi _
  rw [callF_period h]

theorem wrowsOf_period (h : NoPeriod m) (P : Params) (env0 : Env) (t t' : Nat) :
    wrowsOf m P (env0 ++ periodEnv t) = wrowsOf m P (env0 ++ periodEnv t') := by
  unfold wrowsOf
  apply mapM_congr_option
  intro n _
  cases hf : m.func? n with
  | none => rfl
  | some f =>
    have hmem : f ∈ m.functions := List.mem_of_find?_eq_some hf
    simp only [Option.bind_eq_bind, Option.bind_some]
    congr 1
    apply mapM_congr_option
    intro x hx
    rw [get?_period_irrelevant env0 t t' x (fun hxe => h f hmem (hxe ▸ hx))]

/-- the objective does not depend on the period index -/
theorem uAndF_period (h : NoPeriod m) (P : Params) (g : Groups) (t t' : Nat)
    (next : Option (Tensor Ext × List (List (Name × Rat)))) (env0 : Env) :
    uAndF m P g t next env0 = uAndF m P g t' next env0 := by
  cases next with
  | none =>
    rw [uAndF_none_eq, uAndF_none_eq, allTrue_period h P env0 t t', utilOf_period h P env0 t t']
  | some nx =>
    obtain ⟨V, feas⟩ := nx
    rw [uAndF_some_eq, uAndF_some_eq, allTrue_period h P env0 t t', utilOf_period h P env0 t t',
      detOf_period h P env0 t t', wrowsOf_period h P env0 t t']

theorem mkSpace_period (h : NoPeriod m) (P : Params) (g : Groups) (t t' : Nat) :
    mkSpace m P g t = mkSpace m P g t' := by
  unfold mkSpace
  have : (fun (s c : List (Name × Rat)) =>
      (allTrue m P (toEnv (s ++ c) ++ periodEnv t) (((functionInfo m).filter (·.isFilter)).map (·.name))).getD false)
    = (fun (s c : List (Name × Rat)) =>
      (allTrue m P (toEnv (s ++ c) ++ periodEnv t') (((functionInfo m).filter (·.isFilter)).map (·.name))).getD false) := by
    funext s c
    rw [allTrue_period h]
  simp only [this]

theorem solvePeriod_period (h : NoPeriod m) (P : Params) (g : Groups) (t t' : Nat) (sp : Space)
    (next : Option (Tensor Ext × List (List (Name × Rat)))) :
    solvePeriod m P g t sp next = solvePeriod m P g t' sp next := by
  have hu : (fun env0 => uAndF m P g t next env0) = (fun env0 => uAndF m P g t' next env0) := by
    funext env0; exact uAndF_period h P g t t' next env0
  have hc : (fun env => ccvEnv m P g t next env) = (fun env => ccvEnv m P g t' next env) := by
    funext env
    unfold ccvEnv
    simp only [show ∀ e, uAndF m P g t next e = uAndF m P g t' next e from fun e => congrFun hu e]
  unfold solvePeriod ccvSparse ccvDense
  simp only [show ∀ e, ccvEnv m P g t next e = ccvEnv m P g t' next e from fun e => congrFun hc e]

/-- the same specification with another horizon -/
def withHorizon (m : Model) (T' : Nat) : Model := { m with nPeriods := T' }

theorem func?_wh (m : Model) (T' : Nat) (n : Name) : (withHorizon m T').func? n = m.func? n := by
  unfold Model.func? withHorizon; rfl
theorem fuel_wh (m : Model) (T' : Nat) : (withHorizon m T').fuel = m.fuel := by
  unfold Model.fuel withHorizon; rfl
theorem functionInfo_wh (m : Model) (T' : Nat) : functionInfo (withHorizon m T') = functionInfo m := by
  unfold functionInfo withHorizon; rfl

theorem callF_wh (m : Model) (T' : Nat) (P : Params) (env : Env) (n : Name) :
    callF (withHorizon m T') P (withHorizon m T').fuel env n = callF m P m.fuel env n := by
  rw [fuel_wh]
  exact callF_congr_funcs (withHorizon m T') m (func?_wh m T') P m.fuel env n

theorem allTrue_wh (m : Model) (T' : Nat) (P : Params) (env : Env) (names : List Name) :
    allTrue (withHorizon m T') P env names = allTrue m P env names :=
  allTrue_congr_names m (withHorizon m T') P env names fun n _ => callF_wh m T' P env n

theorem ancestorsAux_wh (m : Model) (T' : Nat) (fuel : Nat) (n : Name) :
    ancestorsAux (withHorizon m T') fuel n = ancestorsAux m fuel n := by
  induction fuel generalizing n with
  | zero => rfl
  | succ k ih =>
    unfold ancestorsAux
    rw [func?_wh]
    cases m.func? n with
    | none => rfl
    | some f =>
      simp only []
      congr 1
      apply List.flatMap_congr
      intro x _
      exact ih x

theorem ancestors_wh (m : Model) (T' : Nat) (targets : List Name) :
    ancestors (withHorizon m T') targets = ancestors m targets := by
  unfold ancestors
  have hl : (withHorizon m T').functions.length = m.functions.length := rfl
  rw [hl]
  congr 1
  apply List.flatMap_congr
  intro x _
  exact ancestorsAux_wh m T' _ x

theorem variableInfo_wh (m : Model) (T' : Nat) : variableInfo (withHorizon m T') = variableInfo m := by
  unfold variableInfo
  simp only [functionInfo_wh, ancestors_wh]
  rfl

theorem groups_wh (m : Model) (T' : Nat) : groups (withHorizon m T') = groups m := by
  unfold groups
  simp only [variableInfo_wh]
  rfl

theorem uAndF_wh (m : Model) (T' : Nat) (P : Params) (g : Groups) (t : Nat)
    (next : Option (Tensor Ext × List (List (Name × Rat)))) (env0 : Env) :
    uAndF (withHorizon m T') P g t next env0 = uAndF m P g t next env0 := by
  have hc : ∀ env, allTrue (withHorizon m T') P env (constraintNames (withHorizon m T')) = allTrue m P env (constraintNames m) := by
    intro env; unfold constraintNames; rw [functionInfo_wh]; exact allTrue_wh m T' P env _
  have hu : ∀ env, utilOf (withHorizon m T') P env = utilOf m P env := by
    intro env; unfold utilOf; rw [callF_wh]
  have hd : ∀ env, detOf (withHorizon m T') P env = detOf m P env := by
    intro env; unfold detOf; rw [functionInfo_wh]
    apply mapM_congr_option; intro fi _; rw [callF_wh]
  have hw : ∀ env, wrowsOf (withHorizon m T') P env = wrowsOf m P env := by
    intro env; unfold wrowsOf; rw [functionInfo_wh]
    apply mapM_congr_option; intro n _; rw [func?_wh]
  cases next with
  | none => rw [uAndF_none_eq, uAndF_none_eq, hc, hu]
  | some nx =>
    obtain ⟨V, feas⟩ := nx
    rw [uAndF_some_eq, uAndF_some_eq, hc, hu, hd, hw]

theorem mkSpace_wh (m : Model) (T' : Nat) (P : Params) (g : Groups) (t : Nat) :
    mkSpace (withHorizon m T') P g t = mkSpace m P g t := by
  unfold mkSpace
  have : (fun (s c : List (Name × Rat)) =>
      (allTrue (withHorizon m T') P (toEnv (s ++ c) ++ periodEnv t)
        (((functionInfo (withHorizon m T')).filter (·.isFilter)).map (·.name))).getD false)
    = (fun (s c : List (Name × Rat)) =>
      (allTrue m P (toEnv (s ++ c) ++ periodEnv t) (((functionInfo m).filter (·.isFilter)).map (·.name))).getD false) := by
    funext s c
    rw [functionInfo_wh, allTrue_wh]
  simp only [this]

theorem solvePeriod_wh (m : Model) (T' : Nat) (P : Params) (g : Groups) (t : Nat) (sp : Space)
    (next : Option (Tensor Ext × List (List (Name × Rat)))) :
    solvePeriod (withHorizon m T') P g t sp next = solvePeriod m P g t sp next := by
  have hc : ∀ env, ccvEnv (withHorizon m T') P g t next env = ccvEnv m P g t next env := by
    intro env
    unfold ccvEnv
    simp only [uAndF_wh]
  unfold solvePeriod ccvSparse ccvDense
  simp only [hc]

/-- **C11, horizon invariance, for the executable `solve`**: `j` periods before the end the value array is the same
for the horizons `T` and `T'` -/
theorem solve_horizon (h : NoPeriod m) (P : Params) (T' : Nat) (j : Nat) (hj : j < m.nPeriods) (hj' : j < T') :
    (solve (withHorizon m T') P true).getD (T' - 1 - j) default = (solve m P true).getD (m.nPeriods - 1 - j) default := by
  induction j with
  | zero =>
    have ht : m.nPeriods - 1 - 0 < m.nPeriods := by omega
    have ht' : T' - 1 - 0 < (withHorizon m T').nPeriods := by show T' - 1 - 0 < T'; omega
    rw [solve_getD m P _ ht, solve_getD (withHorizon m T') P _ ht']
    have hn : nextOf m P (solve m P true) (m.nPeriods - 1 - 0) = none := by unfold nextOf; split <;> [omega; rfl]
    have hn' : nextOf (withHorizon m T') P (solve (withHorizon m T') P true) (T' - 1 - 0) = none := by
      unfold nextOf; show (if T' - 1 - 0 + 1 < T' then _ else _) = _; split <;> [omega; rfl]
    rw [hn, hn', groups_wh, mkSpace_wh, solvePeriod_wh]
    rw [mkSpace_period h P (groups m) (T' - 1 - 0) (m.nPeriods - 1 - 0), solvePeriod_period h P (groups m) (T' - 1 - 0) (m.nPeriods - 1 - 0)]
  | succ j ih =>
    have ihj := ih (by omega) (by omega)
    have ht : m.nPeriods - 1 - (j + 1) < m.nPeriods := by omega
    have ht' : T' - 1 - (j + 1) < (withHorizon m T').nPeriods := by show T' - 1 - (j + 1) < T'; omega
    have hsucc : m.nPeriods - 1 - (j + 1) + 1 = m.nPeriods - 1 - j := by omega
    have hsucc' : T' - 1 - (j + 1) + 1 = T' - 1 - j := by omega
    rw [solve_getD m P _ ht, solve_getD (withHorizon m T') P _ ht']
    have hn : nextOf m P (solve m P true) (m.nPeriods - 1 - (j + 1))
        = some ((solve m P true).getD (m.nPeriods - 1 - j) default, (mkSpace m P (groups m) (m.nPeriods - 1 - j)).feas) := by
      unfold nextOf; rw [hsucc]; split <;> [rfl; omega]
    have hn' : nextOf (withHorizon m T') P (solve (withHorizon m T') P true) (T' - 1 - (j + 1))
        = some ((solve (withHorizon m T') P true).getD (T' - 1 - j) default, (mkSpace m P (groups m) (T' - 1 - j)).feas) := by
      unfold nextOf
      show (if T' - 1 - (j + 1) + 1 < T' then _ else _) = _
      rw [hsucc', groups_wh, mkSpace_wh]; split <;> [rfl; omega]
    rw [hn, hn', ihj, groups_wh, mkSpace_wh, solvePeriod_wh]
    rw [mkSpace_period h P (groups m) (T' - 1 - (j + 1)) (m.nPeriods - 1 - (j + 1)),
      mkSpace_period h P (groups m) (T' - 1 - j) (m.nPeriods - 1 - j),
      solvePeriod_period h P (groups m) (T' - 1 - (j + 1)) (m.nPeriods - 1 - (j + 1))]

#print axioms solve_horizon
end Lcm
