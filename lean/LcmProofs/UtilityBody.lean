import LcmProofs.InfeasibleIrrelevant
namespace Lcm

/-! The specification obtained from `m` by rewriting the body of its utility function (`withUtility m F`): nothing else
changes, provided no function takes the *value* of utility as an argument. If the rewritten body evaluates like the old one
wherever all constraints hold, `UtilityAgreesOnFeasible` holds and the two specifications have the same solution. -/

def mapUtilBody (F : Expr → Expr) (f : Func) : Func :=
  if f.name == "utility" then { f with body := F f.body } else f

def withUtility (m : Model) (F : Expr → Expr) : Model := { m with functions := m.functions.map (mapUtilBody F) }

theorem mapUtilBody_name (F : Expr → Expr) (f : Func) : (mapUtilBody F f).name = f.name := by
  unfold mapUtilBody; split <;> rfl
theorem mapUtilBody_args (F : Expr → Expr) (f : Func) : (mapUtilBody F f).args = f.args := by
  unfold mapUtilBody; split <;> rfl
theorem mapUtilBody_stochastic (F : Expr → Expr) (f : Func) : (mapUtilBody F f).stochastic = f.stochastic := by
  unfold mapUtilBody; split <;> rfl
theorem mapUtilBody_other (F : Expr → Expr) (f : Func) (h : f.name ≠ "utility") : mapUtilBody F f = f := by
  unfold mapUtilBody; simp [h]

theorem func?_withU (m : Model) (F : Expr → Expr) (n : Name) :
    (withUtility m F).func? n = (m.func? n).map (mapUtilBody F) := by
  unfold Model.func? withUtility
  simp only [List.find?_map]
  have : ((fun x : Func => x.name == n) ∘ mapUtilBody F) = (fun x => x.name == n) := by
    funext f; simp [Function.comp, mapUtilBody_name]
  rw [this]

theorem func?_nameU (m : Model) (n : Name) (f : Func) (h : m.func? n = some f) : f.name = n := by
  have := List.find?_some h
  simpa using this

theorem func?_memU (m : Model) (n : Name) (f : Func) (h : m.func? n = some f) : f ∈ m.functions :=
  List.mem_of_find?_eq_some h

theorem functionInfo_withU (m : Model) (F : Expr → Expr) : functionInfo (withUtility m F) = functionInfo m := by
  unfold functionInfo withUtility
  simp only [List.map_map]
  apply List.map_congr_left
  intro f _
  simp only [Function.comp, mapUtilBody_name, mapUtilBody_stochastic]

theorem fuel_withU (m : Model) (F : Expr → Expr) : (withUtility m F).fuel = m.fuel := by
  unfold Model.fuel withUtility; simp

theorem ancestorsAux_withU (m : Model) (F : Expr → Expr) (fuel : Nat) (n : Name) :
    ancestorsAux (withUtility m F) fuel n = ancestorsAux m fuel n := by
  induction fuel generalizing n with
  | zero => rfl
  | succ k ih =>
    unfold ancestorsAux
    rw [func?_withU]
    cases m.func? n with
    | none => rfl
    | some f =>
      simp only [Option.map_some, mapUtilBody_args]
      congr 1
      apply List.flatMap_congr
      intro x _
      exact ih x

theorem ancestors_withU (m : Model) (F : Expr → Expr) (targets : List Name) :
    ancestors (withUtility m F) targets = ancestors m targets := by
  unfold ancestors
  have hl : (withUtility m F).functions.length = m.functions.length := by simp [withUtility]
  rw [hl]
  congr 1
  apply List.flatMap_congr
  intro x _
  exact ancestorsAux_withU m F _ x

theorem variableInfo_withU (m : Model) (F : Expr → Expr) : variableInfo (withUtility m F) = variableInfo m := by
  unfold variableInfo
  simp only [functionInfo_withU, ancestors_withU]
  rfl

theorem groups_withU (m : Model) (F : Expr → Expr) : groups (withUtility m F) = groups m := by
  unfold groups
  simp only [variableInfo_withU]
  rfl

/-- functions other than utility evaluate alike (any fuel), provided no function takes utility as an argument -/
theorem callF_with_otherU (m : Model) (F : Expr → Expr) (P : Params) (hno : ∀ f ∈ m.functions, "utility" ∉ f.args)
    (fuel : Nat) (env : Env) (n : Name) (hn : n ≠ "utility") :
    callF (withUtility m F) P fuel env n = callF m P fuel env n := by
  induction fuel generalizing n with
  | zero => rfl
  | succ k ih =>
    unfold callF
    rw [func?_withU]
    cases hf : m.func? n with
    | none => rfl
    | some f =>
      have hname := func?_nameU m n f hf
      have hmem := func?_memU m n f hf
      rw [Option.map_some, mapUtilBody_other F f (by rw [hname]; exact hn)]
      simp only [Option.bind_eq_bind, Option.bind_some]
      congr 1
      apply mapM_congr_option
      intro x hx
      have hxu : x ≠ "utility" := fun h => hno f hmem (h ▸ hx)
      rw [func?_withU, ih x hxu]
      cases m.func? x <;> rfl

/-- **instance**: rewriting the body of utility so that it evaluates alike wherever all constraints hold -/
theorem utilityAgreesOnFeasible_with (m : Model) (F : Expr → Expr) (P : Params)
    (hno : ∀ f ∈ m.functions, "utility" ∉ f.args)
    (hnames : ∀ fi ∈ functionInfo m, (fi.isConstraint = true ∨ fi.isFilter = true ∨ fi.isNext = true) → fi.name ≠ "utility")
    (hutil : ∀ env, allTrue m P env (constraintNames m) = some true → utilOf (withUtility m F) P env = utilOf m P env) :
    UtilityAgreesOnFeasible m (withUtility m F) P where
  periods := rfl
  grp := groups_withU m F
  finfo := functionInfo_withU m F
  other := fun env n hn => by rw [fuel_withU]; exact callF_with_otherU m F P hno _ env n hn
  funcs := fun n hn => by
    rw [func?_withU]
    cases hf : m.func? n with
    | none => rfl
    | some f => rw [Option.map_some, mapUtilBody_other F f (by rw [func?_nameU m n f hf]; exact hn)]
  util := hutil
  names := hnames

#print axioms utilityAgreesOnFeasible_with
end Lcm
