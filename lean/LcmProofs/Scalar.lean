import LcmModel.Scalar
import Mathlib.Tactic.Ring
import Mathlib.Tactic.FieldSimp
import Mathlib.Tactic.Linarith
import Mathlib.Algebra.Order.Field.Rat
namespace Lcm

/-- the generic definition, at the `Rat` instance, is the rational formula -/
theorem gLinCoord_rat (v a b : Rat) (n : Nat) :
    gLinCoord v a b n = (v - a) / ((b - a) / ((n : Rat) - 1)) := by
  simp [gLinCoord, Scalar.ofInt]

theorem gLinCoord_node (a b : Rat) (n i : Nat) (hn : 2 ≤ n) (h : a < b) :
    gLinCoord (a + (i : Rat) * ((b - a) / ((n : Rat) - 1))) a b n = i := by
  rw [gLinCoord_rat]
  have h1 : (n : Rat) - 1 ≠ 0 := by
    have : (2 : Rat) ≤ n := by exact_mod_cast hn
    linarith
  have h2 : b - a ≠ 0 := by linarith
  field_simp
  ring

#print axioms gLinCoord_node
end Lcm
