"""Grammar-based generator of dyadic model specifications (DESIGN.md sections 4 and 6.0).

Every random choice comes from the `random.Random` handed in, so a case replays from its sub-seed.
All grids, coefficients, parameters and probabilities are small dyadic rationals and continuous
grids have n-1 in {1,2,4,8} with a power-of-two step: every float operation of the implementation
is then exact and its output can be compared bit-for-bit with the model's rationals.
"""
from __future__ import annotations

import itertools
from fractions import Fraction as Fr

from dsl import N, V, grid_points, param_slots, shock_shapes

NAMES = ["wa", "hb", "xc", "yd", "ze", "kf", "lg", "mh", "ni", "oj", "pk", "ql"]
LIN_SIZES = [2, 3, 5, 9]
DISC_SIZES = [2, 3, 4]


def dy(r, lo=-4, hi=4, den=(1, 2, 4), nonzero=False):
    while True:
        d = r.choice(den)
        q = Fr(r.randint(lo * d, hi * d), d)
        if q != 0 or not nonzero:
            return q


def log_grid(r, n=None):
    """log-spaced grid (tolerance stream): positive start, moderate ratio"""
    n = n or r.choice([3, 4, 5, 6])
    a = r.choice([Fr(1, 2), Fr(1), Fr(2)])
    b = a * r.choice([4, 8, 16])
    return {"k": "log", "a": str(a), "b": str(b), "n": n}


def lin_grid(r, n=None):
    n = n or r.choice(LIN_SIZES[:3])
    step = r.choice([Fr(1, 2), Fr(1), Fr(2)])
    a = Fr(r.randint(-2, 2))
    b = a + step * (n - 1)
    return {"k": "lin", "a": str(a), "b": str(b), "n": n}


def _fn(name, args, body, stochastic=False, ints=False):
    return {"name": name, "args": list(args), "body": body, "stochastic": stochastic, "ints": ints}


def gen_model(r, *, budget=6000, max_T=4, force=None):
    """Return (model_json, meta). `force` may request features: a set out of
    {"f1", "mixed", "stoch", "filter", "constraint", "cont2", "nofilter", "aux"}."""
    force = set(force or ())
    meta = {}
    collide = "collide" in force
    noperiod = "noperiod" in force
    T = r.choice([1, 2, 2, 3, 3, 4][: max(1, max_T + 2)])
    T = min(T, max_T)
    if force & {"f1", "f1two"} and T < 2:
        T = 2
    if force & {"f1two", "pconstraint"} and T < 3:
        T = min(3, max_T) if "pconstraint" in force else 3
    n_cs = r.choice([0, 0, 1, 1, 2])
    n_ds = r.choice([0, 1, 1, 2, 3])
    if n_cs + n_ds == 0:
        n_ds = 1
    n_cc = r.choice([0, 1, 1, 2])
    n_dc = r.choice([0, 1, 1, 2])
    if "discrete" in force:
        n_cs = 0
        n_ds = max(n_ds, 1)
    if "cont2" in force:
        n_cc = 2
    if "nocc" in force:
        n_cc = 0
        n_dc = max(n_dc, 1)
    if force & {"f1", "f1two", "mixed", "filter", "sdaux"}:
        n_ds = max(n_ds, 1)
    if "f1two" in force:
        n_dc = max(n_dc, 1)
    if "mixed" in force:
        n_dc = max(n_dc, 2)
    if force & {"filter", "sdaux", "divguard", "intutil"}:
        n_dc = max(n_dc, 1)
    if "intutil" in force:
        n_cs = max(n_cs, 1)
    if "stoch" in force:
        n_ds = max(n_ds, 1)
    if "stoch3" in force:
        n_ds = 3
        n_cs = min(n_cs, 1)
    if force & {"log", "cs"}:
        n_cs = max(n_cs, 1)
    if "bigdisc" in force:
        n_ds = 1
        n_cs = min(n_cs, 1)
        n_cc = min(n_cc, 1)
        n_dc = max(1, min(n_dc, 1))
    if "cs2" in force:
        n_cs = 2          # two continuous states (sizes pairwise different, in random order)
    names = NAMES[:]
    r.shuffle(names)
    names = iter(names)

    # ---- sizes: pairwise distinct where the pools allow it, within the evaluation budget
    def sizes():
        lin_pool = LIN_SIZES[:3][:]
        disc_pool = DISC_SIZES[:]
        r.shuffle(lin_pool)
        r.shuffle(disc_pool)
        out = {}
        for kind, n in (("cs", n_cs), ("cc", n_cc)):
            out[kind] = [lin_pool[i % len(lin_pool)] if i < len(lin_pool) else r.choice(LIN_SIZES[:3]) for i in range(n)]
            lin_pool = lin_pool[n:] + lin_pool[:n]
        for kind, n in (("ds", n_ds), ("dc", n_dc)):
            out[kind] = [disc_pool[i % len(disc_pool)] for i in range(n)]
            disc_pool = disc_pool[n:] + disc_pool[:n]
        if "bigdisc" in force and out["ds"]:
            # one discrete state with many categories (more than 16 restricted-state combinations once a filter involves it)
            out["ds"][0] = r.choice([17, 18, 20, 24])
        if "eqsize" in force:
            # equal axis lengths: transposed or mis-paired axes do not raise shape errors but give wrong numbers
            k = r.choice([2, 3])
            out["ds"] = [k] * n_ds
            out["dc"] = [k] * n_dc
        return out

    for _ in range(50):
        sz = sizes()
        tot = 1
        for v in sz.values():
            for n in v:
                tot *= n
        if tot <= budget:
            break
        # shrink: drop a variable of the largest family
        if n_cc > 1:
            n_cc -= 1
        elif n_cs > 1 and "cs2" not in force:
            n_cs -= 1
        elif n_ds > 2:
            n_ds -= 1
        elif n_dc > 1 and "mixed" not in force:
            n_dc -= 1
    states, choices = [], []
    order = ["cs"] * n_cs + ["ds"] * n_ds
    r.shuffle(order)
    it = {k: iter(v) for k, v in sz.items()}
    for j_, k in enumerate(order):
        nm = next(names)
        if "valuename" in force and j_ == 0:
            nm = "value"      # a state may carry any identifier; the frame also has a column of that name (C03, finding K10)
        if k == "cs":
            n_ = next(it["cs"])
            states.append([nm, log_grid(r) if ("log" in force and r.random() < 0.7) else lin_grid(r, n_)])
        else:
            states.append([nm, {"k": "disc", "n": next(it["ds"])}])
    order = ["cc"] * n_cc + ["dc"] * n_dc
    r.shuffle(order)
    for k in order:
        nm = next(names)
        if k == "cc":
            n_ = next(it["cc"])
            choices.append([nm, log_grid(r) if ("log" in force and r.random() < 0.4) else lin_grid(r, n_)])
        else:
            choices.append([nm, {"k": "disc", "n": next(it["dc"])}])
    G = dict(states + choices)
    snames = [k for k, _ in states]
    cnames = [k for k, _ in choices]
    dstates = [k for k in snames if G[k]["k"] == "disc"]
    cstates = [k for k in snames if G[k]["k"] != "disc"]
    dchoices = [k for k in cnames if G[k]["k"] == "disc"]
    cchoices = [k for k in cnames if G[k]["k"] != "disc"]
    disc = dstates + dchoices
    allv = snames + cnames
    funcs = []

    def lincomb(vs, param=None, quad=None):
        e = N(dy(r))
        for v in vs:
            t = ["mul", N(dy(r, nonzero=True)), V(v)]
            if r.random() < 0.25 and len(vs) > 1:
                t = ["mul", t, V(r.choice(vs))]
            e = ["add", e, t]
        if quad:
            d = ["sub", V(quad), N(dy(r, 0, 3))]
            e = ["sub", e, ["mul", d, d]]
        if param:
            e = ["add", e, ["mul", V(param), V(r.choice(vs)) if vs else N(1)]]
        return e

    # ---- "flat" choices: a choice that does not enter utility (nor auxiliary functions) produces exact ties
    flat = []
    if "flatc" in force and cchoices:
        flat.append(r.choice(cchoices))
    if "flatd" in force and dchoices:
        flat.append(r.choice(dchoices))
    if "intutil" in force:
        # integer-valued utility: only discrete variables enter it, all constants are integer literals; the continuous
        # choices are "flat" (they enter a constraint), the continuous states enter a constraint (added below)
        flat = list(dict.fromkeys(flat + cchoices))
    uvars = [v for v in allv if v not in flat]
    if "intutil" in force:
        uvars = [v for v in uvars if v in disc]
    meta["flat"] = flat
    # ---- auxiliary functions (chain), float-valued, may read _period and parameters
    aux = []
    n_aux = r.choice([0, 0, 1, 1, 2]) if "aux" not in force else r.choice([1, 2])
    for i in range(n_aux):
        nm = f"aux{i}"
        aargs = r.sample(uvars, k=min(len(uvars), r.randint(1, 2)))
        if aux and r.random() < 0.5:
            aargs.append(aux[-1])
        if r.random() < 0.4 and not noperiod:
            aargs.append("_period")
        p = "kappa" if collide else r.choice(["kappa", "rho", None])
        r.shuffle(aargs)
        funcs.append(_fn(nm, aargs + ([p] if p else []), lincomb(aargs, p)))
        aux.append(nm)
    # ---- "twin" auxiliary functions: ONE callable registered under two names (same arguments, same parameter name), as
    #      a user would do for two identical components; each name has its own entry in params
    twins = []
    if "twin" in force:
        targs = r.sample(uvars, k=min(len(uvars), r.randint(1, 2)))
        r.shuffle(targs)
        f0 = _fn("tw0", targs + ["kappa"], lincomb(targs, "kappa"))
        f1 = dict(f0, name="tw1", same_as="tw0")
        funcs.extend([f0, f1])
        twins = ["tw0", "tw1"]
        meta["twins"] = True
    # ---- utility: every state and choice enters (supported class), nonzero coefficients
    uargs = uvars + ([aux[-1]] if aux else []) + ([aux[0]] if len(aux) > 1 and r.random() < 0.5 else []) + twins
    if r.random() < 0.35 and not noperiod:
        uargs.append("_period")
    r.shuffle(uargs)
    p = "kappa" if (collide or r.random() < 0.6) else None
    qc = [c for c in cchoices if c not in flat]
    quad = r.choice(qc) if qc and r.random() < 0.6 else None
    funcs.append(_fn("utility", uargs + ([p] if p else []), lincomb(uargs, p, quad)))
    if "intutil" in force:
        ivars = [v for v in uvars if v in disc]
        e = N(r.randint(-2, 2))
        for v in ivars:
            e = ["add", e, ["mul", N(r.choice([100, 150, -100]) if "narrownext" in force else r.choice([1, 2, -1, 3, 50, 100])), V(v)]]
        r.shuffle(ivars)
        funcs[-1] = _fn("utility", ivars, e, ints=True)
        meta["intutil"] = True
    if "stacked" in force:
        funcs[-1]["stacked"] = True     # see dsl.mkfunc: utility written with a reduction over a stacked vector

    # ---- filters
    filt_state_f1 = None
    fam = None
    if "nofilter" not in force and dstates:
        u = r.random()
        sd_fams = ["sd", "sd", "sdp", "two"] + (["sdaux"] if "sdaux" in force else [])
        if noperiod:
            sd_fams = [f for f in sd_fams if f != "sdp"]
        if force & {"f1", "f1two"}:
            fam = "f1"
        elif dchoices and (force & {"mixed", "filter", "sdaux"}):
            fam = "sdaux" if "sdaux" in force else r.choice(sd_fams)
        elif T >= 2 and u < 0.2 and not noperiod:
            fam = "f1"
        elif dchoices and u < 0.6:
            fam = r.choice(sd_fams)
        elif u < 0.75:
            fam = "s"
    meta["filter_family"] = fam
    always = {}
    if fam == "f1":
        s = r.choice(dstates)
        filt_state_f1 = s
        p0 = r.randint(0, T - 1)
        lo = ["ite", ["eq", V("_period"), N(p0)], N(1), N(0)]
        if r.random() < 0.5:
            lo = ["ite", ["le", N(p0), V("_period")], N(1), N(0)] if p0 > 0 else lo
        cond = ["le", lo, V(s)]
        args = [s, "_period"]
        if dchoices and r.random() < 0.6:
            d = r.choice(dchoices)
            k = 0 if r.random() < 0.7 else r.randint(0, G[d]["n"] - 1)
            always[d] = k
            cond = ["and", cond, ["or", ["le", V(s), V(d)], ["eq", V(d), N(k)]]]
            args = [s, d, "_period"]
        r.shuffle(args)
        funcs.append(_fn("f0_filter", args, cond, ints=True))
        meta["f1_period"] = p0
        if dchoices and ("f1two" in force or r.random() < 0.4):
            # a second, period-independent filter (declared before or after the period-dependent one)
            d2 = r.choice(dchoices)
            s2 = r.choice(dstates)
            k2 = always.get(d2, 0)
            always[d2] = k2
            funcs.append(_fn("g1_filter", [d2, s2] if r.random() < 0.5 else [s2, d2], ["or", ["le", V(d2), V(s2)], ["eq", V(d2), N(k2)]], ints=True))
            meta["f1_two_filters"] = True
    elif fam in ("sd", "sdp", "sdaux", "two"):
        s = r.choice(dstates)
        d = r.choice(dchoices)
        k = 0 if r.random() < 0.7 else r.randint(0, G[d]["n"] - 1)
        always[d] = k
        cond = r.choice([["le", V(s), V(d)], ["eq", V(s), N(0)], ["lt", V(d), ["add", V(s), N(1)]], ["not", ["eq", V(s), V(d)]]])
        args = [s, d]
        if fam == "sdp":
            cond = ["or", cond, ["eq", V("_period"), N(r.randint(0, max(0, T - 1)))]]
            args.append("_period")
        if fam == "sdaux":
            funcs.append(_fn("auxd", [d, s] if r.random() < 0.5 else [s, d], ["add", V(s), V(d)], ints=True))
            cond = ["le", V("auxd"), N(r.randint(1, G[s]["n"] + G[d]["n"] - 3 + 1))]
            args = ["auxd", d]
        body = ["or", cond, ["eq", V(d), N(k)]]
        r.shuffle(args)
        funcs.append(_fn("f0_filter", args, body, ints=True))
        if fam == "two":
            s2 = r.choice(dstates)
            d2 = r.choice(dchoices)
            k2 = always.get(d2, 0 if r.random() < 0.7 else r.randint(0, G[d2]["n"] - 1))
            always[d2] = k2
            funcs.append(_fn("g1_filter", [d2, s2], ["or", ["le", V(d2), V(s2)], ["eq", V(d2), N(k2)]], ints=True))
    elif fam == "s":
        s = r.choice(dstates)
        funcs.append(_fn("f0_filter", [s], ["le", V(s), N(G[s]["n"])], ints=True))

    # ---- "cofilter": next to a filter that involves a state, a second filter over choices only (one value of a discrete
    #      choice - or one pair of values of two - is never available); outside C01's supported class as a lone filter
    #      (finding K2), but solved and simulated by the library when a state-dependent filter is present
    if "cofilter" in force and fam in ("f1", "sd", "sdp", "two") and dchoices:
        ds_ = r.sample(dchoices, k=min(len(dchoices), r.choice([1, 1, 2])))
        conj = None
        for d_ in ds_:
            ex = [v for v in range(G[d_]["n"]) if v != always.get(d_, 0)]
            e_ = r.choice(ex) if ex else None
            if e_ is None:
                conj = None
                break
            always.setdefault(d_, 0)
            t_ = ["eq", V(d_), N(e_)]
            conj = t_ if conj is None else ["and", conj, t_]
        if conj is not None:
            r.shuffle(ds_)
            funcs.append(_fn("co_filter", ds_, ["not", conj], ints=True))
            meta["cofilter"] = ds_

    if "intfilter" in force:
        # filters that return the integers 0 / 1 instead of booleans (an indicator): "holds" means "is non-zero"
        for f_ in funcs:
            if f_["name"].endswith("_filter"):
                f_["body"] = ["ite", f_["body"], N(1), N(0)]
                meta["intfilter"] = True
    if "stackedfilter" in force:
        for f_ in funcs:
            if f_["name"].endswith("_filter") and f_["body"][0] in ("or", "and"):
                f_["stacked"] = True
                meta["stackedfilter"] = True

    # ---- transitions
    stoch = []
    for s in snames:
        g = G[s]
        if g["k"] != "disc":
            others = [v for v in allv if v != s]
            args = [s] + r.sample(others, k=min(len(others), r.randint(0, 2)))
            if aux and r.random() < 0.3:
                args.append(r.choice(aux))
            pn = "kappa" if collide else ("rho" if r.random() < 0.4 else None)
            body = ["add", V(s), ["mul", N(r.choice([Fr(1, 2), Fr(1, 4), Fr(-1, 2)])), lincomb(args[1:])]]
            if pn:
                body = ["mul", V(pn), body]
            if r.random() < 0.3 and not noperiod:
                args.append("_period")
                body = ["add", body, ["mul", N(Fr(1, 2)), V("_period")]]
            if g["k"] == "log":
                # a log grid has no values outside (0, inf): keep the next state inside the grid range
                body = ["min", ["max", body, N(Fr(g["a"]))], N(Fr(g["b"]))]
            r.shuffle(args)
            funcs.append(_fn(f"next_{s}", args + ([pn] if pn else []), body))
        else:
            n = g["n"]
            want_stoch = (("stoch" in force and not stoch) or "stoch3" in force or r.random() < 0.35) and "nostoch" not in force
            if want_stoch and s != filt_state_f1:
                deps = r.sample(disc, k=min(len(disc), r.randint(1, 2)))
                if r.random() < 0.4 and not noperiod:
                    deps.append("_period")
                r.shuffle(deps)
                if "iid" in force and not stoch:
                    deps = []    # an i.i.d. shock: the transition lists no dependency, its array has the labels as only axis
                    meta["iid"] = s
                funcs.append(_fn(f"next_{s}", deps, N(0), stochastic=True, ints=True))
                stoch.append(s)
            else:
                args = r.sample(disc, k=min(len(disc), r.randint(1, 2)))
                e = N(0)
                for a in args:
                    e = ["add", e, V(a)]
                if r.random() < 0.3 and not noperiod:
                    args.append("_period")
                    e = ["add", e, V("_period")]
                body = ["min", e, N(n - 1)]
                if s == filt_state_f1:
                    body = ["max", body, N(1)]
                r.shuffle(args)
                funcs.append(_fn(f"next_{s}", args, body, ints=True))

    # ---- constraints: `choice-side <= state-side + k`, the all-minimal choice always passes
    def gmin(v):
        return min(grid_points(G[v]))

    n_con = r.choice([0, 1, 1, 2]) if "constraint" not in force else r.choice([1, 2])
    for i in range(n_con if cnames else 0):
        u = r.random()
        if cchoices and (u < 0.6 or not dchoices):
            lhs_vars = r.sample(cchoices, k=min(len(cchoices), r.choice([1, 1, 2])))
        else:
            lhs_vars = [r.choice(dchoices)]
        rhs_v = r.choice(snames) if snames and r.random() < 0.8 else None
        lhs = V(lhs_vars[0])
        for v in lhs_vars[1:]:
            lhs = ["add", lhs, V(v)]
        lmin = sum(gmin(v) for v in lhs_vars)
        # discrete choices restricted by a filter may be forced to their always-allowed value
        for v in lhs_vars:
            if v in always:
                lmin += Fr(always[v]) - gmin(v)
        slack = lmin - (gmin(rhs_v) if rhs_v else 0) + r.choice([0, Fr(1, 2), 1, 2])
        if rhs_v and G[rhs_v]["k"] == "log":
            # never binding exactly at a node of a log grid: the library's node is within an ulp of the mathematical one, and
            # an ulp would decide the constraint (the minimal choice stays feasible with a margin)
            slack += Fr(1, 4)
        args = lhs_vars + ([rhs_v] if rhs_v else [])
        rhs = ["add", V(rhs_v), N(slack)] if rhs_v else N(slack)
        if "pconstraint" in force and i == 0:
            # the period enters the specification through this constraint (and, with `noperiod`, through nothing else): the
            # bound relaxes by one half per period, so the admissible sets of periods 0, 1, 2, ... differ
            rhs = ["add", rhs, ["mul", N(Fr(1, 2)), V("_period")]]
            args = args + ["_period"]
            meta["pconstraint"] = True
        pn = None
        if collide or r.random() < 0.3:
            pn = "kappa"
            if collide:
                # the parameter matters: slack grows with kappa (values of kappa are >= -1/2, keep the minimal choice admissible)
                rhs = ["add", rhs, ["add", V(pn), N(Fr(1, 2))]]
            else:
                rhs = ["add", rhs, ["sub", V(pn), V(pn)]] if r.random() < 0.5 else ["add", rhs, ["mul", N(0), V(pn)]]
        r.shuffle(args)
        funcs.append(_fn(f"c{i}_constraint", args + ([pn] if pn else []), ["le", lhs, rhs], ints=False))

    # ---- "divguard": utility has a term  num / min(dmax - d, 2)  in a discrete choice d, and a constraint d <= dmax - 1
    #      excludes the choice at which the divisor is zero. At that (infeasible) choice the implementation's utility is
    #      +inf, -inf or nan; "an infeasible choice never determines a value" (C01). Divisors 1 and 2 keep the stream exact.
    if "divguard" in force and dchoices:
        cand = [d for d in dchoices if d not in always and d not in flat] or [d for d in dchoices if d not in flat]
        if cand:
            d = r.choice(cand)
            dmax = G[d]["n"] - 1
            uf = next(f for f in funcs if f["name"] == "utility")
            numv = r.choice(snames) if snames and r.random() < 0.7 else None
            num = ["add", N(r.choice([0, 1, Fr(1, 2), 2])), V(numv)] if numv else N(r.choice([1, Fr(3, 2), 0]))
            uf["body"] = ["add", uf["body"], ["div", num, ["min", ["sub", N(dmax), V(d)], N(2)]]]
            for a in ([d] + ([numv] if numv else [])):
                if a not in uf["args"]:
                    uf["args"].append(a)
            funcs.append(_fn("divguard_constraint", [d], ["le", V(d), N(dmax - 1)]))
            meta["divguard"] = d
    # ---- lower-bound constraints: `min(state-side, max of the choice grid) <= choice` (the maximal choice always passes;
    #      together with an upper bound the admissible set may become empty -> the model reports the case as unsupported)
    if cnames and ("lower" in force or r.random() < 0.15):
        c = r.choice([x for x in flat if x in cchoices] or cchoices or dchoices)
        if not any(c in f["args"] for f in funcs if f["name"].endswith("_constraint")):
            cmax = max(grid_points(G[c]))
            cmin = min(grid_points(G[c]))
            if snames and r.random() < 0.6:
                s_ = r.choice(snames)
                lo = ["min", ["add", ["mul", N(Fr(1, 2)), V(s_)], N(cmin + r.choice([Fr(1, 2), 1, Fr(3, 2)]))], N(cmax)]
                largs = [c, s_]
            else:
                pts = sorted(grid_points(G[c]))
                lo = N(pts[min(len(pts) - 1, r.randint(1, 2))])
                largs = [c]
            r.shuffle(largs)
            funcs.append(_fn("lower_constraint", largs, ["le", lo, V(c)]))
            meta["lower_bound"] = True
    # ---- optionally a last-period-only constraint that leaves some states without feasible choice
    if cnames and snames and ("ninf" in force or r.random() < 0.12) and not noperiod:
        c = r.choice(cnames)
        s = r.choice(snames)
        pts = sorted(grid_points(G[s]))
        thr = pts[len(pts) // 2]
        body = ["or", ["lt", V("_period"), N(T - 1)], ["le", N(thr), V(s)]]
        if r.random() < 0.5:
            body = ["or", body, ["lt", N(max(grid_points(G[c]))), V(c)]]
            cargs = [c, s, "_period"]
        else:
            cargs = [s, "_period"]
        r.shuffle(cargs)
        funcs.append(_fn("last_constraint", cargs, body))
        meta["ninf_family"] = True
    if "intutil" in force:
        for s_ in cstates:
            if not any(s_ in f["args"] for f in funcs if f["name"].endswith("_constraint")):
                funcs.append(_fn(f"use_{s_}_constraint", [s_], ["le", N(min(grid_points(G[s_])) - 8), V(s_)]))
    # a flat choice must still be an argument of utility or of a constraint: a choice that enters only transition
    # functions and filters is accepted by lcm but fails in the last period (known finding K9)
    for v in flat:
        if not any(v in f["args"] for f in funcs if f["name"].endswith("_constraint")):
            funcs.append(_fn(f"use_{v}_constraint", [v], ["le", N(min(grid_points(G[v]))), V(v)]))
    r.shuffle(funcs)
    mj = {"n_periods": T, "states": states, "choices": choices, "functions": funcs}
    if "narrownext" in force:
        # deterministic transitions of discrete states return int8 (all values are valid codes)
        for f in funcs:
            if f["name"].startswith("next_") and not f.get("stochastic") and f.get("ints") and f["name"][5:] in dstates:
                f["narrow"] = "int8"
                meta["narrownext"] = True
    if "intconstraint" in force:
        # constraints that return the integers 0 / 1 (an indicator) instead of booleans
        for f in funcs:
            if f["name"].endswith("_constraint"):
                f["body"] = ["ite", f["body"], N(1), N(0)]
                meta["intconstraint"] = meta.get("intconstraint", 0) + 1
    if "kwonly" in force:
        # parameters declared keyword-only (`def f(x, *, kappa)`; what `functools.partial(f, kappa=...)` looks like as well)
        from dsl import param_slots

        slots = param_slots(mj)
        for f in funcs:
            if slots.get(f["name"]) and not f.get("stochastic") and not f.get("same_as") and r.random() < 0.8:
                f["kwonly"] = list(slots[f["name"]])
                meta["kwonly"] = meta.get("kwonly", 0) + 1
    meta.update(
        n_cs=n_cs, n_ds=n_ds, n_cc=n_cc, n_dc=n_dc, T=T, n_stoch=len(stoch), n_aux=len(aux),
        n_constraints=sum(1 for f in funcs if f["name"].endswith("_constraint")),
        n_filters=sum(1 for f in funcs if f["name"].endswith("_filter")),
        f1_state=filt_state_f1,
    )
    return mj, meta


def gen_params(r, mj, *, beta=None):
    """Parameters following the specification's own slots (see dsl.param_slots)."""
    slots = param_slots(mj)
    vals = [Fr(1, 2), Fr(1), Fr(-1, 2), Fr(2), Fr(3, 2), Fr(1, 4)]
    P = {
        "beta": Fr(beta) if beta is not None else r.choice([Fr(0), Fr(1, 2), Fr(3, 4), Fr(1), Fr(7, 8), Fr(1, 2), Fr(3, 4)]),
        "funcs": {f: {p: r.choice(vals) for p in ps} for f, ps in slots.items()},
        "shocks": {},
    }
    for x, shape in shock_shapes(mj).items():
        n = shape[-1]
        data = []
        rows = 1
        for k in shape[:-1]:
            rows *= k
        for _ in range(rows):
            u = r.random()
            if u < 0.2:  # point mass
                row = [0] * n
                row[r.randrange(n)] = 8
            else:
                cuts = sorted(r.randint(0, 8) for _ in range(n - 1))
                row = [b - a for a, b in zip([0] + cuts, cuts + [8])]
                if u < 0.5 and n > 1:  # force a zero entry
                    j = r.randrange(n)
                    k = (j + 1) % n
                    row[k] += row[j]
                    row[j] = 0
            data.extend(Fr(x_, 8) for x_ in row)
        P["shocks"][x] = {"shape": shape, "data": data}
    return P


def gen_initial_states(r, mj, n_agents, *, on_grid=False, meta=None):
    """Initial states: discrete labels on the grid; continuous values on and off the grid (dyadic)."""
    out = {}
    f1 = (meta or {}).get("f1_state")
    for s, g in mj["states"]:
        if g["k"] == "disc":
            lo = 1 if s == f1 else 0
            out[s] = [Fr(r.randint(lo, g["n"] - 1)) for _ in range(n_agents)]
        else:
            a, b, n = Fr(g["a"]), Fr(g["b"]), g["n"]
            if on_grid and g["k"] != "log":
                pts = grid_points(g)
                out[s] = [r.choice(pts) for _ in range(n_agents)]
            elif g["k"] == "log":
                out[s] = [a + (b - a) * Fr(r.randint(0, 8), 8) for _ in range(n_agents)]
            else:
                out[s] = [a + (b - a) * Fr(r.randint(-1, 9), 8) for _ in range(n_agents)]
    return out


def signature(mj) -> str:
    """Structural signature of a specification (numbers abstracted away)."""
    G = dict(mj["states"] + mj["choices"])

    def kind(a):
        if a in G:
            return ("S" if a in dict(mj["states"]) else "C") + G[a]["k"][0] + str(G[a]["n"])
        if a == "_period":
            return "t"
        if any(f["name"] == a for f in mj["functions"]):
            return "f"
        return "p"

    def cls(n):
        if n.endswith("_filter"):
            return "filter"
        if n.endswith("_constraint"):
            return "constraint"
        if n.startswith("next_"):
            return "next"
        if n == "utility":
            return "utility"
        return "aux"

    fs = sorted((cls(f["name"]), "".join(sorted(kind(a) for a in f["args"])), bool(f.get("stochastic"))) for f in mj["functions"])
    return repr((mj["n_periods"], [kind(k) for k, _ in mj["states"]], [kind(k) for k, _ in mj["choices"]], fs))


def nontrivial(mj) -> bool:
    return bool(mj["choices"]) and (mj["n_periods"] >= 2 or any(f["name"].endswith(("_filter", "_constraint")) for f in mj["functions"]))


def strip(mj):
    """model JSON as sent to the driver (harness-only fields removed)"""
    return {
        "n_periods": mj["n_periods"],
        "states": [[k, _driver_grid(g)] for k, g in mj["states"]],
        "choices": [[k, _driver_grid(g)] for k, g in mj["choices"]],
        "functions": [{k: f[k] for k in ("name", "args", "body", "stochastic")} for f in mj["functions"]],
    }


def _driver_grid(g):
    """log grids reach the exact model as the nodes the implementation materialised (tabulated grid)"""
    if g["k"] != "log":
        return {k: v for k, v in g.items() if k != "float_codes"}
    from common import fr, impl
    from dsl import mkgrid
    import numpy as np

    impl()  # x64 must be configured before the grid is materialised
    return {"k": "tab", "nodes": [fr(float(x)) for x in np.asarray(mkgrid(g).to_jax())]}


def has_log(mj) -> bool:
    return any(g["k"] == "log" for _, g in mj["states"] + mj["choices"])
