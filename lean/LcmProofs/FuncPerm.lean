import LcmProofs.Congr
import Mathlib.Data.List.Perm.Basic
import Mathlib.Data.List.Nodup
namespace Lcm

/-- looking a function up by name does not depend on the order of the function dict (names are dict keys,
hence distinct) -/
theorem find?_func_perm (fs fs' : List Func) (hp : fs.Perm fs') (hnd : (fs.map (·.name)).Nodup) (n : Name) :
    fs.find? (·.name == n) = fs'.find? (·.name == n) := by
  have key : ∀ (l : List Func), (l.map (·.name)).Nodup → ∀ f ∈ l, l.find? (·.name == f.name) = some f := by
    intro l
    induction l with
    | nil => intro _ f hf; simp at hf
    | cons g l ih =>
      intro hnd f hf
      simp only [List.map_cons, List.nodup_cons] at hnd
      rcases List.mem_cons.mp hf with rfl | hmem
      · simp [List.find?]
      · have hne : (g.name == f.name) = false := by
          rw [beq_eq_false_iff_ne]; intro h
          exact hnd.1 (h ▸ List.mem_map_of_mem (f := (·.name)) hmem)
        simp only [List.find?, hne]
        exact ih hnd.2 f hmem
  have hnd' : (fs'.map (·.name)).Nodup := (hp.map (·.name)).nodup_iff.mp hnd
  by_cases hx : n ∈ fs.map (·.name)
  · rw [List.mem_map] at hx
    obtain ⟨f, hf, rfl⟩ := hx
    rw [key fs hnd f hf, key fs' hnd' f (hp.mem_iff.mp hf)]
  · have hx' : n ∉ fs'.map (·.name) := fun h => hx ((hp.map (·.name)).mem_iff.mpr h)
    have none_of : ∀ (l : List Func), n ∉ l.map (·.name) → l.find? (·.name == n) = none := by
      intro l hl
      rw [List.find?_eq_none]
      intro g hg hgn
      exact hl (by rw [← beq_iff_eq.mp hgn]; exact List.mem_map_of_mem (f := (·.name)) hg)
    rw [none_of fs hx, none_of fs' hx']

/-- **permuting the declaration order of the functions does not change the value of any model function** -/
theorem callF_perm_functions (m : Model) (fs' : List Func) (hp : m.functions.Perm fs')
    (hnd : (m.functions.map (·.name)).Nodup) (P : Params) (fuel : Nat) (e : Env) (fname : Name) :
    callF m P fuel e fname = callF { m with functions := fs' } P fuel e fname :=
  callF_congr_funcs m { m with functions := fs' } (fun n => find?_func_perm m.functions fs' hp hnd n) P fuel e fname

#print axioms callF_perm_functions
end Lcm
