"""C17 - the state-choice space contains exactly the filter-passing combinations.

Tie: `create_state_choice_space(process_model(m), period, is_last_period=..., jit_filter=...)` on generated
specifications (0-2 filters over discrete variables and the period, incl. period-dependent ones) against
the Lean model `mkSpace` (op `layout`): stored rows (exact set, order, no duplicates), state indexer (rank
or -1 over the full product of the restricted states), choice segments (ids and number), dense variables
stored as their full grids, the SpaceInfo fields. The theorems of LcmProps/C17 prove that the model's rows
are exactly the filter-passing combinations in row-major canonical order, that the indexer is the rank among
feasible states and that the segment ids group the rows by that rank.
"""
from __future__ import annotations

import random
from fractions import Fraction as Fr

from common import fr, impl, impl_site
from dsl import N, V, build_model, grid_points
from gen import nontrivial, signature
from pipeline import materialise_case, model_layout
from props.simcommon import base_out

RULE = ("cases = generated specifications (filter families: state x choice with/without the period, two filters, state-only, period-dependent "
        "excluded states, none) x every period x jit_filter on/off; distinct = structural signature; evaluations = (specification, period) "
        "spaces compared")
ASSUMPTIONS = ["filters over discrete variables and the period only (C17's quantifier)"]
FORCES = [["filter"], ["f1two"], ["filter", "eqsize"], ["f1"], ["mixed"], ["filter", "stoch"], ["nofilter"], None, ["f1", "constraint"], ["filter", "cont2"], ["filter", "bigdisc"], ["f1", "bigdisc"], ["filter", "stackedfilter"], ["mixed", "stackedfilter"], ["filter", "intfilter"], ["f1", "intfilter"]]


def cases(seed, tier):
    n = 48 if tier == "quick" else 600
    return [{"kind": "gen", "seed": seed * 1_000_003 + 17001 + i, "force": FORCES[i % len(FORCES)], "n_params": 1, "budget": 4000, "jit_filter": i % 2 == 1} for i in range(n)]


def _check_spec(I, mj, case, tag):
    np = I.np
    from lcm.input_processing import process_model
    from lcm.state_space import create_state_choice_space

    vs = []
    lay = model_layout(mj)
    G = dict(mj["states"] + mj["choices"])
    T = mj["n_periods"]
    try:
        pm = process_model(build_model(mj))
    except Exception as e:  # noqa: BLE001
        return 0, [{"clause": "the specification is processed", "detail": f"{tag}{impl_site(e)}: {str(e)[:200]}"}]
    evals = 0
    for t in range(T):
        L = lay[t]
        try:
            sc, si, indexers, segs = create_state_choice_space(model=pm, period=t, is_last_period=(t == T - 1), jit_filter=case.get("jit_filter", False))
        except Exception as e:  # noqa: BLE001
            vs.append({"clause": "the state-choice space is created", "detail": f"period {t}: {impl_site(e)}: {str(e)[:200]}"})
            break
        evals += 1
        where = f"{tag}period {t} (restricted states {L['sparse_states']}, restricted choices {L['sparse_choices']})"
        sparse_names = L["sparse_states"] + L["sparse_choices"]
        if list(sc.sparse_vars) != sparse_names:
            vs.append({"clause": "restricted variables in canonical order", "detail": f"{where}: implementation {list(sc.sparse_vars)}"})
            break
        if sparse_names:
            cols = [np.asarray(sc.sparse_vars[k]).tolist() for k in sparse_names]
            rows = [[fr(float(x)) for x in row] for row in zip(*cols)]
            if rows != L["rows"]:
                vs.append({"clause": "stored combinations are exactly the filter-passing ones, without duplicates, in row-major order", "detail": f"{where}: implementation {rows[:12]}..., model {L['rows'][:12]}..."})
                break
            if len({tuple(x) for x in rows}) != len(rows):
                vs.append({"clause": "stored combinations are exactly the filter-passing ones, without duplicates, in row-major order", "detail": f"{where}: duplicates"})
                break
        elif sc.sparse_vars:
            vs.append({"clause": "no restricted variable, no stored combinations", "detail": f"{where}: {list(sc.sparse_vars)}"})
            break
        # indexer
        if L["sparse_states"]:
            ix = np.asarray(indexers.get("state_indexer"))
            if list(ix.shape) != L["indexer"]["shape"] or [int(x) for x in ix.ravel()] != L["indexer"]["data"]:
                vs.append({"clause": "state indexer: rank among feasible restricted-state combinations, -1 otherwise", "detail": f"{where}: implementation {ix.tolist()}, model {L['indexer']}"})
                break
        elif indexers:
            vs.append({"clause": "no restricted state, no indexer", "detail": f"{where}: {list(indexers)}"})
            break
        # segments
        if sparse_names and segs is None:
            vs.append({"clause": "choice segments group the stored combinations by the rank of their state part", "detail": f"{where}: implementation returns no segments for {len(L['rows'])} stored combinations, model ids {L['seg_ids'][:20]} num {len(L['feas'])}"})
            break
        if sparse_names:
            ids = [int(x) for x in np.asarray(segs["segment_ids"])]
            if ids != L["seg_ids"] or int(segs["num_segments"]) != len(L["feas"]):
                vs.append({"clause": "choice segments group the stored combinations by the rank of their state part", "detail": f"{where}: implementation ids {ids[:20]} num {segs['num_segments']}, model ids {L['seg_ids'][:20]} num {len(L['feas'])}"})
                break
        elif segs is not None:
            vs.append({"clause": "no restricted variable, no segments", "detail": f"{where}: {segs}"})
            break
        # dense variables: full grids
        dense_names = L["dense_states"] + L["dense_choices"] + L["cont_states"]
        if list(sc.dense_vars) != dense_names:
            vs.append({"clause": "unrestricted discrete variables and continuous states are stored (canonical order)", "detail": f"{where}: implementation {list(sc.dense_vars)}, model {dense_names}"})
            break
        for k in dense_names:
            if [Fr(float(x)) for x in np.asarray(sc.dense_vars[k])] != grid_points(G[k]):
                vs.append({"clause": "unrestricted discrete variables and continuous states are stored as their full grids", "detail": f"{where}: variable {k}: {np.asarray(sc.dense_vars[k]).tolist()}"})
                break
        # space info
        want_axes = (["state_index"] if L["sparse_states"] else []) + L["dense_states"] + L["cont_states"]
        if list(si.axis_names) != want_axes:
            vs.append({"clause": "SpaceInfo.axis_names", "detail": f"{where}: implementation {si.axis_names}, model {want_axes}"})
            break
        if set(si.lookup_info) != {s for s, g in mj["states"] if g["k"] == "disc"} or set(si.interpolation_info) != set(L["cont_states"]):
            vs.append({"clause": "SpaceInfo lookup / interpolation info", "detail": f"{where}: lookup {list(si.lookup_info)}, interpolation {list(si.interpolation_info)}"})
            break
        if L["sparse_states"] and (len(si.indexer_infos) != 1 or list(si.indexer_infos[0].axis_names) != L["sparse_states"]):
            vs.append({"clause": "SpaceInfo indexer info", "detail": f"{where}: {si.indexer_infos}"})
            break
    return evals, vs


def run_case(case):
    I = impl()
    np = I.np
    from lcm.input_processing import process_model
    from lcm.state_space import create_state_choice_space

    mj, meta, Ps, r = materialise_case(case)
    info = {"mj": mj, "meta": meta}
    out = base_out(info, case)
    vs = []
    lay = model_layout(mj)
    evals = 0
    # the specification itself, then - in the same process and with the very same function objects - the specification with
    # the declaration order of states and of choices reversed (another canonical order, same names, same sizes)
    variants = [("", mj)]
    if len(mj["states"]) + len(mj["choices"]) > 2:
        variants.append(("declaration order reversed: ", dict(mj, states=list(reversed(mj["states"])), choices=list(reversed(mj["choices"])))))
    # a filter that restricts choices only (e.g. "not before period 1"): no restricted state, the empty state combination has
    # rank 0 and all stored choice combinations form the single segment 0 (the space is what C17 speaks about; solving such a
    # specification is finding K2)
    dcs = [c for c, g in mj["choices"] if g["k"] == "disc"]
    if dcs and not any(f["name"].endswith("_filter") for f in mj["functions"]):
        d = dcs[case.get("seed", 0) % len(dcs)]
        n_d = dict(mj["choices"])[d]["n"]
        body = ["or", ["lt", V(d), N(n_d - 1)], ["le", N(1), V("_period")]] if case.get("seed", 0) % 2 else ["lt", V(d), N(max(1, n_d - 1))]
        args = [d, "_period"] if case.get("seed", 0) % 2 else [d]
        co = {"name": "co_filter", "args": args, "body": body, "stochastic": False, "ints": True}
        variants.append(("choice-only filter added: ", dict(mj, functions=mj["functions"] + [co])))
        out["hist"]["choice_only_filter"] = 1
    for tag, mjv in variants:
        n, v1 = _check_spec(I, mjv, case, tag)
        evals += n
        vs.extend(v1)
        if v1:
            break
    out["hist"]["variants"] = len(variants)
    out["evals"] = evals
    out["hist"]["excluded_states_some_period"] = int(any(-1 in L["indexer"]["data"] for L in lay))
    out["hist"][f"jit_filter={case.get('jit_filter', False)}"] = 1
    for v in vs[:3]:
        v["key"] = "C17:" + v["clause"]
        out["violations"].append(v)
    out["sample"] = {"restricted": lay[0]["sparse_states"] + lay[0]["sparse_choices"], "n_rows_period0": len(lay[0]["rows"]), "indexer_period0": lay[0]["indexer"], "seg_ids_period0": lay[0]["seg_ids"][:12]}
    return out
