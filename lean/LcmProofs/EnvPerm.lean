import LcmProofs.Congr
import Mathlib.Data.List.Perm.Basic
import Mathlib.Data.List.Nodup
namespace Lcm

/-! Association lists with pairwise distinct keys answer lookups independently of their order. -/

theorem find?_key_of_nodup (l : List (Name × Rat)) (hnd : (l.map (·.1)).Nodup) (p : Name × Rat) (hp : p ∈ l) :
    l.find? (fun q => q.1 == p.1) = some p := by
  induction l with
  | nil => simp at hp
  | cons q l ih =>
    simp only [List.map_cons, List.nodup_cons] at hnd
    rcases List.mem_cons.mp hp with rfl | hmem
    · simp [List.find?]
    · have hne : (q.1 == p.1) = false := by
        rw [beq_eq_false_iff_ne]
        intro h
        exact hnd.1 (h ▸ List.mem_map_of_mem (f := (·.1)) hmem)
      simp only [List.find?, hne]
      exact ih hnd.2 hmem

theorem find?_none_of_not_key (l : List (Name × Rat)) (x : Name) (h : x ∉ l.map (·.1)) :
    l.find? (fun q => q.1 == x) = none := by
  rw [List.find?_eq_none]
  intro q hq hqx
  exact h (by rw [← (beq_iff_eq.mp hqx)]; exact List.mem_map_of_mem (f := (·.1)) hq)

theorem get?_toEnv (l : List (Name × Rat)) (x : Name) :
    (toEnv l).get? x = (l.find? (fun q => q.1 == x)).map fun q => Val.num q.2 := by
  unfold toEnv Env.get?
  rw [List.find?_map, Option.map_map]
  rfl

/-- permuting an association list with distinct keys does not change any lookup -/
theorem envEq_of_perm (a b : List (Name × Rat)) (hp : a.Perm b) (hnd : (a.map (·.1)).Nodup) :
    EnvEq (toEnv a) (toEnv b) := by
  intro x
  rw [get?_toEnv, get?_toEnv]
  have hndb : (b.map (·.1)).Nodup := (hp.map (·.1)).nodup_iff.mp hnd
  by_cases hx : x ∈ a.map (·.1)
  · rw [List.mem_map] at hx
    obtain ⟨p, hpa, rfl⟩ := hx
    rw [find?_key_of_nodup a hnd p hpa, find?_key_of_nodup b hndb p (hp.mem_iff.mp hpa)]
  · have hxb : x ∉ b.map (·.1) := fun h => hx ((hp.map (·.1)).mem_iff.mpr h)
    rw [find?_none_of_not_key a x hx, find?_none_of_not_key b x hxb]

theorem toEnv_append (a b : List (Name × Rat)) : toEnv (a ++ b) = toEnv a ++ toEnv b := by simp [toEnv]

/-- the keys of every assignment of named grids are the grid names, in order -/
theorem assignments_keys (l : List (Name × List Rat)) (a : List (Name × Rat)) (ha : a ∈ assignments l) :
    a.map (·.1) = l.map (·.1) := by
  induction l generalizing a with
  | nil => simp [assignments] at ha; subst ha; rfl
  | cons p rest ih =>
    obtain ⟨x, g⟩ := p
    simp only [assignments, List.mem_flatMap, List.mem_map] at ha
    obtain ⟨v, _, a', ha', rfl⟩ := ha
    simp [ih a' ha']

theorem pickAt_keys (l : List (Name × List Rat)) (idx : List Nat) (h : idx.length = l.length) :
    (pickAt l idx).map (·.1) = l.map (·.1) := by
  unfold pickAt
  rw [List.map_map]
  have : ((fun (q : Name × Rat) => q.1) ∘ fun (x : (Name × List Rat) × Nat) => (x.1.1, x.1.2.getD x.2 0))
      = fun x => x.1.1 := rfl
  rw [this]
  have h2 : (l.zip idx).map (fun x => x.1.1) = ((l.zip idx).map (·.1)).map (·.1) := by rw [List.map_map]; rfl
  rw [h2, List.map_fst_zip (by omega)]

#print axioms envEq_of_perm
end Lcm
