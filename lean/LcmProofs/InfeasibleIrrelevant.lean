import LcmProofs.AffineSolve
import LcmProofs.ChoicePerm
namespace Lcm

/-! C01, "an infeasible choice never determines a value", for the executable `solve`, every period: two specifications
that differ only in what `utility` returns where some constraint fails - including "returns nothing", the model's
rendering of the inf / nan the implementation computes there (`Expr.div` by zero) - have the same solution. -/

/-- `m'` is `m` with another `utility`, and the two utilities agree wherever all constraints hold -/
structure UtilityAgreesOnFeasible (m m' : Model) (P : Params) : Prop extends SameButUtility m m' P where
  util : ∀ env, allTrue m P env (constraintNames m) = some true → utilOf m' P env = utilOf m P env

theorem feasibleOf_bind_false {α : Type} (o : Option α) (f : α → Option (Rat × Bool))
    (h : ∀ x, feasibleOf (f x) = false) : feasibleOf (o.bind f) = false := by
  cases o with
  | none => rfl
  | some x => exact h x

variable {m m' : Model} {P : Params}

/-- the objective of the two specifications at one environment: the same feasibility flag, and the same value wherever
the flag is true -/
theorem UtilityAgreesOnFeasible.uAndF (h : UtilityAgreesOnFeasible m m' P) (g : Groups) (t : Nat)
    (next : Option (Tensor Ext × List (List (Name × Rat)))) (env0 : Env) :
    feasibleOf (uAndF m' P g t next env0) = feasibleOf (uAndF m P g t next env0) ∧
      (feasibleOf (uAndF m P g t next env0) = true → uAndF m' P g t next env0 = uAndF m P g t next env0) := by
  cases next with
  | none =>
    rw [uAndF_none_eq, uAndF_none_eq, h.constraints]
    cases hA : allTrue m P (env0 ++ periodEnv t) (constraintNames m) with
    | none => exact ⟨rfl, fun _ => rfl⟩
    | some f =>
      cases f with
      | true => rw [h.util _ hA]; exact ⟨rfl, fun _ => rfl⟩
      | false =>
        simp only [Option.bind_some]
        have e1 : feasibleOf ((utilOf m' P (env0 ++ periodEnv t)).bind fun u => some (u, false)) = false :=
          feasibleOf_bind_false _ _ (fun _ => rfl)
        have e2 : feasibleOf ((utilOf m P (env0 ++ periodEnv t)).bind fun u => some (u, false)) = false :=
          feasibleOf_bind_false _ _ (fun _ => rfl)
        rw [e1, e2]
        exact ⟨rfl, fun hc => by cases hc⟩
  | some Vf =>
    obtain ⟨V, feas⟩ := Vf
    rw [uAndF_some_eq, uAndF_some_eq, h.constraints, h.det, h.wrows]
    cases hA : allTrue m P (env0 ++ periodEnv t) (constraintNames m) with
    | none => exact ⟨rfl, fun _ => rfl⟩
    | some f =>
      cases f with
      | true => rw [h.util _ hA]; exact ⟨rfl, fun _ => rfl⟩
      | false =>
        simp only [Option.bind_some]
        have key : ∀ mm : Model, feasibleOf ((utilOf mm P (env0 ++ periodEnv t)).bind fun u =>
            (detOf m P (env0 ++ periodEnv t)).bind fun det =>
              (wrowsOf m P (env0 ++ periodEnv t)).bind fun wrows =>
                ((nodesOf wrows).foldlM (fun acc (p : List (Name × Rat) × Rat) => do
                    let vn ← vhat g feas V (det ++ toEnv p.1)
                    pure (acc + p.2 * vn)) (0 : Rat)).bind fun ev =>
                  some (u + P.beta * ev, false)) = false := by
          intro mm
          refine feasibleOf_bind_false _ _ (fun u => ?_)
          refine feasibleOf_bind_false _ _ (fun det => ?_)
          refine feasibleOf_bind_false _ _ (fun wrows => ?_)
          exact feasibleOf_bind_false _ _ (fun ev => rfl)
        rw [key m', key m]
        exact ⟨rfl, fun hc => by cases hc⟩

theorem UtilityAgreesOnFeasible.ccvEnv (h : UtilityAgreesOnFeasible m m' P) (g : Groups) (t : Nat)
    (next : Option (Tensor Ext × List (List (Name × Rat)))) (env : Env) :
    ccvEnv m' P g t next env = ccvEnv m P g t next env := by
  unfold Lcm.ccvEnv
  have hmask : ((assignments g.cC).map fun cc => feasibleOf (Lcm.uAndF m' P g t next (env ++ toEnv cc)))
      = ((assignments g.cC).map fun cc => feasibleOf (Lcm.uAndF m P g t next (env ++ toEnv cc))) := by
    apply List.map_congr_left
    intro cc _
    exact (h.uAndF g t next _).1
  rw [hmask]
  apply maskedMax_map_congr
  intro cc _ hf
  rw [(h.uAndF g t next _).2 hf]

/-- one period: the same array -/
theorem UtilityAgreesOnFeasible.solvePeriod (h : UtilityAgreesOnFeasible m m' P) (g : Groups) (t : Nat) (sp : Space)
    (next : Option (Tensor Ext × List (List (Name × Rat)))) :
    solvePeriod m' P g t sp next = solvePeriod m P g t sp next := by
  have hs : ccvSparse m' P g t sp next = ccvSparse m P g t sp next := by
    unfold ccvSparse
    congr 1
    funext idx
    cases idx with
    | nil => rfl
    | cons r rest => exact h.ccvEnv g t next _
  have hd : ccvDense m' P g t next = ccvDense m P g t next := by
    unfold ccvDense
    congr 1
    funext idx
    exact h.ccvEnv g t next _
  unfold Lcm.solvePeriod
  rw [hs, hd]

/-- **every period of the executable `solve`**: the two specifications have the same value arrays -/
theorem solve_utility_agrees_on_feasible (h : UtilityAgreesOnFeasible m m' P) (j : Nat) (hj : j < m.nPeriods) :
    (solve m' P true).getD (m.nPeriods - 1 - j) default = (solve m P true).getD (m.nPeriods - 1 - j) default := by
  induction j with
  | zero =>
    have ht : m.nPeriods - 1 - 0 < m.nPeriods := by omega
    have ht' : m.nPeriods - 1 - 0 < m'.nPeriods := by rw [h.periods]; exact ht
    rw [solve_getD m P _ ht, solve_getD m' P _ ht', h.grp, h.mkSpace]
    have hn : nextOf m P (solve m P true) (m.nPeriods - 1 - 0) = none := by unfold nextOf; split <;> [omega; rfl]
    have hn' : nextOf m' P (solve m' P true) (m.nPeriods - 1 - 0) = none := by
      unfold nextOf; rw [h.periods]; split <;> [omega; rfl]
    rw [hn, hn']
    exact h.solvePeriod _ _ _ _
  | succ j ih =>
    have ihj := ih (by omega)
    have ht : m.nPeriods - 1 - (j + 1) < m.nPeriods := by omega
    have ht' : m.nPeriods - 1 - (j + 1) < m'.nPeriods := by rw [h.periods]; exact ht
    have hsucc : m.nPeriods - 1 - (j + 1) + 1 = m.nPeriods - 1 - j := by omega
    rw [solve_getD m P _ ht, solve_getD m' P _ ht', h.grp, h.mkSpace]
    have hn : nextOf m P (solve m P true) (m.nPeriods - 1 - (j + 1))
        = some ((solve m P true).getD (m.nPeriods - 1 - j) default, (mkSpace m P (groups m) (m.nPeriods - 1 - j)).feas) := by
      unfold nextOf; rw [hsucc]; split <;> [rfl; omega]
    have hn' : nextOf m' P (solve m' P true) (m.nPeriods - 1 - (j + 1))
        = some ((solve m' P true).getD (m.nPeriods - 1 - j) default, (mkSpace m P (groups m) (m.nPeriods - 1 - j)).feas) := by
      unfold nextOf; rw [h.periods, hsucc, h.grp, h.mkSpace]; split <;> [rfl; omega]
    rw [hn, hn', ihj]
    exact h.solvePeriod _ _ _ _

/-- the whole solution -/
theorem solve_eq_of_utility_agrees_on_feasible (h : UtilityAgreesOnFeasible m m' P) :
    solve m' P true = solve m P true := by
  apply List.ext_getElem?
  intro t
  by_cases ht : t < m.nPeriods
  · have hj : m.nPeriods - 1 - (m.nPeriods - 1 - t) = t := by omega
    have := solve_utility_agrees_on_feasible h (m.nPeriods - 1 - t) (by omega)
    rw [hj] at this
    have l1 : t < (solve m P true).length := by rw [solve_length]; exact ht
    have l2 : t < (solve m' P true).length := by rw [solve_length, h.periods]; exact ht
    rw [List.getD_eq_getElem?_getD, List.getD_eq_getElem?_getD, List.getElem?_eq_getElem l1,
      List.getElem?_eq_getElem l2] at this
    rw [List.getElem?_eq_getElem l1, List.getElem?_eq_getElem l2]
    simpa using this
  · rw [List.getElem?_eq_none (by rw [solve_length, h.periods]; omega),
      List.getElem?_eq_none (by rw [solve_length]; omega)]

#print axioms solve_eq_of_utility_agrees_on_feasible
end Lcm
