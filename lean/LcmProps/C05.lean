import LcmProofs.Layout
import LcmProps.C01
import LcmProps.Examples
namespace Lcm

/-! # C05 — value arrays follow the documented axis layout

Model: `solve` / `solvePeriod` / `groups` / `variableInfo` (`LcmModel/Solve.lean`, `Input.lean`).
In the supported class every filter involves a state, so "some variable is filter-restricted" and "some
state is filter-restricted" coincide; the model (like the code) keys the leading axis on the former. -/

/-- a list of `n_periods` arrays (chronological order: index = period, see `C01_backward_recursion`) -/
theorem C05_length (m : Model) (P : Params) : (solve m P true).length = m.nPeriods := solve_length m P true

/-- **shape**: first (only if a variable is filter-restricted) one axis of length "number of restricted-state
combinations that admit a filter-passing choice in period `t`", then one axis per unrestricted discrete state,
then one axis per continuous state, each of the length of its grid -/
theorem C05_shape (m : Model) (P : Params) (t : Nat) (ht : t < m.nPeriods) :
    ((solve m P true).getD t default).shape
      = (if !((groups m).sS.isEmpty && (groups m).sC.isEmpty) then [(feasOf m P t).length] else [])
          ++ sizes (groups m).dS ++ sizes (cStateGrids (groups m)) :=
  solve_shape m P t ht

/-- the leading axis enumerates, in row-major order of the restricted states' grids, exactly those
combinations that have at least one filter-passing restricted-choice combination in period `t` -/
theorem C05_leading_axis (m : Model) (P : Params) (t : Nat) :
    feasOf m P t = (assignments (groups m).sS).filter fun s => (assignments (groups m).sC).any (spaceFilt m P t s) := rfl

/-- within each group the axes follow the **declaration order**: the canonical variable list filtered by a
state group equals the declared list filtered by that group … -/
theorem C05_restricted_states_in_declaration_order (m : Model) :
    (variableInfo m).filter (fun v => v.isSparse && v.isState)
      = (declaredInfo m).filter (fun v => v.isSparse && v.isState) := variableInfo_sparse_states m

theorem C05_unrestricted_discrete_states_in_declaration_order (m : Model) :
    (variableInfo m).filter (fun v => v.isDense && v.isDiscrete && v.isState)
      = (declaredInfo m).filter (fun v => v.isDense && v.isDiscrete && v.isState) :=
  variableInfo_dense_discrete_states m

theorem C05_continuous_states_in_declaration_order (m : Model) :
    (variableInfo m).filter (fun v => v.isDense && v.isContinuous && v.isState)
      = (declaredInfo m).filter (fun v => v.isDense && v.isContinuous && v.isState) :=
  variableInfo_continuous_states m

/-- … and the declared list keeps the user's order: the names of every state group are a sublist of
`model.states` -/
theorem C05_group_names_sublist_of_declaration (m : Model) (p : VariableInfo → Bool)
    (hp : ∀ v, p v = true → v.isState = true) :
    (((declaredInfo m).filter p).map (·.name)).Sublist (m.states.map (·.1)) :=
  declaredInfo_states_sublist m p hp

/-- the entry at an index is the Bellman value of the state the layout assigns to it: `C01_entry_isMax_*`
(restated here for the restricted layout: index `k :: dIdx ++ xIdx` ↦ `k`-th feasible restricted combination,
unrestricted labels `dIdx`, continuous nodes `xIdx`) -/
theorem C05_entry (m : Model) (P : Params) (t : Nat) (ht : t < m.nPeriods)
    (hsparse : (!((groups m).sS.isEmpty && (groups m).sC.isEmpty)) = true)
    (k : Nat) (hk : k < (feasOf m P t).length) (dIdx xIdx : List Nat)
    (hd : InBounds (sizes (groups m).dS) dIdx) (hx : InBounds (sizes (cStateGrids (groups m))) xIdx) :
    let g := groups m
    let next := nextOf m P (solve m P true) t
    IsMaxOver
      (fun x : List (Name × Rat) × (List (Name × Rat) × List (Name × Rat)) =>
        (x.1 ∈ assignments g.sC ∧ spaceFilt m P t ((feasOf m P t)[k]) x.1 = true) ∧
          (x.2.1 ∈ assignments g.dC ∧ (x.2.2 ∈ assignments g.cC ∧
            feasibleOf (objAt m P g t next ((feasOf m P t)[k]) dIdx xIdx x.1 x.2.1 x.2.2) = true)))
      (fun x => valueOf (objAt m P g t next ((feasOf m P t)[k]) dIdx xIdx x.1 x.2.1 x.2.2))
      (((solve m P true).getD t default).get (k :: (dIdx ++ xIdx))) :=
  solve_entry_isMax_restricted m P t ht hsparse k hk dIdx xIdx hd hx

/-- **the layout contract in one sentence**: the entry at index `(k, dIdx, xIdx)` of the period-`t` array is the
Bellman value - by plain enumeration, `specV` - *of the state the contract assigns to that index*: the `k`-th feasible
combination of the filter-restricted states (row-major, declaration order) together with the `dIdx`-th labels of the
unrestricted discrete states and the `xIdx`-th nodes of the continuous states (declaration order). A transposed,
mis-ordered or shifted layout would make this false for some utility. -/
theorem C05_entry_is_value_of_the_state_at_that_index (m : Model) (P : Params) (t : Nat) (ht : t < m.nPeriods)
    (hsparse : (!((groups m).sS.isEmpty && (groups m).sC.isEmpty)) = true)
    (k : Nat) (hk : k < (feasOf m P t).length) (dIdx xIdx : List Nat)
    (hd : InBounds (sizes (groups m).dS) dIdx) (hx : InBounds (sizes (cStateGrids (groups m))) xIdx)
    (hnd : ((m.states ++ m.choices).map (·.1)).Nodup) :
    ((solve m P true).getD t default).get (k :: (dIdx ++ xIdx))
      = specV m P (groups m) t (nextOf m P (solve m P true) t)
          ((feasOf m P t)[k] ++ pickAt (groups m).dS dIdx ++ pickAt (cStateGrids (groups m)) xIdx) :=
  C01_entry_eq_spec_restricted m P t ht hsparse k hk dIdx xIdx hd hx hnd

theorem C05_entry_is_value_of_the_state_at_that_index_unrestricted (m : Model) (P : Params) (t : Nat) (ht : t < m.nPeriods)
    (hdense : (!((groups m).sS.isEmpty && (groups m).sC.isEmpty)) = false)
    (dIdx xIdx : List Nat)
    (hd : InBounds (sizes (groups m).dS) dIdx) (hx : InBounds (sizes (cStateGrids (groups m))) xIdx)
    (hnd : ((m.states ++ m.choices).map (·.1)).Nodup)
    (hfs : allTrue m P (toEnv (pickAt (groups m).dS dIdx ++ pickAt (cStateGrids (groups m)) xIdx) ++ periodEnv t)
      (filterNames m) = some true) :
    ((solve m P true).getD t default).get (dIdx ++ xIdx)
      = specV m P (groups m) t (nextOf m P (solve m P true) t)
          (pickAt (groups m).dS dIdx ++ pickAt (cStateGrids (groups m)) xIdx) :=
  C01_entry_eq_spec_unrestricted m P t ht hdense dIdx xIdx hd hx hnd hfs

-- non-vacuity: shapes of the F1 witness change with the period ([3] then [2])
#guard ((solve Ex.f1Model Ex.f1Params).map (·.shape)) = [[3], [2]]
#guard ((solve Ex.consModel Ex.consParams).map (·.shape)) = [[3], [3], [3]]

end Lcm
