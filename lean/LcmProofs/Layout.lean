import LcmProofs.SolveFull
namespace Lcm

/-! Shapes of the arrays returned by `solve` (C05). -/

theorem materialize_shape {α} [Inhabited α] (t : Tensor α) : t.materialize.shape = t.shape := rfl

/-- shape of one period's array: `[#feasible restricted-state combinations]` (only if the model has a
restricted variable) ++ sizes of the unrestricted discrete states ++ sizes of the continuous states -/
theorem solvePeriod_shape (m : Model) (P : Params) (g : Groups) (t : Nat) (sp : Space)
    (next : Option (Tensor Ext × List (List (Name × Rat)))) :
    (solvePeriod m P g t sp next).shape
      = (if !(g.sS.isEmpty && g.sC.isEmpty) then [sp.feas.length] else [])
          ++ sizes g.dS ++ sizes (cStateGrids g) := by
  unfold solvePeriod
  by_cases h : (!(g.sS.isEmpty && g.sC.isEmpty)) = true
  · simp only [h, if_true, materialize_shape, Tensor.segmentMax, Tensor.maxMid, ccvSparse]
    rw [maxMid_shape_sparse]
    simp
  · have h' : (!(g.sS.isEmpty && g.sC.isEmpty)) = false := by simpa using h
    simp only [h', Bool.false_eq_true, if_false, materialize_shape, Tensor.maxMid, ccvDense]
    rw [maxMid_shape_dense]
    simp

theorem solve_shape (m : Model) (P : Params) (t : Nat) (ht : t < m.nPeriods) :
    ((solve m P true).getD t default).shape
      = (if !((groups m).sS.isEmpty && (groups m).sC.isEmpty) then [(feasOf m P t).length] else [])
          ++ sizes (groups m).dS ++ sizes (cStateGrids (groups m)) := by
  rw [solve_getD m P t ht, solvePeriod_shape]
  rfl

#print axioms solve_shape
end Lcm

namespace Lcm

/-! Canonical variable order (C05): every group of `variableInfo` is the *declaration-order* sublist of
the declared variables with the group's flags. -/

/-- the declared variables with their flags, states first, in declaration order (`info` before the
re-ordering in `get_variable_info`) -/
def declaredInfo (m : Model) : List VariableInfo :=
  let fi := functionInfo m
  let filterNames := (fi.filter (·.isFilter)).map (·.name)
  let filtered := ancestors m filterNames
  let nonNext := (fi.filter (!·.isNext)).map (·.name)
  let usedOutsideNext := nonNext ++ ancestors m nonNext
  let mk := fun (isState : Bool) (p : Name × Grid) =>
    let stoch := isState && ((fi.find? (·.name == "next_" ++ p.1)).map (·.isStochasticNext)).getD false
    let sparse := filtered.contains p.1
    ({ name := p.1, isState, isChoice := !isState, isContinuous := p.2.isContinuous,
       isDiscrete := !p.2.isContinuous, isStochastic := stoch,
       isAuxiliary := isState && !usedOutsideNext.contains p.1,
       isSparse := sparse, isDense := !sparse } : VariableInfo)
  m.states.map (mk true) ++ m.choices.map (mk false)

theorem variableInfo_eq (m : Model) :
    variableInfo m =
      (declaredInfo m).filter (fun v => v.isSparse && v.isState) ++
      (declaredInfo m).filter (fun v => v.isSparse && v.isChoice) ++
      (declaredInfo m).filter (fun v => v.isDense && v.isDiscrete && v.isState) ++
      (declaredInfo m).filter (fun v => v.isDense && v.isDiscrete && v.isChoice) ++
      (declaredInfo m).filter (fun v => v.isDense && v.isContinuous && v.isState) ++
      (declaredInfo m).filter (fun v => v.isDense && v.isContinuous && v.isChoice) := rfl

theorem declaredInfo_inv (m : Model) (v : VariableInfo) (hv : v ∈ declaredInfo m) :
    v.isChoice = !v.isState ∧ v.isDiscrete = !v.isContinuous ∧ v.isDense = !v.isSparse := by
  simp only [declaredInfo, List.mem_append, List.mem_map] at hv
  rcases hv with ⟨p, _, rfl⟩ | ⟨p, _, rfl⟩ <;> simp

theorem filter_key (l : List VariableInfo) (p q : VariableInfo → Bool)
    (h : ∀ v ∈ l, (p v && q v) = false) : l.filter (fun v => p v && q v) = [] := by
  rw [List.filter_eq_nil_iff]
  intro v hv
  simp [h v hv]

theorem filter_keep (l : List VariableInfo) (p q : VariableInfo → Bool)
    (h : ∀ v ∈ l, (p v && q v) = p v) : l.filter (fun v => p v && q v) = l.filter p := by
  apply List.filter_congr
  intro v hv
  exact h v hv

/-- closes `(p v && q v) = _` for a declared variable by Boolean case analysis on its three flags -/
macro "grp" m:term : tactic =>
  `(tactic| (intro v hv; obtain ⟨h1, h2, h3⟩ := declaredInfo_inv $m v hv; (try simp only [h1, h2, h3]);
             cases v.isState <;> cases v.isSparse <;> cases v.isContinuous <;> decide))

/-- filter-restricted states appear in the canonical order exactly in declaration order -/
theorem variableInfo_sparse_states (m : Model) :
    (variableInfo m).filter (fun v => v.isSparse && v.isState)
      = (declaredInfo m).filter (fun v => v.isSparse && v.isState) := by
  rw [variableInfo_eq]
  simp only [List.filter_append, List.filter_filter]
  rw [filter_keep _ _ (fun v => v.isSparse && v.isState) (by grp m),
    filter_key _ _ (fun v => v.isSparse && v.isChoice) (by grp m),
    filter_key _ _ (fun v => v.isDense && v.isDiscrete && v.isState) (by grp m),
    filter_key _ _ (fun v => v.isDense && v.isDiscrete && v.isChoice) (by grp m),
    filter_key _ _ (fun v => v.isDense && v.isContinuous && v.isState) (by grp m),
    filter_key _ _ (fun v => v.isDense && v.isContinuous && v.isChoice) (by grp m)]
  simp

/-- unrestricted discrete states: declaration order -/
theorem variableInfo_dense_discrete_states (m : Model) :
    (variableInfo m).filter (fun v => v.isDense && v.isDiscrete && v.isState)
      = (declaredInfo m).filter (fun v => v.isDense && v.isDiscrete && v.isState) := by
  rw [variableInfo_eq]
  simp only [List.filter_append, List.filter_filter]
  rw [filter_key _ _ (fun v => v.isSparse && v.isState) (by grp m),
    filter_key _ _ (fun v => v.isSparse && v.isChoice) (by grp m),
    filter_keep _ _ (fun v => v.isDense && v.isDiscrete && v.isState) (by grp m),
    filter_key _ _ (fun v => v.isDense && v.isDiscrete && v.isChoice) (by grp m),
    filter_key _ _ (fun v => v.isDense && v.isContinuous && v.isState) (by grp m),
    filter_key _ _ (fun v => v.isDense && v.isContinuous && v.isChoice) (by grp m)]
  simp

/-- continuous states: declaration order -/
theorem variableInfo_continuous_states (m : Model) :
    (variableInfo m).filter (fun v => v.isDense && v.isContinuous && v.isState)
      = (declaredInfo m).filter (fun v => v.isDense && v.isContinuous && v.isState) := by
  rw [variableInfo_eq]
  simp only [List.filter_append, List.filter_filter]
  rw [filter_key _ _ (fun v => v.isSparse && v.isState) (by grp m),
    filter_key _ _ (fun v => v.isSparse && v.isChoice) (by grp m),
    filter_key _ _ (fun v => v.isDense && v.isDiscrete && v.isState) (by grp m),
    filter_key _ _ (fun v => v.isDense && v.isDiscrete && v.isChoice) (by grp m),
    filter_keep _ _ (fun v => v.isDense && v.isContinuous && v.isState) (by grp m),
    filter_key _ _ (fun v => v.isDense && v.isContinuous && v.isChoice) (by grp m)]
  simp

/-- states precede choices in the declared list, and filtering keeps the relative order: the names of a
state group are a sublist of the declared state names -/
theorem declaredInfo_states_sublist (m : Model) (p : VariableInfo → Bool) (hp : ∀ v, p v = true → v.isState = true) :
    (((declaredInfo m).filter p).map (·.name)).Sublist (m.states.map (·.1)) := by
  simp only [declaredInfo, List.filter_append]
  have hc : List.filter p (List.map (fun (q : Name × Grid) =>
      ({ name := q.1, isState := false, isChoice := !false, isContinuous := q.2.isContinuous,
         isDiscrete := !q.2.isContinuous,
         isStochastic := false && ((List.find? (fun x => x.name == "next_" ++ q.1) (functionInfo m)).map (·.isStochasticNext)).getD false,
         isAuxiliary := false && !(((functionInfo m).filter (!·.isNext)).map (·.name) ++ ancestors m (((functionInfo m).filter (!·.isNext)).map (·.name))).contains q.1,
         isSparse := (ancestors m (((functionInfo m).filter (·.isFilter)).map (·.name))).contains q.1,
         isDense := !(ancestors m (((functionInfo m).filter (·.isFilter)).map (·.name))).contains q.1 } : VariableInfo)) m.choices) = [] := by
    rw [List.filter_eq_nil_iff]
    intro v hv
    simp only [List.mem_map] at hv
    obtain ⟨q, _, rfl⟩ := hv
    intro h
    have := hp _ h
    simp at this
  rw [hc, List.append_nil]
  have : (m.states.map (·.1)) = (m.states.map (fun (q : Name × Grid) =>
      ({ name := q.1, isState := true, isChoice := !true, isContinuous := q.2.isContinuous,
         isDiscrete := !q.2.isContinuous,
         isStochastic := true && ((List.find? (fun x => x.name == "next_" ++ q.1) (functionInfo m)).map (·.isStochasticNext)).getD false,
         isAuxiliary := true && !(((functionInfo m).filter (!·.isNext)).map (·.name) ++ ancestors m (((functionInfo m).filter (!·.isNext)).map (·.name))).contains q.1,
         isSparse := (ancestors m (((functionInfo m).filter (·.isFilter)).map (·.name))).contains q.1,
         isDense := !(ancestors m (((functionInfo m).filter (·.isFilter)).map (·.name))).contains q.1 } : VariableInfo))).map (·.name) := by
    simp
  rw [this]
  exact List.Sublist.map _ List.filter_sublist

#print axioms variableInfo_dense_discrete_states
end Lcm
