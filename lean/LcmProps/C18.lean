import LcmProofs.SimStep
import LcmProofs.IsMax
import LcmModel.Kernels
import LcmProofs.Tensor
namespace Lcm

/-! # C18 — maximisers returned by the arg-max primitives attain the maximum (partial)

Model: `argmaxBlock` (`lcm.argmax.argmax` on one flattened block: masked max with initial −inf, equality
mask ∧ where, `jnp.argmax` of the Boolean vector = first True, 0 if none), `segArgmaxAt` (`segment_argmax`:
segment max, equality mask × row number, segment max of that = last maximiser), `denseMaxAt` / `segMaxAt`
(`_solve_discrete_problem_no_shocks`). `argmaxND` / `segmentArgmaxND` (served to the harness) apply these per
front index after `_move_axes_to_back` / `_flatten_last_n_axes` (`mergeIdx`).
Partial: "also when the array is produced inside the same JIT-compiled computation" concerns XLA evaluating an
expression twice with different rounding; in the model an array element has one value. Covered by the
fused-producer differential stream only. -/

/-- the returned position is an unmasked element whose value equals the masked maximum -/
theorem C18_argmax_attains (xs : List Ext) (mask : List Bool) (hlen : xs.length = mask.length)
    (hm : maskedMax xs mask ≠ .ninf) :
    ∃ hj : (argmaxBlock xs mask).1 < xs.length,
      mask[(argmaxBlock xs mask).1]'(by omega) = true ∧ xs[(argmaxBlock xs mask).1] = maskedMax xs mask :=
  argmaxBlock_spec xs mask hlen hm

/-- … together with that maximum -/
theorem C18_argmax_value (xs : List Ext) (mask : List Bool) : (argmaxBlock xs mask).2 = maskedMax xs mask :=
  argmaxBlock_snd xs mask

/-- **first** such position on ties: no earlier position is an unmasked maximiser -/
theorem C18_argmax_first (xs : List Ext) (mask : List Bool) (j : Nat)
    (hj : j < (argmaxBlock xs mask).1) (hjx : j < xs.length) (hjm : j < mask.length) :
    ¬ (xs[j] = maskedMax xs mask ∧ mask[j] = true) := by
  intro ⟨hx, hmk⟩
  unfold argmaxBlock firstTrue at hj
  simp only at hj
  split at hj
  · next hlt =>
    have := List.not_of_lt_findIdx hj
    simp [hx, hmk] at this
  · omega

/-- position 0 and the initial value −inf when everything is masked -/
theorem C18_argmax_all_masked (xs : List Ext) (mask : List Bool) (h : ∀ b ∈ mask, b = false) :
    argmaxBlock xs mask = (0, .ninf) := by
  have hmm : maskedMax xs mask = .ninf := by
    unfold maskedMax
    have : ((xs.zip mask).filterMap fun p => if p.2 then some p.1 else none) = [] := by
      rw [List.filterMap_eq_nil_iff]
      intro p hp
      have := h p.2 (List.of_mem_zip hp).2
      simp [this]
    rw [this]; rfl
  have hnone : ∀ b ∈ (xs.zip mask).map (fun p => decide (p.1 = Ext.ninf) && p.2), ¬ (b = true) := by
    intro b hb
    rw [List.mem_map] at hb
    obtain ⟨p, hp, rfl⟩ := hb
    have := h p.2 (List.of_mem_zip hp).2
    simp [this]
  have hidx : List.findIdx (· = true) ((xs.zip mask).map (fun p => decide (p.1 = Ext.ninf) && p.2))
      = ((xs.zip mask).map (fun p => decide (p.1 = Ext.ninf) && p.2)).length := by
    rw [List.findIdx_eq_length]
    intro b hb
    simpa using hnone b hb
  show (firstTrue ((xs.zip mask).map fun p => decide (p.1 = maskedMax xs mask) && p.2), maskedMax xs mask) = (0, .ninf)
  rw [hmm]
  congr 1
  unfold firstTrue
  simp only [hidx, Nat.lt_irrefl, if_false]

/-- the segment-wise arg-max returns, for every non-empty segment, a row of that segment attaining the
segment maximum (the model returns the last one; the property does not fix which) -/
theorem C18_segment_argmax (vals : List Ext) (segIds : List Nat) (hlen : vals.length = segIds.length) (k : Nat)
    (hne : ∃ r, ∃ hr : r < segIds.length, segIds[r] = k) :
    ∃ hr : (segArgmaxAt vals segIds k).1 < vals.length,
      segIds[(segArgmaxAt vals segIds k).1]'(by omega) = k ∧
      vals[(segArgmaxAt vals segIds k).1] = segMaxAt vals segIds k :=
  segArgmaxAt_spec vals segIds hlen k hne

theorem C18_segment_max_value (vals : List Ext) (ids : List Nat) (k : Nat) :
    (segArgmaxAt vals ids k).2 = segMaxAt vals ids k := segArgmaxAt_snd vals ids k

/-- reducing the choice axes by maximum and then by segment maximum gives, for every state, the maximum over
all discrete choice combinations of that state (restricted `c` × unrestricted `e`, and the continuous problem
inside) -/
theorem C18_discrete_problem {S C E Y : Type} (scGrid : List C) (dcGrid : List E) (ccGrid : List Y)
    (filt : S → C → Bool) (q : S → C → E → Y → Rat) (feas : S → C → E → Y → Bool) (s : S) :
    IsMaxOver
      (fun x : C × (E × Y) =>
        (x.1 ∈ scGrid ∧ filt s x.1 = true) ∧ (x.2.1 ∈ dcGrid ∧ (x.2.2 ∈ ccGrid ∧ feas s x.1 x.2.1 x.2.2 = true)))
      (fun x => q s x.1 x.2.1 x.2.2)
      (foldMax ((scGrid.filter (filt s)).map fun c => denseMaxAt dcGrid ccGrid q feas (s, c))) :=
  denseSeg_isMax scGrid dcGrid ccGrid filt q feas s

/-- the segment maximum with the ids of `create_indexers_and_segments` collects exactly the stored rows of
the `k`-th feasible state -/
theorem C18_segments_group_by_state {S C : Type} (ssGrid : List S) (scGrid : List C) (filt : S → C → Bool)
    (g : S × C → Ext) (k : Nat) (hk : k < (feasStates ssGrid scGrid filt).length) :
    segMaxAt ((combos ssGrid scGrid filt).map g) (segIdsImpl ssGrid scGrid filt) k
      = foldMax ((scGrid.filter (filt ((feasStates ssGrid scGrid filt)[k]))).map fun c =>
          g ((feasStates ssGrid scGrid filt)[k], c)) :=
  segMaxAt_combos ssGrid scGrid filt g k hk

/-- "flattened position": the block over which `argmax` works enumerates the reduced axes in C order (row-major over the
axes as listed, after `_move_axes_to_back` + `_flatten_last_n_axes`), so position `ravel shape idx` of the block is the
multi-index `idx` - `jnp.unravel_index(position, shape)` recovers the maximiser -/
theorem C18_flattened_c_order (shape idx : List Nat) (h : InBounds shape idx) :
    (allIdx shape)[ravel shape idx]? = some idx := getElem_allIdx_ravel shape idx h

theorem C18_block_size (shape : List Nat) : (allIdx shape).length = shape.prod := length_allIdx shape

/-- the n-d primitive applies the block primitive per front index (definitional): position and maximum at a front index
are `argmaxBlock` of the block of that front index -/
theorem C18_argmaxND_per_front_index (a : Tensor Ext) (axes : List Nat) (mask : Option (Tensor Bool)) (fidx : List Nat) :
    let ndim := a.shape.length
    let block := allIdx (axes.map fun p => a.shape.getD p 0)
    ((argmaxND a axes mask).1.get fidx, (argmaxND a axes mask).2.get fidx)
      = argmaxBlock (block.map fun j => a.get (mergeIdx ndim axes fidx j))
          (block.map fun j => match mask with | some mk => mk.get (mergeIdx ndim axes fidx j) | none => true) := rfl

-- non-vacuity (ties, masks): first maximiser; all masked
example : argmaxBlock [.fin 1, .fin 3, .fin 3, .fin 2] [true, true, true, true] = (1, .fin 3) := by decide +kernel
example : argmaxBlock [.fin 1, .fin 3, .fin 3, .fin 2] [true, false, true, true] = (2, .fin 3) := by decide +kernel
example : argmaxBlock [.fin 1, .fin 3] [false, false] = (0, .ninf) := by decide +kernel
example : segArgmaxAt [.fin 1, .fin 5, .fin 5, .fin 2] [0, 0, 0, 1] 0 = (2, .fin 5) := by decide +kernel

/-! ## the empty set of axes (finding F9): nothing is reduced -/

/-- with no axis to reduce over, every position is 0 (each element is its own block) -/
theorem C18_argmax_empty_axes_position (a : Tensor Ext) (mask : Option (Tensor Bool)) (fidx : List Nat) :
    (argmaxND a [] mask).1.get fidx = 0 := by
  simp only [argmaxND, List.map_nil, allIdx]
  simp [argmaxBlock, firstTrue]

/-- and both results have the shape of the array -/
theorem C18_argmax_empty_axes_shape (a : Tensor Ext) (mask : Option (Tensor Bool)) :
    (argmaxND a [] mask).1.shape = a.shape ∧ (argmaxND a [] mask).2.shape = a.shape := by
  have hf : ((List.range a.shape.length).filter fun p => !([] : List Nat).contains p) = List.range a.shape.length := by
    apply List.filter_eq_self.mpr; intro p _; simp
  have : ((List.range a.shape.length).filter fun p => !([] : List Nat).contains p).map (fun p => a.shape.getD p 0) = a.shape := by
    rw [hf]
    apply List.ext_getElem
    · simp
    · intro i h1 h2; simp [h2]
  exact ⟨this, this⟩

end Lcm
