import LcmProofs.EnvPerm
import LcmProofs.SolveFull
import LcmProofs.SimPanel
import LcmProofs.Frame
namespace Lcm

/-! "The agent's state is the grid state": the environments that `simulate` and `solve` build for the same
state and choice answer every lookup alike, provided the variable names are pairwise distinct (C06). -/

theorem perm_rearrange {α} (s D X c e y : List α) :
    (s ++ c ++ (D ++ e ++ X) ++ y).Perm ((s ++ D ++ X) ++ c ++ e ++ y) := by
  simp only [List.append_assoc]
  apply List.Perm.append_left s
  -- c ++ (D ++ (e ++ (X ++ y)))  ~  D ++ (X ++ (c ++ (e ++ y)))
  have h1 : (c ++ (D ++ (e ++ (X ++ y)))).Perm (D ++ (c ++ (e ++ (X ++ y)))) := by
    rw [← List.append_assoc, ← List.append_assoc D c]
    exact List.Perm.append_right _ List.perm_append_comm
  refine h1.trans ?_
  apply List.Perm.append_left D
  -- c ++ (e ++ (X ++ y)) ~ X ++ (c ++ (e ++ y))
  have h2 : (c ++ (e ++ (X ++ y))).Perm ((c ++ e) ++ (X ++ y)) := by rw [List.append_assoc]
  have h3 : ((c ++ e) ++ (X ++ y)).Perm (X ++ ((c ++ e) ++ y)) := by
    rw [← List.append_assoc, ← List.append_assoc X]
    exact List.Perm.append_right _ List.perm_append_comm
  refine (h2.trans h3).trans ?_
  rw [List.append_assoc]

/-- all variable names of the model, in canonical order -/
def allNames (g : Groups) : List Name :=
  g.sS.map (·.1) ++ g.sC.map (·.1) ++ g.dS.map (·.1) ++ g.dC.map (·.1) ++ (cStateGrids g).map (·.1) ++ g.cC.map (·.1)

theorem env_on_grid (g : Groups) (hnames : (allNames g).Nodup)
    (st s c e y : List (Name × Rat)) (dIdx xIdx : List Nat)
    (hs : s ∈ assignments g.sS) (hc : c ∈ assignments g.sC) (he : e ∈ assignments g.dC) (hy : y ∈ assignments g.cC)
    (hd : dIdx.length = g.dS.length) (hx : xIdx.length = (cStateGrids g).length)
    (hst : st.Perm (s ++ pickAt g.dS dIdx ++ pickAt (cStateGrids g) xIdx)) :
    EnvEq (toEnv (st ++ c ++ e ++ y))
      (toEnv (s ++ c) ++ toEnv (pickAt g.dS dIdx ++ e ++ pickAt (cStateGrids g) xIdx) ++ toEnv y) := by
  rw [← toEnv_append, ← toEnv_append]
  apply EnvEq.symm
  apply envEq_of_perm
  · refine (perm_rearrange s (pickAt g.dS dIdx) (pickAt (cStateGrids g) xIdx) c e y).trans ?_
    exact List.Perm.append_right _ (List.Perm.append_right _ (List.Perm.append_right _ hst.symm))
  · simp only [List.map_append]
    rw [assignments_keys _ s hs, assignments_keys _ c hc, assignments_keys _ e he, assignments_keys _ y hy,
      pickAt_keys _ _ hd, pickAt_keys _ _ hx]
    simpa [allNames, List.append_assoc] using hnames

theorem get?_toEnv_none (b : List (Name × Rat)) (x : Name) (hx : x ∉ b.map (·.1)) : (toEnv b).get? x = none := by
  rw [get?_toEnv, find?_none_of_not_key b x hx]; rfl

theorem get?_skip_middle (a b c : List (Name × Rat)) (pe : Env) (x : Name) (hx : x ∉ b.map (·.1)) :
    (toEnv (a ++ b ++ c) ++ pe).get? x = (toEnv (a ++ c) ++ pe).get? x := by
  simp only [toEnv_append, get?_append, get?_toEnv_none b x hx]
  cases (toEnv a).get? x <;> rfl

theorem nodup_sub (sS sC dS dC cS cC : List Name) (h : (sS ++ sC ++ dS ++ dC ++ cS ++ cC).Nodup) :
    (sS ++ dS ++ cS ++ sC).Nodup := by
  have hsub : (sS ++ sC ++ dS ++ cS).Sublist (sS ++ sC ++ dS ++ dC ++ cS ++ cC) := by
    simp only [List.append_assoc]
    apply List.Sublist.append (List.Sublist.refl _)
    apply List.Sublist.append (List.Sublist.refl _)
    apply List.Sublist.append (List.Sublist.refl _)
    exact (List.sublist_append_right dC cS).trans (by
      rw [← List.append_assoc]; exact List.sublist_append_left _ _)
  have hnd := h.sublist hsub
  refine (List.Perm.nodup_iff ?_).mp hnd
  simp only [List.append_assoc]
  apply List.Perm.append_left sS
  -- sC ++ (dS ++ cS) ~ dS ++ (cS ++ sC)
  rw [← List.append_assoc dS cS sC]
  exact List.perm_append_comm

/-- **filters read restricted variables only**: the filter of the data state-choice space evaluated at an
agent whose state is the grid state equals the filter of the stored space at that grid state -/
theorem filt_on_grid (m : Model) (P : Params) (t : Nat) (hnames : (allNames (groups m)).Nodup)
    (st s c : List (Name × Rat)) (dIdx xIdx : List Nat)
    (hs : s ∈ assignments (groups m).sS) (hc : c ∈ assignments (groups m).sC)
    (hd : dIdx.length = (groups m).dS.length) (hx : xIdx.length = (cStateGrids (groups m)).length)
    (hst : st.Perm (s ++ pickAt (groups m).dS dIdx ++ pickAt (cStateGrids (groups m)) xIdx))
    (hsC : (groups m).sC.isEmpty = false) :
    agentFilt m P (groups m) t st c = spaceFilt m P t s c := by
  unfold agentFilt spaceFilt
  simp only [hsC, Bool.false_eq_true, if_false]
  congr 1
  apply allTrue_frame
  intro f hf x hxa
  -- step 1: reorder the agent's state into canonical order
  have hperm : (s ++ pickAt (groups m).dS dIdx ++ pickAt (cStateGrids (groups m)) xIdx ++ c).Perm (st ++ c) :=
    List.Perm.append_right c hst.symm
  have hkeys : ((s ++ pickAt (groups m).dS dIdx ++ pickAt (cStateGrids (groups m)) xIdx ++ c).map (·.1)).Nodup := by
    simp only [List.map_append]
    rw [assignments_keys _ s hs, assignments_keys _ c hc, pickAt_keys _ _ hd, pickAt_keys _ _ hx]
    exact nodup_sub _ _ _ _ _ _ (by simpa [allNames] using hnames)
  have hE := envEq_of_perm _ _ hperm hkeys
  have h1 : (toEnv (st ++ c) ++ periodEnv t).get? x
      = (toEnv (s ++ pickAt (groups m).dS dIdx ++ pickAt (cStateGrids (groups m)) xIdx ++ c) ++ periodEnv t).get? x :=
    ((hE.append (EnvEq.refl _)) x).symm
  rw [h1]
  -- step 2: the dense / continuous states are not read by the filter
  have hnot : x ∉ (pickAt (groups m).dS dIdx ++ pickAt (cStateGrids (groups m)) xIdx).map (·.1) := by
    rw [List.map_append, pickAt_keys _ _ hd, pickAt_keys _ _ hx]
    intro hmem
    rcases List.mem_append.mp hmem with h | h
    · exact dense_states_not_read_by_filters m x (Or.inl h) f hf hxa
    · exact dense_states_not_read_by_filters m x (Or.inr h) f hf hxa
  have := get?_skip_middle s (pickAt (groups m).dS dIdx ++ pickAt (cStateGrids (groups m)) xIdx) c (periodEnv t) x hnot
  simp only [List.append_assoc] at this ⊢
  exact this

#print axioms env_on_grid
#print axioms filt_on_grid
end Lcm
