import LcmProofs.StationarySolve
import Mathlib.Tactic.Ring
namespace Lcm

/-! C11, `beta = 0`, for the executable model: every period's array is the array of the one-period problem of that
period (the static maximisation of utility over the admissible choices of that period). Hypothesis: the continuation
value is *defined* wherever the one-period objective is (transitions stay inside the stored state space and touch no
`-inf` entry - the supported class); with `beta = 0` its numerical value is then irrelevant. -/

variable {m : Model} {P : Params}

/-- wherever the static objective is defined, so is the objective with continuation -/
def ContinuationDefined (m : Model) (P : Params) (t : Nat) : Prop :=
  ∀ e, (uAndF m P (groups m) t none e).isSome = true →
    (uAndF m P (groups m) t (nextOf m P (solve m P true) t) e).isSome = true

theorem uAndF_beta_zero (hβ : P.beta = 0) (g : Groups) (t : Nat) (V : Tensor Ext) (feas : List (List (Name × Rat)))
    (e : Env) (hdef : (uAndF m P g t none e).isSome = true → (uAndF m P g t (some (V, feas)) e).isSome = true) :
    uAndF m P g t (some (V, feas)) e = uAndF m P g t none e := by
  rw [uAndF_some_eq, uAndF_none_eq] at *
  cases hA : allTrue m P (e ++ periodEnv t) (constraintNames m) with
  | none => rfl
  | some f =>
    rw [hA] at hdef
    cases hU : utilOf m P (e ++ periodEnv t) with
    | none => rfl
    | some u =>
      rw [hU] at hdef
      simp only [Option.bind_some, Option.isSome_some, forall_const] at hdef ⊢
      cases hD : detOf m P (e ++ periodEnv t) with
      | none => rw [hD] at hdef; simp at hdef
      | some det =>
        rw [hD] at hdef
        simp only [Option.bind_some] at hdef ⊢
        cases hW : wrowsOf m P (e ++ periodEnv t) with
        | none => rw [hW] at hdef; simp at hdef
        | some wrows =>
          rw [hW] at hdef
          simp only [Option.bind_some] at hdef ⊢
          cases hE : List.foldlM (fun acc (p : List (Name × Rat) × Rat) => do
              let vn ← vhat g feas V (det ++ toEnv p.1); pure (acc + p.2 * vn)) (0 : Rat) (nodesOf wrows) with
          | none => rw [hE] at hdef; simp at hdef
          | some ev =>
            simp only [Option.bind_some, hβ]
            congr 2
            ring

/-- **C11, beta = 0, every period of the executable `solve`** -/
theorem solve_beta_zero (hβ : P.beta = 0) (t : Nat) (ht : t < m.nPeriods) (hdef : ContinuationDefined m P t) :
    (solve m P true).getD t default
      = solvePeriod m P (groups m) t (mkSpace m P (groups m) t) none := by
  rw [solve_getD m P t ht]
  cases hn : nextOf m P (solve m P true) t with
  | none => rfl
  | some nx =>
    obtain ⟨V, feas⟩ := nx
    have hu : ∀ e, uAndF m P (groups m) t (some (V, feas)) e = uAndF m P (groups m) t none e := by
      intro e
      apply uAndF_beta_zero hβ
      intro h0
      have := hdef e h0
      rw [hn] at this
      exact this
    have hc : ∀ env, ccvEnv m P (groups m) t (some (V, feas)) env = ccvEnv m P (groups m) t none env := by
      intro env; unfold ccvEnv; simp only [hu]
    unfold solvePeriod ccvSparse ccvDense
    simp only [hc]

#print axioms solve_beta_zero
end Lcm
