import LcmModel.Tensor
namespace Lcm

/-- masked max with initial −inf (`jnp.max(a, where=mask, initial=-inf)`) over a flat block -/
def maskedMax (xs : List Ext) (mask : List Bool) : Ext :=
  foldMax ((xs.zip mask).filterMap fun p => if p.2 then some p.1 else none)

/-- `argmax` core over the flattened trailing block: max, equality mask ∧ where, first True
(`jnp.argmax` of a boolean vector returns 0 when no entry is True). -/
def argmaxMasked (xs : List Ext) (mask : List Bool) : Nat × Ext :=
  let m := maskedMax xs mask
  let hit := (xs.zip mask).map fun p => decide (p.1 = m) && p.2
  (hit.findIdx (· = true) % (if hit.any (· = true) then hit.length + 1 else 1), m)

end Lcm
