"""C08 - agents are simulated independently of each other.

Metamorphic oracle on the implementation: one base batch and its permutation, a subset, a batch with
duplicated agents and the same batch with the keys of `initial_states` in reversed order; rows of the
same agent must be identical (all periods for models without stochastic transitions, period 0 for any
model). The Lean theorems `simChoice_closed` / `simChoice_alone` prove the same for the
implementation-shaped model (decision inside any batch = decision alone, tie rule included).
"""
from __future__ import annotations

import random
from fractions import Fraction as Fr

from common import impl, impl_site
from dsl import params_impl
from gen import gen_initial_states, nontrivial, signature
from pipeline import ImplFns, frame_rows, init_impl, materialise_case, model_solve
from props.simcommon import FORCES, base_out

RULE = ("cases = generated dyadic specifications (2/3 without stochastic transitions; models with filter-restricted choices exercise the "
        "repeat/tile product and the segment ids) x base batches of 5-13 agents with pairwise different states x {permutation, subset, "
        "duplication, reversed key order}; distinct = structural signature; evaluations = agent rows compared across batches")
ASSUMPTIONS = ["exact equality of rows (same arithmetic per agent; dyadic inputs)",
               "log grids are not generated here: with non-dyadic arithmetic XLA may round the same expression differently for different batch shapes, "
               "and a mathematical tie between two choices can then be broken differently (same value, other maximiser) - not a dependence on other agents"]


def cases(seed, tier):
    n = 30 if tier == "quick" else 400
    out = []
    for i in range(n):
        f = [x for x in (FORCES[i % len(FORCES)] or []) if x != "log"]   # exact row equality presupposes dyadic arithmetic (see ASSUMPTIONS)
        if i % 3 != 2:
            f = [x for x in f if x != "stoch"] + ["nostoch"]
        if i % 4 == 1:
            f = sorted(set(f + ["constraint", "cs"]))    # a constraint bounded by a continuous state: room for agents without feasible choice
        out.append({"kind": "gen", "seed": seed * 1_000_003 + 31337 + i, "force": f, "n_params": 1, "budget": 3000,
                    "n_agents": [5, 7, 11, 13][i % 4] if tier == "quick" else [5, 7, 13, 64, 256][i % 5]})
        if i in (2, 16):
            # large batches (more than 1024 rows of the data state-choice space, not a multiple of it): blocked / chunked
            # evaluation must not let rows of the last block pick up other agents
            out[-1]["n_agents"] = 1300 if i == 2 else 2100
            out[-1]["budget"] = 600
    return out


def _rows_equal(a, b):
    # choices are grid values: exact; value and states: exact up to the inexact-case guard of the exact stream
    from common import close_floats

    return (a["choices"] == b["choices"] and close_floats([a["value"]], [b["value"]])
            and list(a["states"]) == list(b["states"]) and close_floats(list(a["states"].values()), list(b["states"].values())))


def run_case(case):
    I = impl()
    mj, meta, Ps, r = materialise_case(case)
    P = Ps[0]
    n = case.get("n_agents", 7)
    info = {"mj": mj, "meta": meta, "P": P}
    out = base_out(info, case)
    Vm = model_solve(mj, P)
    if any(u for u in Vm["undef"]) or any(y == "-inf" for b in Vm["V"] for y in b["data"]):
        # C08 quantifies over supported models (every grid state has a feasible choice); on others the continuation can be
        # nan (0 * -inf in the interpolation) and an all-nan agent has no arg-max of its own
        out["skipped"] = "unsupported (-inf value or undefined transition)"
        return out
    init = gen_initial_states(r, mj, n, meta=meta) if "init" not in case else {s: [Fr(x) for x in v] for s, v in case["init"].items()}
    if "init" not in case:
        # "starved" agents: supported model, but an off-grid agent far below the grid of a continuous state that bounds the choices
        # from above (`choices <= state + slack`): every option of such an agent is infeasible (value -inf). It must still not
        # pick up the row of another agent.
        bound_states = [a for f in mj["functions"] if f["name"].endswith("_constraint") and f["name"] != "lower_constraint"
                        for a in f["args"] if a in dict(mj["states"]) and dict(mj["states"])[a]["k"] == "lin"]
        if bound_states:
            for j in r.sample(range(n), k=min(2, n - 1)):
                if j != 0 or r.random() < 0.3:
                    for sname in set(bound_states):
                        init[sname][j] = Fr(dict(mj["states"])[sname]["a"]) - 16 - j
            out["hist"]["starved_agents"] = 1
    seed = case.get("sim_seed", 4242)
    stochastic = any(f.get("stochastic") for f in mj["functions"])
    T = mj["n_periods"]
    periods = range(T) if not stochastic else range(1)
    rc = {"kind": "explicit", "model": mj, "params": [__import__("dsl").params_json(P)], "n_agents": n, "meta": meta,
          "init": {s: [str(x) for x in v] for s, v in init.items()}, "sim_seed": seed, "seed": case.get("seed", 0)}
    try:
        fns = ImplFns(mj, jit=True)
        params = params_impl(P)
        V = fns.solve(params)

        def sim(ini, order=None, int_cont=False):
            d = init_impl(mj, ini, int_cont=int_cont)
            if order is not None:
                d = {k: d[k] for k in order}
            return frame_rows(fns.simulate(params, initial_states=d, vf_arr_list=V, seed=seed), mj, len(next(iter(ini.values()))))

        base = sim(init)
        vs = []
        evals = 0
        # permutation
        perm = list(range(n))
        r.shuffle(perm)
        rows = sim({s: [v[j] for j in perm] for s, v in init.items()})
        for t in periods:
            for j, src in enumerate(perm):
                evals += 1
                if not _rows_equal(rows[t][j], base[t][src]):
                    vs.append({"clause": "permuting the agents permutes the rows", "detail": f"period {t}: agent {src} alone-in-base {base[t][src]} vs permuted position {j} {rows[t][j]}"})
                    break
        # subset
        sub = sorted(r.sample(range(n), k=max(1, n // 2)))
        rows = sim({s: [v[j] for j in sub] for s, v in init.items()})
        for t in periods:
            for j, src in enumerate(sub):
                evals += 1
                if not _rows_equal(rows[t][j], base[t][src]):
                    vs.append({"clause": "simulating a subset gives the same paths", "detail": f"period {t}: agent {src} in base {base[t][src]} vs in subset {sub} {rows[t][j]}"})
                    break
        # single agent
        k = r.randrange(n)
        rows = sim({s: [v[k]] for s, v in init.items()})
        for t in periods:
            evals += 1
            if not _rows_equal(rows[t][0], base[t][k]):
                vs.append({"clause": "simulating a subset gives the same paths", "detail": f"period {t}: agent {k} in base {base[t][k]} vs alone {rows[t][0]}"})
        # duplication
        dup = list(range(n)) + [k, k, perm[0]]
        rows = sim({s: [v[j] for j in dup] for s, v in init.items()})
        for t in periods:
            for j, src in enumerate(dup):
                evals += 1
                if not _rows_equal(rows[t][j], base[t][src]):
                    vs.append({"clause": "duplicating an agent duplicates its path", "detail": f"period {t}: agent {src} in base {base[t][src]} vs duplicated batch position {j} {rows[t][j]}"})
                    break
        # key order
        order = list(reversed([s for s, _ in mj["states"]]))
        rows = sim(init, order=order)
        for t in range(T):
            for j in range(n):
                evals += 1
                if not _rows_equal(rows[t][j], base[t][j]):
                    vs.append({"clause": "the order of the keys of initial_states is irrelevant", "detail": f"period {t} agent {j}: {base[t][j]} vs {rows[t][j]}"})
                    break
        # dtype of a batch: integer-valued continuous states passed with an integer dtype (legal: 20 and 20.0 are the same state)
        # against the same agents in a batch that also contains a fractional agent (float dtype)
        cont = [s for s, g in mj["states"] if g["k"] != "disc"]
        if cont and n <= 64 and not vs:
            ints = {s: ([Fr(int(x)) for x in v] if s in cont else list(v)) for s, v in init.items()}
            plus = {s: (v + [v[0] + Fr(1, 2)] if s in cont else v + [v[0]]) for s, v in ints.items()}
            rows_i = sim(ints, int_cont=True)
            rows_p = sim(plus)
            for t in periods:
                for j in range(n):
                    evals += 1
                    if not _rows_equal(rows_i[t][j], rows_p[t][j]):
                        vs.append({"clause": "simulating a subset gives the same paths",
                                   "detail": f"period {t}: agent {j} in an integer-typed batch {rows_i[t][j]} vs in the batch with one more (fractional) agent {rows_p[t][j]}"})
                        break
            out["hist"]["int_dtype_batch"] = 1
    except Exception as e:  # noqa: BLE001
        out["violations"].append({"clause": "simulate runs on a supported specification", "detail": f"{impl_site(e)}: {str(e)[:300]}", "key": f"raise:{impl_site(e)}", "shrink_case": rc})
        return out
    out["evals"] = evals
    out["hist"][f"stochastic={stochastic}"] = 1
    out["hist"]["has_sparse_choice"] = int(meta.get("filter_family") in ("sd", "sdp", "two", "f1"))
    for v in vs[:3]:
        v["key"] = "C08:" + v["clause"]
        v["shrink_case"] = rc
        out["violations"].append(v)
    out["sample"] = {"n_agents": n, "permutation": perm, "subset": sub, "duplicated": dup[n:], "stochastic": stochastic, "base_row_0_0": base[0][0]}
    return out
