import LcmProofs.SimPanel
import LcmProps.Examples
namespace Lcm

/-! # C02 — simulated decisions are feasible maximisers of the agent's objective

Model: `Lcm.simulate` / `agentDecision` / `simChoice` (`LcmModel/Sim.lean`, `SimStep.lean`): the arg-max
chain of `simulate.py` — data state-choice space (agents × restricted choices, filter, boolean-mask
selection), masked arg-max over the flattened product of the continuous-choice grids, arg-max over the
unrestricted discrete choices, segment arg-max over the rows of the agent, re-indexing of the dense and the
continuous arg-max by the selected row (repair F2), index → grid value. The objective of period `t` is
`uAndF` built from *the value array in use* for period `t+1`. -/

/-- the records of period `t` of a simulation are the decisions of the agents at their period-`t` states -/
theorem C02_records_are_decisions (m : Model) (P : Params) (V : List (Tensor Ext))
    (init : List (List (Name × Rat))) (draws : Draws) (t i : Nat) (ht : t < m.nPeriods) (hi : i < init.length) :
    ((simulate m P V init draws true).getD t []).getD i default
      = agentDecision m P (groups m) t (simNext m P V t) (statesAt m P V init draws t) i := by
  rw [simulate_getD m P V init draws t ht]
  exact periodOut_record_getD m P V draws t _ i (by rw [statesAt_length]; exact hi)

/-- **R2 per agent and period**: for any mix of restricted / unrestricted discrete choices and any number
and sizes of continuous-choice grids, (1) the reported value is the maximum of the agent's own objective
over all grid choices that pass the filter and the constraints, (2) if that maximum is not −inf the reported
choices are grid values, pass the filter and the constraints, and attain it. -/
theorem C02_decision_is_feasible_maximiser (m : Model) (P : Params) (g : Groups) (t : Nat)
    (next : Option (Tensor Ext × List (List (Name × Rat)))) (states : List (List (Name × Rat)))
    (i : Nat) (hi : i < states.length) :
    let st := states.getD i []
    let out := simChoice states.length (assignments g.sC) (assignments g.dC) (assignments g.cC)
      (fun k c => agentFilt m P g t (states.getD k []) c)
      (fun k c e y => valueOf (agentObj m P g t next (states.getD k []) c e y))
      (fun k c e y => feasibleOf (agentObj m P g t next (states.getD k []) c e y)) i
    (agentDecision m P g t next states i).value = out.2.2.2 ∧
    IsMaxOver
      (fun x : List (Name × Rat) × (List (Name × Rat) × List (Name × Rat)) =>
        (x.1 ∈ assignments g.sC ∧ agentFilt m P g t st x.1 = true) ∧
          (x.2.1 ∈ assignments g.dC ∧ (x.2.2 ∈ assignments g.cC ∧
            feasibleOf (agentObj m P g t next st x.1 x.2.1 x.2.2) = true)))
      (fun x => valueOf (agentObj m P g t next st x.1 x.2.1 x.2.2))
      (agentDecision m P g t next states i).value ∧
    ((agentDecision m P g t next states i).value ≠ .ninf →
      out.1 ∈ assignments g.sC ∧ agentFilt m P g t st out.1 = true ∧
      out.2.1 ∈ assignments g.dC ∧ out.2.2.1 ∈ assignments g.cC ∧
      feasibleOf (agentObj m P g t next st out.1 out.2.1 out.2.2.1) = true ∧
      (agentDecision m P g t next states i).value
        = .fin (valueOf (agentObj m P g t next st out.1 out.2.1 out.2.2.1))) :=
  agentDecision_spec m P g t next states i hi

/-- the reported choices are exactly the three components selected by the chain (restricted, unrestricted
discrete, continuous), so "the reported choice attains the value" is the statement above -/
theorem C02_reported_choices (m : Model) (P : Params) (g : Groups) (t : Nat)
    (next : Option (Tensor Ext × List (List (Name × Rat)))) (states : List (List (Name × Rat))) (i : Nat) :
    let out := simChoice states.length (assignments g.sC) (assignments g.dC) (assignments g.cC)
      (fun k c => agentFilt m P g t (states.getD k []) c)
      (fun k c e y => valueOf (agentObj m P g t next (states.getD k []) c e y))
      (fun k c e y => feasibleOf (agentObj m P g t next (states.getD k []) c e y)) i
    (agentDecision m P g t next states i).choices = out.2.1 ++ out.1 ++ out.2.2.1 := rfl

/-- the reported value is *the* maximum: any value satisfying the specification equals it -/
theorem C02_value_is_the_maximum {X : Type} {Pr : X → Prop} {f : X → Rat} {v w : Ext}
    (hv : IsMaxOver Pr f v) (hw : IsMaxOver Pr f w) : v = w := hv.unique hw

/-- the continuation of period `t` is built from the value array in use for period `t+1`; none in the last
period -/
theorem C02_uses_next_period_array (m : Model) (P : Params) (V : List (Tensor Ext)) (t : Nat) :
    simNext m P V t = if t + 1 < m.nPeriods then
      some (V.getD (t + 1) default, (mkSpace m P (groups m) (t + 1)).feas) else none := rfl

-- non-vacuity / pinned numbers: the F1 witness simulated from s = 1 and s = 2
#guard ((simulate Ex.f1Model Ex.f1Params (solve Ex.f1Model Ex.f1Params) [[("s", 1)], [("s", 2)]] (fun _ _ _ _ => 0)).map
  fun recs => recs.map fun r => (r.value, r.choices, r.states))
  == [[(.fin 22, [("d", 1)], [("s", 1)]), (.fin 42, [("d", 1)], [("s", 2)])],
     [(.fin 11, [("d", 1)], [("s", 1)]), (.fin 21, [("d", 1)], [("s", 2)])]]

end Lcm
