import LcmModel.Input
namespace Lcm

theorem mem_insertName (x y : Name) (ys : List Name) : y ∈ insertName x ys ↔ y = x ∨ y ∈ ys := by
  induction ys with
  | nil => simp [insertName]
  | cons z zs ih =>
    unfold insertName
    split
    · simp
    · split
      · rename_i _ hxz; subst hxz; simp
      · simp only [List.mem_cons, ih]
        constructor
        · rintro (h | h | h) <;> simp [h]
        · rintro (h | h | h) <;> simp [h]

theorem mem_sortNames (y : Name) (xs : List Name) : y ∈ sortNames xs ↔ y ∈ xs := by
  induction xs with
  | nil => simp [sortNames]
  | cons x xs ih =>
    have : sortNames (x :: xs) = insertName x (sortNames xs) := rfl
    rw [this, mem_insertName, ih]
    simp

/-- C07 (template part): `p` is listed for function `f` iff it is an argument of `f` that is
neither a model function, a choice, a state nor `_period`. -/
theorem mem_functionParams (m : Model) (f : Func) (hf : f ∈ m.functions) (p : Name) :
    p ∈ sortNames (f.args.filter fun a =>
        !(m.functions.map (·.name) ++ m.choices.map (·.1) ++ m.states.map (·.1) ++ ["_period"]).contains a)
      ↔ p ∈ f.args ∧ p ∉ m.functions.map (·.name) ∧ p ∉ m.choices.map (·.1) ∧
          p ∉ m.states.map (·.1) ∧ p ≠ "_period" := by
  rw [mem_sortNames]
  simp only [List.mem_filter, Bool.not_eq_true', List.contains_eq_mem, List.mem_append,
    List.mem_cons, List.not_mem_nil, or_false, decide_eq_false_iff_not, not_or]
  constructor
  · rintro ⟨h1, ⟨⟨h2, h3⟩, h4⟩, h5⟩; exact ⟨h1, h2, h3, h4, h5⟩
  · rintro ⟨h1, h2, h3, h4, h5⟩; exact ⟨h1, ⟨⟨h2, h3⟩, h4⟩, h5⟩

#print axioms mem_functionParams
end Lcm
