import LcmModel.Solve
import LcmModel.SimStep
namespace Lcm

/-! Name-level, executable model of `simulate` (prototype). -/

structure Record where
  value : Ext
  choices : List (Name × Rat)
  states : List (Name × Rat)
deriving Inhabited

/-- draws supplied by the harness: `draws t var agent depIdx` = label drawn by
`jax.random.choice` with the key at path (t, var, agent) and the row selected by `depIdx` -/
abbrev Draws := Nat → Name → Nat → List Nat → Nat

/-- objective-and-feasibility evaluation of agent `i` (states `st`) at a choice -/
def agentObj (m : Model) (P : Params) (g : Groups) (t : Nat)
    (next : Option (Tensor Ext × List (List (Name × Rat)))) (st : List (Name × Rat))
    (c e y : List (Name × Rat)) : Option (Rat × Bool) :=
  uAndF m P g t next (toEnv (st ++ c ++ e ++ y))

/-- filter of the data state-choice space: evaluated per agent on (states, restricted choices); not
applied at all when the model has no restricted choice variable (`create_data_scs`) -/
def agentFilt (m : Model) (P : Params) (g : Groups) (t : Nat) (st c : List (Name × Rat)) : Bool :=
  if g.sC.isEmpty then true
  else (allTrue m P (toEnv (st ++ c) ++ periodEnv t)
    (((functionInfo m).filter (·.isFilter)).map (·.name))).getD false

/-- decision of agent `i`: the arg-max chain of `simulate` (see `simChoice`) -/
def agentDecision (m : Model) (P : Params) (g : Groups) (t : Nat)
    (next : Option (Tensor Ext × List (List (Name × Rat)))) (states : List (List (Name × Rat)))
    (i : Nat) : Record :=
  let stOf := fun (k : Nat) => states.getD k []
  let out := simChoice states.length (assignments g.sC) (assignments g.dC) (assignments g.cC)
    (fun k c => agentFilt m P g t (stOf k) c)
    (fun k c e y => valueOf (agentObj m P g t next (stOf k) c e y))
    (fun k c e y => feasibleOf (agentObj m P g t next (stOf k) c e y)) i
  { value := out.2.2.2, choices := out.2.1 ++ out.1 ++ out.2.2.1, states := stOf i }

/-- one period of `simulate` for the whole batch -/
def simulatePeriod (m : Model) (P : Params) (g : Groups) (t : Nat)
    (next : Option (Tensor Ext × List (List (Name × Rat)))) (states : List (List (Name × Rat)))
    (draws : Draws) : List Record × List (List (Name × Rat)) :=
  let n := states.length
  let recs := (List.range n).map fun i => agentDecision m P g t next states i
  -- law of motion
  let fi := functionInfo m
  let nexts := fi.filter (·.isNext)
  let nextStates := (List.range n).map fun i =>
    let rec_ := recs.getD i default
    let env := toEnv (rec_.states ++ rec_.choices) ++ periodEnv t
    nexts.map fun nf =>
      let x := stripNext nf.name
      if nf.isStochasticNext then
        let deps := ((m.func? nf.name).map (·.args)).getD []
        let depIdx := deps.map fun a => ((env.get? a).map fun v => natOfRat v.toRat).getD 0
        (x, ((draws t x i depIdx : Nat) : Rat))
      else (x, ((callF m P m.fuel env nf.name).map Val.toRat).getD 0)
  (recs, nextStates)

/-- `simulate`: period t uses V[t+1]; the last period has no continuation -/
def simulate (m : Model) (P : Params) (V : List (Tensor Ext)) (init : List (List (Name × Rat)))
    (draws : Draws) (shiftIndexers : Bool := true) : List (List Record) :=
  let g := groups m
  let T := m.nPeriods
  let rec go : Nat → Nat → List (List (Name × Rat)) → List (List Record)
    | 0, _, _ => []
    | k + 1, t, states =>
      let next : Option (Tensor Ext × List (List (Name × Rat))) :=
        if t + 1 < T then
          some (V.getD (t + 1) default,
            (mkSpace m P g (if shiftIndexers then t + 1 else t)).feas)
        else none
      let (recs, nxt) := simulatePeriod m P g t next states draws
      -- the next-state dict is re-keyed by state name; keep the declaration order of the states
      let nxt' := nxt.map fun a => m.states.map fun s => (s.1, ((a.find? (·.1 == s.1)).map (·.2)).getD 0)
      recs :: go k (t + 1) nxt'
  go T 0 init

/-- by-name evaluation of a model function at a frame row: the row's variables (states and choices, any order),
`_period = t` and the parameters (driver op `eval_funcs`) -/
def evalAt (m : Model) (P : Params) (row : List (Name × Rat)) (t : Nat) (name : Name) : Option Val :=
  callF m P m.fuel (toEnv row ++ periodEnv t) name

/-- `_compute_targets`, one cell: the target evaluated at the record of row (t, i) -/
def targetCell (m : Model) (P : Params) (t : Nat) (r : Record) (name : Name) : Option Val :=
  evalAt m P (r.states ++ r.choices) t name

/-- one column of additional targets over the whole panel, period-major -/
def targetColumn (m : Model) (P : Params) (results : List (List Record)) (name : Name) : List (Option Val) :=
  (results.zipIdx.map fun (rt : List Record × Nat) => rt.1.map fun r => targetCell m P rt.2 r name).flatten

/-- all requested target columns -/
def targetColumns (m : Model) (P : Params) (results : List (List Record)) (names : List Name) :
    List (Name × List (Option Val)) :=
  names.map fun n => (n, targetColumn m P results n)

end Lcm
