"""C15 - interpolation kernel and grid coordinates are exact inverses of the grids.

Tie: `lcm.ndimage.map_coordinates` on arrays of rank 1-4 (float and integer input arrays, batched and
unbatched coordinates, coordinates at nodes, fractional and outside the index range) against the Lean
model `interp` (recursive form of the corner-product sum; exact); `LinspaceGrid.get_coordinate` against
`coordOf` (exact on dyadic grids), `LogspaceGrid.get_coordinate` against the Float transcription `logCoordF`.
Oracle on the implementation alone: coordinate of node i is i; coordinates strictly increasing in the value;
interpolating the grid itself at the coordinate of a value returns that value (every value for linear grids,
values inside the range for log grids); integer coordinates return the array entries.
"""
from __future__ import annotations

import itertools
import random
import struct
from fractions import Fraction as Fr

from common import driver, fr, impl, impl_site, same_number

RULE = ("cases = random dyadic arrays of rank 1-4 (axis sizes 2-5) x coordinate vectors (node / fractional / outside) x float and integer "
        "inputs x batched/unbatched; linear grids with dyadic bounds and log grids with random bounds, sizes 2-12; distinct = (rank, shape, "
        "dtype, batching) resp. (grid kind, size); evaluations = interpolated values and coordinates compared")
ASSUMPTIONS = ["log grids and non-dyadic linear grids: relative tolerance 1e-9", "coordinates beyond int32 are not generated"]


def cases(seed, tier):
    n = 150 if tier == "quick" else 3000
    return [{"seed": seed * 1_000_003 + 15001 + i, "what": ["interp", "interp", "lin", "log"][i % 4]} for i in range(n)]


def bits(x: float) -> int:
    return struct.unpack("<Q", struct.pack("<d", float(x)))[0]


def unbits(b: int) -> float:
    return struct.unpack("<d", struct.pack("<Q", int(b)))[0]


def _other_kind_first(cls, a, b, n):
    """the grid of the *other* kind with the same start / stop / n_points is materialised first, in the same process: whatever
    the library remembers about one kind must not leak into the other"""
    try:
        cls(start=a, stop=b, n_points=n).to_jax()
    except Exception:  # noqa: BLE001  (e.g. a log grid with a non-positive start)
        pass


def run_case(case):
    I = impl()
    jnp, np, jax = I.jnp, I.np, I.jax
    from lcm import LinspaceGrid, LogspaceGrid
    from lcm.ndimage import map_coordinates

    r = random.Random(case["seed"])
    what = case["what"]
    out = {"nontrivial": True, "evals": 0, "violations": [], "hist": {f"what={what}": 1}}
    vs = out["violations"]
    if what == "interp":
        rank = r.randint(1, 4)
        shape = [r.randint(2, 5) for _ in range(rank)]
        is_int = r.random() < 0.25
        size = int(np.prod(shape))
        if is_int:
            arr = np.array([r.randint(-20, 20) for _ in range(size)], dtype=np.int32).reshape(shape)
        else:
            arr = np.array([r.randint(-32, 32) / 8 for _ in range(size)], dtype=float).reshape(shape)
        npts = r.randint(1, 6)
        batched = r.random() < 0.7
        pts = []
        for _ in range(npts if batched else 1):
            kind = r.choice(["node", "frac", "outside", "mixed"])
            c = []
            for n in shape:
                k = kind if kind != "mixed" else r.choice(["node", "frac", "outside"])
                if k == "node":
                    c.append(Fr(r.randint(0, n - 1)))
                elif k == "frac":
                    c.append(Fr(r.randint(0, (n - 1) * 8), 8))
                else:
                    c.append(r.choice([Fr(-3, 2), Fr(-1, 4), Fr(n - 1) + Fr(1, 2), Fr(n) + Fr(3, 4), Fr(-2)]))
            pts.append((kind, c))
        out["sig"] = f"interp rank={rank} shape={shape} int={is_int} batched={batched}"
        out["hist"][f"rank={rank}"] = 1
        out["hist"][f"int_input={is_int}"] = 1
        try:
            if batched:
                coords = [jnp.asarray([float(c[d]) for _, c in pts]) for d in range(rank)]
                got = np.asarray(map_coordinates(jnp.asarray(arr), coords)).tolist()
            else:
                coords = [jnp.asarray(float(pts[0][1][d])) for d in range(rank)]
                got = [np.asarray(map_coordinates(jnp.asarray(arr), coords)).tolist()]
        except Exception as e:  # noqa: BLE001
            vs.append({"clause": "map_coordinates evaluates", "detail": f"{impl_site(e)}: {str(e)[:200]}", "key": "C15:eval"})
            return out
        ans = driver().call({"op": "map_coordinates", "input": {"shape": shape, "data": [fr(float(x)) for x in arr.ravel()]}, "int_input": is_int,
                             "coords": [{"c": [fr(x) for x in c]} for _, c in pts]})
        for (kind, c), g, a in zip(pts, got, ans):
            out["evals"] += 1
            out["hist"][f"point={kind}"] = out["hist"].get(f"point={kind}", 0) + 1
            if not same_number(g, a):
                vs.append({"clause": "multilinear blend of the 2^rank surrounding entries / linear continuation of the boundary cell",
                           "detail": f"shape {shape} int={is_int} coords {[str(x) for x in c]}: implementation {fr(g)}, model {a}", "key": "C15:interp"})
                break
            if kind == "node" and not is_int:
                if float(arr[tuple(int(x) for x in c)]) != g:
                    vs.append({"clause": "integer coordinates return the array entries", "detail": f"shape {shape} index {[int(x) for x in c]}: {g} vs {arr[tuple(int(x) for x in c)]}", "key": "C15:node"})
                    break
        # C15_monotone_in_values_inside / C14_no_overshoot_inside_grid on the implementation: inside the array the weights are
        # non-negative (exact: all numbers are dyadic)
        inside = [i for i, (kind, _) in enumerate(pts) if kind in ("node", "frac")]
        if inside and not is_int and not vs:
            bump = np.array([r.choice([0, 0, 1, 4, 16]) / 8 for _ in range(size)], dtype=float).reshape(shape)
            try:
                if batched:
                    got2 = np.asarray(map_coordinates(jnp.asarray(arr + bump), coords)).tolist()
                else:
                    got2 = [np.asarray(map_coordinates(jnp.asarray(arr + bump), coords)).tolist()]
            except Exception as e:  # noqa: BLE001
                vs.append({"clause": "map_coordinates evaluates", "detail": f"{impl_site(e)}: {str(e)[:200]}", "key": "C15:eval"})
                return out
            lo_v, hi_v = float(arr.min()), float(arr.max())
            for i in inside:
                out["evals"] += 1
                out["hist"]["inside_bounds_and_monotone"] = out["hist"].get("inside_bounds_and_monotone", 0) + 1
                if not (lo_v <= got[i] <= hi_v):
                    vs.append({"clause": "inside the array the value lies within the range of the entries", "detail": f"shape {shape} coords {[str(x) for x in pts[i][1]]}: {got[i]} outside [{lo_v}, {hi_v}]", "key": "C15:overshoot"})
                    break
                if got2[i] < got[i]:
                    vs.append({"clause": "inside the array a pointwise larger array gives a larger value", "detail": f"shape {shape} coords {[str(x) for x in pts[i][1]]}: {got[i]} -> {got2[i]} after adding {bump.ravel().tolist()}", "key": "C15:monotone"})
                    break
        out["sample"] = {"shape": shape, "int_input": is_int, "coords": [str(x) for x in pts[0][1]], "implementation": got[0], "model": ans[0]}
        return out
    # ---------------- grids
    n = r.randint(2, 12)
    if what == "lin":
        dyadic = r.random() < 0.6
        if dyadic:
            n = r.choice([2, 3, 5, 9])
            step = r.choice([Fr(1, 4), Fr(1, 2), Fr(1), Fr(2), Fr(4)])
            a = Fr(r.randint(-8, 8), 2)
            b = a + step * (n - 1)
        else:
            a = Fr(r.uniform(-100, 100))
            b = a + Fr(r.uniform(0.01, 1000))
        _other_kind_first(LogspaceGrid, float(a), float(b), n)
        g = LinspaceGrid(start=float(a), stop=float(b), n_points=n)
        tol = None if dyadic else 1e-9
        if dyadic:
            vals = [a + (b - a) * Fr(r.randint(-16, 32), 16) for _ in range(6)]
        else:
            vals = [Fr(r.uniform(float(a) - float(b - a), float(b) + float(b - a))) for _ in range(6)]
        vals = sorted(set(vals))
        out["sig"] = f"lin n={n} dyadic={dyadic}"
        got = [float(g.get_coordinate(float(v))) for v in vals]
        if dyadic:
            ans = driver().call({"op": "coord", "grid": {"k": "lin", "a": fr(a), "b": fr(b), "n": n}, "values": [fr(v) for v in vals]})
        else:
            res = driver().call({"op": "log_grid", "kind": "lin", "a": bits(float(a)), "b": bits(float(b)), "n": n, "values": [bits(float(v)) for v in vals]})
            ans = [fr(unbits(x)) for x in res["coords"]]
        nodes = np.asarray(g.to_jax())
    else:
        a = r.choice([0.01, 0.1, 0.5, 1.0, 2.0, r.uniform(0.01, 5)])
        b = a * r.choice([1.5, 3.0, 10.0, 100.0, r.uniform(1.5, 100)])
        _other_kind_first(LinspaceGrid, a, b, n)
        g = LogspaceGrid(start=a, stop=b, n_points=n)
        tol = 1e-9
        if r.random() < 0.4:
            n = r.choice([25, 60, 150, 400])       # many nodes: absolute coordinate errors scale with the index
            _other_kind_first(LinspaceGrid, a, b, n)
            g = LogspaceGrid(start=a, stop=b, n_points=n)
        vals = {Fr(r.uniform(a, b)) for _ in range(6)}
        nodes_ = np.asarray(g.to_jax())
        for _ in range(4):   # values very close to (but not on) a grid point, preferably one with a large index
            i_ = r.randint(max(1, n // 2), n - 1)
            vals.add(Fr(float(nodes_[i_]) * (1 + r.choice([-1, 1]) * r.choice([3e-7, 2e-6, 8e-6]))))
        vals = sorted(v for v in vals if float(a) <= float(v) <= float(b))
        out["sig"] = f"log n={n}"
        got = [float(g.get_coordinate(float(v))) for v in vals]
        res = driver().call({"op": "log_grid", "kind": "log", "a": bits(a), "b": bits(b), "n": n, "values": [bits(float(v)) for v in vals]})
        ans = [fr(unbits(x)) for x in res["coords"]]
        nodes = np.asarray(g.to_jax())
    out["hist"][f"n={min(n, 6)}{'+' if n > 6 else ''}"] = 1
    atol = 1e-8
    for v, c, m in zip(vals, got, ans):
        out["evals"] += 1
        if not same_number(c, m, tol) and abs(c - float(Fr(m))) > atol:
            vs.append({"clause": "generalised coordinate equals the model's", "detail": f"{out['sig']} [{float(a)}, {float(b)}] value {float(v)}: implementation {c}, model {float(Fr(m))}", "key": "C15:coord"})
            break
    # oracle on the implementation alone
    for i in range(n):
        c = float(g.get_coordinate(float(nodes[i])))
        out["evals"] += 1
        if abs(c - i) > (0 if tol is None else 1e-6):
            vs.append({"clause": "the generalised coordinate of a grid point is its index", "detail": f"{out['sig']} [{float(a)}, {float(b)}] node {i}: coordinate {c}", "key": "C15:node-coord"})
            break
    for (v0, c0), (v1, c1) in zip(zip(vals, got), list(zip(vals, got))[1:]):
        if v1 > v0 and not c1 > c0 and (float(v1) - float(v0)) > 1e-9 * max(1.0, abs(float(v0))):
            vs.append({"clause": "coordinates increase strictly with the value", "detail": f"{out['sig']}: values {float(v0)} < {float(v1)} but coordinates {c0}, {c1}", "key": "C15:mono"})
            break
    for v, c in zip(vals, got):
        back = float(map_coordinates(jnp.asarray(nodes), [jnp.asarray(c)]))
        out["evals"] += 1
        ok = (Fr(back) == v) if tol is None else abs(back - float(v)) <= 1e-9 * max(1.0, abs(float(v)))
        if not ok:
            vs.append({"clause": "interpolating the grid at the coordinate of a value returns that value", "detail": f"{out['sig']} [{float(a)}, {float(b)}] value {float(v)} -> coordinate {c} -> {back}", "key": "C15:roundtrip"})
            break
    out["sample"] = {"grid": out["sig"], "start": float(a), "stop": float(b), "value": float(vals[0]), "coordinate": got[0], "model": str(ans[0])}
    return out
