"""C05 - value arrays follow the documented axis layout.

Tie: shapes and entries. The Lean op `layout` supplies, per period, the feasible combinations of the
filter-restricted states in row-major declaration order, the unrestricted discrete states and the
continuous states in declaration order; the harness derives the *state* that the layout contract assigns
to an index and asks the model for the Bellman value of that state by plain enumeration (`spec_v`,
next-period values read from the implementation's own array of period t+1). With pairwise distinct axis
sizes and utilities injective in every variable any transposed or mis-ordered layout changes a comparison.
"""
from __future__ import annotations

import itertools
import random
from fractions import Fraction as Fr

from common import driver, fr, impl, impl_site, same_number
from dsl import grid_points, params_impl, params_json
from gen import nontrivial, signature, strip
from pipeline import ImplFns, _ext_tensor_json, explicit_case, materialise_case, model_layout, model_solve
from props.simcommon import base_out

CANARY = True
RULE = ("cases = generated dyadic specifications with shuffled declaration orders and pairwise distinct axis sizes (restricted and "
        "unrestricted discrete states, continuous states); distinct = structural signature; evaluations = array entries whose state "
        "(by the layout contract) was re-valued by the specification-level enumeration")
ASSUMPTIONS = ["exact comparison on dyadic inputs", "periods after which the model's arrays contain -inf are compared for shape only"]
FORCES = [["filter"], ["f1two"], ["f1"], ["mixed"], None, ["filter", "stoch"], ["nofilter"], ["f1", "constraint"], ["filter", "cont2"],
          ["cs2", "nofilter"], ["cs2", "filter"], ["cs2"]]


def cases(seed, tier):
    n = 36 if tier == "quick" else 500
    return [{"kind": "gen", "seed": seed * 1_000_003 + 50001 + i, "force": FORCES[i % len(FORCES)], "n_params": 1, "budget": 3000, "jit": i % 2 == 0} for i in range(n)]


def _check_spec(I, mj, P, r, jit, tag):
    """layout contract of one specification: returns (violations, evaluations, lay, V) or a raise-violation"""
    np = I.np
    vs = []
    try:
        fns = ImplFns(mj, jit=jit)
        V = [np.asarray(v) for v in fns.solve(params_impl(P))]
    except Exception as e:  # noqa: BLE001
        return [{"clause": "solve runs on a supported specification", "detail": f"{tag}{impl_site(e)}: {str(e)[:300]}", "key": f"raise:{impl_site(e)}"}], 0, None, None
    lay = model_layout(mj)
    Vm = model_solve(mj, P)
    G = dict(mj["states"])
    T = mj["n_periods"]
    evals = 0
    if len(V) != T:
        vs.append({"clause": "a list of n_periods arrays in chronological order", "detail": f"{tag}{len(V)} arrays for {T} periods"})
    later_ok = True
    for t in reversed(range(min(T, len(V)))):
        L = lay[t]
        if list(V[t].shape) != L["shape"]:
            vs.append({"clause": "axes: [feasible restricted-state combinations] + unrestricted discrete states + continuous states, declaration order, grid lengths",
                       "detail": f"{tag}period {t}: implementation shape {list(V[t].shape)}, layout contract {L['shape']} (restricted {L['sparse_states']}, unrestricted {L['dense_states']}, continuous {L['cont_states']})"})
            break
        if later_ok and not Vm["undef"][t]:
            idxs = list(itertools.product(*[range(k) for k in L["shape"]]))
            r.shuffle(idxs)
            idxs = idxs[:40]
            states = []
            for idx in idxs:
                st = {}
                j = 0
                if L["sparse_states"]:
                    st.update(dict(zip(L["sparse_states"], L["feas"][idx[0]])))
                    j = 1
                for s in L["dense_states"]:
                    st[s] = str(idx[j])
                    j += 1
                for s in L["cont_states"]:
                    st[s] = fr(grid_points(G[s])[idx[j]])
                    j += 1
                states.append([[s, st[s]] for s, _ in mj["states"]])
            ans = driver().call({"op": "spec_v", "model": strip(mj), "params": params_json(P), "t": t,
                                 "Vnext": None if t + 1 >= T else _ext_tensor_json(V[t + 1]), "states": states})
            for idx, a in zip(idxs, ans):
                evals += 1
                x = V[t][idx] if idx else V[t][()]
                if not same_number(float(x), a):
                    vs.append({"clause": "entry at an index equals the value of the state the layout contract assigns to it",
                               "detail": f"{tag}period {t} index {list(idx)} (state {dict(zip([s for s, _ in mj['states']], [p[1] for p in states[idxs.index(idx)]]))}): array {fr(float(x))}, specification {a}"})
                    break
        if any(y == "-inf" for y in Vm["V"][t]["data"]) or Vm["undef"][t]:
            later_ok = False
        if vs:
            break
    return vs, evals, lay, V


def run_case(case):
    I = impl()
    np = I.np
    mj, meta, Ps, r = materialise_case(case)
    P = Ps[0]
    info = {"mj": mj, "meta": meta}
    out = base_out(info, case)
    rc = explicit_case(mj, [P], jit=case.get("jit", True), seed=case.get("seed", 0), meta=meta)
    vs, evals, lay, V = _check_spec(I, mj, P, r, case.get("jit", True), "")
    if V is None:
        for v in vs:
            v["shrink_case"] = rc
            out["violations"].append(v)
        return out
    if not vs and len(mj["states"]) > 1:
        # the same specification with its states (and choices) declared in the opposite order, built in the same process from
        # the same function and grid objects: another layout, same contract
        mj2 = dict(mj, states=list(reversed(mj["states"])), choices=list(reversed(mj["choices"])))
        vs2, ev2, _, V2 = _check_spec(I, mj2, P, r, case.get("jit", True), "declaration order reversed: ")
        vs.extend(v for v in vs2 if not v.get("key", "").startswith("raise:") or True)
        evals += ev2
        out["hist"]["reversed_variant"] = 1
    sizes = list(V[0].shape) if len(V) else []
    out["hist"]["distinct_axis_sizes"] = int(len(set(sizes)) == len(sizes) and len(sizes) > 1)
    out["hist"][f"ndim={len(sizes)}"] = 1
    out["hist"]["has_restricted_state"] = int(bool(lay[0]["sparse_states"]))
    out["evals"] = evals
    for v in vs[:3]:
        v["key"] = "C05:" + v["clause"]
        v["shrink_case"] = rc
        out["violations"].append(v)
    out["sample"] = {"declared_states": [[s, g["k"], g["n"]] for s, g in mj["states"]], "layout_period0": {k: lay[0][k] for k in ("sparse_states", "dense_states", "cont_states", "shape")},
                     "impl_shape_period0": sizes}
    return out
