import LcmProofs.AffineSolve
namespace Lcm

/-! The specification obtained from `m` by replacing the body `u` of its utility function by `a·u + b` satisfies
`AffineUtility`: nothing else changes, provided no function takes the *value* of utility as an argument. -/

def affBody (a b : Rat) (f : Func) : Func :=
  if f.name == "utility" then { f with body := .add (.mul (.num a) f.body) (.num b) } else f

def withAffineUtility (m : Model) (a b : Rat) : Model := { m with functions := m.functions.map (affBody a b) }

theorem affBody_name (a b : Rat) (f : Func) : (affBody a b f).name = f.name := by
  unfold affBody; split <;> rfl
theorem affBody_args (a b : Rat) (f : Func) : (affBody a b f).args = f.args := by
  unfold affBody; split <;> rfl
theorem affBody_stochastic (a b : Rat) (f : Func) : (affBody a b f).stochastic = f.stochastic := by
  unfold affBody; split <;> rfl
theorem affBody_other (a b : Rat) (f : Func) (h : f.name ≠ "utility") : affBody a b f = f := by
  unfold affBody; simp [h]

theorem func?_with (m : Model) (a b : Rat) (n : Name) :
    (withAffineUtility m a b).func? n = (m.func? n).map (affBody a b) := by
  unfold Model.func? withAffineUtility
  simp only [List.find?_map]
  have : ((fun x : Func => x.name == n) ∘ affBody a b) = (fun x => x.name == n) := by
    funext f; simp [Function.comp, affBody_name]
  rw [this]

theorem func?_name (m : Model) (n : Name) (f : Func) (h : m.func? n = some f) : f.name = n := by
  have := List.find?_some h
  simpa using this

theorem func?_mem (m : Model) (n : Name) (f : Func) (h : m.func? n = some f) : f ∈ m.functions :=
  List.mem_of_find?_eq_some h

theorem functionInfo_with (m : Model) (a b : Rat) : functionInfo (withAffineUtility m a b) = functionInfo m := by
  unfold functionInfo withAffineUtility
  simp only [List.map_map]
  apply List.map_congr_left
  intro f _
  simp only [Function.comp, affBody_name, affBody_stochastic]

theorem fuel_with (m : Model) (a b : Rat) : (withAffineUtility m a b).fuel = m.fuel := by
  unfold Model.fuel withAffineUtility; simp

theorem ancestorsAux_with (m : Model) (a b : Rat) (fuel : Nat) (n : Name) :
    ancestorsAux (withAffineUtility m a b) fuel n = ancestorsAux m fuel n := by
  induction fuel generalizing n with
  | zero => rfl
  | succ k ih =>
    unfold ancestorsAux
    rw [func?_with]
    cases m.func? n with
    | none => rfl
    | some f =>
      simp only [Option.map_some, affBody_args]
      congr 1
      apply List.flatMap_congr
      intro x _
      exact ih x

theorem ancestors_with (m : Model) (a b : Rat) (targets : List Name) :
    ancestors (withAffineUtility m a b) targets = ancestors m targets := by
  unfold ancestors
  have hl : (withAffineUtility m a b).functions.length = m.functions.length := by simp [withAffineUtility]
  rw [hl]
  congr 1
  apply List.flatMap_congr
  intro x _
  exact ancestorsAux_with m a b _ x

theorem variableInfo_with (m : Model) (a b : Rat) : variableInfo (withAffineUtility m a b) = variableInfo m := by
  unfold variableInfo
  simp only [functionInfo_with, ancestors_with]
  rfl

theorem groups_with (m : Model) (a b : Rat) : groups (withAffineUtility m a b) = groups m := by
  unfold groups
  simp only [variableInfo_with]
  rfl

/-- functions other than utility evaluate alike (any fuel), provided no function takes utility as an argument -/
theorem callF_with_other (m : Model) (a b : Rat) (P : Params) (hno : ∀ f ∈ m.functions, "utility" ∉ f.args)
    (fuel : Nat) (env : Env) (n : Name) (hn : n ≠ "utility") :
    callF (withAffineUtility m a b) P fuel env n = callF m P fuel env n := by
  induction fuel generalizing n with
  | zero => rfl
  | succ k ih =>
    unfold callF
    rw [func?_with]
    cases hf : m.func? n with
    | none => rfl
    | some f =>
      have hname := func?_name m n f hf
      have hmem := func?_mem m n f hf
      rw [Option.map_some, affBody_other a b f (by rw [hname]; exact hn)]
      simp only [Option.bind_eq_bind, Option.bind_some]
      congr 1
      apply mapM_congr_option
      intro x hx
      have hxu : x ≠ "utility" := fun h => hno f hmem (h ▸ hx)
      rw [func?_with, ih x hxu]
      cases m.func? x <;> rfl

theorem eval_affine (a b : Rat) (body : Expr) (env : Env) :
    (Expr.add (.mul (.num a) body) (.num b)).eval env = (body.eval env).map fun v => Val.num (a * v.toRat + b) := by
  simp only [Expr.eval]
  cases body.eval env <;> rfl

/-- utility itself: `a·u + b` -/
theorem utilOf_with (m : Model) (a b : Rat) (P : Params) (hno : ∀ f ∈ m.functions, "utility" ∉ f.args) (env : Env) :
    utilOf (withAffineUtility m a b) P env = (utilOf m P env).map fun u => a * u + b := by
  unfold utilOf
  rw [fuel_with]
  unfold Model.fuel
  unfold callF
  rw [func?_with]
  cases hf : m.func? "utility" with
  | none => rfl
  | some f =>
    have hname := func?_name m _ f hf
    have hmem := func?_mem m _ f hf
    simp only [Option.map_some, Option.bind_eq_bind, Option.bind_some]
    have hbody : (affBody a b f).body = .add (.mul (.num a) f.body) (.num b) := by
      unfold affBody; simp [hname]
    rw [affBody_args, hbody]
    have key : ∀ o : Option (List Val),
        Option.map Val.toRat (o.bind fun argVals => Expr.eval (f.args.zip argVals) (((Expr.num a).mul f.body).add (Expr.num b)))
          = Option.map (fun u => a * u + b) (Option.map Val.toRat (o.bind fun argVals => Expr.eval (f.args.zip argVals) f.body)) := by
      intro o
      cases o with
      | none => rfl
      | some vals =>
        simp only [Option.bind_some, eval_affine]
        cases f.body.eval (f.args.zip vals) <;> rfl
    have key2 : ∀ o' o : Option (List Val), o' = o →
        Option.map Val.toRat (o'.bind fun argVals => Expr.eval (f.args.zip argVals) (((Expr.num a).mul f.body).add (Expr.num b)))
          = Option.map (fun u => a * u + b) (Option.map Val.toRat (o.bind fun argVals => Expr.eval (f.args.zip argVals) f.body)) := by
      intro o' o h; subst h; exact key o'
    refine key2 _ _ ?_
    apply mapM_congr_option
    intro x hx
    have hxu : x ≠ "utility" := fun h => hno f hmem (h ▸ hx)
    rw [func?_with, callF_with_other m a b P hno _ env x hxu]
    cases m.func? x <;> rfl

/-- **the instance**: replacing the utility body by `a·u + b` gives a specification related to `m` by `AffineUtility` -/
theorem affineUtility_with (m : Model) (a b : Rat) (P : Params)
    (hno : ∀ f ∈ m.functions, "utility" ∉ f.args)
    (hnames : ∀ fi ∈ functionInfo m, (fi.isConstraint = true ∨ fi.isFilter = true ∨ fi.isNext = true) → fi.name ≠ "utility") :
    AffineUtility m (withAffineUtility m a b) P a b where
  periods := rfl
  grp := groups_with m a b
  finfo := functionInfo_with m a b
  other := fun env n hn => by rw [fuel_with]; exact callF_with_other m a b P hno _ env n hn
  funcs := fun n hn => by
    rw [func?_with]
    cases hf : m.func? n with
    | none => rfl
    | some f => rw [Option.map_some, affBody_other a b f (by rw [func?_name m n f hf]; exact hn)]
  util := utilOf_with m a b P hno
  names := hnames

#print axioms affineUtility_with
end Lcm
