import LcmProofs.SimPanel
import LcmProofs.SimPath
import LcmProofs.EnvPerm
namespace Lcm

/-! # C03 — simulated states follow the model's law of motion

Model: `simulatePeriod` (`LcmModel/Sim.lean`): after the decisions of period `t`, every transition function
is evaluated by name (`callF`: arguments that are model functions are computed, variables are read from the
agent's own record — period-`t` states and *reported* choices — and `_period = t`, parameters from
`params[next_x]`); a stochastic state takes the label `draws t x i depIdx` where `depIdx` are the agent's
values of the dependencies **in signature order**. The next-state dict is re-keyed by state name. -/

/-- period-0 states are exactly the supplied initial states -/
theorem C03_period0_states (m : Model) (P : Params) (V : List (Tensor Ext))
    (init : List (List (Name × Rat))) (draws : Draws) (i : Nat) (hT : 0 < m.nPeriods) (hi : i < init.length) :
    (((simulate m P V init draws true).getD 0 []).getD i default).states = init.getD i [] := by
  rw [simulate_getD m P V init draws 0 hT, periodOut_record_getD _ _ _ _ _ _ i (by rw [statesAt_length]; exact hi)]
  rfl

/-- the states recorded for agent `i` in period `t` are that agent's entry of the state list of period `t` -/
theorem C03_recorded_states (m : Model) (P : Params) (V : List (Tensor Ext))
    (init : List (List (Name × Rat))) (draws : Draws) (t i : Nat) (ht : t < m.nPeriods) (hi : i < init.length) :
    (((simulate m P V init draws true).getD t []).getD i default).states
      = (statesAt m P V init draws t).getD i [] := by
  rw [simulate_getD m P V init draws t ht, periodOut_record_getD _ _ _ _ _ _ i (by rw [statesAt_length]; exact hi)]
  rfl

/-- **law of motion**: the state list of period `t+1` is the re-keyed list of next states computed in
period `t` -/
theorem C03_states_succ (m : Model) (P : Params) (V : List (Tensor Ext)) (init : List (List (Name × Rat)))
    (draws : Draws) (t : Nat) :
    statesAt m P V init draws (t + 1)
      = rekey m (periodOut m P V draws t (statesAt m P V init draws t)).2 :=
  statesAt_succ m P V init draws t

/-- **what the next states of agent `i` are**: for every transition function `next_x`, the pair
`(x, value)` where the value is the transition function evaluated at *that agent's* period-`t` record
(states, reported choices), `_period = t` and the parameters — or, for a stochastic state, the label drawn
for (t, x, i) with the row selected by the agent's dependency values in signature order -/
theorem C03_next_states_of_agent (m : Model) (P : Params) (V : List (Tensor Ext)) (draws : Draws) (t : Nat)
    (states : List (List (Name × Rat))) (i : Nat) (hi : i < states.length) :
    (periodOut m P V draws t states).2.getD i []
      = (let rec_ := (periodOut m P V draws t states).1.getD i default
         let env := toEnv (rec_.states ++ rec_.choices) ++ periodEnv t
         ((functionInfo m).filter (·.isNext)).map fun nf =>
           let x := stripNext nf.name
           if nf.isStochasticNext then
             let deps := ((m.func? nf.name).map (·.args)).getD []
             let depIdx := deps.map fun a => ((env.get? a).map fun v => natOfRat v.toRat).getD 0
             (x, ((draws t x i depIdx : Nat) : Rat))
           else (x, ((callF m P m.fuel env nf.name).map Val.toRat).getD 0)) := by
  simp only [periodOut, simulatePeriod]
  rw [List.getD_eq_getElem?_getD, List.getElem?_map, List.getElem?_range hi]
  rfl

/-- the state row of agent `i` in period `t+1`, state by state in declaration order: the value looked up **by
name** in the list of next states computed from that agent's period-`t` record -/
theorem C03_states_of_agent_succ (m : Model) (P : Params) (V : List (Tensor Ext)) (init : List (List (Name × Rat)))
    (draws : Draws) (t i : Nat) (hi : i < init.length) :
    (statesAt m P V init draws (t + 1)).getD i []
      = m.states.map fun s =>
          (s.1, ((((periodOut m P V draws t (statesAt m P V init draws t)).2.getD i []).find? (·.1 == s.1)).map (·.2)).getD 0) := by
  rw [statesAt_succ]
  exact rekey_getD m _ i (by rw [periodOut_snd_length, statesAt_length]; exact hi)

/-- looking a name up in a list of (name, value) pairs with distinct names returns that name's own value:
state `x` receives the value of `next_x`, never of another transition -/
theorem C03_lookup_own_value (l : List (Name × Rat)) (hnd : (l.map (·.1)).Nodup) (p : Name × Rat) (hp : p ∈ l) :
    ((l.find? (·.1 == p.1)).map (·.2)).getD 0 = p.2 := by
  rw [find?_key_of_nodup l hnd p hp]; rfl

/-- the `next_` prefix is stripped: the transition function `next_x` feeds state `x` -/
theorem C03_prefix_stripped (x : String) : stripNext ("next_" ++ x) = x := by
  unfold stripNext
  rw [String.toList_append]
  have : "next_".toList = ['n', 'e', 'x', 't', '_'] := by decide
  rw [this]
  simp

/-- a sound sampler never returns a label of probability zero: if `draw` only returns indices of positive
entries of the row it is given, the new label of a stochastic state has positive probability in the row
selected by the agent's period-`t` variables -/
theorem C03_label_has_positive_probability (row : List Rat) (draw : List Rat → Nat)
    (hsound : ∀ r : List Rat, (∃ p ∈ r, 0 < p) → 0 < r.getD (draw r) 0) (hrow : ∃ p ∈ row, 0 < p) :
    0 < row.getD (draw row) 0 := hsound row hrow

/-- the keys of the next-state dict are the state names, in declaration order (the `next_` prefix is stripped) -/
theorem C03_rekey_names (m : Model) (nxt : List (List (Name × Rat))) (a : List (Name × Rat)) (ha : a ∈ rekey m nxt) :
    a.map (·.1) = m.states.map (·.1) := by
  simp only [rekey, List.mem_map] at ha
  obtain ⟨b, _, rfl⟩ := ha
  simp

end Lcm
