"""C10 - equivalent model specifications yield equal solutions.

Metamorphic pairs generated from one base specification, all solved by the implementation:
  perm     - declaration order of states, choices and functions permuted
  rename   - variables renamed consistently (next_<x>, argument lists, shock keys follow), alphabetical order changed
  true_con - an always-true constraint added;   true_fil - an always-true filter over discrete variables added
  fil2con  - a restriction over discrete variables written as a constraint instead of a filter
Relation: the value of every state that remains in the space is unchanged; entries are matched through
the layout contract of each specification (Lean op `layout`). The base itself is compared with the model.
"""
from __future__ import annotations

import copy
import itertools
import random
from fractions import Fraction as Fr

from common import close_floats, fr, impl, impl_site
from dsl import N, V, grid_points, params_impl
from gen import nontrivial, signature
from pipeline import ImplFns, compare_value_arrays, explicit_case, materialise_case, model_layout, model_solve
from props.simcommon import base_out

CANARY = True
RULE = ("cases = generated dyadic base specifications x {permuted declarations, consistent renaming, always-true constraint, "
        "always-true filter, filter written as constraint}; distinct = structural signature x rewriting kind; evaluations = states whose "
        "values were matched between the two specifications")
ASSUMPTIONS = ["exact comparison on dyadic inputs", "states that do not remain in the space of both specifications are not compared"]
KINDS = ["perm", "rename", "true_con", "true_fil", "fil2con"]
FORCES = [["filter"], None, ["mixed"], ["stoch"], ["f1"], ["filter", "constraint"], ["aux"], ["nofilter"]]


def cases(seed, tier):
    n = 40 if tier == "quick" else 600
    return [{"kind": "gen", "seed": seed * 1_000_003 + 10001 + i, "force": (FORCES[i % len(FORCES)] if KINDS[i % 5] != "fil2con" else ["filter"]),
             "n_params": 1, "budget": 2500, "rewrite": KINDS[i % 5]} for i in range(n)]


def rename_expr(e, mp):
    if e[0] == "var":
        return ["var", mp.get(e[1], e[1])]
    if e[0] == "num":
        return e
    return [e[0]] + [rename_expr(x, mp) for x in e[1:]]


def rewrite(r, mj, P, kind):
    """-> (mj2, P2, name map new->old) or None if not applicable"""
    m2 = copy.deepcopy(mj)
    P2 = copy.deepcopy(P)
    back = {}
    if kind == "perm":
        r.shuffle(m2["states"])
        r.shuffle(m2["choices"])
        r.shuffle(m2["functions"])
    elif kind == "rename":
        names = [k for k, _ in mj["states"] + mj["choices"]]
        # one of the new names has `next_` in the middle (e.g. "periods_to_next_job"): only the *prefix* `next_` has a meaning
        new = [f"{'zyxwvutsrq'[i % 10]}{i}_{'next_' if i == 0 else ''}{n[::-1]}" for i, n in enumerate(names)]
        r.shuffle(new)
        mp = dict(zip(names, new))
        back = {v: k for k, v in mp.items()}
        m2["states"] = [[mp[k], g] for k, g in mj["states"]]
        m2["choices"] = [[mp[k], g] for k, g in mj["choices"]]
        fmap = {}
        for f in m2["functions"]:
            old = f["name"]
            if old.startswith("next_") and old[5:] in mp:
                f["name"] = "next_" + mp[old[5:]]
            fmap[old] = f["name"]
            f["args"] = [mp.get(a, a) for a in f["args"]]
            f["body"] = rename_expr(f["body"], mp)
        P2["funcs"] = {fmap[f]: ps for f, ps in P["funcs"].items()}
        P2["shocks"] = {mp[x]: t for x, t in P["shocks"].items()}
    elif kind == "true_con":
        vs = [k for k, _ in mj["states"] + mj["choices"]]
        a = r.choice(vs)
        b = r.choice(vs)
        m2["functions"].insert(r.randrange(len(m2["functions"]) + 1), {"name": "always_constraint", "args": sorted({a, b}), "body": ["or", ["le", V(a), V(b)], ["le", V(b), V(a)]], "stochastic": False, "ints": True})
        P2["funcs"]["always_constraint"] = {}
    elif kind == "true_fil":
        ds = [k for k, g in mj["states"] if g["k"] == "disc"]
        dc = [k for k, g in mj["choices"] if g["k"] == "disc"]
        if not ds:
            return None
        args = [r.choice(ds)] + ([r.choice(dc)] if dc and r.random() < 0.6 else [])
        body = ["le", N(0), V(args[0])]
        for a in args[1:]:
            body = ["and", body, ["le", N(0), V(a)]]
        m2["functions"].insert(r.randrange(len(m2["functions"]) + 1), {"name": "always_filter", "args": args, "body": body, "stochastic": False, "ints": True})
        P2["funcs"]["always_filter"] = {}
    elif kind == "fil2con":
        fl = [f for f in m2["functions"] if f["name"].endswith("_filter")]
        if not fl:
            return None
        for f in fl:
            new = f["name"][: -len("_filter")] + "_constraint"
            P2["funcs"][new] = P2["funcs"].pop(f["name"], {})
            f["name"] = new
    return m2, P2, back


def values_by_state(mj, V, back=None):
    """{period: {frozenset((state, value)): array entry}} through the layout contract"""
    lay = model_layout(mj)
    G = dict(mj["states"])
    out = []
    for t, L in enumerate(lay):
        d = {}
        if list(V[t].shape) != L["shape"]:
            return None, f"period {t}: shape {list(V[t].shape)} vs layout {L['shape']}"
        for idx in itertools.product(*[range(k) for k in L["shape"]]):
            st = {}
            j = 0
            if L["sparse_states"]:
                st.update({s: Fr(x) for s, x in zip(L["sparse_states"], L["feas"][idx[0]])})
                j = 1
            for s in L["dense_states"]:
                st[s] = Fr(idx[j])
                j += 1
            for s in L["cont_states"]:
                st[s] = grid_points(G[s])[idx[j]]
                j += 1
            key = frozenset(((back or {}).get(s, s), v) for s, v in st.items())
            d[key] = float(V[t][idx]) if idx else float(V[t][()])
        out.append(d)
    return out, None


def run_case(case):
    I = impl()
    np = I.np
    mj, meta, Ps, r = materialise_case(case)
    P = Ps[0]
    kind = case.get("rewrite", "perm")
    info = {"mj": mj, "meta": meta}
    out = base_out(info, case)
    out["sig"] += "|" + kind
    out["hist"][f"rewrite={kind}"] = 1
    rw = rewrite(r, mj, P, kind)
    if rw is None:
        out["skipped"] = f"rewriting {kind} not applicable"
        return out
    m2, P2, back = rw
    rc = explicit_case(mj, [P], rewrite=kind, seed=case.get("seed", 0), meta=meta)
    vs = []
    evals = 0
    try:
        V1 = [np.asarray(v) for v in ImplFns(mj).solve(params_impl(P))]
        V2 = [np.asarray(v) for v in ImplFns(m2).solve(params_impl(P2))]
    except Exception as e:  # noqa: BLE001
        out["violations"].append({"clause": "both specifications are solved", "detail": f"{kind}: {impl_site(e)}: {str(e)[:300]}", "key": f"raise:{impl_site(e)}", "shrink_case": rc})
        return out
    Vm = model_solve(mj, P)
    diffs, st = compare_value_arrays(V1, Vm, mj["n_periods"])
    for d in diffs[:1]:
        vs.append({"clause": "base specification equals the model", "detail": d["detail"]})
    d1, e1 = values_by_state(mj, V1)
    d2, e2 = values_by_state(m2, V2, back)
    if e1 or e2:
        vs.append({"clause": "rewriting only reorders axes as described by the layout contract", "detail": f"{kind}: {e1 or e2}"})
    else:
        later_ok = True
        for t in reversed(range(mj["n_periods"])):
            if not later_ok or Vm["undef"][t]:
                break
            for key, x in d1[t].items():
                if key in d2[t]:
                    evals += 1
                    y = d2[t][key]
                    if not (x == y or (x != x and y != y) or close_floats([x], [y])):
                        vs.append({"clause": "the value of every state that remains in the space is unchanged", "detail": f"{kind}: period {t} state {sorted((s, str(v)) for s, v in key)}: base {fr(x)}, rewritten {fr(y)}"})
                        break
            if vs:
                break
            if any(y == "-inf" for y in Vm["V"][t]["data"]):
                later_ok = False
    out["evals"] = evals
    for v in vs[:3]:
        v["key"] = "C10:" + v["clause"]
        v["shrink_case"] = rc
        out["violations"].append(v)
    out["sample"] = {"rewrite": kind, "base_states": [s for s, _ in mj["states"]], "rewritten_states": [s for s, _ in m2["states"]],
                     "rewritten_functions": [f["name"] for f in m2["functions"]], "states_matched": evals}
    return out
