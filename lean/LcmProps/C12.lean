import LcmModel.Validate
import LcmModel.GridsPy
import Mathlib.Tactic.Tauto
namespace Lcm

/-! # C12 — specifications are rejected up front or run to completion (partial)

Model: `validateModel` (`LcmModel/Validate.lean`): `Model.__post_init__` (type validation, then logical
validation; any failure -> `ModelInitilizationError`) followed by the checks made while the functions are
created (`ValueError`). Decision logic stated outright. The converse half of the property ("every accepted
specification can be solved and simulated") is **false of the current code**: the accepted-but-failing shapes
K1-K7 are listed in `known_findings.json` and replayed by the check; for the *supported* class the executable
model is total (`solve` / `simulate` are total functions) and the correspondence shows the implementation runs. -/

/-- accepted exactly when no listed rule is violated -/
theorem C12_accept_iff (r : RawModel) :
    validateModel r = .accepted ↔
      (r.typesOk = true ∧ r.logicOk = true ∧ stochasticOnContinuous r.toModel = false ∧
        stochasticDependsOnInvalid r.toModel = false ∧ filterWithParams r.toModel = false) := by
  unfold validateModel
  cases h1 : r.typesOk <;> cases h2 : r.logicOk <;>
    cases h3 : stochasticOnContinuous r.toModel <;> cases h4 : stochasticDependsOnInvalid r.toModel <;>
    cases h5 : filterWithParams r.toModel <;> simp_all

/-- rejected by `Model(...)` with the initialization error exactly when a type rule or a logical rule fails -/
theorem C12_model_init_error_iff (r : RawModel) :
    validateModel r = .modelInitError ↔ (r.typesOk = false ∨ r.logicOk = false) := by
  unfold validateModel
  cases h1 : r.typesOk <;> cases h2 : r.logicOk <;>
    cases h3 : stochasticOnContinuous r.toModel <;> cases h4 : stochasticDependsOnInvalid r.toModel <;>
    cases h5 : filterWithParams r.toModel <;> simp_all

/-- rejected with a ValueError while the functions are created exactly when `Model(...)` accepts and a
stochastic transition sits on / depends on a non-discrete variable, or a filter has parameters -/
theorem C12_value_error_iff (r : RawModel) :
    validateModel r = .valueError ↔
      (r.typesOk = true ∧ r.logicOk = true ∧
        (stochasticOnContinuous r.toModel = true ∨ stochasticDependsOnInvalid r.toModel = true ∨
          filterWithParams r.toModel = true)) := by
  unfold validateModel
  cases h1 : r.typesOk <;> cases h2 : r.logicOk <;>
    cases h3 : stochasticOnContinuous r.toModel <;> cases h4 : stochasticDependsOnInvalid r.toModel <;>
    cases h5 : filterWithParams r.toModel <;> simp_all

/-- the logical rules, spelled out -/
theorem C12_logic_rules (r : RawModel) :
    r.logicOk = true ↔
      (1 ≤ r.nPeriods ∧ (∃ f ∈ r.functions, f.func.name = "utility") ∧
        (∀ s ∈ r.states, ∃ f ∈ r.functions, f.func.name = "next_" ++ s.name) ∧
        (∀ s ∈ r.states, ∀ c ∈ r.choices, c.name ≠ s.name)) := by
  simp [RawModel.logicOk, List.any_eq_true, List.all_eq_true, and_assoc]

/-- the type rules, spelled out -/
theorem C12_type_rules (r : RawModel) :
    r.typesOk = true ↔
      ((∀ v ∈ r.choices ++ r.states, v.keyIsStr = true ∧ v.isGrid = true) ∧
        (∀ f ∈ r.functions, f.keyIsStr = true ∧ f.isCallable = true)) := by
  simp only [RawModel.typesOk, List.all_eq_true, Bool.and_eq_true, List.mem_append]

/-- every outcome is one of the three: rejection is never "later", never silent, never another kind -/
theorem C12_outcome_exhaustive (r : RawModel) :
    validateModel r = .accepted ∨ validateModel r = .modelInitError ∨ validateModel r = .valueError := by
  cases validateModel r <;> simp

/-- an invalid grid never reaches the model: the grid constructor decides first (see C16) -/
theorem C12_invalid_grid_rejected_by_constructor (start stop n : PyVal)
    (h : validateContinuous start stop n true = false) : validateLogspace start stop n true = false := by
  simp [validateLogspace, h]

-- non-vacuity: a one-state model without its transition function is rejected; with it, accepted
def exUtility : RawFunc := { func := { name := "utility", args := ["s"], body := Expr.var "s" } }
def exNextS : RawFunc := { func := { name := "next_s", args := ["s"], body := Expr.var "s" } }
def exNextSStoch : RawFunc := { func := { name := "next_s", args := ["w"], body := Expr.num 0, stochastic := true } }
def exNextW : RawFunc := { func := { name := "next_w", args := ["w"], body := Expr.var "w" } }
def exS : RawVar := { name := "s", grid := Grid.disc 2 }
def exW : RawVar := { name := "w", grid := Grid.lin 0 1 2 }
#guard validateModel { nPeriods := 1, functions := [exUtility], choices := [], states := [exS] } = .modelInitError
#guard validateModel { nPeriods := 1, functions := [exUtility, exNextS], choices := [], states := [exS] } = .accepted
#guard validateModel { nPeriods := 0, functions := [exUtility, exNextS], choices := [], states := [exS] } = .modelInitError
#guard validateModel { nPeriods := 1, functions := [exUtility, exNextSStoch, exNextW], choices := [], states := [exS, exW] } = .valueError

end Lcm
