#!/venv/bin/python
"""Development helper: run every stored seeded change against the check of the property it was written for.

    seed_regress.py [--jobs 4] [--only C01,C05-2]

Each change is applied in its own scratch worktree of /repo (outside /repo and /verif, removed afterwards); the check runs
with LCM_REPO pointing there and `--no-lean` (the Lean side does not depend on /repo). Expected: exit 1 for every change.
Nothing is ever applied to /repo itself.
"""
from __future__ import annotations

import argparse
import json
import os
import subprocess
import tempfile
from concurrent.futures import ThreadPoolExecutor
from pathlib import Path

VERIF = Path(__file__).resolve().parent.parent


def one(d: Path, workers: int):
    meta = json.loads((d / "meta.json").read_text())
    prop = meta["property"]
    wt = Path(tempfile.mkdtemp(prefix=f"regr_{d.name}_", dir="/tmp"))
    wt.rmdir()
    try:
        r = subprocess.run(f"git -C /repo worktree add -q {wt} HEAD && git -C {wt} apply {d / 'patch.diff'}", shell=True, capture_output=True, text=True)
        if r.returncode != 0:
            return d.name, prop, "patch does not apply: " + r.stderr[-200:]
        env = dict(os.environ, LCM_REPO=str(wt), VERIF_WORKERS=str(workers), VERIF_SEED=os.environ.get("VERIF_SEED", "0"))
        r = subprocess.run(f"/venv/bin/python harness/check.py {prop} --tier quick --no-lean", shell=True, cwd=VERIF, env=env, capture_output=True, text=True, timeout=7200)
        return d.name, prop, r.returncode
    finally:
        subprocess.run(f"git -C /repo worktree remove --force {wt}; git -C /repo worktree prune", shell=True, capture_output=True)


def main():
    ap = argparse.ArgumentParser()
    ap.add_argument("--jobs", type=int, default=4)
    ap.add_argument("--only", default="")
    a = ap.parse_args()
    dirs = sorted(p for p in (VERIF / "seeded").iterdir() if (p / "patch.diff").exists())
    # a stored change whose precondition was removed by a later repair of /repo is kept for the record, not re-run
    dirs = [d for d in dirs if not ((d / "meta.json").exists() and json.loads((d / "meta.json").read_text()).get("retired"))]
    if a.only:
        dirs = [d for d in dirs if d.name in a.only.split(",")]
    with ThreadPoolExecutor(a.jobs) as ex:
        res = list(ex.map(lambda d: one(d, max(2, 16 // a.jobs)), dirs))
    missed = [x for x in res if x[2] != 1]
    for name, prop, rc in res:
        print(f"{name:8s} {prop} rc={rc}")
    print(f"{len(res) - len(missed)}/{len(res)} reported by their own property's check; not reported: {[m[0] for m in missed]}")


if __name__ == "__main__":
    main()
