"""Lean side of every check: build the project, audit the property's theorems.

* `build()`  : `lake build` (no-op when fresh; `.lake/` is not committed, so every command rebuilds).
* `audit(p)` : the obligations of property p are the theorems named `<p>_*` in `lean/LcmProps/<p>.lean`.
               For each, `#print axioms` must succeed and list only the three standard axioms; the
               sources are grepped (comments stripped) for forbidden tokens.
"""
from __future__ import annotations

import fcntl
import hashlib
import json
import re
import subprocess
from pathlib import Path

from common import LEAN, HarnessError

ALLOWED_AXIOMS = {"propext", "Classical.choice", "Quot.sound"}
FORBIDDEN = re.compile(r"\b(sorry|admit|native_decide|bv_decide|implemented_by|unsafe)\b|^\s*axiom\s|maxHeartbeats\s+0\b", re.M)


def _strip_comments(s: str) -> str:
    s = re.sub(r"/-.*?-/", "", s, flags=re.S)
    return re.sub(r"--.*", "", s)


def build():
    lock = LEAN / ".build.lock"
    with open(lock, "w") as lf:
        fcntl.flock(lf, fcntl.LOCK_EX)
        p = subprocess.run(["lake", "build"], cwd=LEAN, capture_output=True, text=True)
        if p.returncode != 0:
            tail = (p.stdout + p.stderr)[-3000:]
            raise HarnessError(f"lake build failed:\n{tail}")


def _sources_hash() -> str:
    h = hashlib.sha256()
    for d in ("LcmModel", "LcmProofs", "LcmProps"):
        for f in sorted((LEAN / d).glob("*.lean")):
            h.update(f.name.encode())
            h.update(f.read_bytes())
    return h.hexdigest()[:16]


def obligations(prop: str) -> list[str]:
    f = LEAN / "LcmProps" / f"{prop}.lean"
    if not f.exists():
        return []
    src = _strip_comments(f.read_text())
    return [f"Lcm.{m}" for m in re.findall(rf"^theorem\s+({prop}_\w+)", src, flags=re.M)]


def grep_forbidden() -> list[str]:
    hits = []
    for d in ("LcmModel", "LcmProofs", "LcmProps"):
        for f in sorted((LEAN / d).glob("*.lean")):
            for m in FORBIDDEN.finditer(_strip_comments(f.read_text())):
                hits.append(f"{d}/{f.name}: {m.group(0).strip()}")
    for f in (LEAN / "Main.lean",):
        for m in FORBIDDEN.finditer(_strip_comments(f.read_text())):
            hits.append(f"{f.name}: {m.group(0).strip()}")
    return hits


def audit(prop: str, thorough: bool = False) -> dict:
    obs = obligations(prop)
    checker_cmd = f"cd lean && lake build && lake env lean .lake/audit/{prop}.lean   # '#print axioms' of every theorem {prop}_* in LcmProps/{prop}.lean"
    if not obs:
        raise HarnessError(f"no obligations found for {prop} (lean/LcmProps/{prop}.lean)")
    cache_dir = LEAN / ".lake" / "audit"
    cache_dir.mkdir(parents=True, exist_ok=True)
    key = _sources_hash()
    cache = cache_dir / f"{prop}.{key}.json"
    if cache.exists() and not thorough:
        return json.loads(cache.read_text())
    forb = grep_forbidden()
    src = f"import LcmProps.{prop}\n" + "".join(f"#print axioms {n}\n" for n in obs)
    af = cache_dir / f"{prop}.lean"
    af.write_text(src)
    p = subprocess.run(["lake", "env", "lean", str(af)], cwd=LEAN, capture_output=True, text=True)
    out = p.stdout + p.stderr
    discharged, failed = [], []
    for n in obs:
        m = re.search(rf"'{re.escape(n)}' depends on axioms: \[([^\]]*)\]", out)
        if m:
            ax = {a.strip() for a in m.group(1).replace("\n", " ").split(",") if a.strip()}
            if ax <= ALLOWED_AXIOMS:
                discharged.append(n)
            else:
                failed.append(f"{n}: axioms {sorted(ax - ALLOWED_AXIOMS)}")
        elif re.search(rf"'{re.escape(n)}' does not depend on any axioms", out):
            discharged.append(n)
        else:
            failed.append(f"{n}: not found in the built environment")
    if forb:
        failed.append(f"forbidden tokens: {forb}")
        discharged = []
    res = {"obligations": obs, "discharged": discharged, "failed": failed, "checker_cmd": checker_cmd}
    if thorough:
        q = subprocess.run(["lake", "env", "leanchecker", f"LcmProps.{prop}"], cwd=LEAN, capture_output=True, text=True)
        res["leanchecker_rc"] = q.returncode
        res["checker_cmd"] += f" && lake env leanchecker LcmProps.{prop}"
        if q.returncode != 0:
            res["failed"].append(f"leanchecker LcmProps.{prop}: rc={q.returncode} {(q.stdout + q.stderr)[-500:]}")
    else:
        for old in cache_dir.glob(f"{prop}.*.json"):
            old.unlink()
        cache.write_text(json.dumps(res))
    return res
