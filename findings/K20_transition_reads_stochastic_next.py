"""Finding 1: a transition that depends on the next value of a stochastic state.

Input (legal, accepted without any message): a two-period consumption-saving model with
a stochastic discrete state `h` (Markov chain) and a continuous state `w` whose
transition reads the realised next value of `h`:

    next_w(w, c, next_h) = w - c + 1 + 2 * next_h

Nothing in the documentation forbids this (only stochastic transitions *of* or
*depending on* continuous variables are forbidden); a deterministic transition reading
another deterministic `next_...` works fine.

Expected: either the specification is rejected when the model / the functions are
created (ModelInitilizationError or ValueError), or the period-0 value function is

    V0(h, w) = max_c  u(c, h) + beta * sum_j P[h, j] * V1(j, w - c + 1 + 2 j).

Observed: the specification is accepted, solve runs without a message, and V0 is wrong
(the library evaluates V1 on the *cross product* of next_h nodes and next_w values, i.e.
it computes sum_i sum_j P[h, j] * V1(i, w - c + 1 + 2 j), summing over the
next_h nodes i without weights).

Variant with a discrete dependent state (next_g(next_h)): accepted, then solve crashes
deep inside with "ValueError: coordinates must be a sequence of length input.ndim".

Further variants of the same cause (accepted, then an internal error during solve): a
constraint `nb_constraint(next_s)` or a utility that reads a stochastic `next_s` ->
"ValueError: Incompatible shapes for broadcasting: shapes=[(8, 2), (8,), ()]".

Cause: lcm/input_processing/process_model.py:_get_stochastic_next_function (l. 170-175)
replaces a stochastic next_h by a function returning the WHOLE grid. In
lcm/model_functions.py:get_utility_and_feasibility_function (l. 109-134) every DAG node
downstream of next_h becomes a vector over the nodes of h; productmap(
scalar_value_function, variables=["next_h"]) (l. 122) maps only over next_h, next_w is
passed through unmapped, ccvs_at_nodes has shape (n_h, n_h) and
(ccvs_at_nodes * node_weights).sum() (l. 134) sums the cross product.

Minimal repair: in process_model, next to the check "stochastic variables can only depend
on discrete variables", raise ValueError if any model function has (directly or through the
DAG) an argument next_<v> of a stochastic <v>. A real fix evaluates the deterministic
transitions inside the productmap over the stochastic nodes.

Exits 1 while the defect is present.
"""

# ---- shim ---------------------------------------------------------------------------
import sys, types, os

WT = os.environ.get("LCM_WT", "/tmp/hunt_C12")
sys.path.insert(0, os.path.join(WT, "src"))
import jax, jax._src.util as _u

m = types.ModuleType("jax.util")
m.safe_zip = _u.safe_zip
m.unzip2 = _u.unzip2
sys.modules["jax.util"] = m
jax.util = m
jax.config.update("jax_enable_x64", True)
import lcm

assert lcm.__file__.startswith(WT), lcm.__file__
# -------------------------------------------------------------------------------------

from dataclasses import dataclass

import jax.numpy as jnp
import numpy as np

from lcm import DiscreteGrid, LinspaceGrid, Model
from lcm.entry_point import get_lcm_function
from lcm.exceptions import ModelInitilizationError


@dataclass
class Health:
    bad: int = 0
    good: int = 1


def utility(c, w, h):
    return jnp.log(c) + 0 * w + 0.5 * h


def cc_constraint(c, w):
    return c <= w


@lcm.mark.stochastic
def next_h(h):
    pass


def next_w(w, c, next_h):
    return w - c + 1.0 + 2.0 * next_h


CG = LinspaceGrid(start=1, stop=10, n_points=10)
SG = LinspaceGrid(start=1, stop=10, n_points=10)
P = np.array([[0.7, 0.3], [0.2, 0.8]])
BETA = 0.9

defect = False

# =====================================================================================
# Part A: continuous dependent state -> silently wrong value function
# =====================================================================================
try:
    model = Model(
        n_periods=2,
        functions={
            "utility": utility,
            "next_w": next_w,
            "next_h": next_h,
            "cc_constraint": cc_constraint,
        },
        choices={"c": CG},
        states={"w": SG, "h": DiscreteGrid(Health)},
    )
    solve, template = get_lcm_function(model, targets="solve", debug_mode=False)
except (ModelInitilizationError, ValueError) as e:
    print("Part A: specification rejected up front (fine):", type(e).__name__, e)
else:
    print("Part A: specification ACCEPTED; params template:", template)
    params = {
        "beta": BETA,
        "utility": {},
        "next_w": {},
        "next_h": {},
        "cc_constraint": {},
        "shocks": {"h": jnp.array(P)},
    }
    V = [np.array(v) for v in solve(params)]

    wg = np.array(SG.to_jax())
    cg = np.array(CG.to_jax())
    V1 = np.array(
        [[max(np.log(c) + 0.5 * h for c in cg if c <= w) for w in wg] for h in (0, 1)]
    )
    assert np.allclose(V1, V[1]), "last period differs (unexpected)"

    def interp(h, x):
        step = wg[1] - wg[0]
        co = (x - wg[0]) / step
        lo = int(np.clip(np.floor(co), 0, len(wg) - 2))
        wt = co - lo
        return (1 - wt) * V1[h, lo] + wt * V1[h, lo + 1]

    def v0(pairing):
        out = np.zeros((2, len(wg)))
        for h in (0, 1):
            for i, w in enumerate(wg):
                best = -np.inf
                for c in cg:
                    if c <= w:
                        if pairing == "correct":
                            ev = sum(
                                P[h, j] * interp(j, w - c + 1 + 2.0 * j) for j in (0, 1)
                            )
                        else:  # cross product of nodes and next_w values
                            ev = sum(
                                P[h, j] * interp(i_, w - c + 1 + 2.0 * j)
                                for i_ in (0, 1)
                                for j in (0, 1)
                            )
                        best = max(best, np.log(c) + 0.5 * h + BETA * ev)
                out[h, i] = best
        return out

    expected = v0("correct")
    cross = v0("cross")
    diff = np.abs(expected - V[0]).max()
    print("expected V0[h=0, :4]:", expected[0, :4])
    print("library  V0[h=0, :4]:", V[0][0, :4])
    print("max |expected - library| =", diff)
    print(
        "library equals the cross-product formula sum_i sum_j P[h,j] V1(i, w'(j)):",
        bool(np.allclose(cross, V[0])),
    )
    if diff > 1e-8:
        print("DEFECT A: accepted specification is solved with a wrong value function.")
        defect = True

# =====================================================================================
# Part B: discrete dependent state -> internal error while solving
# =====================================================================================


def utility_b(c, w, h, g):
    return jnp.log(c) + 0 * w + 0.5 * h + 0.1 * g


def next_g(next_h, g):
    return next_h + 0 * g


try:
    model_b = Model(
        n_periods=2,
        functions={
            "utility": utility_b,
            "next_w": lambda w, c: w - c + 1.0,
            "next_h": next_h,
            "next_g": next_g,
            "cc_constraint": cc_constraint,
        },
        choices={"c": CG},
        states={"w": SG, "h": DiscreteGrid(Health), "g": DiscreteGrid(Health)},
    )
    solve_b, template_b = get_lcm_function(model_b, targets="solve", debug_mode=False)
except (ModelInitilizationError, ValueError) as e:
    print("Part B: specification rejected up front (fine):", type(e).__name__, e)
else:
    print("Part B: specification ACCEPTED")
    params_b = {
        "beta": BETA,
        "utility": {},
        "next_w": {},
        "next_h": {},
        "next_g": {},
        "cc_constraint": {},
        "shocks": {"h": jnp.array(P)},
    }
    try:
        solve_b(params_b)
        print("Part B: solve ran")
    except Exception as e:  # noqa: BLE001
        print(f"DEFECT B: solve crashed with {type(e).__name__}: {str(e)[:200]}")
        defect = True

sys.exit(1 if defect else 0)
