import LcmModel.Spec
import LcmProofs.ChoicePartition
import LcmProofs.AssignPerm
import LcmProofs.OnGrid
import LcmProofs.SimPeriod
namespace Lcm

/-! Refinement to the specification level (DESIGN §3.3): the value `simulate` reports for an agent - the result
of the arg-max chain over (filter-restricted choices) x (unrestricted discrete choices) x (continuous choices),
each group in canonical order - is the maximum found by *plain enumeration of all declared choices in
declaration order* (`specAgent`, `specV`): no groups, no axes, no segments. -/

theorem IsMaxOver.transfer {X Y : Type} {P : X → Prop} {Q : Y → Prop} {f : X → Rat} {g : Y → Rat} {v : Ext}
    (h : IsMaxOver P f v)
    (fwd : ∀ x, P x → ∃ y, Q y ∧ g y = f x) (bwd : ∀ y, Q y → ∃ x, P x ∧ f x = g y) : IsMaxOver Q g v := by
  obtain ⟨hub, hatt⟩ := h
  constructor
  · intro y hy
    obtain ⟨x, hx, hfx⟩ := bwd y hy
    rw [← hfx]; exact hub x hx
  · rcases hatt with ⟨x, hx, hv⟩ | ⟨hnone, hv⟩
    · obtain ⟨y, hy, hgy⟩ := fwd x hx
      exact Or.inl ⟨y, hy, by rw [hv, hgy]⟩
    · refine Or.inr ⟨fun y hy => ?_, hv⟩
      obtain ⟨x, hx, _⟩ := bwd y hy
      exact hnone x hx

/-- the maximum of the defined entries of a list is *the* maximum over the defined entries -/
theorem foldMax_isMaxOver {X : Type} (L : List X) (q : X → Option Rat) :
    IsMaxOver (fun x => x ∈ L ∧ (q x).isSome = true) (fun x => (q x).getD 0)
      (foldMax ((L.filterMap q).map Ext.fin)) := by
  constructor
  · intro x hx
    apply le_foldMax
    rw [List.mem_map]
    refine ⟨(q x).getD 0, ?_, rfl⟩
    rw [List.mem_filterMap]
    refine ⟨x, hx.1, ?_⟩
    cases h : q x with
    | none => rw [h] at hx; simp at hx
    | some r => rfl
  · by_cases hnil : (L.filterMap q).map Ext.fin = []
    · right
      refine ⟨?_, by rw [hnil]; rfl⟩
      intro x hx
      have hmem : (q x).getD 0 ∈ L.filterMap q := by
        rw [List.mem_filterMap]
        refine ⟨x, hx.1, ?_⟩
        cases h : q x with
        | none => rw [h] at hx; simp at hx
        | some r => rfl
      have : L.filterMap q = [] := by simpa using hnil
      rw [this] at hmem; simp at hmem
    · left
      have hm := foldMax_mem _ hnil
      rw [List.mem_map] at hm
      obtain ⟨r, hr, hfr⟩ := hm
      rw [List.mem_filterMap] at hr
      obtain ⟨x, hxL, hqx⟩ := hr
      exact ⟨x, ⟨hxL, by rw [hqx]; rfl⟩, by rw [← hfr]; show Ext.fin r = Ext.fin ((q x).getD 0); rw [hqx]; rfl⟩

/-- the admissible objective selected by the specification from `specQ` -/
def selAdm (o : Option (Rat × Bool)) : Option Rat := match o with | some (q, true) => some q | _ => none

/-- `specQ` in terms of its two ingredients -/
def combineQ (F : Option Bool) (O : Option (Rat × Bool)) : Option (Rat × Bool) :=
  F.bind fun filt => match O with
    | some (q, f) => some (q, filt && f)
    | none => if filt then none else some (0, false)

theorem selAdm_combineQ (F : Option Bool) (O : Option (Rat × Bool)) :
    ((selAdm (combineQ F O)).isSome = true ↔ (F.getD false = true ∧ feasibleOf O = true)) ∧
    ((selAdm (combineQ F O)).isSome = true → (selAdm (combineQ F O)).getD 0 = valueOf O) := by
  rcases F with _ | _ | _ <;> rcases O with _ | ⟨q, _ | _⟩ <;>
    simp [selAdm, combineQ, feasibleOf, valueOf]

theorem specQ_eq_combine (m : Model) (P : Params) (g : Groups) (t : Nat)
    (next : Option (Tensor Ext × List (List (Name × Rat)))) (st ch : List (Name × Rat)) :
    specQ m P g t next st ch
      = combineQ (allTrue m P (toEnv (st ++ ch) ++ periodEnv t) (filterNames m)) (uAndF m P g t next (toEnv (st ++ ch))) := by
  rfl

/-- the unrestricted choices are not read by any filter -/
theorem dense_choices_not_read_by_filters (m : Model) (x : Name)
    (hx : x ∈ (groups m).dC.map (·.1) ∨ x ∈ (groups m).cC.map (·.1))
    (f : Name) (hf : f ∈ filterNamesOf m) : x ∉ ancestorsAux m m.fuel f := by
  intro hanc
  have hmem := mem_ancestors m (filterNamesOf m) f hf x hanc
  rcases hx with hx | hx
  · rw [groups_dC] at hx
    simp only [List.map_map, List.mem_map, Function.comp] at hx
    obtain ⟨v, hv, rfl⟩ := hx
    have hvd := List.mem_filter.mp hv
    have hdense : v.isDense = true := by
      have := hvd.2; simp only [Bool.and_eq_true] at this; exact this.1.1
    exact declaredInfo_dense_not_filtered m v hvd.1 hdense hmem
  · rw [groups_cC] at hx
    simp only [List.map_map, List.mem_map, Function.comp] at hx
    obtain ⟨v, hv, rfl⟩ := hx
    have hvd := List.mem_filter.mp hv
    have hdense : v.isDense = true := by
      have := hvd.2; simp only [Bool.and_eq_true] at this; exact this.1.1
    exact declaredInfo_dense_not_filtered m v hvd.1 hdense hmem

theorem allChoices_keys (m : Model) (ch : List (Name × Rat)) (hch : ch ∈ allChoices m) :
    ch.map (·.1) = m.choices.map (·.1) := by
  have := assignments_keys _ ch hch
  rw [this, List.map_map]; rfl

/-- for a declaration-order choice combination `ch` that is a rearrangement of the group-wise combination
`(c, e, y)`: the specification's `specQ` is built from the agent's filter value and the agent's objective -/
theorem spec_choice_agreement (m : Model) (P : Params) (t : Nat)
    (next : Option (Tensor Ext × List (List (Name × Rat)))) (st c e y ch : List (Name × Rat))
    (hst : (st.map (·.1) ++ m.choices.map (·.1)).Nodup)
    (hc : c ∈ assignments (groups m).sC) (he : e ∈ assignments (groups m).dC) (hy : y ∈ assignments (groups m).cC)
    (hch : ch ∈ allChoices m) (hperm : ch.Perm (c ++ e ++ y))
    (hfs : (groups m).sC.isEmpty = true → allTrue m P (toEnv st ++ periodEnv t) (filterNames m) = some true) :
    ∃ F : Option Bool, agentFilt m P (groups m) t st c = F.getD false ∧
      specQ m P (groups m) t next st ch = combineQ F (agentObj m P (groups m) t next st c e y) := by
  have hkeys : ((st ++ ch).map (·.1)).Nodup := by
    rw [List.map_append, allChoices_keys m ch hch]; exact hst
  have hp : (st ++ ch).Perm (st ++ c ++ e ++ y) := by
    simpa [List.append_assoc] using List.Perm.append_left st hperm
  have hE : EnvEq (toEnv (st ++ ch)) (toEnv (st ++ c ++ e ++ y)) := envEq_of_perm _ _ hp hkeys
  have hO : uAndF m P (groups m) t next (toEnv (st ++ ch)) = agentObj m P (groups m) t next st c e y :=
    uAndF_congr_env m P (groups m) t next _ _ hE
  have hFil : allTrue m P (toEnv (st ++ ch) ++ periodEnv t) (filterNames m)
      = allTrue m P (toEnv (st ++ c) ++ periodEnv t) (filterNames m) := by
    apply allTrue_frame
    intro f hf x hxa
    have h1 : (toEnv (st ++ ch) ++ periodEnv t).get? x = (toEnv (st ++ c ++ e ++ y) ++ periodEnv t).get? x :=
      (hE.append (EnvEq.refl _)) x
    rw [h1]
    have hnot : x ∉ (e ++ y).map (·.1) := by
      rw [List.map_append, assignments_keys _ e he, assignments_keys _ y hy]
      intro hmem
      rcases List.mem_append.mp hmem with h | h
      · exact dense_choices_not_read_by_filters m x (Or.inl h) f hf hxa
      · exact dense_choices_not_read_by_filters m x (Or.inr h) f hf hxa
    have := get?_skip_middle (st ++ c) (e ++ y) [] (periodEnv t) x hnot
    simpa [List.append_assoc] using this
  rw [specQ_eq_combine, hO, hFil]
  cases hsC : (groups m).sC.isEmpty with
  | true =>
    have hsC' : (groups m).sC = [] := List.isEmpty_iff.mp hsC
    have hc0 : c = [] := by rw [hsC'] at hc; simpa [assignments] using hc
    refine ⟨some true, ?_, ?_⟩
    · simp [agentFilt, hsC]
    · rw [hc0, List.append_nil, hfs hsC]
  | false =>
    refine ⟨allTrue m P (toEnv (st ++ c) ++ periodEnv t) (filterNames m), ?_, rfl⟩
    unfold agentFilt
    simp only [hsC, Bool.false_eq_true, if_false]
    rfl

/-- **R2 at the specification level**: the value `simulate` reports for agent `i` is the maximum, by plain
enumeration of all declared choices in declaration order, of the objective over the combinations that pass all
filters and constraints. Hypotheses: the agent's state names are pairwise distinct and distinct from the choice
names (`Model` enforces it), the model's names are pairwise distinct, and - only for models *without* a
filter-restricted choice, where `simulate` does not evaluate filters at all - the agent's state passes the
filters. -/
theorem specAgent_best_eq_value (m : Model) (P : Params) (t : Nat)
    (next : Option (Tensor Ext × List (List (Name × Rat)))) (states : List (List (Name × Rat)))
    (i : Nat) (hi : i < states.length)
    (hnd : ((m.states ++ m.choices).map (·.1)).Nodup)
    (hst : ((states.getD i []).map (·.1) ++ m.choices.map (·.1)).Nodup)
    (hfs : (groups m).sC.isEmpty = true →
      allTrue m P (toEnv (states.getD i []) ++ periodEnv t) (filterNames m) = some true)
    (chRep : List (Name × Rat)) :
    (specAgent m P (groups m) t next (states.getD i []) chRep).best
      = (agentDecision m P (groups m) t next states i).value := by
  have hR2 := (agentDecision_spec m P (groups m) t next states i hi).2.1
  have hbest : (specAgent m P (groups m) t next (states.getD i []) chRep).best
      = foldMax (((allChoices m).filterMap fun c => selAdm (specQ m P (groups m) t next (states.getD i []) c)).map Ext.fin) := by
    show foldMax (((((allChoices m).map fun c => specQ m P (groups m) t next (states.getD i []) c).filterMap _)).map Ext.fin) = _
    rw [List.filterMap_map]
    rfl
  rw [hbest]
  have hS := foldMax_isMaxOver (allChoices m) (fun c => selAdm (specQ m P (groups m) t next (states.getD i []) c))
  refine hS.unique (hR2.transfer ?_ ?_)
  · -- every group-wise combination has a declaration-order rearrangement
    rintro ⟨c, e, y⟩ ⟨⟨hc, hf⟩, he, hy, hfeas⟩
    simp only at hc hf he hy hfeas
    have hmem : c ++ e ++ y ∈ assignments ((groups m).sC ++ (groups m).dC ++ (groups m).cC) :=
      (mem_assignments_append _ _ _).mpr ⟨c ++ e, (mem_assignments_append _ _ _).mpr ⟨c, hc, e, he, rfl⟩, y, hy, rfl⟩
    obtain ⟨ch, hch, hperm⟩ := assignments_perm _ _ (choices_perm m hnd).symm _ hmem
    obtain ⟨F, hF1, hF2⟩ := spec_choice_agreement m P t next (states.getD i []) c e y ch hst hc he hy hch hperm hfs
    have hsel := selAdm_combineQ F (agentObj m P (groups m) t next (states.getD i []) c e y)
    have hsome : (selAdm (specQ m P (groups m) t next (states.getD i []) ch)).isSome = true := by
      rw [hF2]; exact hsel.1.mpr ⟨by rw [← hF1]; exact hf, hfeas⟩
    refine ⟨ch, ⟨hch, hsome⟩, ?_⟩
    show (selAdm (specQ m P (groups m) t next (states.getD i []) ch)).getD 0 = _
    rw [hF2] at hsome ⊢
    exact hsel.2 hsome
  · -- every declaration-order combination is a rearrangement of a group-wise one
    rintro ch ⟨hch, hsome⟩
    obtain ⟨a, ha, hperm⟩ := assignments_perm _ _ (choices_perm m hnd) _ hch
    obtain ⟨ce, hce, y, hy, rfl⟩ := (mem_assignments_append _ _ _).mp ha
    obtain ⟨c, hc, e, he, rfl⟩ := (mem_assignments_append _ _ _).mp hce
    obtain ⟨F, hF1, hF2⟩ := spec_choice_agreement m P t next (states.getD i []) c e y ch hst hc he hy hch hperm.symm hfs
    have hsel := selAdm_combineQ F (agentObj m P (groups m) t next (states.getD i []) c e y)
    rw [hF2] at hsome
    obtain ⟨hf, hfeas⟩ := hsel.1.mp hsome
    refine ⟨(c, e, y), ⟨⟨hc, by rw [hF1]; exact hf⟩, he, hy, hfeas⟩, ?_⟩
    show _ = (selAdm (specQ m P (groups m) t next (states.getD i []) ch)).getD 0
    rw [hF2]
    exact (hsel.2 hsome).symm

#print axioms specAgent_best_eq_value

/-- the six groups of `groups m` partition the declared variables (names) -/
theorem allNames_perm (m : Model) : (allNames (groups m)).Perm ((m.states ++ m.choices).map (·.1)) := by
  rw [List.map_append]
  refine List.Perm.trans ?_ ((state_names_perm m).append (choice_names_perm m))
  unfold allNames
  rw [List.perm_iff_count]
  intro x
  simp only [List.count_append]
  omega

theorem allNames_nodup (m : Model) (hnd : ((m.states ++ m.choices).map (·.1)).Nodup) : (allNames (groups m)).Nodup :=
  (allNames_perm m).nodup_iff.mpr hnd

/-- names of a grid state in canonical order followed by the choice names: pairwise distinct -/
theorem gridState_choice_names_nodup (m : Model) (hnd : ((m.states ++ m.choices).map (·.1)).Nodup) :
    (((groups m).sS.map (·.1) ++ (groups m).dS.map (·.1) ++ (cStateGrids (groups m)).map (·.1)) ++ m.choices.map (·.1)).Nodup := by
  rw [List.map_append] at hnd
  exact (((state_names_perm m).append (List.Perm.refl _)).nodup_iff).mpr hnd

/-- `specV` is the `best` field of `specAgent` -/
theorem specV_eq_best (m : Model) (P : Params) (g : Groups) (t : Nat)
    (next : Option (Tensor Ext × List (List (Name × Rat)))) (st ch : List (Name × Rat)) :
    specV m P g t next st = (specAgent m P g t next st ch).best := by
  show _ = foldMax (((((allChoices m).map fun c => specQ m P g t next st c).filterMap _)).map Ext.fin)
  rw [List.filterMap_map]
  rfl

end Lcm
