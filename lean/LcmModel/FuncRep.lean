import LcmModel.Solve
namespace Lcm

/-! Model of `lcm.function_representation.get_function_representation` (C14). -/

structure IndexerInfo where
  axisNames : List Name
  name : Name
  outName : Name
deriving Repr, Inhabited

structure SpaceInfo where
  axisNames : List Name
  lookup : List Name                 -- keys of `lookup_info`
  interp : List (Name × Grid)        -- `interpolation_info`
  indexers : List IndexerInfo
deriving Repr, Inhabited

inductive FRErr where
  | valueError    -- raised when the function is built
  | undefined     -- outside the model (missing argument, label outside the array, infeasible combination)
deriving DecidableEq, Repr

/-- `_fail_if_interpolation_axes_are_not_last` -/
def interpolationAxesLast (si : SpaceInfo) : Bool :=
  let common := (si.interp.map (·.1)).eraseDups.filter fun a => si.axisNames.contains a
  common.isEmpty ||
    sortNames common == sortNames (si.axisNames.drop (si.axisNames.length - common.length))

/-- exact position of a label: labels are their own positions; anything that is not a natural number
inside the axis is outside the model -/
def labelPos (q : Rat) : Option Nat := if q.den = 1 ∧ 0 ≤ q.num then some q.num.toNat else none

/-- the generated function: discrete labels -> positions (through the indexer for restricted states),
positional lookup on the leading axes, coordinates, interpolation along the trailing axes in the order
of `axis_names`. `arrays` holds the indexer arrays (entries: rank or the fill value −1). -/
def functionRepresentation (si : SpaceInfo) (pfx : String) (arrays : Name → Option (Tensor Int))
    (V : Tensor Rat) (env : Name → Option Rat) : Except FRErr Rat := do
  if !interpolationAxesLast si then throw .valueError
  let pos := fun (x : Name) => (env (pfx ++ x)).bind labelPos
  -- positions of the lookup axes, in the order of `axis_names`
  let positions ← (si.axisNames.filterMap fun a =>
      if si.lookup.contains a then some (pos a)
      else match si.indexers.find? (·.outName == a) with
        | some ii => some (do
            let arr ← arrays ii.name
            let ps ← ii.axisNames.mapM pos
            let r := arr.get ps
            if 0 ≤ r then some r.toNat else none)
        | none => none).mapM fun (o : Option Nat) => match o with
          | some p => Except.ok p
          | none => Except.error FRErr.undefined
  if !((positions.zip V.shape).all fun (p, n) => p < n) then throw .undefined
  let sub : Tensor Rat :=
    { shape := V.shape.drop positions.length, get := fun idx => V.get (positions ++ idx) }
  let coords ← ((si.axisNames.filterMap fun a => (si.interp.find? (·.1 == a)).map fun p =>
      (env (pfx ++ a)).map (coordOf p.2))).mapM fun (o : Option Rat) => match o with
        | some c => Except.ok c
        | none => Except.error FRErr.undefined
  if coords.length != sub.shape.length then throw .undefined
  pure (interp sub coords)

/-- `jax.lax.round` (half away from zero), used by `map_coordinates` for integer input arrays -/
def roundHalfAway (q : Rat) : Int :=
  if 0 ≤ q then (q + 1/2).floor else -((-q + 1/2).floor)

end Lcm
