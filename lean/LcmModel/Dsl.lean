namespace Lcm

abbrev Name := String

/-- values of user functions: numbers (labels are numbers too) and booleans -/
inductive Val where
  | num (q : Rat)
  | bool (b : Bool)
deriving DecidableEq, Repr, Inhabited

/-- JAX coercion of a boolean in arithmetic -/
def Val.toRat : Val → Rat
  | .num q => q
  | .bool b => if b then 1 else 0

def Val.toBool : Val → Bool
  | .num q => q ≠ 0
  | .bool b => b

/-- expression language shared with the harness -/
inductive Expr where
  | num (q : Rat)
  | var (x : Name)
  | add (a b : Expr) | sub (a b : Expr) | mul (a b : Expr) | neg (a : Expr)
  /-- division; undefined (`none`) where the divisor is zero - the implementation produces inf / nan there -/
  | div (a b : Expr)
  | min (a b : Expr) | max (a b : Expr)
  | le (a b : Expr) | lt (a b : Expr) | eq (a b : Expr)
  | and (a b : Expr) | or (a b : Expr) | not (a : Expr)
  | ite (c a b : Expr)
deriving Repr, Inhabited

abbrev Env := List (Name × Val)

def Env.get? (e : Env) (x : Name) : Option Val := (e.find? (·.1 == x)).map (·.2)

def Expr.eval (env : Env) : Expr → Option Val
  | .num q => some (.num q)
  | .var x => env.get? x
  | .add a b => do let x ← a.eval env; let y ← b.eval env; pure (.num (x.toRat + y.toRat))
  | .sub a b => do let x ← a.eval env; let y ← b.eval env; pure (.num (x.toRat - y.toRat))
  | .mul a b => do let x ← a.eval env; let y ← b.eval env; pure (.num (x.toRat * y.toRat))
  | .neg a => do let x ← a.eval env; pure (.num (- x.toRat))
  | .div a b => do
      let x ← a.eval env; let y ← b.eval env
      if y.toRat = 0 then none else pure (.num (x.toRat / y.toRat))
  | .min a b => do let x ← a.eval env; let y ← b.eval env; pure (.num (if x.toRat ≤ y.toRat then x.toRat else y.toRat))
  | .max a b => do let x ← a.eval env; let y ← b.eval env; pure (.num (if x.toRat ≤ y.toRat then y.toRat else x.toRat))
  | .le a b => do let x ← a.eval env; let y ← b.eval env; pure (.bool (x.toRat ≤ y.toRat))
  | .lt a b => do let x ← a.eval env; let y ← b.eval env; pure (.bool (x.toRat < y.toRat))
  | .eq a b => do let x ← a.eval env; let y ← b.eval env; pure (.bool (x.toRat = y.toRat))
  | .and a b => do let x ← a.eval env; let y ← b.eval env; pure (.bool (x.toBool && y.toBool))
  | .or a b => do let x ← a.eval env; let y ← b.eval env; pure (.bool (x.toBool || y.toBool))
  | .not a => do let x ← a.eval env; pure (.bool (!x.toBool))
  | .ite c a b => do
      -- `jnp.where(c, a, b)`: an inf / nan (here: undefined) value of the branch that is not selected is dropped
      let x ← c.eval env
      if x.toBool then a.eval env else b.eval env

inductive Grid where
  | lin (start stop : Rat) (n : Nat)
  | tab (nodes : List Rat)
  | disc (n : Nat)
deriving Repr, Inhabited

def Grid.isContinuous : Grid → Bool
  | .disc _ => false
  | _ => true

def Grid.points : Grid → List Rat
  | .lin a b n => if n ≤ 1 then [a] else (List.range n).map fun (i : Nat) => a + (i : Rat) * ((b - a) / ((n : Rat) - 1))
  | .tab xs => xs
  | .disc n => (List.range n).map fun (i : Nat) => (i : Rat)

structure Func where
  name : Name
  args : List Name
  body : Expr
  stochastic : Bool := false
deriving Repr, Inhabited

/-- a user model as `lcm.Model` sees it; lists keep declaration (dict insertion) order -/
structure Model where
  nPeriods : Nat
  functions : List Func
  choices : List (Name × Grid)
  states : List (Name × Grid)
deriving Repr, Inhabited

end Lcm
