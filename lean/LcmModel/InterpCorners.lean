import LcmModel.Interp2
namespace Lcm

/-! `lcm.ndimage.map_coordinates` exactly as written: per axis the pair `[(lower, 1-w), (lower+1, w)]`
(`_compute_indices_and_weights`), `itertools.product` over the axes (first axis slowest), for every corner the
product of the weights times the array entry, summed. `interp` (recursive form) is proved equal to it
(`LcmProofs/InterpCorners.lean`), so every theorem about `interp` is a theorem about this corner-product form. -/

def axisData (size : Nat) (c : Rat) : List (Nat × Rat) :=
  let lo := lowerIdx' c size
  let w := c - (lo : Rat)
  [(lo, 1 - w), (lo + 1, w)]

/-- `itertools.product(*interpolation_data)` -/
def cornerProduct : List (List (Nat × Rat)) → List (List (Nat × Rat))
  | [] => [[]]
  | ax :: rest => ax.flatMap fun p => (cornerProduct rest).map (p :: ·)

def weightProduct (corner : List (Nat × Rat)) : Rat := (corner.map (·.2)).foldr (· * ·) 1

def interpCorners (t : Tensor Rat) (cs : List Rat) : Rat :=
  ((cornerProduct ((t.shape.zip cs).map fun p => axisData p.1 p.2)).map fun corner =>
    weightProduct corner * t.get (corner.map (·.1))).sum

end Lcm
