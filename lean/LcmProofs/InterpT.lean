import LcmModel.Solve
import LcmProofs.Interp
import LcmProofs.Interp2
import LcmProofs.SolvePeriod
import Mathlib.Tactic.FieldSimp
import Mathlib.Tactic.Linarith
namespace Lcm

/-! Interpolation on function-based tensors and linear-grid coordinates (C14, C15). -/

theorem lowerIdx'_eq (c : Rat) (size : Nat) : lowerIdx' c size = lowerIdx c size := rfl

theorem lowerIdx'_le (c : Rat) (size : Nat) (h2 : 2 ≤ size) : lowerIdx' c size + 1 < size := by
  unfold lowerIdx'
  have : (max 0 (min c.floor ((size : Int) - 2))) ≤ (size : Int) - 2 := by
    apply max_le <;> omega
  omega

/-- **integer coordinates return the array entries** (any rank, all axis sizes ≥ 2) -/
theorem interp_nodes (t : Tensor Rat) (idx : List Nat) (hb : InBounds t.shape idx)
    (h2 : ∀ n ∈ t.shape, 2 ≤ n) :
    interp t (idx.map fun (i : Nat) => (i : Rat)) = t.get idx := by
  induction idx generalizing t with
  | nil => simp [interp]
  | cons i is ih =>
    obtain ⟨shape, get⟩ := t
    cases shape with
    | nil => simp [InBounds] at hb
    | cons n s =>
      simp only [InBounds] at hb
      have hn2 : 2 ≤ n := h2 n (by simp)
      have hs2 : ∀ k ∈ s, 2 ≤ k := fun k hk => h2 k (by simp [hk])
      simp only [List.map_cons, interp, List.headD_cons]
      by_cases hlast : i + 1 < n
      · rw [lowerIdx'_eq, lowerIdx_int i n hlast]
        have := ih (Tensor.slice ⟨n :: s, get⟩ i) (by simpa [Tensor.slice] using hb.2) (by simpa [Tensor.slice] using hs2)
        rw [this]
        simp [Tensor.slice]
      · have hi_eq : i = n - 1 := by omega
        subst hi_eq
        rw [lowerIdx'_eq, lowerIdx_last n hn2]
        have e : n - 2 + 1 = n - 1 := by omega
        rw [e]
        have := ih (Tensor.slice ⟨n :: s, get⟩ (n - 1)) (by simpa [Tensor.slice] using hb.2) (by simpa [Tensor.slice] using hs2)
        rw [this]
        have hw : ((n - 1 : Nat) : Rat) - ((n - 2 : Nat) : Rat) = 1 := by
          have : ((n - 1 : Nat) : Rat) = ((n - 2 : Nat) : Rat) + 1 := by
            have : n - 1 = (n - 2) + 1 := by omega
            rw [this]; push_cast; ring
          rw [this]; ring
        rw [hw]
        simp [Tensor.slice]

/-- the 1-d tensor of the points of a linear grid -/
def linTensor (a b : Rat) (n : Nat) : Tensor Rat :=
  { shape := [n], get := fun idx => a + ((idx.headD 0 : Nat) : Rat) * ((b - a) / ((n : Rat) - 1)) }

theorem step_pos_rat (a b : Rat) (n : Nat) (hab : a < b) (hn : 2 ≤ n) : 0 < (b - a) / ((n : Rat) - 1) := by
  have h2 : (0 : Rat) < (n : Rat) - 1 := by
    have : (2 : Rat) ≤ n := by exact_mod_cast hn
    linarith
  exact div_pos (by linarith) h2

/-- the generalised coordinate of grid point `i` is `i` -/
theorem linCoord_node (a b : Rat) (n i : Nat) (hab : a < b) (hn : 2 ≤ n) :
    coordOf (.lin a b n) (a + (i : Rat) * ((b - a) / ((n : Rat) - 1))) = i := by
  have hs := step_pos_rat a b n hab hn
  simp only [coordOf]
  rw [add_sub_cancel_left, mul_div_assoc, div_self hs.ne', mul_one]

/-- coordinates increase strictly with the value -/
theorem linCoord_strictMono (a b : Rat) (n : Nat) (hab : a < b) (hn : 2 ≤ n) (v w : Rat) (hvw : v < w) :
    coordOf (.lin a b n) v < coordOf (.lin a b n) w := by
  have hs := step_pos_rat a b n hab hn
  simp only [coordOf]
  exact div_lt_div_of_pos_right (by linarith) hs

/-- **interpolating the grid itself at the coordinate of a value returns that value - for every value**,
inside the range (interpolation) and outside (linear extrapolation) -/
theorem lin_roundtrip (a b : Rat) (n : Nat) (hab : a < b) (hn : 2 ≤ n) (v : Rat) :
    interp (linTensor a b n) [coordOf (.lin a b n) v] = v := by
  have hs := step_pos_rat a b n hab hn
  simp only [interp, linTensor, Tensor.slice, List.headD_cons, coordOf]
  set h := (b - a) / ((n : Rat) - 1) with hh
  set lo := lowerIdx' ((v - a) / h) n
  push_cast
  field_simp
  ring

#print axioms interp_nodes
#print axioms lin_roundtrip
end Lcm
