import LcmProofs.SimPanel
import LcmProofs.SimPath
import LcmProofs.EnvPerm
import LcmProofs.ChoicePartition
import LcmProofs.FilterConstraint
namespace Lcm

/-! Additional targets of `simulate` (`_compute_targets`, C13): every target column is the by-name evaluation of the
model function at the record of the row. Consequences that connect the target columns with the other columns of the
same frame: the constraint targets hold wherever the value is finite, the `utility` target of the last period is the
value column, a deterministic-transition target is the state column of the next period. -/

theorem zipIdx_range_map {α} (F : Nat → α) (T : Nat) :
    ((List.range T).map F).zipIdx = (List.range T).map fun t => (F t, t) := by
  apply List.ext_getElem?
  intro k
  rw [List.getElem?_zipIdx, List.getElem?_map, List.getElem?_map]
  by_cases hk : k < T
  · rw [List.getElem?_range hk]; simp
  · rw [List.getElem?_eq_none (by simpa using hk)]; rfl

theorem targetColumn_simulate (m : Model) (P : Params) (V : List (Tensor Ext)) (init : List (List (Name × Rat)))
    (draws : Draws) (name : Name) :
    targetColumn m P (simulate m P V init draws true) name
      = (List.range m.nPeriods).flatMap fun t =>
          (periodOut m P V draws t (statesAt m P V init draws t)).1.map fun r => targetCell m P t r name := by
  unfold targetColumn
  rw [simulate_eq_map, zipIdx_range_map, List.map_map, List.flatMap_def]
  rfl

/-- a target column has one entry per row of the panel -/
theorem targetColumn_length (m : Model) (P : Params) (V : List (Tensor Ext)) (init : List (List (Name × Rat)))
    (draws : Draws) (name : Name) :
    (targetColumn m P (simulate m P V init draws true) name).length = m.nPeriods * init.length := by
  rw [targetColumn_simulate, List.length_flatMap]
  have : ∀ t, ((periodOut m P V draws t (statesAt m P V init draws t)).1.map fun r => targetCell m P t r name).length
      = init.length := by
    intro t; rw [List.length_map, periodOut_fst_length, statesAt_length]
  simp only [this]
  simp

/-- entry `t * n + i` of a target column is the target evaluated at the record of agent `i` in period `t` -/
theorem targetColumn_row (m : Model) (P : Params) (V : List (Tensor Ext)) (init : List (List (Name × Rat)))
    (draws : Draws) (name : Name) (t i : Nat) (ht : t < m.nPeriods) (hi : i < init.length) :
    (targetColumn m P (simulate m P V init draws true) name)[t * init.length + i]?
      = (((simulate m P V init draws true).getD t [])[i]?).map fun r => targetCell m P t r name := by
  rw [simulate_getD m P V init draws t ht, targetColumn_simulate]
  rw [getElem?_flatMap_blocks
    (fun t => (periodOut m P V draws t (statesAt m P V init draws t)).1.map fun r => targetCell m P t r name)
    init.length (fun t => by rw [List.length_map, periodOut_fst_length, statesAt_length]) m.nPeriods t i ht hi]
  rw [List.getElem?_map]

/-- the column of a target does not depend on which other targets are requested, nor on their order -/
theorem targetColumns_lookup (m : Model) (P : Params) (results : List (List Record)) (names : List Name)
    (n : Name) (hn : n ∈ names) :
    ((targetColumns m P results names).find? (·.1 == n)).map (·.2) = some (targetColumn m P results n) := by
  unfold targetColumns
  induction names with
  | nil => simp at hn
  | cons a rest ih =>
    rw [List.map_cons, List.find?_cons]
    by_cases ha : a = n
    · subst ha; simp
    · have : ((a, targetColumn m P results a).1 == n) = false := by simpa using ha
      rw [this]
      exact ih (by simpa [Ne.symm ha] using hn)

/-- the order of the variables in the row is irrelevant (columns of a frame are read by name) -/
theorem evalAt_perm (m : Model) (P : Params) (row row' : List (Name × Rat)) (hp : row.Perm row')
    (hnd : (row.map (·.1)).Nodup) (t : Nat) (name : Name) : evalAt m P row t name = evalAt m P row' t name := by
  unfold evalAt
  exact callF_congr_env m P m.fuel _ _ ((envEq_of_perm row row' hp hnd).append (EnvEq.refl _)) name

/-- if the conjunction of a list of model functions is true, every one of them evaluates and is true -/
theorem allTrue_true_all (m : Model) (P : Params) (env : Env) (l : List Name)
    (h : allTrue m P env l = some true) : ∀ n ∈ l, ∃ v, callF m P m.fuel env n = some v ∧ v.toBool = true := by
  induction l with
  | nil => intro n hn; simp at hn
  | cons a rest ih =>
    rw [allTrue_cons'] at h
    cases hc : callF m P m.fuel env a with
    | none => rw [hc] at h; simp at h
    | some v =>
      rw [hc, Option.bind_some] at h
      cases hr : allTrue m P env rest with
      | none => rw [hr] at h; simp at h
      | some b =>
        rw [hr] at h
        simp only [Option.map_some, Option.some.injEq, Bool.and_eq_true] at h
        obtain ⟨hv, hb⟩ := h
        subst hb
        intro n hn
        rcases List.mem_cons.mp hn with rfl | hn'
        · exact ⟨v, hc, hv⟩
        · exact ih hr n hn'

/-- the environment in which the objective of the selected choice was evaluated is, name by name, the environment of
the frame row (reported choices are listed unrestricted-discrete, restricted, continuous) -/
theorem row_envEq (m : Model) (st c e y : List (Name × Rat))
    (hst : (st.map (·.1) ++ m.choices.map (·.1)).Nodup)
    (hc : c ∈ assignments (groups m).sC) (he : e ∈ assignments (groups m).dC) (hy : y ∈ assignments (groups m).cC) :
    EnvEq (toEnv (st ++ c ++ e ++ y)) (toEnv (st ++ (e ++ c ++ y))) := by
  apply envEq_of_perm
  · rw [List.append_assoc, List.append_assoc]
    apply List.Perm.append_left
    rw [← List.append_assoc]
    exact List.Perm.append_right _ List.perm_append_comm
  · simp only [List.map_append]
    rw [assignments_keys _ c hc, assignments_keys _ e he, assignments_keys _ y hy]
    rw [List.append_assoc, List.append_assoc, ← List.append_assoc ((groups m).sC.map (·.1))]
    exact ((List.Perm.append_left _ (choice_names_perm m)).nodup_iff).mpr hst

/-- what the finite value of a decision says about the row: the objective evaluated at the row's own environment is
`(value, feasible)` -/
theorem agentDecision_obj_at_row (m : Model) (P : Params) (t : Nat)
    (next : Option (Tensor Ext × List (List (Name × Rat)))) (states : List (List (Name × Rat)))
    (i : Nat) (hi : i < states.length)
    (hst : ((states.getD i []).map (·.1) ++ m.choices.map (·.1)).Nodup)
    (hfin : (agentDecision m P (groups m) t next states i).value ≠ .ninf) :
    ∃ q : Rat, (agentDecision m P (groups m) t next states i).value = .fin q ∧
      uAndF m P (groups m) t next
        (toEnv ((agentDecision m P (groups m) t next states i).states
          ++ (agentDecision m P (groups m) t next states i).choices)) = some (q, true) := by
  obtain ⟨_, _, h3⟩ := agentDecision_spec m P (groups m) t next states i hi
  obtain ⟨hc, _, he, hy, hfeas, hval⟩ := h3 hfin
  set out := simChoice states.length (assignments (groups m).sC) (assignments (groups m).dC) (assignments (groups m).cC)
      (fun k c => agentFilt m P (groups m) t (states.getD k []) c)
      (fun k c e y => valueOf (agentObj m P (groups m) t next (states.getD k []) c e y))
      (fun k c e y => feasibleOf (agentObj m P (groups m) t next (states.getD k []) c e y)) i with hout
  have henv := row_envEq m (states.getD i []) out.1 out.2.1 out.2.2.1 hst hc he hy
  have hrow : uAndF m P (groups m) t next
      (toEnv ((agentDecision m P (groups m) t next states i).states
        ++ (agentDecision m P (groups m) t next states i).choices))
      = agentObj m P (groups m) t next (states.getD i []) out.1 out.2.1 out.2.2.1 := by
    unfold agentObj
    exact (uAndF_congr_env m P (groups m) t next _ _ henv).symm
  cases hO : agentObj m P (groups m) t next (states.getD i []) out.1 out.2.1 out.2.2.1 with
  | none => rw [hO] at hfeas; simp [feasibleOf] at hfeas
  | some qf =>
    obtain ⟨q, fb⟩ := qf
    rw [hO] at hfeas hval
    have hfb : fb = true := by simpa [feasibleOf] using hfeas
    subst hfb
    exact ⟨q, by simpa [valueOf] using hval, by rw [hrow, hO]⟩

/-- the constraints are part of every period's objective: `uAndF … = some (q, true)` means every constraint evaluates
to true at that environment -/
theorem uAndF_true_constraints (m : Model) (P : Params) (g : Groups) (t : Nat)
    (next : Option (Tensor Ext × List (List (Name × Rat)))) (env0 : Env) (q : Rat)
    (h : uAndF m P g t next env0 = some (q, true)) :
    allTrue m P (env0 ++ periodEnv t) (constraintNames m) = some true := by
  cases next with
  | none =>
    rw [uAndF_none_eq] at h
    cases hA : allTrue m P (env0 ++ periodEnv t) (constraintNames m) with
    | none => rw [hA] at h; simp at h
    | some f =>
      rw [hA, Option.bind_some] at h
      cases hU : utilOf m P (env0 ++ periodEnv t) with
      | none => rw [hU] at h; simp at h
      | some u => rw [hU] at h; simp only [Option.bind_some, Option.some.injEq, Prod.mk.injEq] at h; rw [h.2]
  | some Vf =>
    obtain ⟨V, feas⟩ := Vf
    rw [uAndF_some_eq] at h
    cases hA : allTrue m P (env0 ++ periodEnv t) (constraintNames m) with
    | none => rw [hA] at h; simp at h
    | some f =>
      rw [hA, Option.bind_some] at h
      cases hU : utilOf m P (env0 ++ periodEnv t) with
      | none => rw [hU] at h; simp at h
      | some u =>
        rw [hU, Option.bind_some] at h
        cases hD : detOf m P (env0 ++ periodEnv t) with
        | none => rw [hD] at h; simp at h
        | some det =>
          rw [hD, Option.bind_some] at h
          cases hW : wrowsOf m P (env0 ++ periodEnv t) with
          | none => rw [hW] at h; simp at h
          | some wrows =>
            rw [hW, Option.bind_some] at h
            cases hE : ((nodesOf wrows).foldlM (fun acc (p : List (Name × Rat) × Rat) => do
                    let vn ← vhat g feas V (det ++ toEnv p.1)
                    pure (acc + p.2 * vn)) (0 : Rat)) with
            | none => rw [hE] at h; simp at h
            | some ev =>
              rw [hE] at h
              simp only [Option.bind_some, Option.some.injEq, Prod.mk.injEq] at h
              rw [h.2]

/-- in the last period the objective is the utility -/
theorem uAndF_none_utility (m : Model) (P : Params) (g : Groups) (t : Nat) (env0 : Env) (q : Rat) (f : Bool)
    (h : uAndF m P g t none env0 = some (q, f)) :
    (callF m P m.fuel (env0 ++ periodEnv t) "utility").map Val.toRat = some q := by
  rw [uAndF_none_eq] at h
  cases hA : allTrue m P (env0 ++ periodEnv t) (constraintNames m) with
  | none => rw [hA] at h; simp at h
  | some f' =>
    rw [hA, Option.bind_some] at h
    cases hU : utilOf m P (env0 ++ periodEnv t) with
    | none => rw [hU] at h; simp at h
    | some u =>
      rw [hU] at h
      simp only [Option.bind_some, Option.some.injEq, Prod.mk.injEq] at h
      unfold utilOf at hU
      rw [hU, h.1]

theorem find?_map_key {α} (l : List (Name × α)) (F : Name → Rat) (x : Name) (hx : x ∈ l.map (·.1)) :
    (l.map fun s => (s.1, F s.1)).find? (·.1 == x) = some (x, F x) := by
  induction l with
  | nil => simp at hx
  | cons a rest ih =>
    rw [List.map_cons, List.find?_cons]
    by_cases ha : a.1 = x
    · subst ha; simp
    · have : ((a.1, F a.1).1 == x) = false := by simpa using ha
      rw [this]
      exact ih (by simpa [Ne.symm ha] using hx)

/-- **a deterministic-transition target is the state column of the next period**: the value recorded for state `x` of
agent `i` in period `t+1` is the target `next_x` evaluated at the record of row (t, i) -/
theorem next_state_is_transition_target (m : Model) (P : Params) (V : List (Tensor Ext))
    (init : List (List (Name × Rat))) (draws : Draws) (t i : Nat) (hi : i < init.length)
    (nf : FunctionInfo) (hnf : nf ∈ (functionInfo m).filter (·.isNext)) (hdet : nf.isStochasticNext = false)
    (hnd : (((functionInfo m).filter (·.isNext)).map fun nf => stripNext nf.name).Nodup)
    (hx : stripNext nf.name ∈ m.states.map (·.1)) :
    (((statesAt m P V init draws (t + 1)).getD i []).find? (·.1 == stripNext nf.name)).map (·.2)
      = some (((targetCell m P t ((periodOut m P V draws t (statesAt m P V init draws t)).1.getD i default)
          nf.name).map Val.toRat).getD 0) := by
  have hi' : i < (statesAt m P V init draws t).length := by rw [statesAt_length]; exact hi
  rw [statesAt_succ, rekey_getD m _ i (by rw [periodOut_snd_length]; exact hi')]
  rw [find?_map_key m.states (fun x => (((((periodOut m P V draws t (statesAt m P V init draws t)).2.getD i []).find?
    (·.1 == x)).map (·.2)).getD 0)) _ hx]
  simp only [Option.map_some, Option.some.injEq]
  -- the list of next states of agent i
  have hlist : (periodOut m P V draws t (statesAt m P V init draws t)).2.getD i []
      = (let rec_ := (periodOut m P V draws t (statesAt m P V init draws t)).1.getD i default
         let env := toEnv (rec_.states ++ rec_.choices) ++ periodEnv t
         ((functionInfo m).filter (·.isNext)).map fun nf =>
           let x := stripNext nf.name
           if nf.isStochasticNext then
             let deps := ((m.func? nf.name).map (·.args)).getD []
             let depIdx := deps.map fun a => ((env.get? a).map fun v => natOfRat v.toRat).getD 0
             (x, ((draws t x i depIdx : Nat) : Rat))
           else (x, ((callF m P m.fuel env nf.name).map Val.toRat).getD 0)) := by
    simp only [periodOut, simulatePeriod]
    rw [List.getD_eq_getElem?_getD, List.getElem?_map, List.getElem?_range hi']
    rfl
  rw [hlist]
  simp only
  set rec_ := (periodOut m P V draws t (statesAt m P V init draws t)).1.getD i default with hrec
  set L := ((functionInfo m).filter (·.isNext)).map fun nf =>
      if nf.isStochasticNext then
        (stripNext nf.name, ((draws t (stripNext nf.name) i
          ((((m.func? nf.name).map (·.args)).getD []).map fun a =>
            (((toEnv (rec_.states ++ rec_.choices) ++ periodEnv t).get? a).map fun v => natOfRat v.toRat).getD 0) : Nat) : Rat))
      else (stripNext nf.name,
        ((callF m P m.fuel (toEnv (rec_.states ++ rec_.choices) ++ periodEnv t) nf.name).map Val.toRat).getD 0) with hL
  have hkeys : L.map (·.1) = ((functionInfo m).filter (·.isNext)).map fun nf => stripNext nf.name := by
    rw [hL, List.map_map]
    apply List.map_congr_left
    intro a _
    simp only [Function.comp]
    split <;> rfl
  have hmem : (stripNext nf.name,
      ((callF m P m.fuel (toEnv (rec_.states ++ rec_.choices) ++ periodEnv t) nf.name).map Val.toRat).getD 0) ∈ L := by
    rw [hL, List.mem_map]
    exact ⟨nf, hnf, by simp [hdet]⟩
  have := find?_key_of_nodup L (by rw [hkeys]; exact hnd) _ hmem
  simp only at this
  rw [this]
  rfl

#print axioms targetColumn_row
#print axioms next_state_is_transition_target
#print axioms agentDecision_obj_at_row
#print axioms uAndF_true_constraints
end Lcm
