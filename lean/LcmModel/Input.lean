import LcmModel.Dsl
namespace Lcm

/-! Mirror of `lcm/input_processing/util.py` and `create_params_template.py`. -/

structure FunctionInfo where
  name : Name
  isFilter : Bool
  isConstraint : Bool
  isNext : Bool
  isStochasticNext : Bool
deriving Repr

/-- `get_function_info`: classification by name suffix / prefix and by the stochastic mark -/
def functionInfo (m : Model) : List FunctionInfo :=
  m.functions.map fun f =>
    let isFilter := f.name.endsWith "_filter"
    let isConstraint := f.name.endsWith "_constraint"
    { name := f.name, isFilter, isConstraint
      isNext := f.name.startsWith "next_" && !isConstraint && !isFilter
      isStochasticNext := f.stochastic }

def Model.func? (m : Model) (n : Name) : Option Func := m.functions.find? (·.name == n)

/-- `dags.get_ancestors`: every node (function name or plain argument) from which the target is
reachable. Fuel = number of functions (the DAG is acyclic, depth ≤ #functions). -/
def ancestorsAux (m : Model) : Nat → Name → List Name
  | 0, _ => []
  | fuel + 1, target =>
    match m.func? target with
    | none => []
    | some f => f.args ++ f.args.flatMap (ancestorsAux m fuel)

def ancestors (m : Model) (targets : List Name) : List Name :=
  (targets.flatMap (ancestorsAux m (m.functions.length + 2))).eraseDups

structure VariableInfo where
  name : Name
  isState : Bool
  isChoice : Bool
  isContinuous : Bool
  isDiscrete : Bool
  isStochastic : Bool
  isAuxiliary : Bool
  isSparse : Bool
  isDense : Bool
deriving Repr

/-- `get_variable_info`: states then choices in declaration order, flags, then the canonical order:
sparse states, sparse choices, dense discrete states, dense discrete choices, dense continuous
states, dense continuous choices (each group in declaration order). -/
def variableInfo (m : Model) : List VariableInfo :=
  let fi := functionInfo m
  let filterNames := (fi.filter (·.isFilter)).map (·.name)
  let filtered := ancestors m filterNames
  let nonNext := (fi.filter (!·.isNext)).map (·.name)
  let usedOutsideNext := nonNext ++ ancestors m nonNext
  let mk := fun (isState : Bool) (p : Name × Grid) =>
    let stoch := isState && ((fi.find? (·.name == "next_" ++ p.1)).map (·.isStochasticNext)).getD false
    let sparse := filtered.contains p.1
    ({ name := p.1, isState, isChoice := !isState, isContinuous := p.2.isContinuous,
       isDiscrete := !p.2.isContinuous, isStochastic := stoch,
       isAuxiliary := isState && !usedOutsideNext.contains p.1,
       isSparse := sparse, isDense := !sparse } : VariableInfo)
  let info := m.states.map (mk true) ++ m.choices.map (mk false)
  info.filter (fun v => v.isSparse && v.isState) ++
  info.filter (fun v => v.isSparse && v.isChoice) ++
  info.filter (fun v => v.isDense && v.isDiscrete && v.isState) ++
  info.filter (fun v => v.isDense && v.isDiscrete && v.isChoice) ++
  info.filter (fun v => v.isDense && v.isContinuous && v.isState) ++
  info.filter (fun v => v.isDense && v.isContinuous && v.isChoice)

/-- insertion sort on names (Python's `sorted` on str) -/
def insertName (x : Name) : List Name → List Name
  | [] => [x]
  | y :: ys => if x < y then x :: y :: ys else if x = y then y :: ys else y :: insertName x ys
def sortNames (xs : List Name) : List Name := xs.foldr insertName []

/-- `_create_function_params`: per function, the sorted set of arguments that are neither a model
function, a choice, a state, nor `_period`. -/
def functionParams (m : Model) : List (Name × List Name) :=
  let variables := m.functions.map (·.name) ++ m.choices.map (·.1) ++ m.states.map (·.1) ++ ["_period"]
  m.functions.map fun f => (f.name, sortNames (f.args.filter fun a => !variables.contains a))

/-- `_create_stochastic_transition_params`: shape of the transition array of every stochastic state:
sizes of the dependencies in signature order (`n_periods` for `_period`), then the number of labels. -/
def shockShapes (m : Model) : List (Name × List Nat) :=
  let size := fun (x : Name) =>
    if x = "_period" then m.nPeriods
    else (((m.states ++ m.choices).find? (·.1 == x)).map (·.2.points.length)).getD 0
  ((variableInfo m).filter (·.isStochastic)).map fun v =>
    match m.func? ("next_" ++ v.name) with
    | some f => (v.name, f.args.map size ++ [size v.name])
    | none => (v.name, [])

end Lcm
