# shim: put this at the top of any script that imports lcm from a scratch worktree
import sys, types, os
WT = os.environ.get("LCM_WT")  # path of your worktree, e.g. /tmp/seed_C01
sys.path.insert(0, os.path.join(WT, "src"))
import jax, jax._src.util as _u
m = types.ModuleType("jax.util"); m.safe_zip = _u.safe_zip; m.unzip2 = _u.unzip2
sys.modules["jax.util"] = m; jax.util = m
jax.config.update("jax_enable_x64", True)
import lcm
assert lcm.__file__.startswith(WT), lcm.__file__
# ---------------------------------------------------------------------------------
# finding 1: bool-coded category class is accepted; array form is a bool array, and the
# grid breaks the solver when used as a state with the identity transition.
# ---------------------------------------------------------------------------------
import logging, sys
from dataclasses import dataclass
import jax.numpy as jnp, numpy as np
logging.disable(logging.CRITICAL)
from lcm import DiscreteGrid, LinspaceGrid, Model
from lcm.entry_point import get_lcm_function
from lcm.exceptions import GridInitializationError

@dataclass
class HealthInt:
    bad: int = 0
    good: int = 1

@dataclass
class HealthBool:
    bad: bool = False
    good: bool = True

@dataclass
class Work:
    no: int = 0
    yes: int = 1

def utility(consumption, work, health, disutility):
    return jnp.log(consumption) - disutility * work * (2 - health) + 0.5 * health
def next_wealth(wealth, consumption, work):
    return 1.05 * (wealth - consumption) + 3.0 * work
def next_health(health):
    return health
def consumption_constraint(consumption, wealth):
    return consumption <= wealth

def solve_with(health_cls):
    model = Model(
        n_periods=3,
        functions={"utility": utility, "next_wealth": next_wealth,
                   "next_health": next_health,
                   "consumption_constraint": consumption_constraint},
        choices={"work": DiscreteGrid(Work),
                 "consumption": LinspaceGrid(start=1, stop=20, n_points=30)},
        states={"wealth": LinspaceGrid(start=1, stop=20, n_points=15),
                "health": DiscreteGrid(health_cls)},
    )
    params = {"beta": 0.95, "utility": {"disutility": 0.7}, "next_wealth": {},
              "next_health": {}, "consumption_constraint": {}}
    solve, _ = get_lcm_function(model, targets="solve")
    return solve(params)

defect = False
print("input: DiscreteGrid(HealthBool) with HealthBool.bad = False, HealthBool.good = True")
try:
    grid = DiscreteGrid(HealthBool)
except GridInitializationError as e:
    print("rejected with GridInitializationError (fine):", e)
    sys.exit(0)

arr = grid.to_jax()
print("observed : accepted; codes =", grid.codes, "; to_jax() =", repr(arr))
print("expected : either GridInitializationError or the integer codes Array([0, 1])")
if not jnp.issubdtype(arr.dtype, jnp.integer):
    print("DEFECT   : array form has dtype", arr.dtype, "- these are not the codes 0, 1")
    defect = True

v_int = solve_with(HealthInt)
print("int-coded twin model solves; V[0][:2, 0] =", np.asarray(v_int[0])[:2, 0] if np.asarray(v_int[0]).ndim == 2 else np.asarray(v_int[0]).ravel()[:2])
try:
    v_bool = solve_with(HealthBool)
    same = all(np.allclose(a, b) for a, b in zip(v_int, v_bool))
    print("bool-coded model solves; equal to int-coded:", same)
    defect = defect or not same
except Exception as e:  # noqa: BLE001
    print("DEFECT   : the same model with the accepted bool-coded grid crashes in solve:")
    print("          ", type(e).__name__ + ":", str(e).splitlines()[0])
    defect = True

sys.exit(1 if defect else 0)
