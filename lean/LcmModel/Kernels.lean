import LcmModel.ArgmaxND
import LcmModel.Dispatch
import LcmModel.Input
namespace Lcm

/-! Tensor-level kernels served to the harness: `segment_argmax`, the discrete problem (C18),
`productmap` / `vmap_1d` / `spacemap` (C19), the extreme-value aggregation over `Float` (C20). -/

-- ------------------------------------------------------------------ C18
/-- `lcm.argmax.segment_argmax(data, segment_ids, num_segments)` on an n-d array: per trailing index,
the last row of the segment attaining the segment maximum, and that maximum -/
def segmentArgmaxND (a : Tensor Ext) (segIds : List Nat) (num : Nat) : Tensor Nat × Tensor Ext :=
  let n := a.shape.headD 0
  let col := fun (rest : List Nat) => (List.range n).map fun r => a.get (r :: rest)
  ({ shape := num :: a.shape.tail
     get := fun idx => match idx with | [] => 0 | k :: rest => (segArgmaxAt (col rest) segIds k).1 },
   { shape := num :: a.shape.tail
     get := fun idx => match idx with | [] => .ninf | k :: rest => (segArgmaxAt (col rest) segIds k).2 })

/-- `_determine_dense_discrete_choice_axes`: positions of the choice variables among
`["__sparse__"]? ++ dense variables that are not continuous choices` (canonical order) -/
def denseChoiceAxes (vi : List VariableInfo) : List Nat :=
  let hasSparse := vi.any (·.isSparse)
  let dense := (vi.filter fun v => v.isDense && !(v.isChoice && v.isContinuous)).map fun v => (v.name, v.isChoice)
  let axes := (if hasSparse then [("__sparse__", false)] else []) ++ dense
  (axes.zipIdx.filter fun p => p.1.2).map (·.2)

/-- max over an arbitrary set of axes (`out.max(axis=choice_axes)`) -/
def Tensor.maxAxes (t : Tensor Ext) (axes : List Nat) : Tensor Ext :=
  let ndim := t.shape.length
  let front := (List.range ndim).filter fun p => !axes.contains p
  let bshape := axes.map fun p => t.shape.getD p 0
  { shape := front.map fun p => t.shape.getD p 0
    get := fun fidx => foldMax ((allIdx bshape).map fun j => t.get (mergeIdx ndim axes fidx j)) }

/-- `_solve_discrete_problem_no_shocks` -/
def solveDiscreteProblem (values : Tensor Ext) (choiceAxes : List Nat) (segs : Option (List Nat × Nat)) : Tensor Ext :=
  let out := if choiceAxes.isEmpty then values else values.maxAxes choiceAxes
  match segs with
  | some (ids, num) => out.segmentMax ids num
  | none => out

-- ------------------------------------------------------------------ C19
variable {α : Type} [Inhabited α]

/-- position of a parameter name -/
def paramPos (params : List Name) (x : Name) : Nat := (params.findIdx? (· == x)).getD 0

/-- `productmap(func, variables)`: one output axis per listed name, in the order listed -/
def productmapModel (params : List Name) (f : List (Tensor α) → Tensor α) (vars : List Name) :
    List (Tensor α) → Tensor α :=
  baseProductmap f (vars.map (paramPos params))

/-- `vmap_1d(func, variables)`: one joint leading axis, the listed arguments are paired -/
def vmap1dModel (params : List Name) (f : List (Tensor α) → Tensor α) (vars : List Name)
    (args : List (Tensor α)) : Tensor α :=
  let ps := vars.map (paramPos params)
  let at_ := fun (i : Nat) => f (ps.foldl (fun acc p => acc.set p ((args[p]!).slice i)) args)
  { shape := ((args[ps.headD 0]!).shape.headD 0) :: (at_ 0).shape
    get := fun idx => match idx with | [] => default | i :: rest => (at_ i).get rest }

/-- `spacemap(func, dense_vars, sparse_vars, put_dense_first)` -/
def spacemapModel (params : List Name) (f : List (Tensor α) → Tensor α) (dense sparse : List Name)
    (putDenseFirst : Bool) : List (Tensor α) → Tensor α :=
  if sparse.isEmpty then productmapModel params f dense
  else if putDenseFirst then
    productmapModel params (fun args => vmap1dModel params f sparse args) dense
  else
    fun args => vmap1dModel params (productmapModel params f dense) sparse args

-- ------------------------------------------------------------------ C20 (Float; theorems are over ℝ)
def fmax (xs : List Float) : Float := xs.foldl (fun a b => if a < b then b else a) (-1.0 / 0.0)

/-- stable log-sum-exp of a list: max, subtract, exp, sum, log, add -/
def logSumExpF (xs : List Float) : Float :=
  let m := fmax xs
  m + Float.log ((xs.map fun x => Float.exp (x - m)).foldl (· + ·) 0.0)

/-- `_segment_logsumexp` on the leading axis -/
def segmentLogSumExpF (a : Tensor Float) (segIds : List Nat) (num : Nat) : Tensor Float :=
  let n := a.shape.headD 0
  { shape := num :: a.shape.tail
    get := fun idx => match idx with
      | [] => 0.0
      | k :: rest =>
        logSumExpF (((List.range n).zip segIds).filterMap fun (r, s) => if s = k then some (a.get (r :: rest)) else none) }

/-- `_calculate_emax_extreme_value_shocks` -/
def emaxExtremeValueF (values : Tensor Float) (scale : Float) (axes : List Nat) (segs : Option (List Nat × Nat)) :
    Tensor Float :=
  let ndim := values.shape.length
  let out : Tensor Float :=
    if axes.isEmpty then values
    else
      let front := (List.range ndim).filter fun p => !axes.contains p
      let bshape := axes.map fun p => values.shape.getD p 0
      { shape := front.map fun p => values.shape.getD p 0
        get := fun fidx => scale * logSumExpF ((allIdx bshape).map fun j => values.get (mergeIdx ndim axes fidx j) / scale) }
  match segs with
  | some (ids, num) =>
    let scaled : Tensor Float := { shape := out.shape, get := fun idx => out.get idx / scale }
    let r := segmentLogSumExpF scaled ids num
    { shape := r.shape, get := fun idx => scale * r.get idx }
  | none => out

end Lcm
