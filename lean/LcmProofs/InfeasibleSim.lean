import LcmProofs.InfeasibleIrrelevant
import LcmProofs.SimPanel
namespace Lcm

/-! C02 side of "an infeasible choice never determines a value": the decisions `simulate` reports (value, choices, and
hence the whole panel) do not depend on what `utility` returns where a constraint fails. -/

/-- `lcm.argmax.argmax` only looks at unmasked entries -/
theorem argmaxBlock_map_congr {X : Type} (l : List X) (a b : X → Ext) (test : X → Bool)
    (h : ∀ x ∈ l, test x = true → a x = b x) :
    argmaxBlock (l.map a) (l.map test) = argmaxBlock (l.map b) (l.map test) := by
  unfold argmaxBlock
  simp only []
  rw [maskedMax_map_congr l a b test h]
  congr 2
  rw [List.zip_map', List.zip_map', List.map_map, List.map_map]
  apply List.map_congr_left
  intro x hx
  simp only [Function.comp]
  cases ht : test x with
  | false => simp
  | true => simp only [h x hx ht]

variable {C E Y : Type}

/-- the arg-max chain of `simulate` reads the objective only where it is feasible -/
theorem simChoice_congr [Inhabited C] [Inhabited E] [Inhabited Y] (n : Nat) (scGrid : List C) (dcGrid : List E)
    (ccGrid : List Y) (filt : Nat → C → Bool) (q q' : Nat → C → E → Y → Rat) (feas feas' : Nat → C → E → Y → Bool)
    (hf : ∀ k c e y, feas' k c e y = feas k c e y)
    (hq : ∀ k c e y, feas k c e y = true → q' k c e y = q k c e y) (k : Nat) :
    simChoice n scGrid dcGrid ccGrid filt q' feas' k = simChoice n scGrid dcGrid ccGrid filt q feas k := by
  have hfe : feas' = feas := by funext k c e y; exact hf k c e y
  subst hfe
  have hpol : ∀ (r : Nat × C) (e : E),
      argmaxBlock (ccGrid.map fun y => Ext.fin (q' r.1 r.2 e y)) (ccGrid.map fun y => feas' r.1 r.2 e y)
        = argmaxBlock (ccGrid.map fun y => Ext.fin (q r.1 r.2 e y)) (ccGrid.map fun y => feas' r.1 r.2 e y) := by
    intro r e
    apply argmaxBlock_map_congr
    intro y _ hy
    rw [hq _ _ _ _ hy]
  unfold simChoice
  simp only [hpol]


variable {m m' : Model} {P : Params}

theorem SameButUtility.agentFilt (h : SameButUtility m m' P) (g : Groups) (t : Nat) (st c : List (Name × Rat)) :
    agentFilt m' P g t st c = agentFilt m P g t st c := by
  unfold Lcm.agentFilt
  rw [h.filters]

/-- the decision of an agent: the same record -/
theorem UtilityAgreesOnFeasible.agentDecision (h : UtilityAgreesOnFeasible m m' P) (g : Groups) (t : Nat)
    (next : Option (Tensor Ext × List (List (Name × Rat)))) (states : List (List (Name × Rat))) (i : Nat) :
    agentDecision m' P g t next states i = agentDecision m P g t next states i := by
  unfold Lcm.agentDecision
  simp only []
  have hfilt : (fun (k : Nat) (c : List (Name × Rat)) => Lcm.agentFilt m' P g t (states.getD k []) c)
      = (fun k c => Lcm.agentFilt m P g t (states.getD k []) c) := by
    funext k c; exact h.toSameButUtility.agentFilt g t _ c
  rw [hfilt]
  rw [simChoice_congr states.length (assignments g.sC) (assignments g.dC) (assignments g.cC)
    (fun k c => Lcm.agentFilt m P g t (states.getD k []) c)
    (fun k c e y => valueOf (agentObj m P g t next (states.getD k []) c e y))
    (fun k c e y => valueOf (agentObj m' P g t next (states.getD k []) c e y))
    (fun k c e y => feasibleOf (agentObj m P g t next (states.getD k []) c e y))
    (fun k c e y => feasibleOf (agentObj m' P g t next (states.getD k []) c e y))
    (fun k c e y => (h.uAndF g t next _).1)
    (fun k c e y hf => by
      show valueOf (Lcm.uAndF m' P g t next _) = valueOf (Lcm.uAndF m P g t next _)
      rw [(h.uAndF g t next _).2 hf]) i]

/-- one period of `simulate` for the whole batch: the same records and the same next states -/
theorem UtilityAgreesOnFeasible.simulatePeriod (h : UtilityAgreesOnFeasible m m' P) (g : Groups) (t : Nat)
    (next : Option (Tensor Ext × List (List (Name × Rat)))) (states : List (List (Name × Rat))) (draws : Draws) :
    simulatePeriod m' P g t next states draws = simulatePeriod m P g t next states draws := by
  unfold Lcm.simulatePeriod
  simp only []
  have hrec : (fun i => Lcm.agentDecision m' P g t next states i) = (fun i => Lcm.agentDecision m P g t next states i) := by
    funext i; exact h.agentDecision g t next states i
  rw [hrec, h.finfo]
  congr 1
  apply List.map_congr_left
  intro i _
  apply List.map_congr_left
  intro nf hnf
  rw [List.mem_filter] at hnf
  have hne : nf.name ≠ "utility" := h.names nf hnf.1 (Or.inr (Or.inr hnf.2))
  rw [h.funcs _ hne, h.other _ _ hne]


theorem SameButUtility.simNext (h : SameButUtility m m' P) (V : List (Tensor Ext)) (t : Nat) :
    simNext m' P V t = simNext m P V t := by
  unfold Lcm.simNext
  rw [h.periods, h.grp, h.mkSpace]

theorem UtilityAgreesOnFeasible.periodOut (h : UtilityAgreesOnFeasible m m' P) (V : List (Tensor Ext)) (draws : Draws)
    (t : Nat) (states : List (List (Name × Rat))) :
    periodOut m' P V draws t states = periodOut m P V draws t states := by
  unfold Lcm.periodOut
  rw [h.toSameButUtility.simNext, h.grp]
  exact h.simulatePeriod _ _ _ _ _

theorem UtilityAgreesOnFeasible.statesAt (h : UtilityAgreesOnFeasible m m' P) (hstates : m'.states = m.states)
    (V : List (Tensor Ext)) (init : List (List (Name × Rat))) (draws : Draws) (t : Nat) :
    statesAt m' P V init draws t = statesAt m P V init draws t := by
  induction t with
  | zero => rfl
  | succ t ih =>
    rw [statesAt_succ, statesAt_succ, ih, h.periodOut]
    unfold rekey
    rw [hstates]

/-- **the whole simulation**: the same panel -/
theorem simulate_eq_of_utility_agrees_on_feasible (h : UtilityAgreesOnFeasible m m' P) (hstates : m'.states = m.states)
    (V : List (Tensor Ext)) (init : List (List (Name × Rat))) (draws : Draws) :
    simulate m' P V init draws true = simulate m P V init draws true := by
  rw [simulate_eq_map, simulate_eq_map, h.periods]
  apply List.map_congr_left
  intro t _
  rw [h.statesAt hstates, h.periodOut]

#print axioms simulate_eq_of_utility_agrees_on_feasible
end Lcm
