import LcmModel.Sim
import LcmProofs.SolveFull
namespace Lcm

/-! The forward loop of the executable `simulate`: period `t` uses the value array of period `t+1`
(none in the last period) and the states produced by period `t-1`. -/

/-- continuation used by `simulate` in period `t` (with the F1 repair: the feasible restricted states
of period `t+1`) -/
def simNext (m : Model) (P : Params) (V : List (Tensor Ext)) (t : Nat) :
    Option (Tensor Ext × List (List (Name × Rat))) :=
  if t + 1 < m.nPeriods then
    some (V.getD (t + 1) default, (mkSpace m P (groups m) (t + 1)).feas)
  else none

theorem simNext_eq_nextOf (m : Model) (P : Params) (V : List (Tensor Ext)) (t : Nat) :
    simNext m P V t = nextOf m P V t := rfl

/-- the next-state dict re-keyed by state name, in declaration order of the states -/
def rekey (m : Model) (nxt : List (List (Name × Rat))) : List (List (Name × Rat)) :=
  nxt.map fun a => m.states.map fun s => (s.1, ((a.find? (·.1 == s.1)).map (·.2)).getD 0)

/-- output of one period of the loop -/
def periodOut (m : Model) (P : Params) (V : List (Tensor Ext)) (draws : Draws) (t : Nat)
    (states : List (List (Name × Rat))) : List Record × List (List (Name × Rat)) :=
  simulatePeriod m P (groups m) t (simNext m P V t) states draws

/-- states after `j` periods starting in period `t` with `states` -/
def statesFrom (m : Model) (P : Params) (V : List (Tensor Ext)) (draws : Draws) :
    Nat → Nat → List (List (Name × Rat)) → List (List (Name × Rat))
  | 0, _, s => s
  | j + 1, t, s => statesFrom m P V draws j (t + 1) (rekey m (periodOut m P V draws t s).2)

theorem go_eq_sim (m : Model) (P : Params) (V : List (Tensor Ext)) (draws : Draws) (k t : Nat)
    (states : List (List (Name × Rat))) :
    simulate.go m P V draws true (groups m) m.nPeriods k t states
      = (List.range k).map fun j =>
          (periodOut m P V draws (t + j) (statesFrom m P V draws j t states)).1 := by
  induction k generalizing t states with
  | zero => simp [simulate.go]
  | succ k ih =>
    simp only [simulate.go]
    rw [List.range_succ_eq_map, List.map_cons, List.map_map]
    congr 1
    rw [ih]
    apply List.map_congr_left
    intro j _
    simp only [Function.comp, statesFrom]
    have : t + 1 + j = t + (j + 1) := by omega
    rw [this]
    rfl

/-- states of all agents at the start of period `t` -/
def statesAt (m : Model) (P : Params) (V : List (Tensor Ext)) (init : List (List (Name × Rat)))
    (draws : Draws) (t : Nat) : List (List (Name × Rat)) :=
  statesFrom m P V draws t 0 init

/-- **the records of period `t`** are the per-period decisions at the states of period `t` -/
theorem simulate_getD (m : Model) (P : Params) (V : List (Tensor Ext)) (init : List (List (Name × Rat)))
    (draws : Draws) (t : Nat) (ht : t < m.nPeriods) :
    (simulate m P V init draws true).getD t []
      = (periodOut m P V draws t (statesAt m P V init draws t)).1 := by
  unfold simulate
  rw [go_eq_sim]
  rw [List.getD_eq_getElem?_getD, List.getElem?_map, List.getElem?_range ht]
  simp [statesAt]

theorem simulate_length (m : Model) (P : Params) (V : List (Tensor Ext)) (init : List (List (Name × Rat)))
    (draws : Draws) : (simulate m P V init draws true).length = m.nPeriods := by
  unfold simulate; rw [go_eq_sim]; simp

theorem statesFrom_succ (m : Model) (P : Params) (V : List (Tensor Ext)) (draws : Draws) (j t : Nat)
    (s : List (List (Name × Rat))) :
    statesFrom m P V draws (j + 1) t s
      = rekey m (periodOut m P V draws (t + j) (statesFrom m P V draws j t s)).2 := by
  induction j generalizing t s with
  | zero => simp [statesFrom]
  | succ j ih =>
    rw [statesFrom, ih]
    have : t + 1 + j = t + (j + 1) := by omega
    rw [this]
    rfl

/-- **law of motion of the loop**: the states of period `t+1` are the re-keyed next states computed in
period `t` from the states of period `t` -/
theorem statesAt_succ (m : Model) (P : Params) (V : List (Tensor Ext)) (init : List (List (Name × Rat)))
    (draws : Draws) (t : Nat) :
    statesAt m P V init draws (t + 1)
      = rekey m (periodOut m P V draws t (statesAt m P V init draws t)).2 := by
  unfold statesAt
  rw [statesFrom_succ]
  simp

theorem statesAt_zero (m : Model) (P : Params) (V : List (Tensor Ext)) (init : List (List (Name × Rat)))
    (draws : Draws) : statesAt m P V init draws 0 = init := rfl

/-- one period produces one record per agent, and the record of agent `i` is its own decision -/
theorem periodOut_records (m : Model) (P : Params) (V : List (Tensor Ext)) (draws : Draws) (t : Nat)
    (states : List (List (Name × Rat))) :
    (periodOut m P V draws t states).1
      = (List.range states.length).map fun i => agentDecision m P (groups m) t (simNext m P V t) states i := rfl

theorem periodOut_record_getD (m : Model) (P : Params) (V : List (Tensor Ext)) (draws : Draws) (t : Nat)
    (states : List (List (Name × Rat))) (i : Nat) (hi : i < states.length) :
    (periodOut m P V draws t states).1.getD i default
      = agentDecision m P (groups m) t (simNext m P V t) states i := by
  rw [periodOut_records, List.getD_eq_getElem?_getD, List.getElem?_map, List.getElem?_range hi]
  rfl

theorem agentDecision_states (m : Model) (P : Params) (g : Groups) (t : Nat)
    (next : Option (Tensor Ext × List (List (Name × Rat)))) (states : List (List (Name × Rat))) (i : Nat) :
    (agentDecision m P g t next states i).states = states.getD i [] := rfl

#print axioms simulate_getD
end Lcm
