"""C13 - the simulation result is a complete, correctly indexed panel.

Oracle on the returned DataFrame: number of rows, (period, initial_state_id) index in period-major order,
column set, `_period == t`, row (t, i) = agent i (through the step-wise law of motion of C03 and the
period-0 states), and every additional target column equal to the Lean model's by-name evaluation
(`callF`) of that function at the row's states, choices, period and parameters.
"""
from __future__ import annotations

import random

from fractions import Fraction as Fr

from common import driver, fr, impl, same_number
from dsl import params_json
from gen import strip
from props.simcommon import base_out, replay_case, run_panel, sim_cases

CANARY = True
RULE = ("cases = generated dyadic specifications x batches of 1/6/7/11 agents x 1-4 periods x random subsets of additional targets "
        "(auxiliary functions, utility, constraints, deterministic transitions); distinct = structural signature + target classes; "
        "evaluations = frame cells checked")
ASSUMPTIONS = ["exact comparison on dyadic inputs"]


def target_pool(mj):
    out = []
    for f in mj["functions"]:
        n = f["name"]
        if f.get("stochastic") or n.endswith("_filter"):
            continue
        out.append(n)
    return out


def cases(seed, tier):
    cs = sim_cases(seed + 2, tier)
    for i, c in enumerate(cs):
        c["targets_mode"] = ["some", "all", "none", "one"][i % 4]
        if i % 5 == 3:
            c["starved"] = True
        if i % 9 == 4:
            c["n_agents"] = 600       # panels beyond 1024 rows (whatever is evaluated in blocks must not show)
            c["targets_mode"] = "some"
        if i % 4 == 1:
            # utility written with a reduction over a stacked vector (not broadcast-safe) and requested as a target
            c["force"] = sorted(set((c["force"] or []) + ["stacked"]))
    return cs


def run_case(case):
    # choose targets deterministically from the case seed
    from pipeline import materialise_case

    mj, _, _, _ = materialise_case(case)
    r = random.Random(case.get("seed", 0) + 17)
    pool = target_pool(mj)
    mode = case.get("targets_mode", "some")
    if "targets" in case:
        targets = case["targets"]
    elif mode == "none" or not pool:
        targets = None
    elif mode == "all":
        targets = pool[:]
        r.shuffle(targets)
    elif mode == "one":
        targets = [r.choice(pool)]
    else:
        targets = r.sample(pool, k=r.randint(1, len(pool)))
    info = run_panel(case, want_targets=targets)
    out = base_out(info, case)
    out["sig"] += "|targets:" + ",".join(sorted({_cls(t) for t in (targets or [])}))
    if "skip" in info:
        out["skipped"] = info["skip"]
        return out
    rc = replay_case(info, case) if "init" in info else None
    if rc is not None:
        rc["targets"] = targets
    if "raise" in info:
        out["violations"].append({"clause": "simulate runs on a supported specification", "detail": info["raise"], "key": info["raise_key"], "shrink_case": rc})
        return out
    df, rows = info["df"], info["rows"]
    T = mj["n_periods"]
    n = case.get("n_agents", 6)
    vs = []
    if len(df) != T * n:
        vs.append({"clause": "n_periods * n_agents rows", "detail": f"{len(df)} rows for T={T}, n={n}"})
    else:
        want_index = [(t, i) for t in range(T) for i in range(n)]
        if [tuple(int(x) for x in ix) for ix in df.index] != want_index:
            vs.append({"clause": "index (period, initial_state_id) in period-major order", "detail": f"first index entries {list(df.index)[:5]}"})
    if list(df.index.names) != ["period", "initial_state_id"]:
        vs.append({"clause": "index names", "detail": str(list(df.index.names))})
    want_cols = {"value", "_period"} | {c for c, _ in mj["choices"]} | {s for s, _ in mj["states"]} | set(targets or [])
    if set(df.columns) != want_cols:
        vs.append({"clause": "columns: value, choices, states, _period, targets", "detail": f"extra {sorted(set(df.columns) - want_cols)}, missing {sorted(want_cols - set(df.columns))}"})
    n_want = 2 + len(mj["choices"]) + len(mj["states"]) + len(targets or [])
    if set(df.columns) == want_cols and len(df.columns) != n_want:
        vs.append({"clause": "one column each for the value, every choice, every state, _period and every target",
                   "detail": f"{len(df.columns)} columns {list(df.columns)} for {n_want} quantities (value, _period, choices {[c for c, _ in mj['choices']]}, states {[s for s, _ in mj['states']]}, targets {targets or []})"})
    res = info["res"]
    vs += res["C13"]
    # row (t, i) describes agent i: inherited from the step-wise relations
    for v in res["C03"][:2]:
        vs.append({"clause": "row (t, i) describes agent i in period t", "detail": v["detail"]})
    cells = res["stats"]["agent_periods"] * (2 + len(mj["choices"]) + len(mj["states"]))
    if targets and not vs:
        req_rows = []
        for t in range(T):
            for i in range(n):
                env = [[s, fr(rows[t][i]["states"][s])] for s, _ in mj["states"]] + [[c, fr(rows[t][i]["choices"][c])] for c, _ in mj["choices"]]
                req_rows.append({"env": env, "t": t})
        ans = driver().call({"op": "eval_funcs", "model": strip(mj), "params": params_json(info["P"]), "names": targets, "rows": req_rows})
        import numpy as np

        for k, name in enumerate(targets):
            col = np.asarray(df[name])
            for ridx, a in enumerate(ans):
                cells += 1
                if a[k] is None:
                    continue
                if not same_number(float(col[ridx]), a[k]):
                    vs.append({"clause": "target column equals the model function at the row", "detail": f"target {name} row {divmod(ridx, n)}: frame {fr(float(col[ridx]))}, model {a[k]}"})
                    break
    # consequences of the target theorems, checked on the frame alone (no model evaluation involved):
    # C13_constraint_targets_hold, C13_last_period_utility_target_is_value, C13_transition_target_is_next_state
    if targets and not vs:
        import numpy as np

        val = np.asarray(df["value"], dtype=float)
        for name in targets:
            col = np.asarray(df[name]).astype(float)
            bad = None
            if _cls(name) == "constraint":
                bad = next((r for r in range(len(col)) if np.isfinite(val[r]) and not col[r] == 1.0), None)
                what = "a constraint target is true in every row with a finite value"
            elif name == "utility":
                bad = next((r for r in range((T - 1) * n, T * n) if np.isfinite(val[r]) and not abs(col[r] - val[r]) <= 1e-9 * max(1.0, abs(val[r]))), None)
                what = "the utility target of the last period is the value column"
            elif _cls(name) == "next" and name[5:] in df.columns:
                nxt = np.asarray(df[name[5:]], dtype=float)
                bad = next((r for r in range((T - 1) * n) if not (col[r] == nxt[r + n] or (np.isnan(col[r]) and np.isnan(nxt[r + n])))), None)
                what = "a deterministic-transition target is the state column one period later"
            cells += len(col)
            if bad is not None:
                vs.append({"clause": what, "detail": f"target {name} row {divmod(bad, n)}: target {float(col[bad])!r}, value {float(val[bad])!r}"
                           + (f", state {name[5:]} in the next period {float(np.asarray(df[name[5:]], dtype=float)[bad + n])!r}" if _cls(name) == "next" and name[5:] in df.columns else "")})
                break
        out["hist"]["frame_internal_target_relations"] = 1
    # second call on the *same* function object with other parameters and the same target list: the target columns
    # must follow the parameters of the current call
    if targets and not vs:
        import copy
        from dsl import params_impl
        from pipeline import init_impl

        P2 = copy.deepcopy(info["P"])
        bump = [Fr(3, 4), Fr(5, 4), Fr(-1, 4), Fr(7, 4), Fr(1, 8)]
        k = 0
        for f in P2["funcs"]:
            for p in P2["funcs"][f]:
                P2["funcs"][f][p] = P2["funcs"][f][p] + bump[k % len(bump)]
                k += 1
        if k:
            try:
                df2 = info["fns"].simulate(params_impl(P2), initial_states=init_impl(mj, info["init"], int_cont=bool(case.get("int_init"))),
                                           vf_arr_list=[impl().jnp.asarray(v) for v in info["V"]], seed=info["sim_seed"], additional_targets=targets)
                from pipeline import frame_rows

                rows2 = frame_rows(df2, mj, n)
                req_rows = [{"env": [[s, fr(rows2[t][i]["states"][s])] for s, _ in mj["states"]] + [[c, fr(rows2[t][i]["choices"][c])] for c, _ in mj["choices"]], "t": t}
                            for t in range(T) for i in range(n)]
                ans2 = driver().call({"op": "eval_funcs", "model": strip(mj), "params": params_json(P2), "names": targets, "rows": req_rows})
                import numpy as np

                for kk, name in enumerate(targets):
                    col = np.asarray(df2[name])
                    for ridx, a in enumerate(ans2):
                        cells += 1
                        if a[kk] is not None and not same_number(float(col[ridx]), a[kk]):
                            vs.append({"clause": "target column equals the model function at the row (second call, other parameters)",
                                       "detail": f"target {name} row {divmod(ridx, n)}: frame {fr(float(col[ridx]))}, model {a[kk]} (parameters of the second call on the same function object)"})
                            break
                    if vs:
                        break
                out["hist"]["second_call_other_params"] = 1
            except Exception as e:  # noqa: BLE001
                from common import impl_site

                vs.append({"clause": "a second call with other parameters runs", "detail": f"{impl_site(e)}: {str(e)[:200]}"})
    out["evals"] = cells
    out["hist"][f"targets={mode}"] = 1
    for v in vs[:3]:
        v["key"] = "C13:" + v["clause"]
        v["shrink_case"] = rc
        out["violations"].append(v)
    out["sample"] = {"n_rows": len(df), "columns": list(df.columns), "targets": targets, "index_head": [tuple(int(x) for x in ix) for ix in df.index[:3]]}
    return out


def _cls(n):
    if n.endswith("_constraint"):
        return "constraint"
    if n.startswith("next_"):
        return "next"
    return "utility" if n == "utility" else "aux"
