"""C16 - a grid is either rejected or materialises exactly as specified.

Tie: constructor outcome of `LinspaceGrid` / `LogspaceGrid` / `DiscreteGrid` for generated Python values
(ints, floats of all signs, 0, +-inf, nan, bools, strings, None, other objects; category classes with int /
float / bool / str / missing / duplicate / non-consecutive fields, non-dataclasses) against the Lean decision
logic `validateContinuous` / `validateLogspace` / `validateDiscrete` (Python comparison semantics modelled).
Oracle on every accepted grid: `to_jax()` has exactly n_points finite, strictly increasing values, first =
start, last = stop (n >= 2), equally spaced on the linear resp. logarithmic scale; an accepted discrete grid
materialises to its codes 0, 1, 2, ...
"""
from __future__ import annotations

import math
import random
from dataclasses import field, make_dataclass
from fractions import Fraction as Fr

from common import driver, fr, impl, impl_site
from props.c12 import pyval_json

RULE = ("cases = generated constructor arguments: start/stop in {ints, floats, bools, +-inf, nan, str, None, list}, n_points in {ints incl. <= 0, "
        "bools, floats, None}; category classes with 0-4 fields of mixed types, non-dataclasses; distinct = (grid class, argument type "
        "pattern, outcome); evaluations = constructor calls classified + materialised grids checked")
ASSUMPTIONS = ["values stay within 1e-30 <= |x| <= 1e30 with relative spacing >= 1e-6 (float range is outside the exact model)", "jax_enable_x64 = True"]


def cases(seed, tier):
    n = 60 if tier == "quick" else 600
    return [{"seed": seed * 1_000_003 + 16001 + i, "batch": 40} for i in range(n)]


# explicit witnesses: {"seed": 0, "calls": [["lin"|"log", start, stop, n_points], ...]}; "inf"/"nan" as strings


def rnd(r):
    k = r.random()
    if k < 0.30:
        return r.randint(-3, 6)
    if k < 0.60:
        return r.choice([r.randint(-12, 24) / 4, r.uniform(-50, 50), r.uniform(1e-3, 1e3), 0.0, -0.0])
    if k < 0.68:
        return r.choice([True, False])
    if k < 0.80:
        return r.choice([math.inf, -math.inf, math.nan])
    if k < 0.87:
        return "x"
    if k < 0.93:
        return None
    return [1]


def tname(v):
    if isinstance(v, float):
        return "nan" if v != v else ("inf" if math.isinf(v) else "float")
    return type(v).__name__


def run_case(case):
    I = impl()
    np = I.np
    from lcm import DiscreteGrid, LinspaceGrid, LogspaceGrid
    from lcm.exceptions import GridInitializationError

    r = random.Random(case["seed"])
    out = {"nontrivial": True, "evals": 0, "violations": [], "corr_breaks": [], "hist": {}, "sigs": set()}
    vs = out["violations"]
    sigs = set()
    sample = None
    explicit = list(case.get("calls", []))
    for _ in range(len(explicit) if explicit else case.get("batch", 40)):
        which = explicit[0][0] if explicit else r.choice(["lin", "lin", "log", "disc"])
        if which in ("lin", "log"):
            a, b = rnd(r), rnd(r)
            if r.random() < 0.5 and isinstance(a, (int, float)) and not isinstance(a, bool) and a == a and not math.isinf(a):
                b = a + r.choice([0.5, 1, 2.5, 10, -1, 0])     # mostly ordered pairs
            if which == "log" and r.random() < 0.5:
                a = r.choice([0.1, 0.5, 1, 2, 3.5])
                b = a * r.choice([2, 10, 0.5, 1])
            n = rnd(r) if r.random() < 0.3 else r.randint(-1, 7)
            if r.random() < 0.08:
                # bounds many orders of magnitude apart (representable in float64; the harness runs with x64), normal numbers only
                a = r.choice([1e-200, 1e-300, 1e-150, 2.5e-120, 1.0, 3.0])
                b = r.choice([1e200, 1e10, 1e150, 1e300, 4e250])
                n = r.randint(2, 7)
                out["hist"][f"{which}:extreme_magnitudes"] = out["hist"].get(f"{which}:extreme_magnitudes", 0) + 1
            if r.random() < 0.05:
                # Python ints beyond the int64 range (all exactly representable as floats) and beyond the float range
                a = r.choice([0, 1, -2**70, 2**64, -10**400])
                b = r.choice([2**64, 2**70, 3 * 2**80, 10**400, 2**1024, 2**1023])
                n = r.randint(2, 4)
                out["hist"][f"{which}:huge_ints"] = out["hist"].get(f"{which}:huge_ints", 0) + 1
            if explicit:
                _, a, b, n = explicit.pop(0)
                a, b = (float(x) if isinstance(x, str) else x for x in (a, b))
            cls = LinspaceGrid if which == "lin" else LogspaceGrid
            try:
                g = cls(start=a, stop=b, n_points=n)
                outcome = "accepted"
            except GridInitializationError:
                outcome = "GridInit"
                g = None
            except Exception as e:  # noqa: BLE001
                outcome = f"Internal:{impl_site(e)}"
                g = None
            want = driver().call({"op": "grid_validate", "start": pyval_json(a), "stop": pyval_json(b), "n": pyval_json(n), "repaired": True, "log": which == "log"})
            out["evals"] += 1
            sigs.add((which, tname(a), tname(b), tname(n), outcome))
            out["hist"][f"{which}:{outcome.split(':')[0]}"] = out["hist"].get(f"{which}:{outcome.split(':')[0]}", 0) + 1
            desc = f"{cls.__name__}(start={a!r}, stop={b!r}, n_points={n!r})"
            if outcome.startswith("Internal"):
                vs.append({"clause": "constructing a grid either raises the grid initialization error or yields a grid", "detail": f"{desc}: {outcome}", "key": "C16:errkind"})
                continue
            if (outcome == "accepted") != bool(want):
                # the property decides which side is wrong: an accepted grid must materialise as specified
                if outcome == "accepted":
                    bad = materialise_check(np, g, a, b, n, which)
                    if bad:
                        vs.append({"clause": "an accepted grid materialises exactly as specified", "detail": f"{desc}: {bad} (the model rejects this input)", "key": "C16:materialise"})
                    else:
                        out["corr_breaks"].append({"clause": "acceptance decision as in the model", "detail": f"{desc}: implementation accepts, model rejects", "key": "C16:decision", "nofail": True})
                else:
                    out["corr_breaks"].append({"clause": "acceptance decision as in the model", "detail": f"{desc}: implementation rejects, model accepts", "key": "C16:decision", "nofail": True})
                continue
            if outcome == "accepted":
                bad = materialise_check(np, g, a, b, n, which)
                if bad:
                    vs.append({"clause": "an accepted grid materialises exactly as specified", "detail": f"{desc}: {bad}", "key": "C16:materialise"})
                elif sample is None:
                    sample = {"call": desc, "to_jax": [float(x) for x in np.asarray(g.to_jax())][:6]}
                # twin: the other grid class with the *same* start/stop/n_points, materialised in the same process
                if not bad and isinstance(n, int) and not isinstance(n, bool) and n >= 3 and not isinstance(a, bool) and float(a) > 0:
                    other = "log" if which == "lin" else "lin"
                    try:
                        g2 = (LogspaceGrid if other == "log" else LinspaceGrid)(start=a, stop=b, n_points=n)
                        bad2 = materialise_check(np, g2, a, b, n, other) or materialise_check(np, g, a, b, n, which)
                        out["evals"] += 1
                        out["hist"]["twin_grids"] = out["hist"].get("twin_grids", 0) + 1
                        if bad2:
                            vs.append({"clause": "an accepted grid materialises exactly as specified (both grid classes with equal start/stop/n_points in one process)",
                                       "detail": f"{desc} then {'LogspaceGrid' if other == 'log' else 'LinspaceGrid'} with the same arguments: {bad2}", "key": "C16:twin"})
                    except GridInitializationError:
                        pass
        else:
            k = r.randint(0, 4)
            big = r.random() < 0.12
            if big:
                # many categories (all valid codes): sizes around the limits of the small integer types
                k = r.choice([127, 128, 129, 200, 255, 256, 257, 300, 1000])
            vals = []
            for i in range(k):
                m = 0.0 if big else r.random()
                if m < 0.6:
                    vals.append(i)
                elif m < 0.7:
                    vals.append(float(i))
                elif m < 0.78:
                    vals.append(bool(i % 2))
                elif m < 0.86:
                    vals.append(r.choice([i + 1, i - 1, 0, 7]))
                else:
                    v = rnd(r)
                    vals.append(None if isinstance(v, list) else v)
            isdc = r.random() < 0.9
            if isdc and vals and r.random() < 0.2:
                # the codes are what `Cat.<name>` evaluates to: declared with other defaults, then re-assigned on the class
                # (or overridden in a subclass) - the declared defaults are not the codes
                decl = [r.choice([i, i, 0, i + 1]) for i in range(len(vals))]
                kls = make_dataclass("Cat", [(f"c{i}", object, field(default=v)) for i, v in enumerate(decl)])
                for i, v in enumerate(vals):
                    setattr(kls, f"c{i}", v)
                out["hist"]["disc:codes_reassigned"] = out["hist"].get("disc:codes_reassigned", 0) + 1
            elif isdc:
                kls = make_dataclass("Cat", [(f"c{i}", object, field(default=v)) for i, v in enumerate(vals)])
            else:
                kls = type("Plain", (), {f"c{i}": v for i, v in enumerate(vals)})
            try:
                g = DiscreteGrid(kls)
                outcome = "accepted"
            except GridInitializationError:
                outcome = "GridInit"
            except Exception as e:  # noqa: BLE001
                outcome = f"Internal:{impl_site(e)}"
            want = driver().call({"op": "discrete_validate", "dataclass": isdc, "vals": [pyval_json(v) for v in vals]})
            out["evals"] += 1
            sigs.add(("disc", isdc, tuple(tname(v) for v in vals), outcome))
            out["hist"][f"disc:{outcome.split(':')[0]}"] = out["hist"].get(f"disc:{outcome.split(':')[0]}", 0) + 1
            desc = f"DiscreteGrid(dataclass={isdc}, field values={vals!r})" if len(vals) < 20 else f"DiscreteGrid(dataclass={isdc}, field values=0..{len(vals) - 1})"
            if big:
                out["hist"]["disc:many_categories"] = out["hist"].get("disc:many_categories", 0) + 1
            numerically_codes = isdc and len(vals) > 0 and all(isinstance(v, (int, float)) and v == i for i, v in enumerate(vals))
            if outcome.startswith("Internal"):
                vs.append({"clause": "constructing a grid either raises the grid initialization error or yields a grid", "detail": f"{desc}: {outcome}", "key": "C16:errkind"})
            elif (outcome == "accepted") != numerically_codes:
                vs.append({"clause": "a discrete grid is accepted exactly when its category class is a dataclass whose field values are numerically 0, 1, 2, ...", "detail": f"{desc}: {outcome}", "key": "C16:discrete-iff"})
            elif (outcome == "accepted") != bool(want):
                out["corr_breaks"].append({"clause": "acceptance decision as in the model", "detail": f"{desc}: implementation {outcome}, model {want}", "key": "C16:decision", "nofail": True})
            elif outcome == "accepted":
                arr = np.asarray(g.to_jax())
                if [float(x) for x in arr] != [float(i) for i in range(len(vals))]:
                    vs.append({"clause": "the array form of a discrete grid is its codes", "detail": f"{desc}: {arr.tolist()[:12]}...{arr.tolist()[-4:]}", "key": "C16:codes"})
    out["sig"] = None
    out["sample"] = sample
    out["_sigs"] = sorted(map(repr, sigs))
    # one signature per distinct (class, type pattern, outcome): report through the hist and count via sig list
    out["sig"] = "|".join(out["_sigs"][:1]) + f"#{len(sigs)}:{case['seed']}"
    out["hist"]["distinct_patterns_in_batch"] = len(sigs)
    del out["sigs"], out["_sigs"]
    vs[:] = vs[:3]
    return out


def materialise_check(np, g, a, b, n, which):
    try:
        arr = np.asarray(g.to_jax(), dtype=float)
    except Exception as e:  # noqa: BLE001
        return f"to_jax() raised {type(e).__name__}: {str(e)[:100]}"
    raw = np.asarray(g.to_jax())
    # bool bounds make jnp compute in float32 even under x64: the oracle's tolerance follows the dtype of the result
    f32 = raw.dtype == np.float32
    e0, e1, e2 = (2e-6, 2e-6, 1e-4) if f32 else (1e-12, 1e-9, 1e-7)
    n = int(n)
    if arr.shape != (n,):
        return f"shape {arr.shape}, expected ({n},)"
    if not np.all(np.isfinite(arr)):
        return f"non-finite values {arr.tolist()[:6]}"
    if n >= 2 and not np.all(np.diff(arr) > 0):
        return f"not strictly increasing: {arr.tolist()[:6]}"
    if abs(arr[0] - float(a)) > e0 * max(1.0, abs(float(a))):
        return f"first element {arr[0]} != start {a}"
    if n >= 2 and abs(arr[-1] - float(b)) > e1 * max(1.0, abs(float(b))):
        return f"last element {arr[-1]} != stop {b}"
    if n >= 3:
        d = np.diff(arr) if which == "lin" else np.diff(np.log(arr))
        if np.max(np.abs(d - d.mean())) > e2 * max(1e-300, abs(d.mean())):
            return f"not equally spaced on the {'linear' if which == 'lin' else 'logarithmic'} scale: {arr.tolist()[:6]}"
    return None
