import LcmProofs.SimLoop
import LcmProofs.SimIndep
import LcmProofs.SimPeriod
namespace Lcm

/-! Batch structure of the executable `simulate`: every period has one record per agent, agent `i`'s
decision depends on its own state only, the panel is period-major. -/

theorem periodOut_fst_length (m : Model) (P : Params) (V : List (Tensor Ext)) (draws : Draws) (t : Nat)
    (states : List (List (Name × Rat))) : (periodOut m P V draws t states).1.length = states.length := by
  rw [periodOut_records]; simp

theorem periodOut_snd_length (m : Model) (P : Params) (V : List (Tensor Ext)) (draws : Draws) (t : Nat)
    (states : List (List (Name × Rat))) : (periodOut m P V draws t states).2.length = states.length := by
  simp [periodOut, simulatePeriod]

theorem rekey_length (m : Model) (nxt : List (List (Name × Rat))) : (rekey m nxt).length = nxt.length := by
  simp [rekey]

/-- the number of agents is constant over the periods -/
theorem statesAt_length (m : Model) (P : Params) (V : List (Tensor Ext)) (init : List (List (Name × Rat)))
    (draws : Draws) (t : Nat) : (statesAt m P V init draws t).length = init.length := by
  induction t with
  | zero => rfl
  | succ t ih => rw [statesAt_succ, rekey_length, periodOut_snd_length, ih]

/-- every period of the result has exactly one record per agent -/
theorem simulate_period_length (m : Model) (P : Params) (V : List (Tensor Ext))
    (init : List (List (Name × Rat))) (draws : Draws) (t : Nat) (ht : t < m.nPeriods) :
    ((simulate m P V init draws true).getD t []).length = init.length := by
  rw [simulate_getD m P V init draws t ht, periodOut_fst_length, statesAt_length]

/-- `_process_simulated_data`: the panel is the concatenation of the periods -/
def panel (results : List (List Record)) : List Record := results.flatten

theorem panel_length (m : Model) (P : Params) (V : List (Tensor Ext)) (init : List (List (Name × Rat)))
    (draws : Draws) : (panel (simulate m P V init draws true)).length = m.nPeriods * init.length := by
  unfold panel
  rw [List.length_flatten]
  have hall : ∀ l ∈ (simulate m P V init draws true).map List.length, l = init.length := by
    intro l hl
    rw [List.mem_map] at hl
    obtain ⟨recs, hrecs, rfl⟩ := hl
    obtain ⟨t, ht, rfl⟩ := List.getElem_of_mem hrecs
    have ht' : t < m.nPeriods := by rwa [simulate_length] at ht
    have := simulate_period_length m P V init draws t ht'
    rwa [List.getD_eq_getElem?_getD, List.getElem?_eq_getElem ht, Option.getD_some] at this
  rw [List.eq_replicate_of_mem hall]
  simp [simulate_length]

theorem simulate_eq_map (m : Model) (P : Params) (V : List (Tensor Ext)) (init : List (List (Name × Rat)))
    (draws : Draws) :
    simulate m P V init draws true
      = (List.range m.nPeriods).map fun t => (periodOut m P V draws t (statesAt m P V init draws t)).1 := by
  unfold simulate
  rw [go_eq_sim]
  apply List.map_congr_left
  intro t _
  simp [statesAt]

/-- **row `t * n + i` of the panel is the record of agent `i` in period `t`** -/
theorem panel_row (m : Model) (P : Params) (V : List (Tensor Ext)) (init : List (List (Name × Rat)))
    (draws : Draws) (t i : Nat) (ht : t < m.nPeriods) (hi : i < init.length) :
    (panel (simulate m P V init draws true))[t * init.length + i]?
      = ((simulate m P V init draws true).getD t [])[i]? := by
  rw [simulate_getD m P V init draws t ht]
  unfold panel
  rw [simulate_eq_map, ← List.flatMap_def]
  exact getElem?_flatMap_blocks
    (fun t => (periodOut m P V draws t (statesAt m P V init draws t)).1) init.length
    (fun t => by rw [periodOut_fst_length, statesAt_length]) m.nPeriods t i ht hi

/-- **the decision of agent `i` inside a batch equals its decision when simulated alone** (tie rule
included), provided the agent has at least one filter-passing restricted choice -/
theorem agentDecision_alone (m : Model) (P : Params) (g : Groups) (t : Nat)
    (next : Option (Tensor Ext × List (List (Name × Rat)))) (states : List (List (Name × Rat)))
    (i : Nat) (hi : i < states.length)
    (hne : (assignments g.sC).filter (agentFilt m P g t (states.getD i [])) ≠ []) :
    agentDecision m P g t next states i = agentDecision m P g t next [states.getD i []] 0 := by
  unfold agentDecision
  simp only
  rw [simChoice_alone states.length (assignments g.sC) (assignments g.dC) (assignments g.cC)
    (fun k c => agentFilt m P g t (states.getD k []) c)
    (fun k c e y => valueOf (agentObj m P g t next (states.getD k []) c e y))
    (fun k c e y => feasibleOf (agentObj m P g t next (states.getD k []) c e y)) i hi hne]
  rw [simChoice_alone [states.getD i []].length (assignments g.sC) (assignments g.dC) (assignments g.cC)
    (fun k c => agentFilt m P g t ([states.getD i []].getD k []) c)
    (fun k c e y => valueOf (agentObj m P g t next ([states.getD i []].getD k []) c e y))
    (fun k c e y => feasibleOf (agentObj m P g t next ([states.getD i []].getD k []) c e y)) 0 (by simp)
    (by simpa using hne)]
  simp

/-- two batches that contain the same agent state give that agent the same decision -/
theorem agentDecision_batch_irrelevant (m : Model) (P : Params) (g : Groups) (t : Nat)
    (next : Option (Tensor Ext × List (List (Name × Rat)))) (B B' : List (List (Name × Rat)))
    (i i' : Nat) (hi : i < B.length) (hi' : i' < B'.length) (hst : B.getD i [] = B'.getD i' [])
    (hne : (assignments g.sC).filter (agentFilt m P g t (B.getD i [])) ≠ []) :
    agentDecision m P g t next B i = agentDecision m P g t next B' i' := by
  rw [agentDecision_alone m P g t next B i hi hne,
    agentDecision_alone m P g t next B' i' hi' (by rw [← hst]; exact hne), hst]

#print axioms panel_row
#print axioms agentDecision_batch_irrelevant
end Lcm
