import LcmModel.Interp2
import Mathlib.Tactic.Ring
import Mathlib.Algebra.Order.Field.Rat
namespace Lcm

/-- pointwise affine image of a tensor -/
def Tensor.affine (a b : Rat) (t : Tensor Rat) : Tensor Rat :=
  { shape := t.shape, get := fun idx => a * t.get idx + b }

theorem affine_slice (a b : Rat) (t : Tensor Rat) (i : Nat) :
    (Tensor.affine a b t).slice i = Tensor.affine a b (t.slice i) := rfl

/-- interpolation (incl. extrapolation: weights (1-w), w always sum to one) commutes with
pointwise affine maps — the lemma behind C11_affine. -/
theorem interp_affine (a b : Rat) (t : Tensor Rat) (cs : List Rat) :
    interp (Tensor.affine a b t) cs = a * interp t cs + b := by
  induction cs generalizing t with
  | nil => simp [interp, Tensor.affine]
  | cons c cs ih =>
    simp only [interp, affine_slice, ih]
    simp only [Tensor.affine]
    ring

/-- for a fixed clipped cell the interpolant is affine in the first coordinate: linear inside the
cell, linear continuation of the boundary cell outside (C15_affine_per_axis, axis 0). -/
theorem interp_affine_in_coord (t : Tensor Rat) (c : Rat) (cs : List Rat) :
    let lo := lowerIdx' c (t.shape.headD 0)
    interp t (c :: cs) = interp (t.slice lo) cs
      + (c - (lo : Rat)) * (interp (t.slice (lo + 1)) cs - interp (t.slice lo) cs) := by
  simp only [interp]; ring

#print axioms interp_affine
end Lcm
