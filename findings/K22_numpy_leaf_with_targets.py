# Finding 1 (C09): the result of the generated simulate function depends on the *leaf
# type* of params (numpy array vs. jax array with identical values) as soon as
# `additional_targets` is used.
#
# run:  LCM_WT=/tmp/hunt_C09 /venv/bin/python finding_1.py
#
# --- shim -----------------------------------------------------------------------------
import sys, types, os
WT = os.environ.get("LCM_WT")  # path of your worktree, e.g. /tmp/seed_C01
sys.path.insert(0, os.path.join(WT, "src"))
import jax, jax._src.util as _u
m = types.ModuleType("jax.util"); m.safe_zip = _u.safe_zip; m.unzip2 = _u.unzip2
sys.modules["jax.util"] = m; jax.util = m
jax.config.update("jax_enable_x64", True)
import lcm
assert lcm.__file__.startswith(WT), lcm.__file__
# --------------------------------------------------------------------------------------
import jax.numpy as jnp
import numpy as np

from lcm import LinspaceGrid, Model
from lcm.entry_point import get_lcm_function


def utility(consumption, wealth):
    return jnp.log(consumption) + 0 * wealth


def wage(_period, wage_profile):
    # a parameter that is a lookup table (exactly like lcm's own params["shocks"][...])
    return wage_profile[_period]


def next_wealth(wealth, consumption, wage):
    return wealth - consumption + wage


def consumption_constraint(consumption, wealth):
    return consumption <= wealth


model = Model(
    n_periods=3,
    functions={
        "utility": utility,
        "next_wealth": next_wealth,
        "wage": wage,
        "consumption_constraint": consumption_constraint,
    },
    choices={"consumption": LinspaceGrid(start=1, stop=10, n_points=10)},
    states={"wealth": LinspaceGrid(start=1, stop=20, n_points=20)},
)

solve_and_simulate, _ = get_lcm_function(
    model, targets="solve_and_simulate", debug_mode=False
)
initial_states = {"wealth": jnp.array([5.0, 10.0])}
profile = [1.0, 2.0, 3.0]


def make_params(leaf):
    return {
        "beta": 0.9,
        "utility": {},
        "next_wealth": {},
        "consumption_constraint": {},
        "wage": {"wage_profile": leaf},
    }


def call(leaf, **kwargs):
    try:
        return solve_and_simulate(
            make_params(leaf), initial_states=initial_states, **kwargs
        )
    except Exception as e:  # noqa: BLE001
        return e


# 1. Without additional targets both leaf types give the same data frame.
plain_jax = call(jnp.array(profile))
plain_np = call(np.array(profile))
assert not isinstance(plain_jax, Exception), plain_jax
assert not isinstance(plain_np, Exception), plain_np
assert np.array_equal(plain_jax.to_numpy(), plain_np.to_numpy())

# 2. With additional_targets=["wage"] the same two params dicts behave differently.
with_jax = call(jnp.array(profile), additional_targets=["wage"])
with_np = call(np.array(profile), additional_targets=["wage"])

print("input : params['wage']['wage_profile'] = [1., 2., 3.] once as jax array, once")
print("        as numpy array; simulate(..., additional_targets=['wage'])")
print()
print("jax leaf   ->")
print(with_jax if isinstance(with_jax, Exception) else with_jax.to_string())
print()
print("numpy leaf ->")
print(
    f"{type(with_np).__name__}: {str(with_np).splitlines()[0]}"
    if isinstance(with_np, Exception)
    else with_np.to_string()
)
print()

defect = isinstance(with_np, Exception) != isinstance(with_jax, Exception) or (
    not isinstance(with_np, Exception)
    and not np.array_equal(with_np.to_numpy(), with_jax.to_numpy())
)

if defect:
    print(
        "DEFECT: expected the same data frame (column wage = 1, 1, 2, 2, 3, 3) for "
        "both leaf types, because solve and simulate without additional targets "
        "accept both; observed: the numpy leaf crashes inside "
        "lcm.simulate._compute_targets (params are not traced there, so the numpy "
        "table is indexed by a vmap tracer)."
    )
    sys.exit(1)

print("OK: both leaf types give the same result")
sys.exit(0)
