import LcmModel.Space
import LcmModel.Argmax
namespace Lcm
variable {S C E Y : Type}

/-- Continuous problem for one (sparse row, dense discrete choice): masked max over the product of
continuous-choice grids (`u.max(where=f, initial=-inf)` in `create_compute_conditional_continuation_value`). -/
def ccvAt (ccGrid : List Y) (q : S → C → E → Y → Rat) (feas : S → C → E → Y → Bool)
    (s : S) (c : C) (e : E) : Ext :=
  maskedMax (ccGrid.map fun y => Ext.fin (q s c e y)) (ccGrid.map fun y => feas s c e y)

/-- max over the dense discrete choice axes (`out.max(axis=choice_axes)`) -/
def denseMaxAt (dcGrid : List E) (ccGrid : List Y) (q : S → C → E → Y → Rat)
    (feas : S → C → E → Y → Bool) (p : S × C) : Ext :=
  foldMax (dcGrid.map fun e => ccvAt ccGrid q feas p.1 p.2 e)

/-- value of the k-th feasible restricted state, as `_solve_discrete_problem_no_shocks` computes it:
segment max (segments from `create_indexers_and_segments`) of the dense max of the ccv rows stored
for the filter-passing combinations. -/
def vImpl (ssGrid : List S) (scGrid : List C) (filt : S → C → Bool) (dcGrid : List E)
    (ccGrid : List Y) (q : S → C → E → Y → Rat) (feas : S → C → E → Y → Bool) (k : Nat) : Ext :=
  segMaxAt ((combos ssGrid scGrid filt).map (denseMaxAt dcGrid ccGrid q feas))
    (segIdsImpl ssGrid scGrid filt) k

end Lcm
