import LcmProofs.InterpT
import LcmProofs.InterpBounds
import LcmProofs.LogGrid
import LcmProofs.Basic
import LcmProofs.InterpCorners
namespace Lcm

/-! # C15 — interpolation kernel and grid coordinates are exact inverses of the grids

Model: `interp` (`LcmModel/Interp2.lean`), the recursive form of `map_coordinates` (clipped lower index
`clip(floor(c), 0, size-2)`, weights `1-w`, `w` with `w = c - lower`, *not* clipped - hence linear
extrapolation); `coordOf` / `get_linspace_coordinate`; `logCoord` = `get_logspace_coordinate` transcribed
line by line over ℝ (`LcmProofs/LogGrid.lean`; the driver runs the same text over `Float`). -/

/-- the code's corner-product sum (`itertools.product` over the per-axis pairs `[(lower, 1-w), (lower+1, w)]`, product of
the weights times the entry, summed over the 2^rank corners) **equals** the recursive form `interp` that the other
theorems are about - for every rank -/
theorem C15_corner_eq_rec (t : Tensor Rat) (cs : List Rat) (h : cs.length = t.shape.length) :
    interpCorners t cs = interp t cs := interpCorners_eq_interp t cs h

/-- hence the value is the blend of the 2^rank surrounding entries with product weights -/
theorem C15_multilinear (t : Tensor Rat) (cs : List Rat) (h : cs.length = t.shape.length) :
    interp t cs = ((cornerProduct ((t.shape.zip cs).map fun p => axisData p.1 p.2)).map fun corner =>
      weightProduct corner * t.get (corner.map (·.1))).sum := (interpCorners_eq_interp t cs h).symm

/-- integer coordinates return the array entries (any rank, every axis of size ≥ 2) -/
theorem C15_integer_coords (t : Tensor Rat) (idx : List Nat) (hb : InBounds t.shape idx)
    (h2 : ∀ n ∈ t.shape, 2 ≤ n) :
    interp t (idx.map fun (i : Nat) => (i : Rat)) = t.get idx := interp_nodes t idx hb h2

/-- along an axis the interpolant is the blend `(1-w)·lower + w·upper` of the two neighbouring slices, with
weights summing to one; `w` is not clipped, so outside the index range this *is* the linear continuation of
the boundary cell (the 2^rank-corner blend is this recursion unfolded) -/
theorem C15_blend (t : Tensor Rat) (c : Rat) (cs : List Rat) :
    let lo := lowerIdx' c (t.shape.headD 0)
    let w := c - (lo : Rat)
    interp t (c :: cs) = (1 - w) * interp (t.slice lo) cs + w * interp (t.slice (lo + 1)) cs := rfl

/-- for a fixed cell the interpolant is affine in the coordinate: linear between neighbouring nodes, linear
continuation of the boundary cell outside -/
theorem C15_affine_per_axis (t : Tensor Rat) (c : Rat) (cs : List Rat) :
    let lo := lowerIdx' c (t.shape.headD 0)
    interp t (c :: cs) = interp (t.slice lo) cs
      + (c - (lo : Rat)) * (interp (t.slice (lo + 1)) cs - interp (t.slice lo) cs) :=
  interp_affine_in_coord t c cs

/-- the cell used beyond the upper end is the last cell, below the lower end the first cell -/
theorem C15_boundary_cells (c : Rat) (size : Nat) (h2 : 2 ≤ size) :
    (((size : Rat) - 1) ≤ c → lowerIdx' c size = size - 2) ∧ (c ≤ 0 → lowerIdx' c size = 0) := by
  constructor
  · intro hc
    unfold lowerIdx'
    have hf : ((size : Int) - 1) ≤ c.floor := by
      rw [Rat.le_floor_iff]; push_cast; exact hc
    have : min c.floor ((size : Int) - 2) = (size : Int) - 2 := by omega
    rw [this]; omega
  · intro hc
    unfold lowerIdx'
    have hf : c.floor ≤ 0 := by
      have h0 : (0 : Rat).floor = 0 := by decide +kernel
      have : c.floor ≤ (0 : Rat).floor := Rat.floor_monotone hc
      rw [h0] at this; exact this
    have : max 0 (min c.floor ((size : Int) - 2)) = 0 := by omega
    rw [this]; rfl

/-- the lower index never leaves `[0, size-2]`: both touched slices exist -/
theorem C15_cell_in_range (c : Rat) (size : Nat) (h2 : 2 ≤ size) : lowerIdx' c size + 1 < size :=
  lowerIdx'_le c size h2

/-- interpolation commutes with positive-affine maps of the array: the weights sum to one, also when
extrapolating -/
theorem C15_weights_sum_to_one (a b : Rat) (t : Tensor Rat) (cs : List Rat) :
    interp (Tensor.affine a b t) cs = a * interp t cs + b := interp_affine a b t cs

-- ------------------------------------------------------------------ linear grids (exact, every value)
theorem C15_lin_coord_node (a b : Rat) (n i : Nat) (hab : a < b) (hn : 2 ≤ n) :
    coordOf (.lin a b n) (a + (i : Rat) * ((b - a) / ((n : Rat) - 1))) = i := linCoord_node a b n i hab hn

theorem C15_lin_coord_strictMono (a b : Rat) (n : Nat) (hab : a < b) (hn : 2 ≤ n) (v w : Rat) (hvw : v < w) :
    coordOf (.lin a b n) v < coordOf (.lin a b n) w := linCoord_strictMono a b n hab hn v w hvw

theorem C15_lin_roundtrip (a b : Rat) (n : Nat) (hab : a < b) (hn : 2 ≤ n) (v : Rat) :
    interp (linTensor a b n) [coordOf (.lin a b n) v] = v := lin_roundtrip a b n hab hn v

-- ------------------------------------------------------------------ log grids (over ℝ, values > 0)
theorem C15_log_cell (v a b : ℝ) (n : ℕ) (ha : 0 < a) (hab : a < b) (hn : 2 ≤ n) (hv : 0 < v)
    (r : ℝ) (hr : r = ((⌊(Real.log v - Real.log a) / ((Real.log b - Real.log a) / ((n : ℝ) - 1))⌋ : ℤ) : ℝ)) :
    logNode a b n r ≤ v ∧ v < logNode a b n (r + 1) := log_cell v a b n ha hab hn hv r hr

theorem C15_log_coord_in_cell (v a b : ℝ) (n : ℕ) (ha : 0 < a) (hab : a < b) (hn : 2 ≤ n) (hv : 0 < v)
    (r : ℝ) (hr : r = ((⌊(Real.log v - Real.log a) / ((Real.log b - Real.log a) / ((n : ℝ) - 1))⌋ : ℤ) : ℝ)) :
    r ≤ logCoord v a b n ∧ logCoord v a b n < r + 1 := logCoord_in_cell v a b n ha hab hn hv r hr

theorem C15_log_coord_node (a b : ℝ) (n : ℕ) (ha : 0 < a) (hab : a < b) (hn : 2 ≤ n) (k : ℕ) :
    logCoord (logNode a b n k) a b n = k := logCoord_node a b n ha hab hn k

/-- log-grid round trip: blending the two nodes of the cell with the fractional part of the coordinate
returns the value -/
theorem C15_log_roundtrip (v a b : ℝ) (n : ℕ) (ha : 0 < a) (hab : a < b) (hn : 2 ≤ n) (hv : 0 < v)
    (r : ℝ) (hr : r = ((⌊(Real.log v - Real.log a) / ((Real.log b - Real.log a) / ((n : ℝ) - 1))⌋ : ℤ) : ℝ)) :
    let w := logCoord v a b n - r
    (1 - w) * logNode a b n r + w * logNode a b n (r + 1) = v := by
  obtain ⟨hlo, hup⟩ := log_cell v a b n ha hab hn hv r hr
  have hwidth : logNode a b n (r + 1) - logNode a b n r ≠ 0 := by
    have : 0 < logNode a b n (r + 1) - logNode a b n r := by linarith
    exact this.ne'
  intro w
  have hw : w = (v - logNode a b n r) / (logNode a b n (r + 1) - logNode a b n r) := by
    simp only [w]; rw [logCoord_eq v a b n r hr]; ring
  rw [hw]
  field_simp
  ring

/-- strict monotonicity of the log coordinate across cells and inside a cell follows from the cell bounds:
a value in a later cell has a larger coordinate -/
theorem C15_log_coord_mono_across_cells (v w a b : ℝ) (n : ℕ) (ha : 0 < a) (hab : a < b) (hn : 2 ≤ n)
    (hv : 0 < v) (hw : 0 < w)
    (r s : ℝ) (hr : r = ((⌊(Real.log v - Real.log a) / ((Real.log b - Real.log a) / ((n : ℝ) - 1))⌋ : ℤ) : ℝ))
    (hs : s = ((⌊(Real.log w - Real.log a) / ((Real.log b - Real.log a) / ((n : ℝ) - 1))⌋ : ℤ) : ℝ))
    (hrs : r + 1 ≤ s) : logCoord v a b n < logCoord w a b n := by
  have h1 := (logCoord_in_cell v a b n ha hab hn hv r hr).2
  have h2 := (logCoord_in_cell w a b n ha hab hn hw s hs).1
  linarith

/-- inside the array (every coordinate in `[0, size - 1]`) both weights of every axis are non-negative: a pointwise larger
array gives a larger interpolated value, for every rank. Outside, one of the two weights is negative (linear
extrapolation) and the statement fails - the second `example` below. -/
theorem C15_monotone_in_values_inside (t t' : Tensor Rat) (cs : List Rat)
    (hshape : t'.shape = t.shape) (hlen : cs.length = t.shape.length) (h2 : ∀ n ∈ t.shape, 2 ≤ n)
    (hin : ∀ p ∈ cs.zip t.shape, 0 ≤ p.1 ∧ p.1 ≤ (p.2 : Rat) - 1)
    (hle : ∀ idx, InBounds t.shape idx → t.get idx ≤ t'.get idx) :
    interp t cs ≤ interp t' cs :=
  interp_mono t t' cs hshape hlen h2 hin hle

/-- the weight of the upper neighbour lies in `[0, 1]` exactly because the coordinate is inside -/
theorem C15_weights_in_unit_interval_inside (c : Rat) (size : Nat) (h2 : 2 ≤ size) (h0 : 0 ≤ c)
    (h1 : c ≤ (size : Rat) - 1) :
    0 ≤ c - (lowerIdx' c size : Rat) ∧ c - (lowerIdx' c size : Rat) ≤ 1 :=
  weight_mem_unit c size h2 h0 h1

-- non-vacuity
example : interp (linTensor 0 2 3) [coordOf (.lin 0 2 3) (5/2)] = 5/2 := by decide +kernel
example : coordOf (.lin (-1) 1 5) (1/2) = 3 := by decide +kernel
-- inside: larger array, larger value; outside (coordinate 2 on an axis of size 2): the order is reversed
example : let t : Tensor Rat := { shape := [2], get := fun _ => 0 }
    let t' : Tensor Rat := { shape := [2], get := fun idx => if idx.headD 0 = 0 then 1 else 0 }
    interp t [1/3] ≤ interp t' [1/3] ∧ ¬ (interp t [2] ≤ interp t' [2]) := by decide +kernel

end Lcm
