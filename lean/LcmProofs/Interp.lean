import LcmModel.Interp
import Mathlib.Tactic.Ring
import Mathlib.Tactic.Linarith
import Mathlib.Algebra.Order.Field.Rat

namespace Lcm

theorem floor_nat (i : Nat) : Rat.floor (i : Rat) = (i : Int) := by
  have := Rat.floor_intCast (i : Int)
  simpa using this

theorem lowerIdx_int (i size : Nat) (hi : i + 1 < size) :
    lowerIdx (i : Rat) size = i := by
  unfold lowerIdx
  rw [floor_nat]
  omega

theorem lowerIdx_last (size : Nat) (h2 : 2 ≤ size) :
    lowerIdx ((size - 1 : Nat) : Rat) size = size - 2 := by
  unfold lowerIdx
  rw [floor_nat]
  omega

/-- in-bounds read -/
def NArr.get : NArr → List Nat → Option Rat
  | .scalar x, [] => some x
  | .scalar _, _ :: _ => none
  | .arr _, [] => none
  | .arr xs, i :: is => match xs[i]? with | some a => a.get is | none => none

/-- Regular: every level has length ≥ 2 given by shape -/
inductive Shaped : NArr → List Nat → Prop
  | scalar (x) : Shaped (.scalar x) []
  | arr (xs : List NArr) (n : Nat) (s : List Nat) (hlen : xs.length = n) (h2 : 2 ≤ n)
      (h : ∀ a ∈ xs, Shaped a s) : Shaped (.arr xs) (n :: s)

theorem interp_at_nodes (a : NArr) (shape : List Nat) (hs : Shaped a shape)
    (idx : List Nat) (hidx : List.Forall₂ (fun i n => i < n) idx shape) :
    some (interpRec a (idx.map (fun (i : Nat) => (i : Rat)))) = a.get idx := by
  induction hs generalizing idx with
  | scalar x =>
    cases hidx
    simp [interpRec, NArr.get]
  | arr xs n s hlen h2 h ih =>
    cases hidx with
    | cons hi hrest =>
      rename_i i is
      simp only [List.map_cons, interpRec, NArr.get]
      by_cases hlast : i + 1 < n
      · rw [hlen, lowerIdx_int i n hlast]
        have hi' : i < xs.length := by omega
        have hi1 : i + 1 < xs.length := by omega
        simp only [List.getElem?_eq_getElem hi', List.getElem?_eq_getElem hi1]
        have := ih xs[i] (List.getElem_mem hi') is hrest
        rw [← this]
        simp
      · have hi_eq : i = n - 1 := by omega
        subst hi_eq
        rw [hlen, lowerIdx_last n h2]
        have h0 : n - 2 < xs.length := by omega
        have h1 : n - 2 + 1 < xs.length := by omega
        simp only [List.getElem?_eq_getElem h0, List.getElem?_eq_getElem h1]
        have e : n - 2 + 1 = n - 1 := by omega
        have hn1 : n - 1 < xs.length := by omega
        have := ih xs[n-1] (List.getElem_mem hn1) is hrest
        simp only [e, List.getElem?_eq_getElem hn1]
        rw [← this]
        have : ((n - 1 : Nat) : Rat) - ((n - 2 : Nat) : Rat) = 1 := by
          have : ((n - 1 : Nat) : Rat) = ((n - 2 : Nat) : Rat) + 1 := by
            have : n - 1 = (n - 2) + 1 := by omega
            rw [this]; push_cast; ring
          rw [this]; ring
        rw [this]
        simp

#print axioms interp_at_nodes
end Lcm
