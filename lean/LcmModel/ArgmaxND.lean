import LcmModel.Tensor
import LcmModel.SimStep
namespace Lcm

/-- position of `p` in `l` -/
def idxOf (l : List Nat) (p : Nat) : Option Nat := l.findIdx? (· == p)

/-- full index from a front index (over the axes not reduced, ascending) and a block index (over
`axes`, in the order given): `_move_axes_to_back` + `_flatten_last_n_axes` read backwards -/
def mergeIdx (ndim : Nat) (axes : List Nat) (fidx j : List Nat) : List Nat :=
  let front := (List.range ndim).filter fun p => !axes.contains p
  (List.range ndim).map fun p =>
    match idxOf axes p with
    | some q => j.getD q 0
    | none => fidx.getD ((idxOf front p).getD 0) 0

/-- `lcm.argmax.argmax(a, axis=axes, where=mask, initial=-inf)`: per front index, the flattened
(C-order over `axes` as listed) position of the first unmasked maximiser, and the masked max -/
def argmaxND (a : Tensor Ext) (axes : List Nat) (mask : Option (Tensor Bool)) : Tensor Nat × Tensor Ext :=
  let ndim := a.shape.length
  let front := (List.range ndim).filter fun p => !axes.contains p
  let fshape := front.map fun p => a.shape.getD p 0
  let bshape := axes.map fun p => a.shape.getD p 0
  let block := allIdx bshape
  let res := fun (fidx : List Nat) =>
    argmaxBlock (block.map fun j => a.get (mergeIdx ndim axes fidx j))
      (block.map fun j => match mask with | some mk => mk.get (mergeIdx ndim axes fidx j) | none => true)
  ({ shape := fshape, get := fun fidx => (res fidx).1 }, { shape := fshape, get := fun fidx => (res fidx).2 })

end Lcm
