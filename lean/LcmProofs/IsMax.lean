import LcmProofs.SolveStep
namespace Lcm

/-! Generic facts about the order-free specification `IsMaxOver` (DESIGN §3.4). -/

theorem Ext.le_antisymm {a b : Ext} (h1 : Ext.le a b) (h2 : Ext.le b a) : a = b := by
  cases a <;> cases b <;> simp_all [Ext.le]
  exact _root_.le_antisymm h1 h2

/-- `IsMaxOver` determines its value: it *defines* the supremum over the feasible set -/
theorem IsMaxOver.unique {X : Type} {P : X → Prop} {f : X → Rat} {v w : Ext}
    (hv : IsMaxOver P f v) (hw : IsMaxOver P f w) : v = w := by
  obtain ⟨hub, hatt⟩ := hv
  obtain ⟨hub', hatt'⟩ := hw
  rcases hatt with ⟨x, hx, rfl⟩ | ⟨hnone, rfl⟩
  · rcases hatt' with ⟨y, hy, rfl⟩ | ⟨hnone', rfl⟩
    · exact Ext.le_antisymm (hub' x hx) (hub y hy)
    · exact absurd hx (hnone' x)
  · rcases hatt' with ⟨y, hy, rfl⟩ | ⟨_, rfl⟩
    · exact absurd hy (hnone y)
    · rfl

/-- the value is −inf exactly when no element is feasible -/
theorem IsMaxOver.eq_ninf_iff {X : Type} {P : X → Prop} {f : X → Rat} {v : Ext}
    (hv : IsMaxOver P f v) : v = .ninf ↔ ∀ x, ¬ P x := by
  constructor
  · intro h x hx
    have := hv.1 x hx
    rw [h] at this
    simp [Ext.le] at this
  · intro h
    rcases hv.2 with ⟨x, hx, _⟩ | ⟨_, rfl⟩
    · exact absurd hx (h x)
    · rfl

/-- a finite value is attained at a feasible element: an infeasible element never determines it -/
theorem IsMaxOver.attained {X : Type} {P : X → Prop} {f : X → Rat} {v : Ext}
    (hv : IsMaxOver P f v) (hne : v ≠ .ninf) : ∃ x, P x ∧ v = .fin (f x) := by
  rcases hv.2 with h | ⟨_, rfl⟩
  · exact h
  · exact absurd rfl hne

/-- the same feasible set and the same objective on it give the same specification -/
theorem IsMaxOver.congr {X : Type} {P P' : X → Prop} {f f' : X → Rat} {v : Ext}
    (hv : IsMaxOver P f v) (hP : ∀ x, P x ↔ P' x) (hf : ∀ x, P x → f x = f' x) :
    IsMaxOver P' f' v := by
  refine ⟨fun x hx => ?_, ?_⟩
  · have hx' := (hP x).mpr hx
    rw [← hf x hx']; exact hv.1 x hx'
  · rcases hv.2 with ⟨x, hx, hvx⟩ | ⟨hnone, hn⟩
    · exact Or.inl ⟨x, (hP x).mp hx, by rw [← hf x hx]; exact hvx⟩
    · exact Or.inr ⟨fun x hx => hnone x ((hP x).mpr hx), hn⟩

end Lcm
