"""C08 finding 3: the empty batch (the empty subset of any batch) crashes with an internal
ZeroDivisionError instead of returning an empty frame (or a clear error message).

Run:  LCM_WT=/tmp/hunt_C08 /venv/bin/python finding_3.py     (exit 1 = defect present)
"""
# --- shim -----------------------------------------------------------------------------
import sys, types, os
WT = os.environ.get("LCM_WT")
sys.path.insert(0, os.path.join(WT, "src"))
sys.path.insert(0, WT)  # for tests.test_models
import jax, jax._src.util as _u
m = types.ModuleType("jax.util"); m.safe_zip = _u.safe_zip; m.unzip2 = _u.unzip2
sys.modules["jax.util"] = m; jax.util = m
jax.config.update("jax_enable_x64", True)
import lcm
assert lcm.__file__.startswith(WT), lcm.__file__
# --------------------------------------------------------------------------------------
import jax.numpy as jnp
import numpy as np
from lcm.entry_point import get_lcm_function
from tests.test_models.get_model import get_model_config, get_params

import traceback
P = {"beta": 0.95, "utility": {"disutility_of_work": 0.5}, "next_wealth": {"interest_rate": 0.05}}
bad = 0
for name, init in [
    ("iskhakov_et_al_2017", {"wealth": jnp.zeros(0), "lagged_retirement": jnp.zeros(0, dtype=int)}),   # sparse branch
    ("iskhakov_et_al_2017_stripped_down", {"wealth": jnp.zeros(0)}),                                    # dense branch
]:
    model = get_model_config(name, n_periods=3)
    solve, tmpl = get_lcm_function(model, targets="solve", debug_mode=False)
    simulate, _ = get_lcm_function(model, targets="simulate", debug_mode=False)
    params = dict(P)
    if "wage" in tmpl.get("labor_income", {}):
        params["labor_income"] = {"wage": 10.0}
    vf = solve(params)
    try:
        df = simulate(params, initial_states=init, vf_arr_list=vf)
        print(name, "-> frame with", len(df), "rows (fine)")
    except Exception as e:  # noqa: BLE001
        bad += 1
        tb = traceback.extract_tb(e.__traceback__)
        where = [f"{os.path.basename(f.filename)}:{f.lineno} in {f.name}" for f in tb if "/lcm/" in f.filename][-1]
        print(f"VIOLATION {name}: simulate(initial_states = 0 agents) raised {type(e).__name__}: {e}   [{where}]")
if bad:
    print("\nExpected: an empty simulation frame (simulating the empty subset gives the empty set of paths), or at least a clear input error.")
    sys.exit(1)
print("no violation observed")
