import LcmModel.Keys
namespace Lcm

theorem carried_eq (t : Nat) : carried t = List.replicate t 0 := by
  induction t with
  | zero => rfl
  | succ t ih =>
    simp only [carried, simulationKeys, split, ih]
    simp [List.replicate_succ']

theorem varKey_eq (nv t j : Nat) (hj : j < nv) : varKey nv t j = List.replicate t 0 ++ [j + 1] := by
  simp only [varKey, simulationKeys, split, carried_eq]
  rw [List.range_succ_eq_map]
  simp [List.getD_eq_getElem?_getD, hj]

theorem agentKey_eq (nv nA t j i : Nat) (hj : j < nv) (hi : i < nA) :
    agentKey nv nA t j i = List.replicate t 0 ++ [j + 1, i] := by
  simp only [agentKey, split, varKey_eq nv t j hj]
  simp [List.getD_eq_getElem?_getD, hi]

/-- C04: distinct (period, variable, agent) triples consume distinct keys -/
theorem agentKey_injective (nv nA : Nat) (t j i t' j' i' : Nat) (hj : j < nv) (hi : i < nA)
    (hj' : j' < nv) (hi' : i' < nA)
    (h : agentKey nv nA t j i = agentKey nv nA t' j' i') : t = t' ∧ j = j' ∧ i = i' := by
  rw [agentKey_eq _ _ _ _ _ hj hi, agentKey_eq _ _ _ _ _ hj' hi'] at h
  have hlen := congrArg List.length h
  simp at hlen
  subst hlen
  have := List.append_cancel_left h
  simp at this
  omega

/-- C04: a consumed key is never a prefix of another consumed key (in particular never equal to a
key that is split again) — key hygiene, the condition under which JAX's streams are independent. -/
theorem agentKey_prefix_free (nv nA : Nat) (t j i t' j' i' : Nat) (hj : j < nv) (hi : i < nA)
    (hj' : j' < nv) (hi' : i' < nA)
    (h : agentKey nv nA t j i <+: agentKey nv nA t' j' i') : t = t' ∧ j = j' ∧ i = i' := by
  rw [agentKey_eq _ _ _ _ _ hj hi, agentKey_eq _ _ _ _ _ hj' hi'] at h
  obtain ⟨r, hr⟩ := h
  -- compare the entry at position t
  have hlen := congrArg List.length hr
  simp at hlen
  have ht : t ≤ t' := by omega
  by_cases hlt : t < t'
  · exfalso
    have h1 := congrArg (fun l => l[t]?) hr
    have hL : (List.replicate t 0 ++ [j + 1, i] ++ r)[t]? = some (j + 1) := by
      rw [List.append_assoc, List.getElem?_append_right (by simp)]
      simp
    have hR : (List.replicate t' 0 ++ [j' + 1, i'])[t]? = some 0 := by
      rw [List.getElem?_append_left (by simp; omega)]
      simp [List.getElem?_replicate, hlt]
    simp only [hL, hR] at h1
    simp at h1
  · have : t = t' := by omega
    subst this
    have hr0 : r = [] := by
      have : r.length = 0 := by omega
      exact List.length_eq_zero_iff.mp this
    subst hr0
    simp at hr
    omega

#print axioms agentKey_prefix_free
end Lcm
