import LcmModel.Tensor

namespace Lcm

theorem sum_map_const (c : Nat) (xs : List Nat) : (xs.map fun _ => c).sum = xs.length * c := by
  induction xs with
  | nil => simp
  | cons x xs ih => simp [ih, Nat.add_mul]; omega

theorem length_allIdx (s : List Nat) : (allIdx s).length = s.prod := by
  induction s with
  | nil => simp [allIdx]
  | cons n s ih =>
    simp only [allIdx, List.length_flatMap, List.length_map, ih, List.prod_cons, sum_map_const]
    simp

theorem ravel_lt (s idx : List Nat) (h : InBounds s idx) : ravel s idx < s.prod := by
  induction s generalizing idx with
  | nil => cases idx <;> simp_all [InBounds, ravel]
  | cons n s ih =>
    cases idx with
    | nil => simp [InBounds] at h
    | cons i is =>
      simp only [InBounds] at h
      have := ih is h.2
      simp only [ravel, List.prod_cons]
      calc i * s.prod + ravel s is < i * s.prod + s.prod := by omega
        _ = (i + 1) * s.prod := by rw [Nat.add_mul]; simp
        _ ≤ n * s.prod := Nat.mul_le_mul_right _ h.1

/-- blocks of equal length `c`: position `i*c + j` of the flatMap is position `j` of block `i` -/
theorem getElem?_flatMap_blocks {β} (f : Nat → List β) (c : Nat) (hf : ∀ i, (f i).length = c)
    (n i j : Nat) (hi : i < n) (hj : j < c) :
    ((List.range n).flatMap f)[i * c + j]? = (f i)[j]? := by
  induction n with
  | zero => omega
  | succ m ihm =>
    rw [List.range_succ, List.flatMap_append]
    have hlen : ((List.range m).flatMap f).length = m * c := by
      simp only [List.length_flatMap, hf, sum_map_const, List.length_range]
    by_cases him : i < m
    · rw [List.getElem?_append_left]
      · exact ihm him
      · rw [hlen]
        calc i * c + j < i * c + c := by omega
          _ = (i + 1) * c := by rw [Nat.add_mul]; simp
          _ ≤ m * c := Nat.mul_le_mul_right _ him
    · have : i = m := by omega
      subst this
      rw [List.getElem?_append_right (by rw [hlen]; omega), hlen]
      simp

theorem getElem_allIdx_ravel (s idx : List Nat) (h : InBounds s idx) :
    (allIdx s)[ravel s idx]? = some idx := by
  induction s generalizing idx with
  | nil => cases idx <;> simp_all [InBounds, ravel, allIdx]
  | cons n s ih =>
    cases idx with
    | nil => simp [InBounds] at h
    | cons i is =>
      simp only [InBounds] at h
      obtain ⟨hi, his⟩ := h
      simp only [allIdx, ravel]
      rw [getElem?_flatMap_blocks (fun i => (allIdx s).map (i :: ·)) s.prod
        (by intro i; simp [length_allIdx]) n i (ravel s is) hi (ravel_lt s is his)]
      simp [ih is his]

theorem materialize_get {α} [Inhabited α] (t : Tensor α) (idx : List Nat)
    (h : InBounds t.shape idx) : t.materialize.get idx = t.get idx := by
  have h1 := getElem_allIdx_ravel t.shape idx h
  simp only [Tensor.materialize, Tensor.toFlat]
  rw [getElem!_def]
  simp [h1]

/-- `get` of the axis-max is definitionally the fold over the reduced block. -/
theorem maxMid_get (t : Tensor Ext) (k m : Nat) (idx : List Nat) :
    (t.maxMid k m).get idx =
      foldMax ((allIdx ((t.shape.drop k).take m)).map fun j => t.get (idx.take k ++ j ++ idx.drop k)) := rfl

#print axioms materialize_get
end Lcm
