import LcmModel.Dispatch
namespace Lcm

/-- `_compute_indices_and_weights`: clipped lower index -/
def lowerIdx' (c : Rat) (size : Nat) : Nat :=
  (max 0 (min c.floor ((size : Int) - 2))).toNat

/-- recursive form of `map_coordinates` on a function-based tensor -/
def interp (t : Tensor Rat) : List Rat → Rat
  | [] => t.get []
  | c :: cs =>
    let lo := lowerIdx' c (t.shape.headD 0)
    let w := c - (lo : Rat)
    (1 - w) * interp (t.slice lo) cs + w * interp (t.slice (lo + 1)) cs

end Lcm
