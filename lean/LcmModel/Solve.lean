import LcmModel.Input
import LcmModel.Tensor
import LcmModel.Space
import LcmModel.Argmax
import LcmModel.Interp2
namespace Lcm

/-! Name-level, executable model of `get_lcm_function(model, "solve")` (prototype). -/

structure Params where
  beta : Rat
  funcs : List (Name × List (Name × Rat))        -- params[function][parameter]
  shocks : List (Name × Tensor Rat)               -- params["shocks"][state]
deriving Inhabited

def Params.get? (P : Params) (f p : Name) : Option Rat :=
  ((P.funcs.find? (·.1 == f)).bind fun e => e.2.find? (·.1 == p)).map (·.2)

/-- by-name evaluation of a model function (dags semantics): an argument that is a model function is
computed, otherwise it is read from the environment, otherwise from `params[fname]`. -/
def callF (m : Model) (P : Params) : Nat → Env → Name → Option Val
  | 0, _, _ => none
  | fuel + 1, env, fname => do
    let f ← m.func? fname
    let argVals ← f.args.mapM fun a =>
      match m.func? a with
      | some _ => callF m P fuel env a
      | none =>
        match env.get? a with
        | some v => some v
        | none => (P.get? fname a).map Val.num
    f.body.eval (f.args.zip argVals)

def Model.fuel (m : Model) : Nat := m.functions.length + 2

instance : Inhabited Ext := ⟨.ninf⟩

/-- `name.removeprefix("next_")` -/
def stripNext (s : String) : String := String.ofList (s.toList.drop 5)

/-- all functions in `names` evaluate to True (aggregator `logical_and`; empty → True) -/
def allTrue (m : Model) (P : Params) (env : Env) (names : List Name) : Option Bool :=
  names.foldlM (fun acc n => do let v ← callF m P m.fuel env n; pure (acc && v.toBool)) true

/-- Cartesian product of named grids, row-major, as association lists -/
def assignments : List (Name × List Rat) → List (List (Name × Rat))
  | [] => [[]]
  | (x, g) :: rest => g.flatMap fun v => (assignments rest).map fun a => (x, v) :: a

def toEnv (a : List (Name × Rat)) : Env := a.map fun p => (p.1, Val.num p.2)

structure Groups where
  sS : List (Name × List Rat)
  sC : List (Name × List Rat)
  dS : List (Name × List Rat)
  dC : List (Name × List Rat)
  cS : List (Name × Grid)
  cC : List (Name × List Rat)

def groups (m : Model) : Groups :=
  let vi := variableInfo m
  let gridOf := fun (x : Name) => (((m.states ++ m.choices).find? (·.1 == x)).map (·.2)).getD (.disc 0)
  let pick := fun (p : VariableInfo → Bool) => (vi.filter p).map fun v => (v.name, (gridOf v.name).points)
  { sS := pick fun v => v.isSparse && v.isState
    sC := pick fun v => v.isSparse && v.isChoice
    dS := pick fun v => v.isDense && v.isDiscrete && v.isState
    dC := pick fun v => v.isDense && v.isDiscrete && v.isChoice
    cS := (vi.filter fun v => v.isDense && v.isContinuous && v.isState).map fun v => (v.name, gridOf v.name)
    cC := pick fun v => v.isDense && v.isContinuous && v.isChoice }

def periodEnv (t : Nat) : Env := [("_period", Val.num (t : Rat))]

/-- the space of one period: stored sparse rows, feasible restricted states, state indexer
(rank or −1 over the full product), segment ids -/
structure Space where
  rows : List (List (Name × Rat) × List (Name × Rat))
  feas : List (List (Name × Rat))
  segIds : List Nat

def mkSpace (m : Model) (P : Params) (g : Groups) (t : Nat) : Space :=
  let filters := ((functionInfo m).filter (·.isFilter)).map (·.name)
  let filt := fun (s c : List (Name × Rat)) =>
    (allTrue m P (toEnv (s ++ c) ++ periodEnv t) filters).getD false
  let ss := assignments g.sS
  let sc := assignments g.sC
  { rows := combos ss sc filt, feas := feasStates ss sc filt, segIds := segIdsImpl ss sc filt }

/-- linear-grid coordinate (`get_linspace_coordinate`) or search coordinate on tabulated nodes -/
def coordOf : Grid → Rat → Rat
  | .lin a b n, v => (v - a) / ((b - a) / ((n : Rat) - 1))
  | .tab nodes, v =>
    let r := ((List.range (nodes.length - 1)).filter fun i => nodes.getD (i + 1) 0 ≤ v).length
    let r := min r (nodes.length - 2)
    (r : Rat) + (v - nodes.getD r 0) / (nodes.getD (r + 1) 0 - nodes.getD r 0)
  | .disc _, v => v

/-- interpolation on an `Ext` tensor: undefined (none) as soon as a touched corner is −inf -/
def interpExt (t : Tensor Ext) : List Rat → Option Rat
  | [] => match t.get [] with | .fin q => some q | .ninf => none
  | c :: cs => do
    let lo := lowerIdx' c (t.shape.headD 0)
    let w := c - (lo : Rat)
    let a ← interpExt (t.slice lo) cs
    let b ← interpExt (t.slice (lo + 1)) cs
    pure ((1 - w) * a + w * b)

def natOfRat (q : Rat) : Nat := q.floor.toNat

/-- `get_function_representation` applied to next-period values: restricted labels through the
feasible-state rank (the state indexer), unrestricted labels positionally, continuous states by
interpolation along the trailing axes. -/
def vhat (g : Groups) (feasNext : List (List (Name × Rat))) (V : Tensor Ext) (env : Env) : Option Rat := do
  let lab := fun (x : Name) => (env.get? x).map Val.toRat
  let sLabels ← g.sS.mapM fun p => (lab p.1).map fun v => (p.1, v)
  let lead ← if g.sS.isEmpty then some [] else
    (feasNext.findIdx? (· == sLabels)).map fun k => [k]
  let dIdx ← g.dS.mapM fun p => (lab p.1).map natOfRat
  let sub : Tensor Ext :=
    { shape := V.shape.drop (lead.length + dIdx.length)
      get := fun idx => V.get (lead ++ dIdx ++ idx) }
  let coords ← g.cS.mapM fun p => (lab p.1).map (coordOf p.2)
  interpExt sub coords

/-- objective and feasibility of one state-choice environment in period `t` -/
def uAndF (m : Model) (P : Params) (g : Groups) (t : Nat)
    (next : Option (Tensor Ext × List (List (Name × Rat)))) (env0 : Env) : Option (Rat × Bool) := do
  let env := env0 ++ periodEnv t
  let fi := functionInfo m
  let constraints := (fi.filter (·.isConstraint)).map (·.name)
  let f ← allTrue m P env constraints
  let u ← (callF m P m.fuel env "utility").map Val.toRat
  match next with
  | none => pure (u, f)
  | some (V, feasNext) =>
    let nexts := fi.filter (·.isNext)
    let det ← (nexts.filter (!·.isStochasticNext)).mapM fun n =>
      (callF m P m.fuel env n.name).map fun v => (stripNext n.name, v)
    let stoch := (nexts.filter (·.isStochasticNext)).map (·.name)
    -- weights: params["shocks"][x][dep_1]…[dep_k] in signature order of the raw next function
    let wrows ← stoch.mapM fun n => do
      let f ← m.func? n
      let x := stripNext n
      let deps ← f.args.mapM fun a => (env.get? a).map fun v => natOfRat v.toRat
      let arr ← (P.shocks.find? (·.1 == x)).map (·.2)
      let nlab := arr.shape.getLastD 0
      pure (x, (List.range nlab).map fun l => arr.get (deps ++ [l]))
    -- nodes: product of the label grids of the stochastic states, weights multiplied
    let nodes : List (List (Name × Rat) × Rat) :=
      wrows.foldr (fun (xw : Name × List Rat) acc =>
        (xw.2.zipIdx).flatMap fun (w, l) => acc.map fun (a, pw) => ((xw.1, (l : Rat)) :: a, w * pw))
        [([], 1)]
    let ev ← nodes.foldlM (fun acc (a, w) => do
      let vn ← vhat g feasNext V (det ++ toEnv a)
      pure (acc + w * vn)) (0 : Rat)
    pure (u + P.beta * ev, f)

def sizes (l : List (Name × List Rat)) : List Nat := l.map (·.2.length)

/-- assignment selected by a multi-index -/
def pickAt (l : List (Name × List Rat)) (idx : List Nat) : List (Name × Rat) :=
  (l.zip idx).map fun (p, i) => (p.1, p.2.getD i 0)

def feasibleOf (o : Option (Rat × Bool)) : Bool := match o with | some (_, f) => f | none => false
def valueOf (o : Option (Rat × Bool)) : Rat := match o with | some (q, _) => q | none => 0
def extOf (o : Option (Rat × Bool)) : Ext := match o with | some (q, _) => .fin q | none => .ninf

/-- continuous problem at one environment (restricted + unrestricted discrete variables and
continuous states fixed): feasibility-masked max over the product of continuous-choice grids -/
def ccvEnv (m : Model) (P : Params) (g : Groups) (t : Nat)
    (next : Option (Tensor Ext × List (List (Name × Rat)))) (env : Env) : Ext :=
  maskedMax ((assignments g.cC).map fun cc => extOf (uAndF m P g t next (env ++ toEnv cc)))
    ((assignments g.cC).map fun cc => feasibleOf (uAndF m P g t next (env ++ toEnv cc)))

def cStateGrids (g : Groups) : List (Name × List Rat) := g.cS.map fun p => (p.1, p.2.points)

/-- environment of the dense part of a multi-index: unrestricted discrete states, unrestricted
discrete choices, continuous states (canonical order) -/
def denseEnv (g : Groups) (idx : List Nat) : Env :=
  let nd := g.dS.length; let nc := g.dC.length
  toEnv (pickAt g.dS (idx.take nd) ++ pickAt g.dC ((idx.drop nd).take nc)
    ++ pickAt (cStateGrids g) (idx.drop (nd + nc)))

/-- conditional continuation values on the state-choice space (`solve_continuous_problem`,
`spacemap(..., put_dense_first=False)`): sparse rows first, then the dense axes -/
def ccvSparse (m : Model) (P : Params) (g : Groups) (t : Nat) (sp : Space)
    (next : Option (Tensor Ext × List (List (Name × Rat)))) : Tensor Ext :=
  { shape := sp.rows.length :: (sizes g.dS ++ sizes g.dC ++ sizes (cStateGrids g))
    get := fun idx => match idx with
      | [] => .ninf
      | r :: rest =>
        let row := sp.rows.getD r ([], [])
        ccvEnv m P g t next (toEnv (row.1 ++ row.2) ++ denseEnv g rest) }

def ccvDense (m : Model) (P : Params) (g : Groups) (t : Nat)
    (next : Option (Tensor Ext × List (List (Name × Rat)))) : Tensor Ext :=
  { shape := sizes g.dS ++ sizes g.dC ++ sizes (cStateGrids g)
    get := fun idx => ccvEnv m P g t next (denseEnv g idx) }

/-- one period of `solve` -/
def solvePeriod (m : Model) (P : Params) (g : Groups) (t : Nat) (sp : Space)
    (next : Option (Tensor Ext × List (List (Name × Rat)))) : Tensor Ext :=
  let nd := g.dS.length; let nc := g.dC.length
  if !(g.sS.isEmpty && g.sC.isEmpty) then
    (((ccvSparse m P g t sp next).materialize.maxMid (1 + nd) nc).segmentMax sp.segIds
      sp.feas.length).materialize
  else
    ((ccvDense m P g t next).materialize.maxMid nd nc).materialize

/-- backward induction. `shiftIndexers = true` mirrors the F1 repair (period t reads V[t+1] through
the feasible states of period t+1); `false` mirrors the current code (feasible states of period t). -/
def solve (m : Model) (P : Params) (shiftIndexers : Bool := true) : List (Tensor Ext) :=
  let g := groups m
  let T := m.nPeriods
  let rec go : Nat → Option (Tensor Ext × Space) → List (Tensor Ext) → List (Tensor Ext)
    | 0, _, acc => acc
    | k + 1, next, acc =>
      let t := k
      let sp := mkSpace m P g t
      let nx := next.map fun (V, spNext) => (V, if shiftIndexers then spNext.feas else sp.feas)
      let V := solvePeriod m P g t sp nx
      go k (some (V, sp)) (V :: acc)
  go T none []

end Lcm
