"""Finding 2: a model function called 'feasibility' silently replaces all constraints.

lcm.model_functions.get_current_u_and_f builds {"feasibility": <combined constraints>,
**model.functions}; a user function with the name 'feasibility' overwrites the combined
constraint, no error is raised, and simulate reports choices that violate the model's
constraints together with their (too large) values.

Run: LCM_WT=/tmp/hunt_C02 /venv/bin/python finding_2.py   (exit code 1 = defect present)
"""
# --- shim -----------------------------------------------------------------------------
import sys, types, os
WT = os.environ.get("LCM_WT", "/tmp/hunt_C02")
sys.path.insert(0, os.path.join(WT, "src"))
import jax, jax._src.util as _u
m = types.ModuleType("jax.util"); m.safe_zip = _u.safe_zip; m.unzip2 = _u.unzip2
sys.modules["jax.util"] = m; jax.util = m
jax.config.update("jax_enable_x64", True)
import lcm
assert lcm.__file__.startswith(WT), lcm.__file__
# --------------------------------------------------------------------------------------
from dataclasses import dataclass

import jax.numpy as jnp
import numpy as np

from lcm import DiscreteGrid, LinspaceGrid, Model
from lcm.entry_point import get_lcm_function


@dataclass
class Work:
    no: int = 0
    yes: int = 1


# 'feasibility' is an ordinary auxiliary variable of the user's model: whether a loan is
# feasible for the agent (it enters utility as a small bonus).
def feasibility(wealth):
    return wealth > 5.0


def utility(consumption, work, wealth, feasibility):
    return jnp.log(consumption) - 0.3 * work + 0.05 * feasibility + 0.0 * wealth


def next_wealth(wealth, consumption, work):
    return 1.05 * (wealth - consumption) + 3.0 * work + 1.0


def consumption_constraint(consumption, wealth):
    return consumption <= wealth


def make_model(aux_name):
    # identical model, only the name of the auxiliary function differs
    src_u = utility if aux_name == "feasibility" else (
        lambda consumption, work, wealth, loan_ok: utility(consumption, work, wealth, loan_ok)
    )
    return Model(
        n_periods=2,
        functions={
            "utility": src_u,
            aux_name: feasibility,
            "next_wealth": next_wealth,
            "consumption_constraint": consumption_constraint,
        },
        choices={
            "work": DiscreteGrid(Work),
            "consumption": LinspaceGrid(start=1, stop=20, n_points=20),
        },
        states={"wealth": LinspaceGrid(start=1, stop=30, n_points=7)},
    )


params = {"beta": 0.9}
initial_states = {"wealth": jnp.array([2.5, 6.0, 11.3])}

frames = {}
for name in ["loan_ok", "feasibility"]:
    f, _ = get_lcm_function(make_model(name), targets="solve_and_simulate", debug_mode=False)
    frames[name] = f(params, initial_states=initial_states)
    print(f"--- auxiliary function named {name!r}")
    print(frames[name][["value", "work", "consumption", "wealth"]])

df = frames["feasibility"]
violated = df[df["consumption"] > df["wealth"]]
print(f"\nrows with consumption > wealth (violating consumption_constraint): {len(violated)} of {len(df)}")
same = np.allclose(frames["loan_ok"][["value", "consumption"]].to_numpy(),
                   df[["value", "consumption"]].to_numpy())
print("results identical to the same model with the auxiliary function renamed:", same)
if len(violated) or not same:
    print("DEFECT PRESENT: expected every reported consumption <= wealth and results independent "
          "of the name of an auxiliary function; observed infeasible choices.")
    sys.exit(1)
print("no defect observed")
