import LcmProofs.EnvPerm
import Mathlib.Data.List.Forall2
import Mathlib.Data.List.Perm.Basic
namespace Lcm

/-! Grid combinations (`assignments`) characterised pointwise; combinations of a permuted list of named
grids; combinations of a concatenation. -/

/-- `a` gives every named grid of `l`, in order, one of its points -/
def IsAssignment (q : Name × List Rat) (p : Name × Rat) : Prop := p.1 = q.1 ∧ p.2 ∈ q.2

theorem mem_assignments_iff (l : List (Name × List Rat)) (a : List (Name × Rat)) :
    a ∈ assignments l ↔ List.Forall₂ IsAssignment l a := by
  induction l generalizing a with
  | nil =>
    simp only [assignments, List.mem_singleton]
    constructor
    · rintro rfl; exact List.Forall₂.nil
    · intro h; cases h; rfl
  | cons q rest ih =>
    obtain ⟨x, g⟩ := q
    simp only [assignments, List.mem_flatMap, List.mem_map]
    constructor
    · rintro ⟨v, hv, a', ha', rfl⟩
      exact List.Forall₂.cons ⟨rfl, hv⟩ ((ih a').mp ha')
    · intro h
      cases h with
      | cons hh ht =>
        rename_i p a'
        obtain ⟨y, v⟩ := p
        obtain ⟨h1, h2⟩ := hh
        simp only at h1 h2
        subst h1
        exact ⟨v, h2, a', (ih a').mpr ht, rfl⟩

/-- combinations of a permuted list of named grids are permutations of the combinations -/
theorem assignments_perm (l l' : List (Name × List Rat)) (h : l'.Perm l) (a : List (Name × Rat))
    (ha : a ∈ assignments l) : ∃ a' ∈ assignments l', a'.Perm a := by
  obtain ⟨a', h1, h2⟩ := List.perm_comp_forall₂ h ((mem_assignments_iff l a).mp ha)
  exact ⟨a', (mem_assignments_iff l' a').mpr h1, h2⟩

theorem mem_assignments_append (l1 l2 : List (Name × List Rat)) (a : List (Name × Rat)) :
    a ∈ assignments (l1 ++ l2) ↔ ∃ a1 ∈ assignments l1, ∃ a2 ∈ assignments l2, a = a1 ++ a2 := by
  induction l1 generalizing a with
  | nil => simp [assignments]
  | cons q rest ih =>
    obtain ⟨x, g⟩ := q
    simp only [List.cons_append, assignments, List.mem_flatMap, List.mem_map]
    constructor
    · rintro ⟨v, hv, a', ha', rfl⟩
      obtain ⟨a1, h1, a2, h2, rfl⟩ := (ih a').mp ha'
      exact ⟨(x, v) :: a1, ⟨v, hv, a1, h1, rfl⟩, a2, h2, rfl⟩
    · rintro ⟨a1, ⟨v, hv, a1', h1, rfl⟩, a2, h2, rfl⟩
      exact ⟨v, hv, a1' ++ a2, (ih _).mpr ⟨a1', h1, a2, h2, rfl⟩, rfl⟩

#print axioms assignments_perm
#print axioms mem_assignments_append
end Lcm
