import LcmProofs.SimPanel
namespace Lcm

/-! # C13 — the simulation result is a complete, correctly indexed panel

Model: `simulate` returns one list of records per period; `panel` (`_process_simulated_data`) concatenates
them period-major; `MultiIndex.from_product([range(T), range(n)])` enumerates (t, i) in the same order, so
row `t * n + i` carries the index (t, i). Additional targets are evaluated per row by `callF` (op `eval_funcs`). -/

/-- exactly `n_periods * n_agents` rows -/
theorem C13_rows (m : Model) (P : Params) (V : List (Tensor Ext)) (init : List (List (Name × Rat)))
    (draws : Draws) : (panel (simulate m P V init draws true)).length = m.nPeriods * init.length :=
  panel_length m P V init draws

/-- one list of records per period, one record per agent in every period -/
theorem C13_periods (m : Model) (P : Params) (V : List (Tensor Ext)) (init : List (List (Name × Rat)))
    (draws : Draws) : (simulate m P V init draws true).length = m.nPeriods :=
  simulate_length m P V init draws

theorem C13_agents_per_period (m : Model) (P : Params) (V : List (Tensor Ext))
    (init : List (List (Name × Rat))) (draws : Draws) (t : Nat) (ht : t < m.nPeriods) :
    ((simulate m P V init draws true).getD t []).length = init.length :=
  simulate_period_length m P V init draws t ht

/-- **period-major index**: row `t * n + i` of the panel is the record of agent `i` in period `t` -/
theorem C13_row_index (m : Model) (P : Params) (V : List (Tensor Ext)) (init : List (List (Name × Rat)))
    (draws : Draws) (t i : Nat) (ht : t < m.nPeriods) (hi : i < init.length) :
    (panel (simulate m P V init draws true))[t * init.length + i]?
      = ((simulate m P V init draws true).getD t [])[i]? :=
  panel_row m P V init draws t i ht hi

/-- the index (t, i) is recovered from the row number: `_period = row / n`, `initial_state_id = row % n` -/
theorem C13_index_of_row (n t i : Nat) (hi : i < n) : (t * n + i) / n = t ∧ (t * n + i) % n = i := by
  have hn : 0 < n := by omega
  constructor
  · rw [Nat.mul_comm, Nat.mul_add_div hn, Nat.div_eq_of_lt hi, Nat.add_zero]
  · rw [Nat.mul_comm, Nat.mul_add_mod, Nat.mod_eq_of_lt hi]

/-- row (t, i) describes agent `i` in period `t`: its record is that agent's decision at its own state -/
theorem C13_row_content (m : Model) (P : Params) (V : List (Tensor Ext))
    (init : List (List (Name × Rat))) (draws : Draws) (t i : Nat) (ht : t < m.nPeriods) (hi : i < init.length) :
    ((simulate m P V init draws true).getD t []).getD i default
      = agentDecision m P (groups m) t (simNext m P V t) (statesAt m P V init draws t) i := by
  rw [simulate_getD m P V init draws t ht]
  exact periodOut_record_getD m P V draws t _ i (by rw [statesAt_length]; exact hi)

end Lcm
