namespace Lcm

/-- Python floats: finite rationals, ±inf, nan -/
inductive PyFloat where | fin (q : Rat) | pinf | ninf | nan
deriving DecidableEq, Repr

/-- Python values that can reach the grid constructors -/
inductive PyVal where
  | int (i : Int) | bool (b : Bool) | float (f : PyFloat) | str | none | other
deriving DecidableEq, Repr

/-- `isinstance(v, int | float)` (bool is an int) -/
def PyVal.isNumber : PyVal → Bool
  | .int _ | .bool _ | .float _ => true
  | _ => false

/-- `isinstance(v, int)` -/
def PyVal.isInt : PyVal → Bool
  | .int _ | .bool _ => true
  | _ => false

def PyVal.toFloat : PyVal → PyFloat
  | .int i => .fin i
  | .bool b => .fin (if b then 1 else 0)
  | .float f => f
  | _ => .nan

/-- Python `a >= b` on numbers (any comparison with nan is False) -/
def PyFloat.ge : PyFloat → PyFloat → Bool
  | .nan, _ | _, .nan => false
  | .pinf, _ => true
  | _, .ninf => true
  | .ninf, _ => false
  | _, .pinf => false
  | .fin a, .fin b => b ≤ a

def PyFloat.isFinite : PyFloat → Bool | .fin _ => true | _ => false

/-- `math.isfinite(x)` with the repair of finding F8: a Python int that cannot be converted to a float (`float(x)` raises
OverflowError from `2**1024 - 2**970` on, where rounding to nearest reaches `2**1024`) is not a finite grid bound -/
def floatIntBound : Nat := 2 ^ 1024 - 2 ^ 970

def PyVal.finiteAsFloat : PyVal → Bool
  | .int i => decide (i.natAbs < floatIntBound)
  | .bool _ => true
  | .float f => f.isFinite
  | _ => false

def PyVal.asInt : PyVal → Int
  | .int i => i | .bool b => if b then 1 else 0 | _ => 0

/-- `_validate_continuous_grid` (messages collected; accepted iff none). `repaired` adds the F3
checks (finite bounds). -/
def validateContinuous (start stop nPoints : PyVal) (repaired : Bool := false) : Bool :=
  let okStart := start.isNumber
  let okStop := stop.isNumber
  let okN := nPoints.isInt && 1 ≤ nPoints.asInt
  let okOrder := !(okStart && okStop && start.toFloat.ge stop.toFloat)
  let okFinite := !repaired || ((!okStart || start.finiteAsFloat) && (!okStop || stop.finiteAsFloat))
  okStart && okStop && okN && okOrder && okFinite

/-- `LogspaceGrid`: the continuous-grid validation plus (repair F3) a strictly positive start -/
def validateLogspace (start stop nPoints : PyVal) (repaired : Bool := true) : Bool :=
  validateContinuous start stop nPoints repaired &&
    (!repaired || match start.toFloat with | .fin q => decide (0 < q) | _ => false)

/-- a dataclass field value: default absent → None -/
abbrev FieldVal := PyVal

/-- Python `==` between a field value and an int -/
def PyVal.eqInt : PyVal → Int → Bool
  | .int i, k => i = k
  | .bool b, k => (if b then 1 else 0) = k
  | .float (.fin q), k => q = (k : Rat)
  | _, _ => false

/-- `_validate_discrete_grid` on a dataclass with these field values (declaration order) -/
def validateDiscrete (isDataclass : Bool) (vals : List FieldVal) : Bool :=
  isDataclass && !vals.isEmpty && vals.all (·.isNumber) &&
    (vals.zipIdx.all fun (v, i) => v.eqInt i)

end Lcm
