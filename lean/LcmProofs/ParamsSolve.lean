import LcmProofs.StationarySolve
namespace Lcm

/-! C07 for the executable `solve`: the value arrays depend on the parameters only through `beta`, the transition
arrays, and the values stored *under a function's own name for that function's own arguments*. Entries stored for
names that are not arguments of the function, entries for functions that do not exist, and equal parameter names in
other functions never matter. -/

/-- two parameter sets that agree on every slot the specification can read -/
structure SameSlots (m : Model) (P P' : Params) : Prop where
  beta : P'.beta = P.beta
  shocks : P'.shocks = P.shocks
  slots : ∀ f ∈ m.functions, ∀ p ∈ f.args, P'.get? f.name p = P.get? f.name p

variable {m : Model} {P P' : Params}

theorem callF_sameSlots (h : SameSlots m P P') (fuel : Nat) (e : Env) (n : Name) :
    callF m P' fuel e n = callF m P fuel e n := by
  induction fuel generalizing n with
  | zero => rfl
  | succ k ih =>
    unfold callF
    cases hf : m.func? n with
    | none => rfl
    | some f =>
      have hmem : f ∈ m.functions := List.mem_of_find?_eq_some hf
      have hname : f.name = n := by have := List.find?_some hf; simpa using this
      simp only [Option.bind_eq_bind, Option.bind_some]
      congr 1
      apply mapM_congr_option
      intro x hx
      rw [ih x, ← hname, h.slots f hmem x hx]

theorem allTrue_sameSlots (h : SameSlots m P P') (e : Env) (names : List Name) :
    allTrue m P' e names = allTrue m P e names := by
  unfold allTrue
  apply foldlM_congr_option
  intro n _ acc
  rw [callF_sameSlots h]

theorem uAndF_sameSlots (h : SameSlots m P P') (g : Groups) (t : Nat)
    (next : Option (Tensor Ext × List (List (Name × Rat)))) (e : Env) :
    uAndF m P' g t next e = uAndF m P g t next e := by
  have hu : ∀ env, utilOf m P' env = utilOf m P env := by intro env; unfold utilOf; rw [callF_sameSlots h]
  have hd : ∀ env, detOf m P' env = detOf m P env := by
    intro env; unfold detOf; apply mapM_congr_option; intro fi _; rw [callF_sameSlots h]
  have hw : ∀ env, wrowsOf m P' env = wrowsOf m P env := by
    intro env; unfold wrowsOf; rw [h.shocks]
  cases next with
  | none => rw [uAndF_none_eq, uAndF_none_eq, allTrue_sameSlots h, hu]
  | some nx =>
    obtain ⟨V, feas⟩ := nx
    rw [uAndF_some_eq, uAndF_some_eq, allTrue_sameSlots h, hu, hd, hw, h.beta]

theorem mkSpace_sameSlots (h : SameSlots m P P') (g : Groups) (t : Nat) : mkSpace m P' g t = mkSpace m P g t := by
  unfold mkSpace
  simp only [allTrue_sameSlots h]

theorem solvePeriod_sameSlots (h : SameSlots m P P') (g : Groups) (t : Nat) (sp : Space)
    (next : Option (Tensor Ext × List (List (Name × Rat)))) :
    solvePeriod m P' g t sp next = solvePeriod m P g t sp next := by
  have hc : ∀ env, ccvEnv m P' g t next env = ccvEnv m P g t next env := by
    intro env; unfold ccvEnv; simp only [uAndF_sameSlots h]
  unfold solvePeriod ccvSparse ccvDense
  simp only [hc]

/-- **C07 for `solve`**: parameter sets that agree on `beta`, the transition arrays and every own-argument slot give the
same value arrays in every period -/
theorem solve_sameSlots (h : SameSlots m P P') (j : Nat) (hj : j < m.nPeriods) :
    (solve m P' true).getD (m.nPeriods - 1 - j) default = (solve m P true).getD (m.nPeriods - 1 - j) default := by
  induction j with
  | zero =>
    have ht : m.nPeriods - 1 - 0 < m.nPeriods := by omega
    rw [solve_getD m P _ ht, solve_getD m P' _ ht]
    have hn : ∀ Q : Params, nextOf m Q (solve m Q true) (m.nPeriods - 1 - 0) = none := by
      intro Q; unfold nextOf; split <;> [omega; rfl]
    rw [hn P, hn P', mkSpace_sameSlots h, solvePeriod_sameSlots h]
  | succ j ih =>
    have ihj := ih (by omega)
    have ht : m.nPeriods - 1 - (j + 1) < m.nPeriods := by omega
    have hsucc : m.nPeriods - 1 - (j + 1) + 1 = m.nPeriods - 1 - j := by omega
    rw [solve_getD m P _ ht, solve_getD m P' _ ht]
    have hn : ∀ Q : Params, nextOf m Q (solve m Q true) (m.nPeriods - 1 - (j + 1))
        = some ((solve m Q true).getD (m.nPeriods - 1 - j) default, (mkSpace m Q (groups m) (m.nPeriods - 1 - j)).feas) := by
      intro Q; unfold nextOf; rw [hsucc]; split <;> [rfl; omega]
    rw [hn P, hn P', ihj, mkSpace_sameSlots h, mkSpace_sameSlots h, solvePeriod_sameSlots h]

#print axioms solve_sameSlots
end Lcm
