"""C03 - simulated states follow the model's law of motion.

Oracle: step-wise on the implementation's own panel. For every agent and consecutive period pair the
Lean model evaluates the transition functions by name (`callF`, parameters routed through
`params[next_x]`) at the agent's period-t states, *reported* choices and `_period = t`; deterministic
states must be equal, a stochastic state must be a label with positive probability in the row selected
by its dependencies (signature order). Period-0 states must equal the supplied initial states.
"""
from __future__ import annotations

from props.simcommon import base_out, replay_case, run_panel, sim_cases

CANARY = True
RULE = ("cases = generated dyadic specifications (bias: stochastic states with shuffled dependency lists incl. _period, rows with "
        "zeros and point masses, period-dependent transitions, parameters in transition functions) x batches; distinct = structural "
        "signature; evaluations = agent-period pairs whose next states were checked")
ASSUMPTIONS = ["agent-periods whose objective is undefined in the model are skipped", "exact comparison on dyadic inputs"]


def cases(seed, tier):
    cs = sim_cases(seed + 1, tier)
    for i, c in enumerate(cs):
        if i % 2 == 0:
            c["force"] = sorted(set((c["force"] or []) + ["stoch"]))
        if i % 3 == 2:
            c["starved"] = True
            c["force"] = sorted(set((c["force"] or []) + ["constraint"]))
        if i % 6 == 1:
            # one state is called `value` - like the frame column that holds the value function; the *state* columns must
            # still report the states (this check reads nothing else from such a frame)
            c["force"] = sorted(set((c["force"] or []) + ["valuename"]))
    return cs


def run_case(case):
    info = run_panel(case)
    out = base_out(info, case)
    if "skip" in info:
        out["skipped"] = info["skip"]
        return out
    if "raise" in info:
        out["violations"].append({"clause": "simulate runs on a supported specification", "detail": info["raise"], "key": info["raise_key"],
                                  "shrink_case": replay_case(info, case)})
        return out
    res = info["res"]
    out["evals"] = res["stats"]["agent_periods"]
    for k, v in res["stats"].items():
        out["hist"][k] = v
    for v in res["C03"][:3]:
        v["key"] = "C03:" + v["clause"]
        v["shrink_case"] = replay_case(info, case)
        out["violations"].append(v)
    # the caller keeps its `initial_states` dict and passes the same object again: period 0 of the second call must still report
    # the values that were supplied (the dict must come back unchanged from the first call)
    if not out["violations"]:
        import numpy as np

        from common import impl_site
        from dsl import params_impl
        from pipeline import frame_rows

        obj, snap = info["init_obj"], info["init_snap"]
        changed = [k for k in snap if k not in obj or not np.array_equal(np.asarray(obj[k]), snap[k])] + [k for k in obj if k not in snap]
        if changed or list(obj) != info["init_keys"]:
            out["violations"].append({"clause": "period-0 states equal the initial states", "key": "C03:period-0 states equal the initial states (reuse)",
                                      "detail": f"the initial_states dict passed to simulate was modified by the call (keys {changed or list(obj)}): a second call with the same object cannot start from the supplied states",
                                      "shrink_case": replay_case(info, case)})
        else:
            try:
                df2 = info["fns"].simulate(params_impl(info["P"]), initial_states=obj, vf_arr_list=[v for v in info["V"]], seed=info["sim_seed"])
                n = len(next(iter(snap.values())))
                rows2 = frame_rows(df2, info["mj"], n)
                for i in range(n):
                    for s_ in snap:
                        out["evals"] += 1
                        if float(rows2[0][i]["states"][s_]) != float(snap[s_][i]):
                            out["violations"].append({"clause": "period-0 states equal the initial states", "key": "C03:period-0 states equal the initial states (reuse)",
                                                      "detail": f"second call with the same initial_states object: agent {i} state {s_}: frame {rows2[0][i]['states'][s_]}, supplied {snap[s_][i]}",
                                                      "shrink_case": replay_case(info, case)})
                            break
                    if out["violations"]:
                        break
                out["hist"]["second_call_same_initial_states_object"] = 1
            except Exception as e:  # noqa: BLE001
                out["violations"].append({"clause": "simulate runs on a supported specification", "detail": f"second call: {impl_site(e)}: {str(e)[:200]}", "key": f"raise:{impl_site(e)}"})
    if info["mj"]["n_periods"] > 1:
        out["sample"] = {"agent0_period0": info["rows"][0][0], "agent0_period1_states": info["rows"][1][0]["states"],
                         "stochastic_states": [f["name"] for f in info["mj"]["functions"] if f.get("stochastic")]}
    return out
