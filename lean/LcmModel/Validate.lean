import LcmModel.Input
namespace Lcm

/-! Decision logic of `Model.__post_init__` (`user_model.py`), and of the checks made when the
functions are created (`create_params_template.py`, `process_model.py`). A raw specification keeps,
for every dictionary entry, whether its key is a string and whether its value has the required type
(a grid for states and choices, a callable for functions). -/

structure RawVar where
  name : Name
  grid : Grid
  keyIsStr : Bool := true
  isGrid : Bool := true
deriving Repr, Inhabited

structure RawFunc where
  func : Func
  keyIsStr : Bool := true
  isCallable : Bool := true
deriving Repr, Inhabited

structure RawModel where
  nPeriods : Int
  functions : List RawFunc
  choices : List RawVar
  states : List RawVar
deriving Repr, Inhabited

inductive Outcome where
  | accepted
  | modelInitError      -- raised by `Model(...)`
  | valueError          -- raised by `get_lcm_function` while the functions are created
deriving DecidableEq, Repr

/-- `_validate_attribute_types`: every key a string, every state/choice value a grid, every function
value callable -/
def RawModel.typesOk (r : RawModel) : Bool :=
  (r.choices ++ r.states).all (fun v => v.keyIsStr && v.isGrid) &&
  r.functions.all (fun f => f.keyIsStr && f.isCallable)

/-- `_validate_logical_consistency` -/
def RawModel.logicOk (r : RawModel) : Bool :=
  decide (1 ≤ r.nPeriods) &&
  r.functions.any (fun f => f.func.name == "utility") &&
  r.states.all (fun s => r.functions.any (fun f => f.func.name == "next_" ++ s.name)) &&
  r.states.all (fun s => !(r.choices.any fun c => c.name == s.name))

def RawModel.toModel (r : RawModel) : Model :=
  { nPeriods := r.nPeriods.toNat, functions := r.functions.map (·.func),
    choices := r.choices.map (fun v => (v.name, v.grid)), states := r.states.map (fun v => (v.name, v.grid)) }

/-- a stochastic transition attached to a continuous state (`_create_stochastic_transition_params`) -/
def stochasticOnContinuous (m : Model) : Bool :=
  (variableInfo m).any fun v => v.isStochastic && !(v.isState && v.isDiscrete)

/-- a stochastic transition whose signature mentions anything but discrete variables and `_period` -/
def stochasticDependsOnInvalid (m : Model) : Bool :=
  let vi := variableInfo m
  let discrete := (vi.filter (·.isDiscrete)).map (·.name)
  (vi.filter (·.isStochastic)).any fun v =>
    match m.func? ("next_" ++ v.name) with
    | some f => f.args.any fun a => a != "_period" && !discrete.contains a
    | none => false

/-- a filter with a parameter (`_get_internal_functions`) -/
def filterWithParams (m : Model) : Bool :=
  (functionParams m).any fun (f, ps) => f.endsWith "_filter" && !ps.isEmpty

/-- the whole front door: `Model(...)` then `get_lcm_function(...)` -/
def validateModel (r : RawModel) : Outcome :=
  if !r.typesOk then .modelInitError
  else if !r.logicOk then .modelInitError
  else
    let m := r.toModel
    if stochasticOnContinuous m || stochasticDependsOnInvalid m || filterWithParams m then .valueError
    else .accepted

end Lcm
