#!/venv/bin/python
"""Development helper: confirm a seeded change and run the checks against it.

    seed_eval.py <name> <patch.diff> <demo.py> [--checks C01,C05,...] [--skip-tests]

Creates a scratch worktree of /repo (outside /repo and /verif), applies the patch there, confirms that the
baseline test-suite still passes and that the demonstration fails with the patch and passes without it, then
runs the requested checks with LCM_REPO pointing at the patched worktree. The worktree is removed at the end.
"""
from __future__ import annotations

import argparse
import json
import os
import re
import shutil
import subprocess
import sys
import tempfile
from pathlib import Path

VERIF = Path(__file__).resolve().parent.parent
ALL = [f"C{i:02d}" for i in range(1, 21)]


def sh(cmd, **kw):
    return subprocess.run(cmd, shell=True, capture_output=True, text=True, **kw)


def main():
    ap = argparse.ArgumentParser()
    ap.add_argument("name")
    ap.add_argument("patch")
    ap.add_argument("demo")
    ap.add_argument("--checks", default=",".join(ALL))
    ap.add_argument("--skip-tests", action="store_true")
    ap.add_argument("--seed", default="0")
    ap.add_argument("--no-lean", action="store_true", help="skip the Lean build/audit stage of the checks (it does not depend on /repo)")
    args = ap.parse_args()
    wt = Path(tempfile.mkdtemp(prefix=f"eval_{args.name}_", dir="/tmp"))
    shutil.rmtree(wt)
    out = {"name": args.name}
    try:
        r = sh(f"git -C /repo worktree add -q {wt} HEAD")
        assert r.returncode == 0, r.stderr
        demo = wt / "demo_seed.py"
        shutil.copy(args.demo, demo)
        env = dict(os.environ, LCM_WT=str(wt))
        r0 = sh(f"/venv/bin/python {demo}", cwd=wt, env=env, timeout=1800)
        out["demo_without_patch"] = r0.returncode
        r = sh(f"git -C {wt} apply {Path(args.patch).resolve()}")
        assert r.returncode == 0, f"patch does not apply: {r.stderr}"
        r1 = sh(f"/venv/bin/python {demo}", cwd=wt, env=env, timeout=1800)
        out["demo_with_patch"] = r1.returncode
        out["demo_message"] = (r1.stdout + r1.stderr).strip().splitlines()[-1:][0][:300] if (r1.stdout + r1.stderr).strip() else ""
        if not args.skip_tests:
            t = sh(f"cd {wt} && PYTHONPATH={wt}/src /venv/bin/python -m pytest -q -p no:cacheprovider --timeout=900 --continue-on-collection-errors tests", timeout=3600)
            m = re.search(r"(\d+) passed", t.stdout)
            out["tests_passed"] = int(m.group(1)) if m else None
            out["tests_failed"] = bool(re.search(r"\d+ failed", t.stdout))
        caught = {}
        for c in [c for c in args.checks.split(",") if c]:
            e = dict(os.environ, LCM_REPO=str(wt), VERIF_SEED=args.seed)
            r = sh(f"/venv/bin/python harness/check.py {c} --tier quick" + (" --no-lean" if args.no_lean else ""), cwd=VERIF, env=e, timeout=3600)
            line = next((ln for ln in r.stdout.splitlines() if ln.startswith("VIOLATION")), None)
            caught[c] = {"rc": r.returncode, "violation": line}
            if line:
                m = re.search(r"replay=(\S+)", line)
                if m and Path(m.group(1)).exists():
                    rp = json.loads(Path(m.group(1)).read_text())
                    caught[c]["clause"] = rp.get("violated_clause")
                    caught[c]["detail"] = str(rp.get("detail"))[:300]
            if r.returncode == 2:
                caught[c]["infra"] = (r.stdout + r.stderr)[-400:]
        out["checks"] = caught
        out["caught_by"] = [c for c, v in caught.items() if v["rc"] == 1]
    finally:
        sh(f"git -C /repo worktree remove --force {wt}")
        sh("git -C /repo worktree prune")
        # evidence files were rewritten by runs against the patched tree: restore the committed ones
        sh("git checkout -- evidence", cwd=VERIF)
    print(json.dumps(out, indent=1))


if __name__ == "__main__":
    main()
