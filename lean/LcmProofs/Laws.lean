import LcmProofs.IsMax
import LcmProofs.Interp2
import Mathlib.Tactic.Linarith
import Mathlib.Tactic.Ring
import Mathlib.Algebra.Order.Field.Rat
import Mathlib.Data.List.Perm.Basic
namespace Lcm

/-! Algebraic laws of the specification-level Bellman operator (C10, C11). The operator is stated over an
arbitrary finite list of choices `xs`, an admissibility test (all filters and constraints), a utility `u`
and an expected continuation `cont` (`Σ_w P(w)·V̂(next, w)`); `solvePeriod` is shown to compute exactly such a
maximum by R1. -/

/-- positive-affine image of an extended value -/
def Ext.affine (a b : Rat) : Ext → Ext
  | .ninf => .ninf
  | .fin q => .fin (a * q + b)

theorem Ext.max_comm (x y : Ext) : Ext.max x y = Ext.max y x := by
  cases x <;> cases y <;> simp only [Ext.max]
  rename_i p q
  by_cases h1 : p ≤ q <;> by_cases h2 : q ≤ p <;> simp [h1, h2]
  · exact _root_.le_antisymm h2 h1
  · exact absurd (le_of_lt (not_le.mp h1)) h2

theorem Ext.affine_max (a b : Rat) (ha : 0 < a) (x y : Ext) :
    Ext.affine a b (Ext.max x y) = Ext.max (Ext.affine a b x) (Ext.affine a b y) := by
  cases x <;> cases y <;> simp only [Ext.max, Ext.affine]
  rename_i p q
  by_cases h : p ≤ q
  · have : a * p + b ≤ a * q + b := by nlinarith
    simp [h, this]
  · have h' : ¬ (a * p + b ≤ a * q + b) := by
      intro hc; apply h; nlinarith
    simp [h, h']

/-- the maximum commutes with positive-affine maps -/
theorem foldMax_affine (a b : Rat) (ha : 0 < a) (xs : List Ext) :
    foldMax (xs.map (Ext.affine a b)) = Ext.affine a b (foldMax xs) := by
  induction xs with
  | nil => rfl
  | cons x xs ih => rw [List.map_cons, foldMax_cons, foldMax_cons, ih, Ext.affine_max a b ha]

/-- the maximum does not depend on the order in which the choices are enumerated -/
theorem foldMax_perm (xs ys : List Ext) (h : xs.Perm ys) : foldMax xs = foldMax ys := by
  induction h with
  | nil => rfl
  | cons x _ ih => rw [foldMax_cons, foldMax_cons, ih]
  | swap x y l =>
    rw [foldMax_cons, foldMax_cons, foldMax_cons, foldMax_cons, ← Ext.max_assoc, ← Ext.max_assoc, Ext.max_comm y x]
  | trans _ _ ih1 ih2 => exact ih1.trans ih2

/-- one Bellman step at one state: maximum over the admissible choices of `u + β·continuation` -/
def bellmanStep {X : Type} (xs : List X) (adm : X → Bool) (u cont : X → Rat) (β : Rat) : Ext :=
  foldMax ((xs.filter adm).map fun x => Ext.fin (u x + β * cont x))

theorem bellmanStep_isMax {X : Type} (xs : List X) (adm : X → Bool) (u cont : X → Rat) (β : Rat) :
    IsMaxOver (fun x => x ∈ xs ∧ adm x = true) (fun x => u x + β * cont x) (bellmanStep xs adm u cont β) :=
  isMaxOver_filter xs adm _

/-- **affine law, one step**: `u ↦ a·u + b` and `continuation ↦ a·continuation + b·k` (what the induction
hypothesis gives, because expectations and interpolation weights sum to one) yields
`V ↦ a·V + b·(1 + β·k)` -/
theorem bellmanStep_affine {X : Type} (xs : List X) (adm : X → Bool) (u cont : X → Rat) (β a b k : Rat)
    (ha : 0 < a) :
    bellmanStep xs adm (fun x => a * u x + b) (fun x => a * cont x + b * k) β
      = Ext.affine a (b * (1 + β * k)) (bellmanStep xs adm u cont β) := by
  unfold bellmanStep
  rw [← foldMax_affine a _ ha, List.map_map]
  congr 1
  apply List.map_congr_left
  intro x _
  simp only [Function.comp, Ext.affine]
  congr 1
  ring

/-- `Σ_{k<n} β^k` by its recursion -/
def geo (β : Rat) : Nat → Rat
  | 0 => 0
  | n + 1 => 1 + β * geo β n

theorem sum_map_mul_left' (c : Rat) (l : List Nat) (f : Nat → Rat) :
    (l.map fun k => c * f k).sum = c * (l.map f).sum := by
  induction l with
  | nil => simp
  | cons x l ih => simp only [List.map_cons, List.sum_cons, ih]; ring

theorem geo_eq_sum (β : Rat) (n : Nat) : geo β n = ((List.range n).map fun k => β ^ k).sum := by
  induction n with
  | zero => simp [geo]
  | succ n ih =>
    rw [geo, ih, List.range_succ_eq_map, List.map_cons, List.sum_cons, List.map_map]
    simp only [pow_zero]
    congr 1
    rw [← sum_map_mul_left']
    congr 1
    apply List.map_congr_left
    intro k _
    simp [Function.comp, pow_succ, mul_comm]

/-- **beta = 0**: the value of a period is its one-period problem - the continuation is irrelevant -/
theorem bellmanStep_beta_zero {X : Type} (xs : List X) (adm : X → Bool) (u cont cont' : X → Rat) :
    bellmanStep xs adm u cont 0 = bellmanStep xs adm u cont' 0 := by
  unfold bellmanStep
  simp

/-- the value does not depend on the enumeration order of the choice grid -/
theorem bellmanStep_perm {X : Type} (xs ys : List X) (h : xs.Perm ys) (adm : X → Bool) (u cont : X → Rat) (β : Rat) :
    bellmanStep xs adm u cont β = bellmanStep ys adm u cont β := by
  unfold bellmanStep
  exact foldMax_perm _ _ ((h.filter adm).map _)

/-- a restriction that is always true changes nothing; a restriction may be written as a filter or as a
constraint: only the conjunction of all restrictions matters -/
theorem bellmanStep_restrictions {X : Type} (xs : List X) (r1 r2 : X → Bool) (u cont : X → Rat) (β : Rat) :
    bellmanStep (xs.filter r1) r2 u cont β = bellmanStep xs (fun x => r1 x && r2 x) u cont β ∧
    bellmanStep (xs.filter r2) r1 u cont β = bellmanStep xs (fun x => r1 x && r2 x) u cont β := by
  unfold bellmanStep
  constructor
  · rw [List.filter_filter]; congr 2; apply List.filter_congr; intro x _; exact Bool.and_comm _ _
  · rw [List.filter_filter]

theorem bellmanStep_true_restriction {X : Type} (xs : List X) (adm tr : X → Bool) (htr : ∀ x ∈ xs, tr x = true)
    (u cont : X → Rat) (β : Rat) :
    bellmanStep xs (fun x => adm x && tr x) u cont β = bellmanStep xs adm u cont β := by
  unfold bellmanStep
  congr 2
  apply List.filter_congr
  intro x hx
  simp [htr x hx]

/-- a convex combination commutes with affine maps (weights summing to one): the expectation over
stochastic transitions of `a·V + c` is `a·E[V] + c` -/
theorem expect_affine (w v : List Rat) (a c : Rat) (hw : w.sum = 1) (hlen : w.length = v.length) :
    ((w.zip v).map fun p => p.1 * (a * p.2 + c)).sum = a * ((w.zip v).map fun p => p.1 * p.2).sum + c := by
  induction w generalizing v with
  | nil => simp at hw
  | cons x w ih =>
    cases v with
    | nil => simp at hlen
    | cons y v =>
      -- generalise: without the normalisation the constant is scaled by the total weight
      have key : ∀ (w v : List Rat), w.length = v.length →
          ((w.zip v).map fun p => p.1 * (a * p.2 + c)).sum = a * ((w.zip v).map fun p => p.1 * p.2).sum + c * w.sum := by
        intro w
        induction w with
        | nil => intro v _; simp
        | cons x w ihw =>
          intro v hv
          cases v with
          | nil => simp at hv
          | cons y v =>
            simp only [List.zip_cons_cons, List.map_cons, List.sum_cons]
            rw [ihw v (by simpa using hv)]
            ring
      rw [key (x :: w) (y :: v) hlen, hw]
      ring

#print axioms bellmanStep_affine
#print axioms foldMax_perm
end Lcm
