import LcmProofs.Frame
namespace Lcm

/-! The by-name evaluator `callF` carries a fuel argument only to be a total structural recursion; `dags` has none. For an
*acyclic* specification (the only kind `dags` accepts) the fuel `m.fuel = #functions + 2` is adequate: more fuel never
changes a result. -/

/-- the function-to-function dependencies are acyclic: some rank strictly decreases along them -/
def Acyclic (m : Model) : Prop :=
  ∃ rank : Name → Nat, (∀ f ∈ m.functions, rank f.name < m.functions.length) ∧
    ∀ f ∈ m.functions, ∀ a ∈ f.args, (m.func? a).isSome = true → rank a < rank f.name

theorem callF_succ_of_rank (m : Model) (P : Params) (rank : Name → Nat)
    (hdec : ∀ f ∈ m.functions, ∀ a ∈ f.args, (m.func? a).isSome = true → rank a < rank f.name)
    (k : Nat) (e : Env) (n : Name) (hk : rank n < k) : callF m P k e n = callF m P (k + 1) e n := by
  induction k generalizing n with
  | zero => omega
  | succ k ih =>
    rw [callF, callF]
    cases hf : m.func? n with
    | none => rfl
    | some f =>
      have hmem : f ∈ m.functions := List.mem_of_find?_eq_some hf
      have hname : f.name = n := by have := List.find?_some hf; simpa using this
      simp only [Option.bind_eq_bind, Option.bind_some]
      congr 1
      apply mapM_congr_option
      intro a ha
      cases hfa : m.func? a with
      | none => rfl
      | some g =>
        simp only []
        apply ih
        have := hdec f hmem a ha (by rw [hfa]; rfl)
        rw [hname] at this
        omega

theorem callF_add_of_rank (m : Model) (P : Params) (rank : Name → Nat)
    (hdec : ∀ f ∈ m.functions, ∀ a ∈ f.args, (m.func? a).isSome = true → rank a < rank f.name)
    (k j : Nat) (e : Env) (n : Name) (hk : rank n < k) : callF m P k e n = callF m P (k + j) e n := by
  induction j with
  | zero => rfl
  | succ j ih => rw [ih, ← Nat.add_assoc, callF_succ_of_rank m P rank hdec (k + j) e n (by omega)]

/-- **fuel adequacy**: for an acyclic specification, evaluating with more fuel than `m.fuel` gives the same result -/
theorem callF_fuel_adequate (m : Model) (hac : Acyclic m) (P : Params) (j : Nat) (e : Env) (n : Name) :
    callF m P m.fuel e n = callF m P (m.fuel + j) e n := by
  obtain ⟨rank, hlt, hdec⟩ := hac
  cases hf : m.func? n with
  | none =>
    -- not a function: undefined for every positive fuel
    have h1 : ∀ k, callF m P (k + 1) e n = none := by intro k; rw [callF, hf]; rfl
    unfold Model.fuel
    rw [show m.functions.length + 2 = (m.functions.length + 1) + 1 from rfl, h1,
      show m.functions.length + 1 + 1 + j = (m.functions.length + 1 + j) + 1 by omega, h1]
  | some f =>
    have hmem : f ∈ m.functions := List.mem_of_find?_eq_some hf
    have hname : f.name = n := by have := List.find?_some hf; simpa using this
    apply callF_add_of_rank m P rank hdec
    have := hlt f hmem
    rw [hname] at this
    unfold Model.fuel
    omega

#print axioms callF_fuel_adequate
end Lcm
