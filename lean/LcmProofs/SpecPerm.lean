import LcmProofs.SpecRefine
import LcmProofs.FuncPerm
namespace Lcm

/-! Permuting the declaration order of states, choices and functions (C10) at the specification level: the
last-period value `specV … none` of a named state is the same for both specifications. Together with
`C01_entry_eq_spec_*` this identifies the stored entries of the two last-period arrays state by state, whatever
the two layouts are. -/

/-- conjunction of a list of model functions with an explicit start value -/
def allTrueFrom (m : Model) (P : Params) (env : Env) (acc : Bool) (names : List Name) : Option Bool :=
  names.foldlM (fun acc n => do let v ← callF m P m.fuel env n; pure (acc && v.toBool)) acc

theorem allTrue_eq_from (m : Model) (P : Params) (env : Env) (names : List Name) :
    allTrue m P env names = allTrueFrom m P env true names := rfl

theorem allTrueFrom_cons (m : Model) (P : Params) (env : Env) (acc : Bool) (n : Name) (l : List Name) :
    allTrueFrom m P env acc (n :: l)
      = (callF m P m.fuel env n).bind fun v => allTrueFrom m P env (acc && v.toBool) l := by
  unfold allTrueFrom
  rw [List.foldlM_cons]
  cases callF m P m.fuel env n <;> rfl

/-- the combined filter / constraint does not depend on the order of the functions -/
theorem allTrueFrom_perm (m : Model) (P : Params) (env : Env) (l l' : List Name) (h : l.Perm l') (acc : Bool) :
    allTrueFrom m P env acc l = allTrueFrom m P env acc l' := by
  induction h generalizing acc with
  | nil => rfl
  | cons x _ ih =>
    rw [allTrueFrom_cons, allTrueFrom_cons]
    cases callF m P m.fuel env x with
    | none => rfl
    | some v => exact ih _
  | swap x y l =>
    simp only [allTrueFrom_cons]
    cases callF m P m.fuel env x <;> cases callF m P m.fuel env y <;>
      simp only [Option.bind_none, Option.bind_some]
    rw [Bool.and_right_comm]
  | trans _ _ ih1 ih2 => exact (ih1 acc).trans (ih2 acc)

theorem allTrue_perm (m : Model) (P : Params) (env : Env) (l l' : List Name) (h : l.Perm l') :
    allTrue m P env l = allTrue m P env l' := allTrueFrom_perm m P env l l' h true

/-- the conjunction depends on the model only through the name → function lookup and the number of functions -/
theorem allTrue_congr_funcs (m m' : Model) (h : ∀ n, m.func? n = m'.func? n) (hfuel : m.fuel = m'.fuel)
    (P : Params) (env : Env) (names : List Name) : allTrue m P env names = allTrue m' P env names := by
  unfold allTrue
  have : (fun (acc : Bool) (n : Name) => do let v ← callF m P m.fuel env n; pure (acc && v.toBool))
      = (fun (acc : Bool) (n : Name) => do let v ← callF m' P m'.fuel env n; pure (acc && v.toBool)) := by
    funext acc n
    rw [hfuel, callF_congr_funcs m m' h P m'.fuel env n]
  rw [this]

/-- a specification with the declarations permuted -/
structure PermOf (m m' : Model) : Prop where
  periods : m'.nPeriods = m.nPeriods
  states : m.states.Perm m'.states
  choices : m.choices.Perm m'.choices
  functions : m.functions.Perm m'.functions

theorem PermOf.func? {m m' : Model} (h : PermOf m m') (hnd : (m.functions.map (·.name)).Nodup) (n : Name) :
    m.func? n = m'.func? n := find?_func_perm m.functions m'.functions h.functions hnd n

theorem PermOf.fuel {m m' : Model} (h : PermOf m m') : m.fuel = m'.fuel := by
  unfold Model.fuel; rw [h.functions.length_eq]

theorem PermOf.names {m m' : Model} (h : PermOf m m') (p : FunctionInfo → Bool) :
    (((functionInfo m).filter p).map (·.name)).Perm (((functionInfo m').filter p).map (·.name)) := by
  unfold functionInfo
  exact ((h.functions.map _).filter p).map _

/-- the last-period objective and feasibility of an environment are the same for both specifications -/
theorem uAndF_last_perm {m m' : Model} (h : PermOf m m') (hnd : (m.functions.map (·.name)).Nodup)
    (P : Params) (g g' : Groups) (t : Nat) (e : Env) :
    uAndF m P g t none e = uAndF m' P g' t none e := by
  unfold uAndF
  have hc := allTrue_congr_funcs m m' (h.func? hnd) h.fuel P (e ++ periodEnv t)
  have hp := allTrue_perm m' P (e ++ periodEnv t) _ _ (h.names (·.isConstraint))
  simp only []
  rw [hc, hp, h.fuel, callF_congr_funcs m m' (h.func? hnd) P m'.fuel (e ++ periodEnv t) "utility"]

theorem filters_perm {m m' : Model} (h : PermOf m m') (hnd : (m.functions.map (·.name)).Nodup)
    (P : Params) (e : Env) :
    allTrue m P e (filterNames m) = allTrue m' P e (filterNames m') := by
  rw [allTrue_congr_funcs m m' (h.func? hnd) h.fuel P e]
  exact allTrue_perm m' P e _ _ (h.names (·.isFilter))

/-- `specQ` of the last period: same value for rearranged state and choice lists -/
theorem specQ_last_perm {m m' : Model} (h : PermOf m m') (hnd : (m.functions.map (·.name)).Nodup)
    (P : Params) (g g' : Groups) (t : Nat) (st st' ch ch' : List (Name × Rat))
    (hst : st.Perm st') (hch : ch.Perm ch') (hkeys : ((st ++ ch).map (·.1)).Nodup) :
    specQ m P g t none st ch = specQ m' P g' t none st' ch' := by
  have hE : EnvEq (toEnv (st ++ ch)) (toEnv (st' ++ ch')) := envEq_of_perm _ _ (hst.append hch) hkeys
  rw [specQ_eq_combine, specQ_eq_combine]
  rw [allTrue_congr_env m P _ _ (hE.append (EnvEq.refl _)), filters_perm h hnd P,
    uAndF_congr_env m P g t none _ _ hE, uAndF_last_perm h hnd P g g' t]

/-- **last-period value of a named state: invariant under permuting the declarations** -/
theorem specV_last_perm {m m' : Model} (h : PermOf m m') (hnd : (m.functions.map (·.name)).Nodup)
    (P : Params) (g g' : Groups) (t : Nat) (st st' : List (Name × Rat)) (hst : st.Perm st')
    (hkeys : (st.map (·.1) ++ m.choices.map (·.1)).Nodup) :
    specV m P g t none st = specV m' P g' t none st' := by
  have h1 := foldMax_isMaxOver (allChoices m) (fun c => selAdm (specQ m P g t none st c))
  have h2 := foldMax_isMaxOver (allChoices m') (fun c => selAdm (specQ m' P g' t none st' c))
  have hgrids : (m.choices.map fun p => (p.1, p.2.points)).Perm (m'.choices.map fun p => (p.1, p.2.points)) :=
    h.choices.map _
  have hk : ∀ ch ∈ allChoices m, ((st ++ ch).map (·.1)).Nodup := by
    intro ch hch
    rw [List.map_append, allChoices_keys m ch hch]; exact hkeys
  show foldMax (((allChoices m).filterMap fun c => selAdm (specQ m P g t none st c)).map Ext.fin)
    = foldMax (((allChoices m').filterMap fun c => selAdm (specQ m' P g' t none st' c)).map Ext.fin)
  refine (h1.transfer ?_ ?_).unique h2
  · rintro ch ⟨hch, hsome⟩
    obtain ⟨ch', hch', hperm⟩ := assignments_perm _ _ hgrids.symm ch hch
    have hq := specQ_last_perm h hnd P g g' t st st' ch ch' hst hperm.symm (hk ch hch)
    exact ⟨ch', ⟨hch', by simpa only [← hq] using hsome⟩, by simp only [← hq]⟩
  · rintro ch' ⟨hch', hsome⟩
    obtain ⟨ch, hch, hperm⟩ := assignments_perm _ _ hgrids ch' hch'
    have hq := specQ_last_perm h hnd P g g' t st st' ch ch' hst hperm (hk ch hch)
    exact ⟨ch, ⟨hch, by simpa only [hq] using hsome⟩, by simp only [hq]⟩

#print axioms specV_last_perm

/-- the general step: if the objectives of the two specifications agree on every environment (same continuation), the
value of a named state is the same -/
theorem specQ_perm_of {m m' : Model} (h : PermOf m m') (hnd : (m.functions.map (·.name)).Nodup)
    (P : Params) (g g' : Groups) (t : Nat) (next next' : Option (Tensor Ext × List (List (Name × Rat))))
    (huF : ∀ e, uAndF m P g t next e = uAndF m' P g' t next' e)
    (st st' ch ch' : List (Name × Rat))
    (hst : st.Perm st') (hch : ch.Perm ch') (hkeys : ((st ++ ch).map (·.1)).Nodup) :
    specQ m P g t next st ch = specQ m' P g' t next' st' ch' := by
  have hE : EnvEq (toEnv (st ++ ch)) (toEnv (st' ++ ch')) := envEq_of_perm _ _ (hst.append hch) hkeys
  rw [specQ_eq_combine, specQ_eq_combine]
  rw [allTrue_congr_env m P _ _ (hE.append (EnvEq.refl _)), filters_perm h hnd P,
    uAndF_congr_env m P g t next _ _ hE, huF]

theorem specV_perm_of {m m' : Model} (h : PermOf m m') (hnd : (m.functions.map (·.name)).Nodup)
    (P : Params) (g g' : Groups) (t : Nat) (next next' : Option (Tensor Ext × List (List (Name × Rat))))
    (huF : ∀ e, uAndF m P g t next e = uAndF m' P g' t next' e)
    (st st' : List (Name × Rat)) (hst : st.Perm st')
    (hkeys : (st.map (·.1) ++ m.choices.map (·.1)).Nodup) :
    specV m P g t next st = specV m' P g' t next' st' := by
  have h1 := foldMax_isMaxOver (allChoices m) (fun c => selAdm (specQ m P g t next st c))
  have h2 := foldMax_isMaxOver (allChoices m') (fun c => selAdm (specQ m' P g' t next' st' c))
  have hgrids : (m.choices.map fun p => (p.1, p.2.points)).Perm (m'.choices.map fun p => (p.1, p.2.points)) :=
    h.choices.map _
  have hk : ∀ ch ∈ allChoices m, ((st ++ ch).map (·.1)).Nodup := by
    intro ch hch
    rw [List.map_append, allChoices_keys m ch hch]; exact hkeys
  show foldMax (((allChoices m).filterMap fun c => selAdm (specQ m P g t next st c)).map Ext.fin)
    = foldMax (((allChoices m').filterMap fun c => selAdm (specQ m' P g' t next' st' c)).map Ext.fin)
  refine (h1.transfer ?_ ?_).unique h2
  · rintro ch ⟨hch, hsome⟩
    obtain ⟨ch', hch', hperm⟩ := assignments_perm _ _ hgrids.symm ch hch
    have hq := specQ_perm_of h hnd P g g' t next next' huF st st' ch ch' hst hperm.symm (hk ch hch)
    exact ⟨ch', ⟨hch', by simpa only [← hq] using hsome⟩, by simp only [← hq]⟩
  · rintro ch' ⟨hch', hsome⟩
    obtain ⟨ch, hch, hperm⟩ := assignments_perm _ _ hgrids ch' hch'
    have hq := specQ_perm_of h hnd P g g' t next next' huF st st' ch ch' hst hperm (hk ch hch)
    exact ⟨ch, ⟨hch, by simpa only [hq] using hsome⟩, by simp only [hq]⟩

end Lcm
