# --- shim (content of /tmp/seed_shim.py) ---
import sys, types, os
WT = os.environ.get("LCM_WT")  # path of your worktree, e.g. /tmp/seed_C01
sys.path.insert(0, os.path.join(WT, "src"))
import jax, jax._src.util as _u
m = types.ModuleType("jax.util"); m.safe_zip = _u.safe_zip; m.unzip2 = _u.unzip2
sys.modules["jax.util"] = m; jax.util = m
jax.config.update("jax_enable_x64", True)
import lcm
assert lcm.__file__.startswith(WT), lcm.__file__
# --- end shim ---
"""C17 finding 1: a state whose name ends in '_filter' (or is 'filter') turns its
transition function next_<state> into a filter.

Run: LCM_WT=/tmp/hunt_C17 /venv/bin/python finding_1.py   (exit 1 while defect present)
"""
from dataclasses import dataclass

import jax.numpy as jnp
import numpy as np

from lcm import DiscreteGrid, LinspaceGrid, Model
from lcm.input_processing import process_model
from lcm.state_space import create_state_choice_space


@dataclass
class Two:
    no: int = 0
    yes: int = 1


def make_model(state_name):
    ns = {"jnp": jnp}
    exec(
        f"def utility(a, {state_name}, c, wealth, cons):\n"
        f"    return jnp.log(cons) + a + {state_name} + c + 0 * wealth\n"
        f"def next_state({state_name}):\n"
        f"    return {state_name}\n",
        ns,
    )
    return Model(
        n_periods=2,
        functions={
            "utility": ns["utility"],
            "next_wealth": lambda wealth, cons: wealth - cons,
            "next_a": lambda a: a,
            f"next_{state_name}": ns["next_state"],
            # the ONLY filter of the model: restricts (a, c)
            "feasible_filter": lambda a, c: a >= c,
        },
        states={
            "a": DiscreteGrid(Two),
            state_name: DiscreteGrid(Two),
            "wealth": LinspaceGrid(start=1, stop=10, n_points=3),
        },
        choices={
            "c": DiscreteGrid(Two),
            "cons": LinspaceGrid(start=1, stop=5, n_points=3),
        },
    )


def observe(state_name, period, jit):
    im = process_model(make_model(state_name))
    sp, _info, idx, seg = create_state_choice_space(
        im, period, is_last_period=period == 1, jit_filter=jit
    )
    return (
        {k: np.asarray(v).tolist() for k, v in sp.sparse_vars.items()},
        {k: np.asarray(v).tolist() for k, v in sp.dense_vars.items()},
        np.asarray(idx["state_indexer"]).tolist(),
        np.asarray(seg["segment_ids"]).tolist(),
    )


# The only filter is a >= c over a in {0,1}, c in {0,1}. The second discrete state is
# not restricted by any filter, so the property demands:
EXP_SPARSE = {"a": [0, 1, 1], "c": [0, 0, 1]}
EXP_INDEXER = [0, 1]
EXP_SEGMENTS = [0, 1, 1]

failed = False
for name in ["job", "job_filter", "filter"]:
    for period in (0, 1):
        for jit in (False, True):
            sparse, dense, indexer, segments = observe(name, period, jit)
            ok = (
                sparse == EXP_SPARSE
                and indexer == EXP_INDEXER
                and segments == EXP_SEGMENTS
                and dense.get(name) == [0, 1]
            )
            if not ok:
                failed = True
                print(f"VIOLATION: second state named {name!r}, period={period}, jit_filter={jit}")
                print("  input   : only filter is feasible_filter(a, c) = a >= c; "
                      f"state {name!r} in {{0,1}} appears in no filter; next_{name} = identity")
                print(f"  observed: sparse_vars={sparse} dense_vars keys={list(dense)} "
                      f"state_indexer={indexer} segments={segments}")
                print(f"  expected: sparse_vars={EXP_SPARSE}, {name!r} stored as full grid [0, 1] "
                      f"in dense_vars, state_indexer={EXP_INDEXER}, segments={EXP_SEGMENTS}")
            else:
                print(f"ok: second state named {name!r}, period={period}, jit_filter={jit}")

fi = process_model(make_model("job_filter")).function_info
print(fi.loc[["next_job_filter"]])
sys.exit(1 if failed else 0)
