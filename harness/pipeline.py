"""Helpers shared by the pipeline properties (C01-C13): run solve / simulate of the implementation
on a specification given as JSON, run the same through the Lean model, compare."""
from __future__ import annotations

import random
from fractions import Fraction as Fr

from common import HarnessError, driver, fr, impl, impl_site, same_number
from dsl import build_model, params_impl, params_json
from gen import gen_model, gen_params, nontrivial, signature, strip


def materialise_case(case):
    """case -> (model_json, meta, [params...], rng)"""
    if case.get("kind", "gen") == "gen":
        r = random.Random(case["seed"])
        mj, meta = gen_model(r, force=case.get("force"), max_T=case.get("max_T", 4), budget=case.get("budget", 6000))
        Ps = [gen_params(r, mj, beta=case.get("beta")) for _ in range(case.get("n_params", 1))]
        return mj, meta, Ps, r
    mj = case["model"]
    Ps = [unjson_params(p) for p in case["params"]]
    return mj, case.get("meta", {}), Ps, random.Random(case.get("seed", 0))


def unjson_params(pj):
    return {
        "beta": Fr(pj["beta"]),
        "funcs": {f: {p: Fr(v) for p, v in ps.items()} for f, ps in pj["funcs"].items()},
        "shocks": {x: {"shape": t["shape"], "data": [Fr(v) for v in t["data"]]} for x, t in pj["shocks"].items()},
    }


def explicit_case(mj, Ps, **kw):
    return {"kind": "explicit", "model": mj, "params": [params_json(P) for P in Ps], **kw}


def impl_solve(mj, P, jit=True, leaf="float"):
    """Returns (list of numpy arrays, template) or raises."""
    I = impl()
    from lcm.entry_point import get_lcm_function

    model = build_model(mj)
    solve, tmpl = get_lcm_function(model, targets="solve", jit=jit)
    V = solve(params_impl(P, leaf))
    return [I.np.asarray(v) for v in V], tmpl


def model_solve(mj, P):
    return driver().call({"op": "solve", "model": strip(mj), "params": params_json(P)})


def compare_value_arrays(Vimpl, Vmodel, n_periods, tol=None):
    """Entry-wise comparison honouring the supported class (see DESIGN 6/C01): period t is compared
    only if the model's arrays of all later periods are finite. Returns (diffs, stats)."""
    diffs = []
    stats = {"entries": 0, "ninf": 0, "periods_skipped": 0}
    if len(Vimpl) != len(Vmodel["V"]):
        return [{"clause": "one value array per period", "detail": f"impl {len(Vimpl)} arrays, model {len(Vmodel['V'])}"}], stats
    later_finite = True
    for t in reversed(range(len(Vimpl))):
        a = Vimpl[t]
        b = Vmodel["V"][t]
        undef = Vmodel["undef"][t] if "undef" in Vmodel else 0
        if not later_finite or undef:
            stats["periods_skipped"] += 1
        else:
            if list(a.shape) != b["shape"]:
                diffs.append({"clause": "axis layout / shape", "detail": f"period {t}: impl shape {list(a.shape)}, model shape {b['shape']}"})
            else:
                flat = a.ravel() if a.shape else [a[()]]
                for j, (x, y) in enumerate(zip(flat, b["data"])):
                    stats["entries"] += 1
                    if y == "-inf":
                        stats["ninf"] += 1
                    if not same_number(x, y, tol):
                        diffs.append({"clause": "value equals the Bellman value", "detail": f"period {t} flat index {j} shape {b['shape']}: impl {fr(x)} ({float(x)}), model {y}"})
                        break
        if any(y == "-inf" for y in b["data"]) or undef:
            later_finite = False
    return diffs, stats


# ======================================================================================
# simulation
# ======================================================================================
def init_impl(mj, init, int_cont=False, narrow=False):
    """harness initial states {state: [Fr...]} -> dict of jnp arrays (ints for discrete states).
    `int_cont`: continuous states whose initial values are all integers are passed with an integer dtype
    (a legal input: upstream's own tests pass `jnp.array([0, 4])` for wealth)."""
    I = impl()
    G = dict((k, g) for k, g in mj["states"])
    out = {}
    for s, vals in init.items():
        if narrow and G[s]["k"] == "disc":
            # the dtypes a data set delivers (pandas categorical codes are int8, many columns are float32)
            out[s] = I.jnp.array([int(v) for v in vals], dtype=I.jnp.int8)
        elif narrow and all(float(I.np.float32(float(v))) == float(v) for v in vals):
            out[s] = I.jnp.array([float(v) for v in vals], dtype=I.jnp.float32)
        elif G[s]["k"] == "disc":
            out[s] = I.jnp.array([int(v) for v in vals])
        elif int_cont and all(Fr(v).denominator == 1 for v in vals):
            out[s] = I.jnp.array([int(v) for v in vals])
        else:
            out[s] = I.jnp.array([float(v) for v in vals])
    return out


class ImplFns:
    """solve / simulate functions of one specification (built once, reused across calls)"""

    _count = 0

    def __init__(self, mj, jit=True, history=None):
        impl()
        from lcm.entry_point import get_lcm_function

        self.mj = mj
        self.model = build_model(mj)
        self.solve, self.template = get_lcm_function(self.model, targets="solve", jit=jit)
        self.simulate, self.sim_template = get_lcm_function(self.model, targets="simulate", jit=jit)
        self._sas = None
        self.jit = jit
        # every third instance lives through a *history*: each solve / simulate call is preceded by another call on the same
        # function object - solve with other parameter values, simulate with the very same argument objects and another seed.
        # The oracles only see the second result, so state kept between calls, arguments written to, or results depending on
        # the number of previous calls surface in whatever property is being checked.
        ImplFns._count += 1
        self.history = history if history is not None else (ImplFns._count % 3 == 0)
        if self.history:
            raw_solve, raw_sim = self.solve, self.simulate

            def solve_h(params):
                import copy

                p2 = copy.deepcopy(params)
                for k_, v_ in p2.items():
                    if k_ == "beta":
                        p2[k_] = 0.5 * float(v_) + 0.125
                    elif k_ != "shocks" and isinstance(v_, dict):
                        for kk_ in v_:
                            v_[kk_] = float(v_[kk_]) + 0.25
                raw_solve(p2)
                return raw_solve(params)

            def simulate_h(params, **kw):
                kw2 = dict(kw)
                kw2["seed"] = int(kw.get("seed", 0) or 0) + 17
                raw_sim(params, **kw2)
                return raw_sim(params, **kw)

            self.solve, self.simulate = solve_h, simulate_h

    @property
    def solve_and_simulate(self):
        if self._sas is None:
            from lcm.entry_point import get_lcm_function

            self._sas, _ = get_lcm_function(self.model, targets="solve_and_simulate", jit=self.jit)
        return self._sas


def frame_rows(df, mj, n_agents):
    """DataFrame -> rows[t][i] = {"value": float, "choices": {c: float}, "states": {s: float}, "_period": int}"""
    import numpy as np

    rows = []
    T = mj["n_periods"]
    cols = {c: np.asarray(df[c]) for c in df.columns}
    for t in range(T):
        per = []
        for i in range(n_agents):
            k = t * n_agents + i
            per.append({
                "value": float(cols["value"][k]),
                "choices": {c: float(cols[c][k]) for c, _ in mj["choices"]},
                "states": {s: float(cols[s][k]) for s, _ in mj["states"]},
                "_period": int(cols["_period"][k]),
            })
        rows.append(per)
    return rows


def model_sim_spec(mj, P, t, Vnext, agents):
    """agents = [{"states": {s: x}, "choices": {c: x}}] with float/Fraction values"""
    req = {
        "op": "sim_spec", "model": strip(mj), "params": params_json(P), "t": t,
        "Vnext": None if Vnext is None else _ext_tensor_json(Vnext),
        "agents": [{"states": [[s, fr(a["states"][s])] for s, _ in mj["states"]],
                    "choices": [[c, fr(a["choices"][c])] for c, _ in mj["choices"]]} for a in agents],
    }
    return driver().call(req)


def _ext_tensor_json(a):
    import numpy as np

    a = np.asarray(a)
    flat = a.ravel() if a.shape else np.array([a[()]])
    return {"shape": list(a.shape), "data": [fr(float(x)) for x in flat]}


def check_simulation(mj, P, V, rows, init, tol=None):
    """Evaluate the relations of C02 / C03 / C13(_period) on an implementation panel `rows` against the
    Lean specification, step-wise (the model is fed the implementation's own period-t states).
    Returns {"C02": [...], "C03": [...], "C13": [...], "stats": {...}} lists of violation dicts."""
    out = {"C02": [], "C03": [], "C13": [], "stats": {"agent_periods": 0, "ties": 0, "undefined": 0, "stoch_draws": 0, "binding": 0, "offgrid_state": 0}}
    T = mj["n_periods"]
    n = len(rows[0])
    snames = [s for s, _ in mj["states"]]
    # period-0 states are the supplied initial states
    for i in range(n):
        for s in snames:
            if Fr(rows[0][i]["states"][s]) != Fr(init[s][i]):
                out["C03"].append({"clause": "period-0 states equal the initial states", "detail": f"agent {i} state {s}: frame {rows[0][i]['states'][s]}, supplied {init[s][i]}"})
    for t in range(T):
        Vnext = V[t + 1] if t + 1 < T else None
        # choices that are not numbers cannot be sent to the model: they are replaced for the call and judged below
        nan_rows = {i for i, row in enumerate(rows[t]) if any(c != c for c in row["choices"].values())}
        clean = [dict(row, choices={k: (0.0 if v != v else v) for k, v in row["choices"].items()}) if i in nan_rows else row for i, row in enumerate(rows[t])]
        spec = model_sim_spec(mj, P, t, Vnext, clean)
        for i, (row, sp) in enumerate(zip(rows[t], spec)):
            if i in nan_rows and not sp["undefined"] and sp["best"] != "-inf":
                out["stats"]["agent_periods"] += 1
                out["C02"].append({"clause": "reported choices are grid values", "detail": f"period {t} agent {i} states {row['states']} choices {row['choices']}"})
                continue
            out["stats"]["agent_periods"] += 1
            if row["_period"] != t:
                out["C13"].append({"clause": "_period equals t in row (t, i)", "detail": f"row ({t},{i}) has _period {row['_period']}"})
            if sp["undefined"]:
                out["stats"]["undefined"] += 1
                continue
            where = f"period {t} agent {i} states {row['states']} choices {row['choices']}"
            if sp["n_optimal"] > 1:
                out["stats"]["ties"] += 1
            if sp["best"] == "-inf":
                # no admissible choice: outside the supported class for the *decision* (C02); the law of motion still speaks
                # about the choices that are reported for such an agent (C03: "reported choices")
                out["stats"]["undefined"] += 1
                if t + 1 < T and all(c == c for c in row["choices"].values()):
                    _check_next(out, sp, rows[t + 1][i], where, t, tol, stats=False)
                elif t + 1 < T:
                    out["C03"].append({"clause": "next state equals the transition function", "detail": f"{where}: the reported choices of an agent without admissible choice are not numbers, its next state {rows[t + 1][i]['states']} cannot be the transition function at the reported choices"})
                continue
            if not sp["on_grid"]:
                out["C02"].append({"clause": "reported choices are grid values", "detail": where})
            elif sp["adm"] is not True:
                out["C02"].append({"clause": "reported choices pass all filters and constraints", "detail": where})
            elif not _eq(sp["q"], sp["best"], tol):
                out["C02"].append({"clause": "reported choices attain the maximum", "detail": f"{where}: objective at reported choice {sp['q']}, maximum {sp['best']}"})
            if not same_number(row["value"], sp["best"], tol):
                out["C02"].append({"clause": "reported value equals the maximum", "detail": f"{where}: value {fr(row['value'])}, maximum {sp['best']}"})
            if t + 1 < T:
                _check_next(out, sp, rows[t + 1][i], where, t, tol)
    return out


def _check_next(out, sp, nrow, where, t, tol, stats=True):
    for s, v in (sp.get("next_det") or {}).items():
        if v is None:
            continue
        if not same_number(nrow["states"][s], v, tol):
            out["C03"].append({"clause": "next state equals the transition function", "detail": f"{where}: state {s} in period {t + 1} is {fr(nrow['states'][s])}, transition gives {v}"})
    for s, prow in (sp.get("rows") or {}).items():
        if stats:
            out["stats"]["stoch_draws"] += 1
        lab = nrow["states"][s]
        if lab != int(lab) or not (0 <= int(lab) < len(prow)):
            out["C03"].append({"clause": "stochastic next state is a grid label", "detail": f"{where}: state {s} in period {t + 1} is {lab}"})
        elif Fr(prow[int(lab)]) <= 0:
            out["C03"].append({"clause": "drawn label has positive probability", "detail": f"{where}: state {s} label {int(lab)} has probability {prow[int(lab)]} in row {prow}"})


def _eq(a, b, tol):
    if a is None or b is None:
        return False
    if a in ("-inf",) or b in ("-inf",):
        return a == b
    if tol is None:
        if Fr(a) == Fr(b):
            return True
        from common import INEXACT, INEXACT_RTOL

        if abs(Fr(a) - Fr(b)) <= Fr(INEXACT_RTOL) * max(Fr(1), abs(Fr(b))):
            INEXACT["count"] += 1
            return True
        return False
    return abs(float(Fr(a)) - float(Fr(b))) <= tol * max(1.0, abs(float(Fr(b))))


def model_layout(mj):
    return driver().call({"op": "layout", "model": strip(mj)})


# ======================================================================================
# canary (DESIGN section 8): the comparison machinery must flag a deliberately wrong answer
# ======================================================================================
CANARY_MODEL = {
    "n_periods": 2,
    "states": [["s", {"k": "disc", "n": 3}], ["w", {"k": "lin", "a": "0", "b": "2", "n": 3}]],
    "choices": [["d", {"k": "disc", "n": 2}], ["c", {"k": "lin", "a": "0", "b": "1", "n": 2}]],
    "functions": [
        {"name": "utility", "args": ["s", "d", "c", "w"], "body": ["add", ["add", ["mul", ["num", "10"], ["var", "s"]], ["var", "d"]], ["sub", ["mul", ["num", "2"], ["var", "c"]], ["var", "w"]]], "stochastic": False, "ints": False},
        {"name": "next_s", "args": ["s"], "body": ["max", ["var", "s"], ["num", "1"]], "stochastic": False, "ints": True},
        {"name": "next_w", "args": ["w", "c"], "body": ["sub", ["var", "w"], ["var", "c"]], "stochastic": False, "ints": False},
        {"name": "c_constraint", "args": ["c", "w"], "body": ["le", ["var", "c"], ["var", "w"]], "stochastic": False, "ints": False},
        {"name": "p_filter", "args": ["s", "_period"], "body": ["or", ["not", ["eq", ["var", "s"], ["num", "0"]]], ["not", ["eq", ["var", "_period"], ["num", "1"]]]], "stochastic": False, "ints": True},
    ],
}


def canary():
    """Returns a list of failures (empty = the comparison code flags what it must flag)."""
    import copy

    I = impl()
    fails = []
    mj = CANARY_MODEL
    P = {"beta": Fr(1, 2), "funcs": {f["name"]: {} for f in mj["functions"]}, "shocks": {}}
    Vm = model_solve(mj, P)
    Vi, _ = impl_solve(mj, P, jit=False)
    d0, _ = compare_value_arrays(Vi, Vm, 2)
    if d0:
        return []  # the tree under test differs from the model here: the regular cases report it; nothing to self-test
    bad = copy.deepcopy(Vm)
    q = Fr(bad["V"][0]["data"][1]) + Fr(1, 8)
    bad["V"][0]["data"][1] = f"{q.numerator}/{q.denominator}"
    if not compare_value_arrays(Vi, bad, 2)[0]:
        fails.append("a value off by 1/8 is not flagged by compare_value_arrays")
    bad = copy.deepcopy(Vm)
    bad["V"][1]["shape"] = list(reversed(bad["V"][1]["shape"]))
    if not compare_value_arrays(Vi, bad, 2)[0]:
        fails.append("a transposed shape is not flagged by compare_value_arrays")
    # simulation relations
    fns = ImplFns(mj, jit=True)
    init = {"s": [Fr(1), Fr(2), Fr(1)], "w": [Fr(1), Fr(2), Fr(1, 2)]}
    df = fns.simulate(params_impl(P), initial_states=init_impl(mj, init), vf_arr_list=[I.jnp.asarray(v) for v in Vi], seed=1)
    rows = frame_rows(df, mj, 3)
    res = check_simulation(mj, P, Vi, rows, init)
    if res["C02"] or res["C03"] or res["C13"]:
        return fails
    for what, mutate in (
        ("a reported value off by 1/8", lambda rr: rr[0][0].__setitem__("value", rr[0][0]["value"] + 0.125)),
        ("an off-grid reported choice", lambda rr: rr[0][1]["choices"].__setitem__("c", 0.5)),
        ("a wrong next state", lambda rr: rr[1][2]["states"].__setitem__("w", rr[1][2]["states"]["w"] + 0.25)),
        ("a wrong _period", lambda rr: rr[1][0].__setitem__("_period", 0)),
    ):
        rr = copy.deepcopy(rows)
        mutate(rr)
        res = check_simulation(mj, P, Vi, rr, init)
        if not (res["C02"] or res["C03"] or res["C13"]):
            fails.append(f"{what} is not flagged by check_simulation")
    return fails


def wf_hist(mj, hist):
    """record in the evidence histogram whether the hypotheses of the Lean theorems (names distinct, `NextKeysNodup`, ...)
    hold for this explored specification (driver op `wf`, LcmModel/WellFormed.lean); never a violation"""
    try:
        rep = driver().call({"op": "wf", "model": strip(mj)})
    except HarnessError:
        return
    hist["theorem_hypotheses_hold"] = hist.get("theorem_hypotheses_hold", 0) + int(bool(rep["all"]))
    for k, v in rep.items():
        if k != "all" and not v:
            hist[f"hypothesis_fails:{k}"] = hist.get(f"hypothesis_fails:{k}", 0) + 1
