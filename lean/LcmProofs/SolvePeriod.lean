import LcmModel.Solve
import LcmProofs.Tensor
import LcmProofs.SolveStep
import LcmProofs.SimStep
namespace Lcm

/-! R1 for one period **on the executable model** `solvePeriod` (restricted-variable case). -/

theorem inBounds_append (s1 s2 i1 i2 : List Nat) (h1 : InBounds s1 i1) (h2 : InBounds s2 i2) :
    InBounds (s1 ++ s2) (i1 ++ i2) := by
  induction s1 generalizing i1 with
  | nil => cases i1 <;> simp_all [InBounds]
  | cons n s ih =>
    cases i1 with
    | nil => simp [InBounds] at h1
    | cons i is => simp only [InBounds, List.cons_append] at h1 ⊢; exact ⟨h1.1, ih is h1.2⟩

theorem inBounds_length (s i : List Nat) (h : InBounds s i) : i.length = s.length := by
  induction s generalizing i with
  | nil => cases i <;> simp_all [InBounds]
  | cons n s ih =>
    cases i with
    | nil => simp [InBounds] at h
    | cons j js => simp only [InBounds] at h; simp [ih js h.2]

theorem mem_allIdx_inBounds (s idx : List Nat) (h : idx ∈ allIdx s) : InBounds s idx := by
  induction s generalizing idx with
  | nil => simp [allIdx] at h; subst h; simp [InBounds]
  | cons n s ih =>
    simp only [allIdx, List.mem_flatMap, List.mem_range, List.mem_map] at h
    obtain ⟨i, hi, j, hj, rfl⟩ := h
    exact ⟨hi, ih j hj⟩

theorem range_map_getD {α β} (l : List α) (d : α) (F : α → β) :
    (List.range l.length).map (fun r => F (l.getD r d)) = l.map F := by
  apply List.ext_getElem
  · simp
  · intro i h1 h2
    simp only [List.getElem_map, List.getElem_range]
    congr 1
    simp at h2
    exact (List.getElem_eq_getD (h := h2) d).symm

/-- index tuples of the dense grids enumerate exactly the assignments, in the same (row-major) order -/
theorem allIdx_pickAt (l : List (Name × List Rat)) :
    (allIdx (sizes l)).map (pickAt l) = assignments l := by
  induction l with
  | nil => simp [sizes, allIdx, pickAt, assignments]
  | cons p rest ih =>
    obtain ⟨x, g⟩ := p
    simp only [sizes, List.map_cons, allIdx, assignments, List.map_flatMap, List.map_map]
    have hrest : ∀ i : Nat, (List.map (pickAt ((x, g) :: rest) ∘ fun x => i :: x) (allIdx (List.map (fun x => x.2.length) rest)))
        = (assignments rest).map fun a => (x, g.getD i 0) :: a := by
      intro i
      rw [← ih]
      simp [pickAt, sizes, Function.comp_def]
    simp only [hrest]
    -- g.flatMap f = (range g.length).flatMap (f ∘ getD)
    have : g = (List.range g.length).map fun i => g.getD i 0 := by
      apply List.ext_getElem
      · simp
      · intro i h1 h2; simp [List.getElem_eq_getD (h := h1) 0]
    conv_rhs => rw [this]
    simp [List.flatMap_map]

/-- the masked max only looks at unmasked entries -/
theorem maskedMax_map_congr {X : Type} (l : List X) (a b : X → Ext) (test : X → Bool)
    (h : ∀ x ∈ l, test x = true → a x = b x) :
    maskedMax (l.map a) (l.map test) = maskedMax (l.map b) (l.map test) := by
  unfold maskedMax
  congr 1
  induction l with
  | nil => simp
  | cons x xs ih =>
    simp only [List.map_cons, List.zip_cons_cons, List.filterMap_cons]
    have ih' := ih (fun y hy => h y (List.mem_cons_of_mem _ hy))
    cases hx : test x
    · simpa using ih'
    · simp only [if_true]
      rw [h x (by simp) hx, ih']

#print axioms allIdx_pickAt
end Lcm

namespace Lcm

theorem sizes_length (l : List (Name × List Rat)) : (sizes l).length = l.length := by simp [sizes]

theorem take_app3 {α} (a b c : List α) (n : Nat) (h : a.length = n) : (a ++ b ++ c).take n = a := by
  rw [List.append_assoc]; exact List.take_left' h
theorem drop_app3 {α} (a b c : List α) (n : Nat) (h : a.length = n) : (a ++ b ++ c).drop n = b ++ c := by
  rw [List.append_assoc]; exact List.drop_left' h
theorem drop_app3' {α} (a b c : List α) (n m : Nat) (ha : a.length = n) (hb : b.length = m) :
    (a ++ b ++ c).drop (n + m) = c := by
  rw [← List.drop_drop, drop_app3 a b c n ha]; exact List.drop_left' hb

theorem denseEnv_append (g : Groups) (dIdx j xIdx : List Nat) (hd : dIdx.length = g.dS.length)
    (hj : j.length = g.dC.length) :
    denseEnv g (dIdx ++ j ++ xIdx)
      = toEnv (pickAt g.dS dIdx ++ pickAt g.dC j ++ pickAt (cStateGrids g) xIdx) := by
  unfold denseEnv
  simp only [take_app3 dIdx j xIdx _ hd, drop_app3 dIdx j xIdx _ hd, List.take_left' hj,
    drop_app3' dIdx j xIdx _ _ hd hj]

/-- shape of the array after the max over the dense discrete choice axes -/
theorem maxMid_shape_sparse (g : Groups) (n : Nat) :
    List.take (1 + g.dS.length) (n :: (sizes g.dS ++ sizes g.dC ++ sizes (cStateGrids g)))
        ++ List.drop (1 + g.dS.length + g.dC.length) (n :: (sizes g.dS ++ sizes g.dC ++ sizes (cStateGrids g)))
      = n :: (sizes g.dS ++ sizes (cStateGrids g)) := by
  have h1 : 1 + g.dS.length = g.dS.length + 1 := by omega
  have h2 : g.dS.length + 1 + g.dC.length = (g.dS.length + g.dC.length) + 1 := by omega
  rw [h1, h2, List.take_succ_cons, List.drop_succ_cons,
    take_app3 _ _ _ _ (sizes_length g.dS), drop_app3' _ _ _ _ _ (sizes_length g.dS) (sizes_length g.dC)]
  simp

theorem block_shape_sparse (g : Groups) (n : Nat) :
    List.take g.dC.length (List.drop (1 + g.dS.length) (n :: (sizes g.dS ++ sizes g.dC ++ sizes (cStateGrids g))))
      = sizes g.dC := by
  have h1 : 1 + g.dS.length = g.dS.length + 1 := by omega
  rw [h1, List.drop_succ_cons, drop_app3 _ _ _ _ (sizes_length g.dS)]
  exact List.take_left' (sizes_length g.dC)

/-- **Routing theorem** (restricted-variable case): the entry of the array computed by the
executable `solvePeriod` — materialised ccv tensor, max over the dense discrete choice axes
`[1+nd, 1+nd+nc)`, segment max with the ids of `create_indexers_and_segments`, materialised — at
index `(k, dense-state index, continuous-state index)` is the nested max over the filter-passing
restricted choices and the unrestricted discrete choices of the continuous problem at the `k`-th
feasible restricted state and the addressed dense / continuous grid state. -/
theorem solvePeriod_get_sparse (m : Model) (P : Params) (g : Groups) (t : Nat) (sp : Space)
    (next : Option (Tensor Ext × List (List (Name × Rat))))
    (ss sc : List (List (Name × Rat))) (filt : List (Name × Rat) → List (Name × Rat) → Bool)
    (hrows : sp.rows = combos ss sc filt) (hfeas : sp.feas = feasStates ss sc filt)
    (hseg : sp.segIds = segIdsImpl ss sc filt)
    (hsparse : (!(g.sS.isEmpty && g.sC.isEmpty)) = true)
    (k : Nat) (hk : k < (feasStates ss sc filt).length) (dIdx xIdx : List Nat)
    (hd : InBounds (sizes g.dS) dIdx) (hx : InBounds (sizes (cStateGrids g)) xIdx) :
    (solvePeriod m P g t sp next).get (k :: (dIdx ++ xIdx))
      = foldMax ((sc.filter (filt ((feasStates ss sc filt)[k]))).map fun c =>
          foldMax ((assignments g.dC).map fun e =>
            ccvEnv m P g t next (toEnv ((feasStates ss sc filt)[k] ++ c)
              ++ toEnv (pickAt g.dS dIdx ++ e ++ pickAt (cStateGrids g) xIdx)))) := by
  have hdl : dIdx.length = g.dS.length := by rw [inBounds_length _ _ hd, sizes_length]
  unfold solvePeriod
  simp only [hsparse, if_true]
  -- outer materialise
  rw [materialize_get]
  swap
  · show InBounds (sp.feas.length :: _) (k :: (dIdx ++ xIdx))
    refine ⟨by rw [hfeas]; exact hk, ?_⟩
    simp only [Tensor.maxMid, Tensor.materialize, ccvSparse]
    rw [maxMid_shape_sparse]
    exact inBounds_append _ _ _ _ hd hx
  -- segment max
  show segMaxAt ((List.range _).map fun r => _) sp.segIds k = _
  rw [hseg]
  -- each row value: max over the dense choice block of the (materialised) ccv tensor
  have hrow : (List.range ((Tensor.maxMid (ccvSparse m P g t sp next).materialize (1 + g.dS.length) g.dC.length).shape.headD 0)).map
        (fun r => (Tensor.maxMid (ccvSparse m P g t sp next).materialize (1 + g.dS.length) g.dC.length).get (r :: (dIdx ++ xIdx)))
      = (combos ss sc filt).map fun row => foldMax ((assignments g.dC).map fun e =>
          ccvEnv m P g t next (toEnv (row.1 ++ row.2) ++ toEnv (pickAt g.dS dIdx ++ e ++ pickAt (cStateGrids g) xIdx))) := by
    have hshape : (Tensor.maxMid (ccvSparse m P g t sp next).materialize (1 + g.dS.length) g.dC.length).shape.headD 0
        = (combos ss sc filt).length := by
      simp only [Tensor.maxMid, Tensor.materialize, ccvSparse]
      rw [maxMid_shape_sparse]; simp [hrows]
    rw [hshape, ← range_map_getD (combos ss sc filt) ([], [])]
    apply List.map_congr_left
    intro r hr
    have hr' : r < (combos ss sc filt).length := List.mem_range.mp hr
    simp only [Tensor.maxMid]
    have hblock : List.take g.dC.length (List.drop (1 + g.dS.length) (ccvSparse m P g t sp next).materialize.shape)
        = sizes g.dC := by
      simp only [Tensor.materialize, ccvSparse]
      exact block_shape_sparse g _
    rw [hblock, ← allIdx_pickAt g.dC, List.map_map]
    congr 1
    apply List.map_congr_left
    intro j hj
    have hjb := mem_allIdx_inBounds _ _ hj
    have hjl : j.length = g.dC.length := by rw [inBounds_length _ _ hjb, sizes_length]
    have h1 : 1 + g.dS.length = g.dS.length + 1 := by omega
    have htake : List.take (1 + g.dS.length) (r :: (dIdx ++ xIdx)) = r :: dIdx := by
      rw [h1, List.take_succ_cons, List.take_left' hdl]
    have hdrop : List.drop (1 + g.dS.length) (r :: (dIdx ++ xIdx)) = xIdx := by
      rw [h1, List.drop_succ_cons, List.drop_left' hdl]
    rw [htake, hdrop, materialize_get]
    · show ccvEnv m P g t next (toEnv ((sp.rows.getD r ([], [])).1 ++ (sp.rows.getD r ([], [])).2)
          ++ denseEnv g (dIdx ++ j ++ xIdx)) = _
      simp only [Function.comp]
      rw [denseEnv_append g dIdx j xIdx hdl hjl, hrows]
    · show InBounds (sp.rows.length :: _) (r :: (dIdx ++ j ++ xIdx))
      refine ⟨by rw [hrows]; exact hr', ?_⟩
      exact inBounds_append _ _ _ _ (inBounds_append _ _ _ _ hd hjb) hx
  rw [hrow]
  exact segMaxAt_combos ss sc filt _ k hk


/-- the objective-and-feasibility evaluation the executable model performs for the state addressed
by `(s, dIdx, xIdx)` and the choice `(c, e, y)` -/
def objAt (m : Model) (P : Params) (g : Groups) (t : Nat)
    (next : Option (Tensor Ext × List (List (Name × Rat)))) (s : List (Name × Rat)) (dIdx xIdx : List Nat)
    (c e y : List (Name × Rat)) : Option (Rat × Bool) :=
  uAndF m P g t next (toEnv (s ++ c) ++ toEnv (pickAt g.dS dIdx ++ e ++ pickAt (cStateGrids g) xIdx) ++ toEnv y)

theorem ccvEnv_eq_ccvAt (m : Model) (P : Params) (g : Groups) (t : Nat)
    (next : Option (Tensor Ext × List (List (Name × Rat)))) (s : List (Name × Rat)) (dIdx xIdx : List Nat)
    (c e : List (Name × Rat)) :
    ccvEnv m P g t next (toEnv (s ++ c) ++ toEnv (pickAt g.dS dIdx ++ e ++ pickAt (cStateGrids g) xIdx))
      = ccvAt (assignments g.cC)
          (fun (_ : Unit) c e y => valueOf (objAt m P g t next s dIdx xIdx c e y))
          (fun (_ : Unit) c e y => feasibleOf (objAt m P g t next s dIdx xIdx c e y)) () c e := by
  unfold ccvEnv ccvAt
  apply maskedMax_map_congr
  intro y _ hy
  simp only [objAt] at hy ⊢
  cases h : uAndF m P g t next (toEnv (s ++ c) ++ toEnv (pickAt g.dS dIdx ++ e ++ pickAt (cStateGrids g) xIdx) ++ toEnv y) with
  | none => rw [h] at hy; simp [feasibleOf] at hy
  | some p => rfl

/-- **R1 for one period on the executable model** (restricted-variable case): the entry of the
array returned by `solvePeriod` for the `k`-th feasible restricted state, dense discrete state
`dIdx` and continuous grid node `xIdx` is the maximum of the objective over all grid choice
combinations (restricted `c`, unrestricted discrete `e`, continuous `y`) that pass the filter and
for which the model's `uAndF` reports feasibility — −inf iff there is none. -/
theorem solvePeriod_isMax (m : Model) (P : Params) (g : Groups) (t : Nat) (sp : Space)
    (next : Option (Tensor Ext × List (List (Name × Rat))))
    (ss sc : List (List (Name × Rat))) (filt : List (Name × Rat) → List (Name × Rat) → Bool)
    (hrows : sp.rows = combos ss sc filt) (hfeas : sp.feas = feasStates ss sc filt)
    (hseg : sp.segIds = segIdsImpl ss sc filt)
    (hsparse : (!(g.sS.isEmpty && g.sC.isEmpty)) = true)
    (k : Nat) (hk : k < (feasStates ss sc filt).length) (dIdx xIdx : List Nat)
    (hd : InBounds (sizes g.dS) dIdx) (hx : InBounds (sizes (cStateGrids g)) xIdx) :
    IsMaxOver
      (fun x : List (Name × Rat) × (List (Name × Rat) × List (Name × Rat)) =>
        (x.1 ∈ sc ∧ filt ((feasStates ss sc filt)[k]) x.1 = true) ∧
          (x.2.1 ∈ assignments g.dC ∧ (x.2.2 ∈ assignments g.cC ∧
            feasibleOf (objAt m P g t next ((feasStates ss sc filt)[k]) dIdx xIdx x.1 x.2.1 x.2.2) = true)))
      (fun x => valueOf (objAt m P g t next ((feasStates ss sc filt)[k]) dIdx xIdx x.1 x.2.1 x.2.2))
      ((solvePeriod m P g t sp next).get (k :: (dIdx ++ xIdx))) := by
  rw [solvePeriod_get_sparse m P g t sp next ss sc filt hrows hfeas hseg hsparse k hk dIdx xIdx hd hx]
  generalize (feasStates ss sc filt)[k] = s
  have := denseSeg_isMax (S := Unit) sc (assignments g.dC) (assignments g.cC)
    (fun _ c => filt s c)
    (fun _ c e y => valueOf (objAt m P g t next s dIdx xIdx c e y))
    (fun _ c e y => feasibleOf (objAt m P g t next s dIdx xIdx c e y)) ()
  simp only [denseMaxAt] at this
  simp only [ccvEnv_eq_ccvAt]
  exact this

#print axioms solvePeriod_get_sparse
#print axioms solvePeriod_isMax
end Lcm
