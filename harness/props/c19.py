"""C19 - vectorisation dispatchers equal nested loops over named arguments.

Tie: `productmap`, `vmap_1d`, `spacemap` on generated functions (1-5 parameters of every kind: positional-
only, positional-or-keyword, keyword-only; body = distinct integer coefficients times the sum of each
argument, so every mis-binding or transposition changes the result; scalar, tuple and dict outputs), all
subsets and orders of mapped names, against the Lean models `productmapModel` (iterated `vmapAt` over the
reversed positions), `vmap1dModel`, `spacemapModel`; and `allow_only_kwargs` / `allow_args` on generated
signatures and calls (valid, missing, unexpected, duplicated, positional) against `allowOnlyKwargs` /
`allowArgs` (with Python's own binding rules modelled by `pyBind`).
Oracle: nested Python loops over the mapped names in the listed order (C19's statement itself).
"""
from __future__ import annotations

import itertools
import random
from fractions import Fraction as Fr

from common import driver, fr, impl, impl_site

RULE = ("cases = generated signatures (1-5 parameters, positional-only prefix, keyword-only suffix) x mapped-name subsets in random order x "
        "argument sizes 1-4 (pairwise distinct where possible) x scalar/tuple/dict outputs; wrapper calls: valid, missing, unexpected, "
        "duplicated keyword, positional; distinct = (dispatcher, #params, kinds, #mapped, output kind) resp. (wrapper, kinds, call pattern); "
        "evaluations = dispatcher results / wrapper calls compared")
ASSUMPTIONS = ["variadic parameters are not supported by the wrappers and not generated"]
NAMES = ["a", "b", "c", "d", "e"]


def cases(seed, tier):
    n = 200 if tier == "quick" else 4000
    return [{"seed": seed * 1_000_003 + 19001 + i, "what": ["productmap", "vmap1d", "spacemap", "kwargs", "kwargs"][i % 5]} for i in range(n)]


def make_sig(r, n, defaults=False):
    """`defaults`: trailing positional parameters and some keyword-only parameters get default values (the wrappers demand
    every parameter all the same - a default is never a licence to leave an argument out)"""
    ps = NAMES[:n]
    r.shuffle(ps)
    npo = r.choice([0, 0, 0, 1, 2]) if n > 1 else r.choice([0, 0, 1])
    npo = min(npo, n)
    nkw = r.randint(0, n - npo) if r.random() < 0.5 else 0
    kinds = ["posOnly"] * npo + ["posOrKw"] * (n - npo - nkw) + ["kwOnly"] * nkw
    sig = []
    for i, (p, k) in enumerate(zip(ps, kinds)):
        if i == npo and npo > 0:
            sig.append("/")
        if k == "kwOnly" and (i == 0 or kinds[i - 1] != "kwOnly"):
            sig.append("*")
        sig.append(p)
    if npo == n:
        sig.append("/")
    if defaults:
        npos = sum(k != "kwOnly" for k in kinds)
        cut = r.randint(0, npos)          # positional parameters from `cut` on have defaults
        seen = 0
        for j, tok in enumerate(sig):
            if tok in ("/", "*"):
                continue
            k = kinds[ps.index(tok)]
            if (k != "kwOnly" and seen >= cut) or (k == "kwOnly" and r.random() < 0.5):
                sig[j] = f"{tok}={1000 + 7 * j}"
            if k != "kwOnly":
                seen += 1
    return ps, kinds, ", ".join(sig)


def run_case(case):
    I = impl()
    jax, jnp, np = I.jax, I.jnp, I.np
    r = random.Random(case["seed"])
    what = case["what"]
    out = {"nontrivial": True, "evals": 0, "violations": [], "corr_breaks": [], "hist": {f"what={what}": 1}}
    vs = out["violations"]
    if what == "kwargs":
        return run_kwargs(r, out)
    if what == "witness_allow_args":
        return witness_allow_args(out)
    if what == "witness_vmap1d_kwonly":
        return witness_vmap1d_kwonly(out)
    from lcm.dispatchers import productmap, spacemap, vmap_1d

    n = r.randint(1, 5)
    ps, kinds, sig = make_sig(r, n)
    outkind = r.choice(["scalar", "scalar", "tuple", "dict"])
    leaf_len = r.choice([0, 0, 3, 2])      # 0: scalar leaves; otherwise every leaf is a vector of that length
    ncomp = 1 if outkind == "scalar" else 2
    coefs = [[r.choice([1, 2, 3, 5, 7, 11, 13, -4, -9])] * 0 + [(k + 1) * (17 ** j) + r.randint(0, 3) for j in range(n)] for k in range(ncomp)]
    comps = [" + ".join(f"{c} * jnp.sum({p})" for c, p in zip(cf, ps)) for cf in coefs]
    if leaf_len:
        comps = [f"({c_}) * (jnp.arange({leaf_len}) + 1)" for c_ in comps]
    ret = comps[0] if outkind == "scalar" else (f"({comps[0]}, {comps[1]})" if outkind == "tuple" else f"{{'u': {comps[0]}, 'v': {comps[1]}}}")
    ns = {"jnp": jnp}
    exec(f"def f({sig}):\n    return {ret}\n", ns)  # noqa: S102
    f = ns["f"]
    sizes = [1, 2, 3, 4]
    r.shuffle(sizes)
    if what == "productmap":
        k = r.randint(1, n)
        vars_ = r.sample(ps, k)
        args = {}
        for i, p in enumerate(ps):
            if p in vars_:
                m = sizes[vars_.index(p) % 4]
                args[p] = np.array([r.randint(-5, 5) for _ in range(m)])
            else:
                args[p] = np.array(r.randint(-5, 5)) if r.random() < 0.6 else np.array([r.randint(-5, 5) for _ in range(r.randint(1, 3))])
        out["sig"] = f"leaf={leaf_len} productmap n={n} kinds={''.join(k_[3] for k_ in kinds)} mapped={k} out={outkind} sigorder={[ps.index(v) for v in vars_] == sorted(ps.index(v) for v in vars_)}"
        try:
            listed = list(vars_)
            productmap(f, vars_)              # a first dispatcher built from the same list object
            res = _call_twice(r, productmap(f, vars_), {p: jnp.asarray(v) for p, v in args.items()})
            if vars_ != listed:
                vs.append({"clause": "entry (i1..ik) = function at the i1-th..ik-th elements, axes in the order the names were listed",
                           "detail": f"def f({sig}): productmap changed the caller's list of names from {listed} to {vars_}", "key": "C19:loops"})
                return out
        except Exception as e:  # noqa: BLE001
            vs.append({"clause": "productmap evaluates", "detail": f"def f({sig}) variables {vars_}: {impl_site(e)}: {str(e)[:200]}", "key": "C19:eval"})
            return out
        want_shape = [len(args[v]) for v in vars_]

        def oracle(cf):
            o = np.zeros(want_shape, dtype=np.int64)
            for idx in itertools.product(*[range(s) for s in want_shape]):
                loc = dict(args)
                for v, i in zip(vars_, idx):
                    loc[v] = args[v][i]
                o[idx] = sum(c * int(np.sum(loc[p])) for c, p in zip(cf, ps))
            return o
        req = {"op": "dispatch", "kind": "productmap", "params": ps, "coefs": coefs, "vars": vars_}
    elif what == "vmap1d":
        k = r.randint(1, n)
        vars_ = r.sample(ps, k)
        m = r.randint(1, 4)
        args = {}
        for p in ps:
            if p in vars_:
                args[p] = np.array([r.randint(-5, 5) for _ in range(m)])
            else:
                args[p] = np.array(r.randint(-5, 5)) if r.random() < 0.6 else np.array([r.randint(-5, 5) for _ in range(r.choice([1, 2, 3, 5]))])
        cw = r.choice(["only_kwargs", "only_args"])
        out["sig"] = f"vmap1d n={n} kinds={''.join(k_[3] for k_ in kinds)} mapped={k} out={outkind} {cw}"
        if cw == "only_args" and "kwOnly" in kinds:
            cw = "only_kwargs"
        try:
            g = vmap_1d(f, vars_, callable_with=cw)
            res = _call_twice(r, g, {p: jnp.asarray(v) for p, v in args.items()}) if cw == "only_kwargs" else g(*[jnp.asarray(args[p]) for p in ps])
        except Exception as e:  # noqa: BLE001
            vs.append({"clause": "vmap_1d evaluates", "detail": f"def f({sig}) variables {vars_} {cw}: {impl_site(e)}: {str(e)[:200]}", "key": "C19:eval"})
            return out
        want_shape = [m]

        def oracle(cf):
            o = np.zeros(want_shape, dtype=np.int64)
            for i in range(m):
                loc = dict(args)
                for v in vars_:
                    loc[v] = args[v][i]
                o[i] = sum(c * int(np.sum(loc[p])) for c, p in zip(cf, ps))
            return o
        req = {"op": "dispatch", "kind": "vmap1d", "params": ps, "coefs": coefs, "vars": vars_}
    else:
        perm = ps[:]
        r.shuffle(perm)
        nd = r.randint(0, n)
        dense = perm[:nd]
        nsparse = r.randint(0, n - nd)
        sparse = perm[nd:nd + nsparse]
        if not dense and not sparse:
            dense = [perm[0]]
        m = r.randint(1, 4)
        dense_first = r.random() < 0.5
        args = {}
        for p in ps:
            if p in dense:
                args[p] = np.array([r.randint(-5, 5) for _ in range(sizes[dense.index(p) % 4])])
            elif p in sparse:
                args[p] = np.array([r.randint(-5, 5) for _ in range(m)])
            else:
                args[p] = np.array(r.randint(-5, 5))
        out["sig"] = f"leaf={leaf_len} spacemap n={n} kinds={''.join(k_[3] for k_ in kinds)} dense={len(dense)} sparse={len(sparse)} dense_first={dense_first} out={outkind}"
        try:
            listed = (list(dense), list(sparse))
            spacemap(f, dense_vars=dense, sparse_vars=sparse, put_dense_first=dense_first)      # same list objects, built twice
            res = _call_twice(r, spacemap(f, dense_vars=dense, sparse_vars=sparse, put_dense_first=dense_first), {p: jnp.asarray(v) for p, v in args.items()})
            if (dense, sparse) != listed:
                vs.append({"clause": "entry (i1..ik) = function at the i1-th..ik-th elements, axes in the order the names were listed",
                           "detail": f"def f({sig}): spacemap changed the caller's lists of names from {listed} to {(dense, sparse)}", "key": "C19:loops"})
                return out
        except Exception as e:  # noqa: BLE001
            vs.append({"clause": "spacemap evaluates", "detail": f"def f({sig}) dense {dense} sparse {sparse}: {impl_site(e)}: {str(e)[:200]}", "key": "C19:eval"})
            return out
        dshape = [len(args[v]) for v in dense]
        want_shape = (dshape + [m] if dense_first else [m] + dshape) if sparse else dshape

        def oracle(cf):
            o = np.zeros(want_shape, dtype=np.int64)
            for didx in itertools.product(*[range(s) for s in dshape]):
                for i in (range(m) if sparse else [None]):
                    loc = dict(args)
                    for v, j in zip(dense, didx):
                        loc[v] = args[v][j]
                    for v in sparse:
                        loc[v] = args[v][i]
                    full = (didx + (i,) if dense_first else (i,) + didx) if sparse else didx
                    o[full] = sum(c * int(np.sum(loc[p])) for c, p in zip(cf, ps))
            return o
        req = {"op": "dispatch", "kind": "spacemap", "params": ps, "coefs": coefs, "dense": dense, "sparse": sparse, "dense_first": dense_first}
    req["leaf_len"] = leaf_len
    req["args"] = {p: {"shape": list(np.asarray(v).shape), "data": [str(int(x)) for x in np.asarray(v).ravel()]} for p, v in args.items()}
    model = driver().call(req)
    comps_impl = [res] if outkind == "scalar" else (list(res) if outkind == "tuple" else [res["u"], res["v"]])
    out["evals"] = 1
    out["hist"][f"out={outkind}"] = 1
    out["hist"][f"leaf_len={leaf_len}"] = 1
    for cidx, (ci, cf, mo) in enumerate(zip(comps_impl, coefs, model)):
        ci = np.asarray(ci)
        orc = oracle(cf)
        if leaf_len:
            # nested loops: every entry is the vector (k+1) * scalar; extra leaf dimensions come after the mapped axes
            orc = orc[..., None] * (np.arange(leaf_len) + 1)
        desc = f"def f({sig}) -> {outkind}; {req['kind']} {({k: req[k] for k in ('vars', 'dense', 'sparse', 'dense_first') if k in req})}; args { {p: np.asarray(v).tolist() for p, v in args.items()} }"
        if list(ci.shape) != list(orc.shape) or not np.array_equal(ci.astype(np.int64), orc):
            vs.append({"clause": "entry (i1..ik) = function at the i1-th..ik-th elements, axes in the order the names were listed", "detail": f"{desc}: component {cidx}: implementation shape {list(ci.shape)} {ci.tolist()}, nested loops shape {list(orc.shape)} {orc.tolist()}", "key": "C19:loops"})
            break
        if mo["shape"] != list(orc.shape) or [int(Fr(x)) for x in mo["data"]] != [int(x) for x in orc.ravel()]:
            out["corr_breaks"].append({"clause": "Lean dispatcher model equals the nested loops", "detail": f"{desc}: model {mo}, loops {orc.tolist()}", "key": "C19:model", "nofail": True})
            break
    out["sample"] = {"signature": f"def f({sig})", "dispatcher": req["kind"], "mapped": req.get("vars") or {"dense": req.get("dense"), "sparse": req.get("sparse")}, "output": outkind, "result_shape": list(np.asarray(comps_impl[0]).shape)}
    return out


def _call_twice(r, g, kwargs):
    """The mapped function is called twice on the same object, first with the keywords in a shuffled order; the result of
    the *second* call (keywords in signature order) is what the oracle sees, so state kept between calls shows up."""
    items = list(kwargs.items())
    r.shuffle(items)
    g(**dict(items))
    return g(**kwargs)


def run_kwargs(r, out):
    from lcm.functools import allow_args, allow_only_kwargs

    vs = out["violations"]
    n = r.randint(1, 5)
    ps, kinds, sig = make_sig(r, n, defaults=r.random() < 0.4)
    ns = {}
    exec(f"def f({sig}):\n    return dict({', '.join(f'{p}={p}' for p in ps)})\n", ns)  # noqa: S102
    f = ns["f"]
    wrapper = r.choice(["allow_only_kwargs", "allow_args"])
    vals = {p: r.randint(0, 99) for p in ps}
    if wrapper == "allow_only_kwargs":
        args = []
        kw = list(vals.items())
        r.shuffle(kw)
    else:
        k = r.randint(0, n)
        args = [vals[p] for p in ps[:k]]
        kw = [(p, vals[p]) for p in ps[k:]]
        r.shuffle(kw)
    m = r.random()
    pattern = "valid"
    if m < 0.12 and kw:
        kw.pop()
        pattern = "missing"
    elif m < 0.24:
        kw.append(("zz", 5))
        pattern = "unexpected"
    elif m < 0.36 and args and wrapper == "allow_args" and kw:
        kw[0] = (ps[0], 77)
        pattern = "duplicates-positional"
    elif m < 0.44 and wrapper == "allow_only_kwargs":
        args = [1]
        pattern = "positional"
    elif m < 0.50 and wrapper == "allow_args" and args:
        args = args + [3]
        pattern = "too-many"
    try:
        w = allow_only_kwargs(f) if wrapper == "allow_only_kwargs" else allow_args(f)
    except Exception as e:  # noqa: BLE001
        out["evals"] = 1
        out["sig"] = f"{wrapper} kinds={''.join(k[3] for k in kinds)} wrap"
        vs.append({"clause": "the wrappers accept every function signature", "detail": f"def f({sig}); {wrapper}(f) raised {type(e).__name__}: {str(e)[:120]}",
                   "key": f"C19:wrap:{type(e).__name__}"})
        return out
    try:
        got = w(*args, **dict(kw))
    except ValueError:
        got = "ValueError"
    except TypeError:
        got = "TypeError"
    except Exception as e:  # noqa: BLE001
        got = f"Internal:{type(e).__name__}"
    ans = driver().call({"op": "kwargs_call", "wrapper": wrapper if wrapper == "allow_only_kwargs" else "allow_args_repaired", "params": [[p, k] for p, k in zip(ps, kinds)], "args": args, "kwargs": [list(x) for x in kw]})
    out["evals"] = 1
    out["sig"] = f"{wrapper} kinds={''.join(k[3] for k in kinds)} {pattern}"
    out["hist"][f"pattern={pattern}"] = 1
    desc = f"def f({sig}); {wrapper}(f)(*{args}, **{dict(kw)})"
    complete_valid = pattern == "valid"
    if complete_valid:
        if got != vals:
            vs.append({"clause": "every value is bound to the parameter of the same name, whatever the order of the keywords", "detail": f"{desc}: {got}, expected {vals}", "key": "C19:bind"})
        else:
            # history on the *same* wrapper object: further calls with the keywords in other orders and other values
            for rep in range(2):
                vals2 = {p: r.randint(100, 199) for p in ps}
                if wrapper == "allow_only_kwargs":
                    a2, kw2 = [], list(vals2.items())
                else:
                    k2 = r.randint(0, n)
                    a2, kw2 = [vals2[p] for p in ps[:k2]], [(p, vals2[p]) for p in ps[k2:]]
                r.shuffle(kw2)
                try:
                    got2 = w(*a2, **dict(kw2))
                except Exception as e:  # noqa: BLE001
                    got2 = f"{type(e).__name__}"
                out["evals"] += 1
                if got2 != vals2:
                    vs.append({"clause": "every value is bound to the parameter of the same name, whatever the order of the keywords",
                               "detail": f"{desc}, then on the same wrapper (*{a2}, **{dict(kw2)}): {got2}, expected {vals2}", "key": "C19:bind"})
                    break
            out["hist"]["same_wrapper_called_again"] = 1
    elif pattern in ("missing", "unexpected", "positional", "too-many", "duplicates-positional"):
        if isinstance(got, dict):
            vs.append({"clause": "missing or unexpected arguments are rejected", "detail": f"{desc} ({pattern}): accepted and returned {got}", "key": f"C19:accept-{pattern}"})
    if not vs and got != ans:
        out["corr_breaks"].append({"clause": "wrapper outcome as in the model", "detail": f"{desc}: implementation {got}, model {ans}", "key": "C19:wrapper-model", "nofail": True})
    out["sample"] = {"call": desc, "outcome": got if not isinstance(got, dict) else "bound"}
    return out


def witness_allow_args(out):
    """F4: allow_args(f)(1, 2, a=3) for f(a, b, c) must be rejected"""
    from lcm.functools import allow_args

    def f(a, b, c):
        return {"a": a, "b": b, "c": c}

    out["evals"] = 1
    out["sig"] = "witness allow_args duplicate keyword"
    try:
        got = allow_args(f)(1, 2, a=3)
    except (ValueError, TypeError):
        got = "rejected"
    if got != "rejected":
        out["violations"].append({"clause": "missing or unexpected arguments are rejected", "detail": f"allow_args(f)(1, 2, a=3) for f(a, b, c) returned {got}", "key": "C19:accept-duplicates-positional"})
    out["sample"] = {"call": "allow_args(f)(1, 2, a=3)", "outcome": str(got)}
    return out


def witness_vmap1d_kwonly(out):
    """F5: vmap_1d over a function with keyword-only parameters"""
    I = impl()
    from lcm.dispatchers import vmap_1d

    def f(a, *, b):
        return a + 10 * b

    out["evals"] = 1
    out["sig"] = "witness vmap_1d keyword-only"
    try:
        got = I.np.asarray(vmap_1d(f, ["a", "b"])(a=I.jnp.arange(3), b=I.jnp.arange(3))).tolist()
    except Exception as e:  # noqa: BLE001
        got = f"{type(e).__name__}"
    if got != [0, 11, 22]:
        out["violations"].append({"clause": "vmap_1d evaluates", "detail": f"def f(a, *, b); vmap_1d(f, ['a', 'b'])(a=arange(3), b=arange(3)): {got}", "key": "C19:eval"})
    out["sample"] = {"call": "vmap_1d(f, ['a','b']) with f(a, *, b)", "outcome": got}
    return out
