"""Finding 1: a continuous state on a one-point grid (n_points=1, accepted by the grid
validation) has no working function representation.

LinspaceGrid(n_points=1): every evaluation raises ZeroDivisionError.
LogspaceGrid(n_points=1): every evaluation (also at the single node) returns NaN; in the
full pipeline the value function of all non-last periods silently becomes NaN.

Exits 1 while the defect is present.
"""
# --- shim -----------------------------------------------------------------------------
import sys, types, os
WT = os.environ.get("LCM_WT")  # path of your worktree, e.g. /tmp/seed_C01
sys.path.insert(0, os.path.join(WT, "src"))
import jax, jax._src.util as _u
m = types.ModuleType("jax.util"); m.safe_zip = _u.safe_zip; m.unzip2 = _u.unzip2
sys.modules["jax.util"] = m; jax.util = m
jax.config.update("jax_enable_x64", True)
import lcm
assert lcm.__file__.startswith(WT), lcm.__file__
# --------------------------------------------------------------------------------------
import numpy as np
import jax.numpy as jnp
from lcm import LinspaceGrid, LogspaceGrid, Model
from lcm.entry_point import get_lcm_function
from lcm.function_representation import get_function_representation
from lcm.interfaces import SpaceInfo

bad = False

# ---------------------------------------------------------------------------------------
# (a) directly at get_function_representation
# ---------------------------------------------------------------------------------------
for G in (LinspaceGrid, LogspaceGrid):
    grid = G(start=1.0, stop=2.0, n_points=1)  # accepted: "n_points must be an int > 0"
    nodes = grid.to_jax()
    other = LinspaceGrid(start=0.0, stop=1.0, n_points=3)
    space_info = SpaceInfo(
        axis_names=["w", "h"],
        lookup_info={},
        interpolation_info={"w": grid, "h": other},
        indexer_infos=[],
    )
    f = get_function_representation(space_info, "vf_arr")
    vf_arr = jnp.array([[1.0, 2.0, 4.0]])  # shape (1, 3)
    print(f"{G.__name__}(start=1.0, stop=2.0, n_points=1): nodes = {nodes}")
    print("  input : vf_arr=[[1., 2., 4.]], w=1.0 (the only node), h=0.75")
    print("  expect: 3.0 (stored row, interpolated in h between 2. and 4.)")
    try:
        got = float(f(vf_arr=vf_arr, w=float(nodes[0]), h=0.75))
        print(f"  got   : {got}")
        if not np.isclose(got, 3.0):
            bad = True
    except Exception as e:  # noqa: BLE001
        print(f"  got   : {type(e).__name__}: {e}")
        bad = True


# ---------------------------------------------------------------------------------------
# (b) full pipeline
# ---------------------------------------------------------------------------------------
def utility(consumption, wealth):
    return jnp.log(consumption) + 0.01 * wealth


def next_wealth(wealth, consumption):
    return wealth + 0 * consumption


for G in (LinspaceGrid, LogspaceGrid):
    model = Model(
        n_periods=2,
        functions={"utility": utility, "next_wealth": next_wealth},
        choices={"consumption": LinspaceGrid(start=1, stop=2, n_points=3)},
        states={"wealth": G(start=1, stop=10, n_points=1)},
    )
    print(f"pipeline, state wealth on {G.__name__}(start=1, stop=10, n_points=1), 2 periods")
    # V_1(1) = log(2) + 0.01 = 0.70314718, V_0(1) = V_1(1) * (1 + 0.9) = 1.33597964
    print("  expect: V_0 = [1.33597964], V_1 = [0.70314718]")
    try:
        solve, params = get_lcm_function(model, targets="solve", debug_mode=False)
        params["beta"] = 0.9
        V = [np.asarray(v) for v in solve(params)]
        print(f"  got   : V_0 = {V[0]}, V_1 = {V[1]}")
        if not np.allclose(V[0], [1.33597964]):
            bad = True
    except Exception as e:  # noqa: BLE001
        print(f"  got   : {type(e).__name__}: {e}")
        bad = True

print("DEFECT PRESENT" if bad else "ok")
sys.exit(1 if bad else 0)
