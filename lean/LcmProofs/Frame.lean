import LcmProofs.Congr
import LcmProofs.Layout
namespace Lcm

/-! Frame property of by-name evaluation: a model function reads only the names reachable from it in the
function DAG (`ancestorsAux`, the model of `dags.get_ancestors`). Consequence: filters read filter-restricted
variables only - the *definition* of "restricted" (`is_sparse`: ancestor of a filter). -/

theorem mapM_congr_option {α β} (l : List α) (f g : α → Option β) (h : ∀ a ∈ l, f a = g a) :
    l.mapM f = l.mapM g := by
  induction l with
  | nil => rfl
  | cons a l ih =>
    simp only [List.mapM_cons]
    rw [h a (by simp), ih (fun b hb => h b (List.mem_cons_of_mem _ hb))]

theorem callF_frame (m : Model) (P : Params) (fuel : Nat) (e e' : Env) (fname : Name)
    (h : ∀ x ∈ ancestorsAux m fuel fname, e.get? x = e'.get? x) :
    callF m P fuel e fname = callF m P fuel e' fname := by
  induction fuel generalizing fname with
  | zero => rfl
  | succ fuel ih =>
    unfold callF
    cases hf : m.func? fname with
    | none => rfl
    | some f =>
      have hanc : ancestorsAux m (fuel + 1) fname = f.args ++ f.args.flatMap (ancestorsAux m fuel) := by
        simp [ancestorsAux, hf]
      have hargs : f.args.mapM (fun a => match m.func? a with
          | some _ => callF m P fuel e a
          | none => match e.get? a with
            | some v => some v
            | none => (P.get? fname a).map Val.num)
        = f.args.mapM (fun a => match m.func? a with
          | some _ => callF m P fuel e' a
          | none => match e'.get? a with
            | some v => some v
            | none => (P.get? fname a).map Val.num) := by
        apply mapM_congr_option
        intro a ha
        cases hfa : m.func? a with
        | some _ =>
          simp only
          apply ih
          intro x hx
          apply h x
          rw [hanc]
          exact List.mem_append_right _ (List.mem_flatMap.mpr ⟨a, ha, hx⟩)
        | none =>
          simp only
          rw [h a (by rw [hanc]; exact List.mem_append_left _ ha)]
      simp only [Option.bind_eq_bind, Option.bind_some]
      congr 1

theorem foldlM_congr_option {α β} (l : List α) (f g : β → α → Option β) (b : β)
    (h : ∀ a ∈ l, ∀ b, f b a = g b a) : l.foldlM f b = l.foldlM g b := by
  induction l generalizing b with
  | nil => rfl
  | cons a l ih =>
    simp only [List.foldlM_cons]
    rw [h a (by simp) b]
    cases g b a with
    | none => rfl
    | some b' => exact ih b' (fun x hx => h x (List.mem_cons_of_mem _ hx))

theorem allTrue_frame (m : Model) (P : Params) (e e' : Env) (names : List Name)
    (h : ∀ n ∈ names, ∀ x ∈ ancestorsAux m m.fuel n, e.get? x = e'.get? x) :
    allTrue m P e names = allTrue m P e' names := by
  unfold allTrue
  apply foldlM_congr_option
  intro n hn acc
  rw [callF_frame m P m.fuel e e' n (h n hn)]

#print axioms allTrue_frame
end Lcm

namespace Lcm

/-- names of the model's filters -/
def filterNamesOf (m : Model) : List Name := ((functionInfo m).filter (·.isFilter)).map (·.name)

theorem mem_ancestors (m : Model) (targets : List Name) (f : Name) (hf : f ∈ targets) (x : Name)
    (hx : x ∈ ancestorsAux m m.fuel f) : x ∈ ancestors m targets := by
  unfold ancestors
  rw [List.mem_eraseDups]
  exact List.mem_flatMap.mpr ⟨f, hf, hx⟩

/-- a declared variable flagged dense is not an ancestor of any filter -/
theorem declaredInfo_dense_not_filtered (m : Model) (v : VariableInfo) (hv : v ∈ declaredInfo m)
    (hd : v.isDense = true) : v.name ∉ ancestors m (filterNamesOf m) := by
  simp only [declaredInfo, List.mem_append, List.mem_map] at hv
  rcases hv with ⟨p, _, rfl⟩ | ⟨p, _, rfl⟩ <;>
  · simp only [Bool.not_eq_true'] at hd
    intro hmem
    have : (ancestors m (filterNamesOf m)).contains p.1 = true := List.contains_iff_mem.mpr hmem
    simp [filterNamesOf] at this hd
    simp_all

/-- the unrestricted discrete states and the continuous states are not read by any filter -/
theorem dense_states_not_read_by_filters (m : Model) (x : Name)
    (hx : x ∈ (groups m).dS.map (·.1) ∨ x ∈ (cStateGrids (groups m)).map (·.1))
    (f : Name) (hf : f ∈ filterNamesOf m) : x ∉ ancestorsAux m m.fuel f := by
  intro hanc
  have hmem := mem_ancestors m (filterNamesOf m) f hf x hanc
  rcases hx with hx | hx
  · simp only [groups, List.map_map, List.mem_map, Function.comp] at hx
    obtain ⟨v, hv, rfl⟩ := hx
    rw [variableInfo_dense_discrete_states] at hv
    have hvd := List.mem_filter.mp hv
    have hdense : v.isDense = true := by
      have := hvd.2; simp only [Bool.and_eq_true] at this; exact this.1.1
    exact declaredInfo_dense_not_filtered m v hvd.1 hdense hmem
  · simp only [cStateGrids, groups, List.map_map, List.mem_map, Function.comp] at hx
    obtain ⟨v, hv, rfl⟩ := hx
    rw [variableInfo_continuous_states] at hv
    have hvd := List.mem_filter.mp hv
    have hdense : v.isDense = true := by
      have := hvd.2; simp only [Bool.and_eq_true] at this; exact this.1.1
    exact declaredInfo_dense_not_filtered m v hvd.1 hdense hmem

#print axioms dense_states_not_read_by_filters
end Lcm
