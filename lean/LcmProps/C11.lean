import LcmProofs.Laws
import LcmProofs.Degenerate
import LcmProps.C10
import LcmProofs.FiniteHorizon
import LcmProofs.AffineInstance
import LcmProofs.StationarySolve
import LcmProofs.BetaZero
import LcmProps.Examples
import LcmModel.Diag
namespace Lcm

/-! # C11 — the solution obeys the algebraic laws of finite-horizon dynamic programming

The laws are proved for the specification-level Bellman step `bellmanStep` (maximum over the admissible grid
choices of `u + β·continuation`), which is what every entry of `solve` is by R1 (`C01_entry_isMax_*` +
`bellmanStep_isMax` + uniqueness of `IsMaxOver`), and for its two linear ingredients: multilinear
inter/extrapolation (`interp`) and expectations over transition rows that sum to one. The backward induction
over periods is carried out for an abstract finite-horizon programme `DP` (`C11_affine`, `C11_beta_zero_all_periods`,
`C11_stationary`); one step of it is `C11_affine_step`: with `k_t = Σ_{j<T-1-t} β^j` for period `t+1` the step gives
`1 + β·k_t = Σ_{j<T-t} β^j` for period `t` (`C11_geometric`). -/

/-- one backward step of the affine law -/
theorem C11_affine_step {X : Type} (xs : List X) (adm : X → Bool) (u cont : X → Rat) (β a b k : Rat) (ha : 0 < a) :
    bellmanStep xs adm (fun x => a * u x + b) (fun x => a * cont x + b * k) β
      = Ext.affine a (b * (1 + β * k)) (bellmanStep xs adm u cont β) :=
  bellmanStep_affine xs adm u cont β a b k ha

/-- the constants accumulate to `b·Σ_{k < remaining periods} β^k` -/
theorem C11_geometric (β : Rat) (n : Nat) :
    geo β 0 = 0 ∧ geo β (n + 1) = 1 + β * geo β n ∧ geo β n = ((List.range n).map fun k => β ^ k).sum :=
  ⟨rfl, rfl, geo_eq_sum β n⟩

/-- the continuation of the transformed model is the transformed continuation: interpolation (incl. linear
extrapolation) commutes with `V ↦ a·V + c` because the weights sum to one … -/
theorem C11_interp_affine (a c : Rat) (t : Tensor Rat) (cs : List Rat) :
    interp (Tensor.affine a c t) cs = a * interp t cs + c := interp_affine a c t cs

/-- … and so does the expectation over a transition row that sums to one -/
theorem C11_expectation_affine (w v : List Rat) (a c : Rat) (hw : w.sum = 1) (hlen : w.length = v.length) :
    ((w.zip v).map fun p => p.1 * (a * p.2 + c)).sum = a * ((w.zip v).map fun p => p.1 * p.2).sum + c :=
  expect_affine w v a c hw hlen

/-- the maximum commutes with positive-affine maps (and −inf stays −inf) -/
theorem C11_max_affine (a b : Rat) (ha : 0 < a) (xs : List Ext) :
    foldMax (xs.map (Ext.affine a b)) = Ext.affine a b (foldMax xs) := foldMax_affine a b ha xs

/-- with `β = 0` every period's value is its one-period problem: the continuation is irrelevant -/
theorem C11_beta_zero {X : Type} (xs : List X) (adm : X → Bool) (u cont cont' : X → Rat) :
    bellmanStep xs adm u cont 0 = bellmanStep xs adm u cont' 0 := bellmanStep_beta_zero xs adm u cont cont'

/-- stationarity: if the data of the step (choices, admissibility, utility) do not depend on the period, equal
continuations give equal values - hence by induction from the last period the values `j` periods before the
end are the same for every horizon -/
theorem C11_stationary_step {X : Type} (xs : List X) (adm : X → Bool) (u cont cont' : X → Rat) (β : Rat)
    (h : ∀ x ∈ xs, cont x = cont' x) : bellmanStep xs adm u cont β = bellmanStep xs adm u cont' β := by
  unfold bellmanStep
  congr 1
  apply List.map_congr_left
  intro x hx
  rw [h x (List.mem_of_mem_filter hx)]

theorem sum_zip_zero (r : List Nat) (v : List Rat) :
    (((r.map fun _ => (0 : Rat)).zip v).map fun p => p.1 * p.2).sum = 0 := by
  induction r generalizing v with
  | nil => simp
  | cons _ r ih =>
    cases v with
    | nil => simp
    | cons y v => simp only [List.map_cons, List.zip_cons_cons, List.sum_cons, zero_mul, zero_add]; exact ih v

/-- a degenerate transition row (point mass at label `l`) makes the expectation the value at `l`: the
stochastic model's continuation is the deterministic model's -/
theorem C11_degenerate_row (v : List Rat) (l : Nat) (hl : l < v.length) :
    (((List.range v.length).map fun k => if k = l then (1 : Rat) else 0).zip v |>.map fun p => p.1 * p.2).sum = v[l] := by
  induction v generalizing l with
  | nil => simp at hl
  | cons y v ih =>
    cases l with
    | zero =>
      simp only [List.length_cons, List.range_succ_eq_map, List.map_cons, List.zip_cons_cons, List.sum_cons,
        List.map_map, List.getElem_cons_zero, if_true, one_mul]
      have : ((List.map ((fun k => if k = 0 then (1 : Rat) else 0) ∘ Nat.succ) (List.range v.length)).zip v
          |>.map fun p => p.1 * p.2).sum = 0 := by
        have hz : List.map ((fun k => if k = 0 then (1 : Rat) else 0) ∘ Nat.succ) (List.range v.length)
            = List.map (fun _ => (0 : Rat)) (List.range v.length) := by
          apply List.map_congr_left; intro k _; simp
        rw [hz]
        exact sum_zip_zero _ _
      rw [this]; ring
    | succ l =>
      have hl' : l < v.length := by simpa using hl
      simp only [List.length_cons, List.range_succ_eq_map, List.map_cons, List.zip_cons_cons, List.sum_cons,
        List.map_map, List.getElem_cons_succ]
      have h0 : (if (0 : Nat) = l + 1 then (1 : Rat) else 0) = 0 := by simp
      rw [h0, zero_mul, zero_add]
      have := ih l hl'
      have hm : List.map ((fun k => if k = l + 1 then (1 : Rat) else 0) ∘ Nat.succ) (List.range v.length)
          = List.map (fun k => if k = l then (1 : Rat) else 0) (List.range v.length) := by
        apply List.map_congr_left; intro k _; simp
      rw [hm]; exact this

/-- **the affine law over the whole horizon** (backward induction, any number of periods): if utility is replaced
by `a·utility + b` with `a > 0`, every value `j` periods before the end becomes `a` times the old value plus `b`
times `Σ_{k ≤ j} β^k` (the sum of `β^k` over the remaining periods). `DP` is an arbitrary finite-horizon programme whose
continuation functional commutes with affine maps (interpolation weights and transition rows sum to one). -/
theorem C11_affine {S X : Type} (d : DP S X) (β a b : Rat) (ha : 0 < a) (hne : ∀ j s, d.choices j s ≠ [])
    (hcont : ∀ j (f : S → Rat) (c : Rat) s x, d.cont j (fun s' => a * f s' + c) s x = a * d.cont j f s x + c)
    (j : Nat) (s : S) :
    (d.scale a b).value β j s = Ext.affine a (b * geo β (j + 1)) (d.value β j s) :=
  DP.value_scale d β a b ha hne hcont j s

/-- with `β = 0` every period's values equal the one-period problem of that period -/
theorem C11_beta_zero_all_periods {S X : Type} (d : DP S X) (j : Nat) (s : S) :
    d.value 0 j s = bellmanStep (d.choices j s) (fun _ => true) (d.u j s) (fun _ => 0) 0 :=
  DP.value_beta_zero d j s

/-- if no function depends on the period, the values `j` periods before the end are the same for every horizon: two
programmes that agree on the data of their last `j+1` periods agree on the value `j` periods before the end -/
theorem C11_stationary {S X : Type} (d d' : DP S X) (β : Rat) (j : Nat)
    (h : ∀ i ≤ j, d.choices i = d'.choices i ∧ d.u i = d'.u i ∧ d.cont i = d'.cont i) (s : S) :
    d.value β j s = d'.value β j s := DP.value_congr d d' β j h s

-- non-vacuity: the affine law on a two-choice step (u = [1, 3], continuation [2, 0], β = 1/2, a = 2, b = 1, k = 3)
example : bellmanStep [0, 1] (fun _ => true) (fun x => 2 * (if x = 0 then 1 else 3) + 1)
      (fun x => 2 * (if x = 0 then 2 else 0) + 1 * 3) (1/2)
    = Ext.affine 2 (1 * (1 + (1/2) * 3)) (bellmanStep [0, 1] (fun _ => true) (fun x => if x = 0 then (1 : Rat) else 3)
        (fun x => if x = 0 then (2 : Rat) else 0) (1/2)) := by decide +kernel


/-! ## The affine law for the executable `solve` itself

`C11_affine_solve`: take any specification `m`, replace the body `u` of its utility function by `a·u + b` (`a > 0`) and
solve both with the same parameters. Then, `j` periods before the end, **every entry** `v` of the value array becomes
`a·v + b·(1 + β + … + β^j)` (`-inf` stays `-inf`) and the shapes agree - for every layout (filter-restricted or not),
any number of periods, continuation values read by exact lookup / multilinear interpolation and extrapolation, and
expectations over stochastic states. Hypotheses: every row of every transition array sums to one (`RowsSumToOne`), no
function takes the *value* of utility as an argument, and no filter / constraint / transition is named `utility`.
The proof (LcmProofs/AffineSolve.lean) follows the definition of `solve` operation by operation; the abstract
`C11_affine` above states the same law for any finite-horizon programme. -/

theorem C11_affine_solve (m : Model) (P : Params) (a b : Rat) (ha : 0 < a)
    (hno : ∀ f ∈ m.functions, "utility" ∉ f.args)
    (hnames : ∀ fi ∈ functionInfo m, (fi.isConstraint = true ∨ fi.isFilter = true ∨ fi.isNext = true) → fi.name ≠ "utility")
    (hR : RowsSumToOne P) (j : Nat) (hj : j < m.nPeriods) :
    ((solve (withAffineUtility m a b) P true).getD (m.nPeriods - 1 - j) default).shape
        = ((solve m P true).getD (m.nPeriods - 1 - j) default).shape ∧
    ∀ idx, ((solve (withAffineUtility m a b) P true).getD (m.nPeriods - 1 - j) default).get idx
        = Ext.affine a (b * geo P.beta (j + 1)) (((solve m P true).getD (m.nPeriods - 1 - j) default).get idx) :=
  solve_affine (affineUtility_with m a b P hno hnames) ha hR j hj

/-- the relational form: any two specifications that differ in utility only, by `u' = a·u + b` -/
theorem C11_affine_solve_rel {m m' : Model} {P : Params} {a b : Rat} (h : AffineUtility m m' P a b) (ha : 0 < a)
    (hR : RowsSumToOne P) (j : Nat) (hj : j < m.nPeriods) (idx : List Nat) :
    ((solve m' P true).getD (m.nPeriods - 1 - j) default).get idx
      = Ext.affine a (b * geo P.beta (j + 1)) (((solve m P true).getD (m.nPeriods - 1 - j) default).get idx) :=
  (solve_affine h ha hR j hj).2 idx

-- non-vacuity: the hypotheses hold for the consumption example, and the law is visible in the numbers
-- (a = 2, b = 3, beta = 1/2, three periods: constants 3·(1 + 1/2 + 1/4), 3·(1 + 1/2), 3)
#guard Ex.consModel.functions.all fun f => !f.args.contains "utility"
#guard (functionInfo Ex.consModel).all fun fi => !(fi.isConstraint || fi.isFilter || fi.isNext) || fi.name != "utility"
example : RowsSumToOne Ex.consParams := by intro xa hxa; simp [Ex.consParams] at hxa
#guard ((solve (withAffineUtility Ex.consModel 2 3) Ex.consParams).map (·.toFlat))
  == ((solve Ex.consModel Ex.consParams).zipIdx.map fun (V, t) => V.toFlat.map (Ext.affine 2 (3 * geo (1/2) (3 - t))))


/-! ## Horizon invariance for the executable `solve` itself -/

/-- if no function takes `_period` as an argument, the array `solve` returns `j` periods before the end is the same
for the horizons `T = m.nPeriods` and `T'` - whole arrays, every layout, continuation by interpolation and expectation
included (`LcmProofs/StationarySolve.lean`: the objective, the filter mask and hence the state-choice space do not
depend on the period index; induction over `j`) -/
theorem C11_stationary_solve (m : Model) (h : NoPeriod m) (P : Params) (T' : Nat) (j : Nat)
    (hj : j < m.nPeriods) (hj' : j < T') :
    (solve (withHorizon m T') P true).getD (T' - 1 - j) default = (solve m P true).getD (m.nPeriods - 1 - j) default :=
  solve_horizon h P T' j hj hj'

-- non-vacuity: the consumption example reads no period; horizon 5 against horizon 3, last three periods
#guard Ex.consModel.functions.all fun f => !f.args.contains "_period"
#guard (((solve (withHorizon Ex.consModel 5) Ex.consParams).drop 2).map (·.toFlat))
  == ((solve Ex.consModel Ex.consParams).map (·.toFlat))


/-! ## `beta = 0` for the executable `solve` itself -/

/-- with `beta = 0` the array of every period is the array of the one-period problem of that period (`solvePeriod`
without continuation), provided the continuation value is *defined* wherever the static objective is
(`ContinuationDefined`: transitions stay inside the stored state space and read no `-inf` entry - the supported class;
with `beta = 0` the number itself is irrelevant) -/
theorem C11_beta_zero_solve (m : Model) (P : Params) (hβ : P.beta = 0) (t : Nat) (ht : t < m.nPeriods)
    (hdef : ContinuationDefined m P t) :
    (solve m P true).getD t default = solvePeriod m P (groups m) t (mkSpace m P (groups m) t) none :=
  solve_beta_zero hβ t ht hdef

-- non-vacuity: the consumption example with beta = 0; every period equals its one-period problem
def Ex.consParams0 : Params := { Ex.consParams with beta := 0 }
#guard (List.range 3).all fun t =>
  (((solve Ex.consModel Ex.consParams0).getD t default).toFlat
    == (solvePeriod Ex.consModel Ex.consParams0 (groups Ex.consModel) t (mkSpace Ex.consModel Ex.consParams0 (groups Ex.consModel) t) none).toFlat)
#guard solveDiag Ex.consModel Ex.consParams0 == [0, 0, 0]   -- no feasible state-choice pair has an undefined objective

/-! ## degenerate transition rows -/

/-- **the objective of one state-choice combination**: with a one-hot row for the stochastic state `x` (at the label the
deterministic transition of `m'` returns) the expectation over the product of label grids equals the value at the single
node - provided the continuation is defined at every node (`NodesDefined`: the supported class; on a `-inf` entry the
implementation computes `0 * -inf = nan` where the deterministic specification is fine) -/
theorem C11_degenerate_objective {m m' : Model} {P : Params} {x : Name} (h : DegenerateTo m m' P x) (g : Groups) (t : Nat)
    (V : Tensor Ext) (feas : List (List (Name × Rat))) (hdef : NodesDefined m P g t V feas) (env0 : Env) :
    uAndF m' P g t (some (V, feas)) env0 = uAndF m P g t (some (V, feas)) env0 :=
  h.uAndF g t V feas hdef env0

/-- **C11, degenerate stochastic state = deterministic transition, every period of the executable `solve`** -/
theorem C11_degenerate_solve {m m' : Model} {P : Params} {x : Name} (h : DegenerateTo m m' P x)
    (hdef : ∀ t, t + 1 < m.nPeriods →
      NodesDefined m P (groups m) t ((solve m P true).getD (t + 1) default) (mkSpace m P (groups m) (t + 1)).feas)
    (t : Nat) (ht : t < m.nPeriods) :
    (solve m' P true).getD t default = (solve m P true).getD t default := by
  have := solve_degenerate h hdef (m.nPeriods - 1 - t) (by omega)
  have e : m.nPeriods - 1 - (m.nPeriods - 1 - t) = t := by omega
  rwa [e] at this

/-- the arithmetic core: the weighted sum over the nodes collapses to the node of the one -/
theorem C11_onehot_expectation (x : Name) (row : List Rat) (ℓ : Nat) (hoh : OneHot row ℓ) (W' : List (Name × List Rat))
    (K : List (Name × Rat) → Option Rat) (hK : ∀ p ∈ nodesOf ((x, row) :: W'), (K p.1).isSome = true) :
    seqSum ((nodesOf ((x, row) :: W')).map (gK K)) = seqSum ((nodesOf W').map (gK fun a => K ((x, (ℓ : Rat)) :: a))) :=
  onehot_nodes_sum x row ℓ hoh W' K hK

namespace Ex
/-- `stochModel` with degenerate rows for `h`: from `h = 0` to label 1, from `h = 1` to label 1 -/
def degParams : Params :=
  { stochParams with shocks := stochParams.shocks.map fun (xs : Name × Tensor Rat) =>
      if xs.1 == "h" then ("h", { shape := [2, 2], get := fun idx => ([0, 1, 0, 1] : List Rat).getD (ravel [2, 2] idx) 0 }) else xs }
/-- the deterministic counterpart: `next_h = 1` -/
def detModel : Model :=
  { stochModel with functions := stochModel.functions.map fun f =>
      if f.name == "next_h" then { f with body := .num 1, stochastic := false } else f }
end Ex

-- a test of the statement on one pair of specifications (the semantic hypotheses `DegenerateTo` / `NodesDefined` are
-- evaluated at the grid environments below, not proved for all environments)
#guard ((solve Ex.detModel Ex.degParams).map fun V => (V.shape, V.toFlat))
  == ((solve Ex.stochModel Ex.degParams).map fun V => (V.shape, V.toFlat))
#guard ((solve Ex.stochModel Ex.degParams).map fun V => (V.shape, V.toFlat))
  != ((solve Ex.stochModel Ex.stochParams).map fun V => (V.shape, V.toFlat))
#guard (assignments [("h", [0, 1]), ("p", [0, 1, 2]), ("d", [0, 1])]).all fun a =>
  let env := toEnv a ++ periodEnv 0
  match detOf Ex.stochModel Ex.degParams env, wrowsOf Ex.stochModel Ex.degParams env,
        detOf Ex.detModel Ex.degParams env, wrowsOf Ex.detModel Ex.degParams env with
  | some d, some W, some d', some W' =>
      d == [] && (W.map (·.1)) == ["h", "p"] && ((W.find? (·.1 == "h")).map (·.2)) == some [0, 1]
        && (d'.map fun p => (p.1, p.2.toRat)) == [("h", 1)] && (W'.map (·.1)) == ["p"]
        && (W'.find? (·.1 == "p")).map (·.2) == (W.find? (·.1 == "p")).map (·.2)
  | _, _, _, _ => false
example : OneHot [0, 1] 1 := ⟨by decide, by
  intro l hl
  have : l = 0 ∨ l = 1 := by simp at hl; omega
  rcases this with rfl | rfl <;> simp⟩

end Lcm
