import LcmProofs.SpecPerm
import LcmProofs.StationarySolve
namespace Lcm

/-! C10 for the executable `solve`, every period: permuting the declaration order of the **choices** and of the
**functions** leaves every value array unchanged. The state axes are
the same for both specifications, so the arrays are compared entry by entry; everything about the choices - groups,
stored rows, segments, dense choice axes, enumeration order of the continuous grids - may differ. -/

structure ChoicePermOf (m m' : Model) : Prop where
  periods : m'.nPeriods = m.nPeriods
  states : m'.states = m.states
  choices : m.choices.Perm m'.choices
  functions : m.functions.Perm m'.functions

theorem ChoicePermOf.permOf {m m' : Model} (h : ChoicePermOf m m') : PermOf m m' :=
  ⟨h.periods, by rw [h.states], h.choices, h.functions⟩

theorem find?_perm_key {α : Type} (key : α → Name) (l l' : List α) (hp : l.Perm l') (hnd : (l.map key).Nodup) (n : Name) :
    l.find? (fun x => key x == n) = l'.find? (fun x => key x == n) := by
  have keyl : ∀ (l : List α), (l.map key).Nodup → ∀ f ∈ l, l.find? (fun x => key x == key f) = some f := by
    intro l
    induction l with
    | nil => intro _ f hf; simp at hf
    | cons g l ih =>
      intro hnd f hf
      simp only [List.map_cons, List.nodup_cons] at hnd
      rcases List.mem_cons.mp hf with rfl | hmem
      · simp [List.find?]
      · have hne : (key g == key f) = false := by
          rw [beq_eq_false_iff_ne]; intro h
          exact hnd.1 (h ▸ List.mem_map_of_mem (f := key) hmem)
        simp only [List.find?, hne]
        exact ih hnd.2 f hmem
  have hnd' : (l'.map key).Nodup := (hp.map key).nodup_iff.mp hnd
  by_cases hx : n ∈ l.map key
  · rw [List.mem_map] at hx
    obtain ⟨f, hf, rfl⟩ := hx
    rw [keyl l hnd f hf, keyl l' hnd' f (hp.mem_iff.mp hf)]
  · have hx' : n ∉ l'.map key := fun h => hx ((hp.map key).mem_iff.mpr h)
    have none_of : ∀ (l : List α), n ∉ l.map key → l.find? (fun x => key x == n) = none := by
      intro l hl
      rw [List.find?_eq_none]
      intro g hg hgn
      exact hl (by rw [← beq_iff_eq.mp hgn]; exact List.mem_map_of_mem (f := key) hg)
    rw [none_of l hx, none_of l' hx']

theorem ancestorsAux_congr (m m' : Model) (h : ∀ n, m.func? n = m'.func? n) (fuel : Nat) (n : Name) :
    ancestorsAux m' fuel n = ancestorsAux m fuel n := by
  induction fuel generalizing n with
  | zero => rfl
  | succ k ih =>
    unfold ancestorsAux
    rw [← h n]
    cases m.func? n with
    | none => rfl
    | some f =>
      simp only []
      congr 1
      apply List.flatMap_congr
      intro x _
      exact ih x

theorem mem_ancestors_perm {m m' : Model} (h : PermOf m m') (hnd : (m.functions.map (·.name)).Nodup)
    (targets targets' : List Name) (ht : targets.Perm targets') (x : Name) :
    x ∈ ancestors m' targets' ↔ x ∈ ancestors m targets := by
  unfold ancestors
  rw [List.mem_eraseDups, List.mem_eraseDups, List.mem_flatMap, List.mem_flatMap, ← h.functions.length_eq]
  constructor
  · rintro ⟨n, hn, hx⟩
    exact ⟨n, ht.mem_iff.mpr hn, by rw [← ancestorsAux_congr m m' (h.func? hnd)]; exact hx⟩
  · rintro ⟨n, hn, hx⟩
    exact ⟨n, ht.mem_iff.mp hn, by rw [ancestorsAux_congr m m' (h.func? hnd)]; exact hx⟩

theorem contains_congr (l l' : List Name) (h : ∀ x, x ∈ l' ↔ x ∈ l) (x : Name) : l'.contains x = l.contains x := by
  cases hc : l.contains x with
  | true => rw [List.contains_iff_mem] at hc ⊢; exact (h x).mpr hc
  | false =>
    cases hc' : l'.contains x with
    | false => rfl
    | true =>
      rw [List.contains_iff_mem] at hc'
      have := (h x).mp hc'
      rw [← List.contains_iff_mem, hc] at this
      exact absurd this (by simp)

theorem functionInfo_names (m : Model) : (functionInfo m).map (·.name) = m.functions.map (·.name) := by
  unfold functionInfo; rw [List.map_map]; rfl

/-- the flags of a declared variable do not depend on the order of the functions -/
theorem mkInfo_perm {m m' : Model} (h : PermOf m m') (hnd : (m.functions.map (·.name)).Nodup)
    (isState : Bool) (p : Name × Grid) : mkInfo m' isState p = mkInfo m isState p := by
  have hfi : (functionInfo m).Perm (functionInfo m') := by unfold functionInfo; exact h.functions.map _
  have hfind : (functionInfo m').find? (fun x => x.name == "next_" ++ p.1) = (functionInfo m).find? (fun x => x.name == "next_" ++ p.1) :=
    (find?_perm_key (·.name) _ _ hfi (by rw [functionInfo_names]; exact hnd) _).symm
  have hfilt : ∀ x, x ∈ ancestors m' (((functionInfo m').filter (·.isFilter)).map (·.name))
      ↔ x ∈ ancestors m (((functionInfo m).filter (·.isFilter)).map (·.name)) :=
    fun x => mem_ancestors_perm h hnd _ _ (h.names (·.isFilter)) x
  have hnn : (((functionInfo m).filter (!·.isNext)).map (·.name)).Perm (((functionInfo m').filter (!·.isNext)).map (·.name)) :=
    h.names (fun fi => !fi.isNext)
  have hused : ∀ x, x ∈ (((functionInfo m').filter (!·.isNext)).map (·.name)) ++ ancestors m' (((functionInfo m').filter (!·.isNext)).map (·.name))
      ↔ x ∈ (((functionInfo m).filter (!·.isNext)).map (·.name)) ++ ancestors m (((functionInfo m).filter (!·.isNext)).map (·.name)) := by
    intro x
    rw [List.mem_append, List.mem_append, mem_ancestors_perm h hnd _ _ hnn x, hnn.mem_iff]
  unfold mkInfo
  simp only [hfind, contains_congr _ _ hfilt, contains_congr _ _ hused]

#print axioms mkInfo_perm

theorem groups_sS (m : Model) : (groups m).sS
    = ((declaredInfo m).filter (fun v => v.isSparse && v.isState)).map (fun v => (v.name, (gridOf m v.name).points)) := by
  show ((variableInfo m).filter _).map _ = _
  rw [variableInfo_sparse_states]; rfl
theorem groups_dS (m : Model) : (groups m).dS
    = ((declaredInfo m).filter (fun v => v.isDense && v.isDiscrete && v.isState)).map (fun v => (v.name, (gridOf m v.name).points)) := by
  show ((variableInfo m).filter _).map _ = _
  rw [variableInfo_dense_discrete_states]; rfl
theorem groups_cS (m : Model) : (groups m).cS
    = ((declaredInfo m).filter (fun v => v.isDense && v.isContinuous && v.isState)).map (fun v => (v.name, gridOf m v.name)) := by
  show ((variableInfo m).filter _).map _ = _
  rw [variableInfo_continuous_states]; rfl

theorem declaredInfo_perm {m m' : Model} (h : ChoicePermOf m m') (hnd : (m.functions.map (·.name)).Nodup) :
    declaredInfo m' = m.states.map (mkInfo m true) ++ m'.choices.map (mkInfo m false) := by
  rw [declaredInfo_mk, h.states]
  congr 1
  · apply List.map_congr_left; intro p _; exact mkInfo_perm h.permOf hnd true p
  · apply List.map_congr_left; intro p _; exact mkInfo_perm h.permOf hnd false p

theorem filter_state_group (m : Model) (cs : List (Name × Grid)) (q : VariableInfo → Bool)
    (hq : ∀ v, q v = true → v.isState = true) :
    (m.states.map (mkInfo m true) ++ cs.map (mkInfo m false)).filter q = (m.states.map (mkInfo m true)).filter q := by
  rw [List.filter_append]
  have : (cs.map (mkInfo m false)).filter q = [] := by
    rw [List.filter_eq_nil_iff]
    intro v hv
    rw [List.mem_map] at hv
    obtain ⟨p, _, rfl⟩ := hv
    intro hqv
    have := hq _ hqv
    simp [mkInfo] at this
  rw [this, List.append_nil]

theorem filter_choice_group (m : Model) (cs : List (Name × Grid)) (q : VariableInfo → Bool)
    (hq : ∀ v, q v = true → v.isChoice = true) :
    (m.states.map (mkInfo m true) ++ cs.map (mkInfo m false)).filter q = (cs.map (mkInfo m false)).filter q := by
  rw [List.filter_append]
  have : (m.states.map (mkInfo m true)).filter q = [] := by
    rw [List.filter_eq_nil_iff]
    intro v hv
    rw [List.mem_map] at hv
    obtain ⟨p, _, rfl⟩ := hv
    intro hqv
    have := hq _ hqv
    simp [mkInfo] at this
  rw [this, List.nil_append]

theorem gridOf_state_eq {m m' : Model} (hs : m'.states = m.states) (x : Name) (hx : x ∈ m.states.map (·.1)) :
    gridOf m' x = gridOf m x := by
  unfold gridOf
  rw [hs, List.find?_append, List.find?_append]
  rw [List.mem_map] at hx
  obtain ⟨p, hp, rfl⟩ := hx
  have : (m.states.find? (fun q => q.1 == p.1)).isSome = true := by
    rw [List.find?_isSome]; exact ⟨p, hp, by simp⟩
  cases hf : m.states.find? (fun q => q.1 == p.1) with
  | none => rw [hf] at this; simp at this
  | some q => rfl

theorem mkInfo_name (m : Model) (b : Bool) (p : Name × Grid) : (mkInfo m b p).name = p.1 := rfl

/-- the three state groups are the same for both specifications -/
theorem state_groups_eq {m m' : Model} (h : ChoicePermOf m m') (hnd : (m.functions.map (·.name)).Nodup) :
    (groups m').sS = (groups m).sS ∧ (groups m').dS = (groups m).dS ∧ (groups m').cS = (groups m).cS := by
  have hst : ∀ (q : VariableInfo → Bool) (hq : ∀ v, q v = true → v.isState = true),
      (declaredInfo m').filter q = (declaredInfo m).filter q := by
    intro q hq
    rw [declaredInfo_perm h hnd, declaredInfo_mk m, filter_state_group m _ q hq, filter_state_group m _ q hq]
  have hname : ∀ (q : VariableInfo → Bool), ∀ v ∈ (declaredInfo m).filter q, q v = true → v.isState = true →
      v.name ∈ m.states.map (·.1) := by
    intro q v hv _ hs
    rw [declaredInfo_mk, List.mem_filter, List.mem_append] at hv
    rcases hv.1 with hv1 | hv1
    · rw [List.mem_map] at hv1; obtain ⟨p, hp, rfl⟩ := hv1
      exact List.mem_map_of_mem (f := (·.1)) hp
    · rw [List.mem_map] at hv1; obtain ⟨p, _, rfl⟩ := hv1
      simp [mkInfo] at hs
  refine ⟨?_, ?_, ?_⟩
  · rw [groups_sS, groups_sS, hst _ (by intro v hv; simp only [Bool.and_eq_true] at hv; exact hv.2)]
    apply List.map_congr_left
    intro v hv
    have hq := (List.mem_filter.mp hv).2
    rw [gridOf_state_eq h.states v.name (hname _ v hv hq (by simp only [Bool.and_eq_true] at hq; exact hq.2))]
  · rw [groups_dS, groups_dS, hst _ (by intro v hv; simp only [Bool.and_eq_true] at hv; exact hv.2)]
    apply List.map_congr_left
    intro v hv
    have hq := (List.mem_filter.mp hv).2
    rw [gridOf_state_eq h.states v.name (hname _ v hv hq (by simp only [Bool.and_eq_true] at hq; exact hq.2))]
  · rw [groups_cS, groups_cS, hst _ (by intro v hv; simp only [Bool.and_eq_true] at hv; exact hv.2)]
    apply List.map_congr_left
    intro v hv
    have hq := (List.mem_filter.mp hv).2
    rw [gridOf_state_eq h.states v.name (hname _ v hv hq (by simp only [Bool.and_eq_true] at hq; exact hq.2))]

/-- the filter-restricted choices of the two specifications are permutations of each other -/
theorem sC_perm {m m' : Model} (h : ChoicePermOf m m') (hfn : (m.functions.map (·.name)).Nodup)
    (hnd : ((m.states ++ m.choices).map (·.1)).Nodup) : (groups m).sC.Perm (groups m').sC := by
  have hnd' : ((m'.states ++ m'.choices).map (·.1)).Nodup := by
    rw [h.states]
    exact ((((List.Perm.refl m.states).append h.choices).map (·.1)).nodup_iff).mp hnd
  rw [groups_sC, groups_sC, declaredInfo_perm h hfn, declaredInfo_mk m,
    filter_choice_group m _ _ (by intro v hv; simp only [Bool.and_eq_true] at hv; exact hv.2),
    filter_choice_group m _ _ (by intro v hv; simp only [Bool.and_eq_true] at hv; exact hv.2)]
  have hp : ((m.choices.map (mkInfo m false)).filter (fun v => v.isSparse && v.isChoice)).Perm
      ((m'.choices.map (mkInfo m false)).filter (fun v => v.isSparse && v.isChoice)) := (h.choices.map _).filter _
  refine (hp.map _).trans (List.Perm.of_eq ?_)
  apply List.map_congr_left
  intro v hv
  rw [List.mem_filter, List.mem_map] at hv
  obtain ⟨⟨p, hp', rfl⟩, _⟩ := hv
  show (p.1, (gridOf m p.1).points) = (p.1, (gridOf m' p.1).points)
  rw [gridOf_choice m hnd p (h.choices.mem_iff.mpr hp'), gridOf_choice m' hnd' p hp']


/-! ### the objective -/

theorem vhat_state_groups (g g' : Groups) (hS : g'.sS = g.sS) (hD : g'.dS = g.dS) (hC : g'.cS = g.cS)
    (feas : List (List (Name × Rat))) (V : Tensor Ext) (env : Env) : vhat g' feas V env = vhat g feas V env := by
  unfold vhat
  rw [hS, hD, hC]

theorem uAndF_choicePerm {m m' : Model} (h : ChoicePermOf m m') (hfn : (m.functions.map (·.name)).Nodup)
    (hnexts : (functionInfo m').filter (·.isNext) = (functionInfo m).filter (·.isNext))
    (P : Params) (t : Nat) (next : Option (Tensor Ext × List (List (Name × Rat)))) (e : Env) :
    uAndF m P (groups m) t next e = uAndF m' P (groups m') t next e := by
  have hp := h.permOf
  have hf := hp.func? hfn
  have hc : allTrue m P (e ++ periodEnv t) (constraintNames m) = allTrue m' P (e ++ periodEnv t) (constraintNames m') := by
    rw [allTrue_congr_funcs m m' hf hp.fuel P]
    exact allTrue_perm m' P _ _ _ (hp.names (·.isConstraint))
  have hu : utilOf m P (e ++ periodEnv t) = utilOf m' P (e ++ periodEnv t) := by
    unfold utilOf; rw [hp.fuel, callF_congr_funcs m m' hf P]
  cases next with
  | none => rw [uAndF_none_eq, uAndF_none_eq, hc, hu]
  | some nx =>
    obtain ⟨V, feas⟩ := nx
    have hd : detOf m P (e ++ periodEnv t) = detOf m' P (e ++ periodEnv t) := by
      unfold detOf
      rw [hnexts]
      apply mapM_congr_option
      intro fi _
      rw [hp.fuel, callF_congr_funcs m m' hf P]
    have hw : wrowsOf m P (e ++ periodEnv t) = wrowsOf m' P (e ++ periodEnv t) := by
      unfold wrowsOf
      rw [hnexts]
      apply mapM_congr_option
      intro n _
      rw [hf n]
    obtain ⟨hS, hD, hC⟩ := state_groups_eq h hfn
    have hv : ∀ env, vhat (groups m') feas V env = vhat (groups m) feas V env :=
      fun env => vhat_state_groups _ _ hS hD hC feas V env
    rw [uAndF_some_eq, uAndF_some_eq, hc, hu, hd, hw]
    simp only [hv]

/-! ### feasible restricted states -/

theorem spaceFilt_choicePerm {m m' : Model} (h : ChoicePermOf m m') (hfn : (m.functions.map (·.name)).Nodup)
    (P : Params) (t : Nat) (s c c' : List (Name × Rat)) (hc : c.Perm c') (hk : ((s ++ c).map (·.1)).Nodup) :
    spaceFilt m P t s c = spaceFilt m' P t s c' := by
  unfold spaceFilt
  have hE : EnvEq (toEnv (s ++ c)) (toEnv (s ++ c')) := envEq_of_perm _ _ ((List.Perm.refl s).append hc) hk
  rw [allTrue_congr_env m P _ _ (hE.append (EnvEq.refl _))]
  have := filters_perm h.permOf hfn P (toEnv (s ++ c') ++ periodEnv t)
  unfold filterNames at this
  rw [this]

theorem sS_sC_nodup (m : Model) (hnd : ((m.states ++ m.choices).map (·.1)).Nodup) :
    ((groups m).sS.map (·.1) ++ (groups m).sC.map (·.1)).Nodup := by
  have := allNames_nodup m hnd
  unfold allNames at this
  simp only [List.append_assoc] at this
  rw [← List.append_assoc] at this
  exact (List.nodup_append.mp this).1

theorem feasOf_choicePerm {m m' : Model} (h : ChoicePermOf m m') (hfn : (m.functions.map (·.name)).Nodup)
    (hnd : ((m.states ++ m.choices).map (·.1)).Nodup) (P : Params) (t : Nat) :
    feasOf m' P t = feasOf m P t := by
  obtain ⟨hS, _, _⟩ := state_groups_eq h hfn
  unfold feasOf feasStates
  rw [hS]
  apply List.filter_congr
  intro s hs
  have hsc := sC_perm h hfn hnd
  have hkeys : ∀ c ∈ assignments (groups m).sC, ((s ++ c).map (·.1)).Nodup := by
    intro c hc
    rw [List.map_append, assignments_keys _ s hs, assignments_keys _ c hc]
    exact sS_sC_nodup m hnd
  -- both sides are `any`: compare through existence
  cases hA : (assignments (groups m).sC).any (spaceFilt m P t s) with
  | true =>
    rw [List.any_eq_true] at hA ⊢
    obtain ⟨c, hc, hf⟩ := hA
    obtain ⟨c', hc', hperm⟩ := assignments_perm _ _ hsc.symm c hc
    exact ⟨c', hc', by rw [← spaceFilt_choicePerm h hfn P t s c c' hperm.symm (hkeys c hc)]; exact hf⟩
  | false =>
    cases hB : (assignments (groups m').sC).any (spaceFilt m' P t s) with
    | false => rfl
    | true =>
      rw [List.any_eq_true] at hB
      obtain ⟨c', hc', hf⟩ := hB
      obtain ⟨c, hc, hperm⟩ := assignments_perm _ _ hsc c' hc'
      have : (assignments (groups m).sC).any (spaceFilt m P t s) = true := by
        rw [List.any_eq_true]
        exact ⟨c, hc, by rw [spaceFilt_choicePerm h hfn P t s c c' hperm (hkeys c hc)]; exact hf⟩
      rw [hA] at this
      exact absurd this (by simp)


/-! ### tensors that are materialised: equal as soon as shapes and in-range entries agree -/

theorem materialize_ext (X X' : Tensor Ext) (hs : X'.shape = X.shape)
    (h : ∀ idx, InBounds X.shape idx → X'.get idx = X.get idx) : X'.materialize = X.materialize := by
  unfold Tensor.materialize Tensor.toFlat
  rw [hs]
  have : (allIdx X.shape).map X'.get = (allIdx X.shape).map X.get := by
    apply List.map_congr_left
    intro idx hidx
    exact h idx (mem_allIdx_inBounds _ _ hidx)
  rw [this]

theorem solvePeriod_materialized (m : Model) (P : Params) (g : Groups) (t : Nat) (sp : Space)
    (next : Option (Tensor Ext × List (List (Name × Rat)))) :
    ∃ X : Tensor Ext, solvePeriod m P g t sp next = X.materialize := by
  unfold solvePeriod
  simp only []
  split
  · exact ⟨_, rfl⟩
  · exact ⟨_, rfl⟩

theorem materialized_ext (V V' X X' : Tensor Ext) (hV : V = X.materialize) (hV' : V' = X'.materialize)
    (hs : V'.shape = V.shape) (h : ∀ idx, InBounds V.shape idx → V'.get idx = V.get idx) : V' = V := by
  subst hV hV'
  apply materialize_ext X X' hs
  intro idx hidx
  have h1 := h idx hidx
  rw [materialize_get X idx hidx, materialize_get X' idx (by rw [show X'.shape = X.shape from hs]; exact hidx)] at h1
  exact h1

theorem inBounds_split (s1 s2 idx : List Nat) (h : InBounds (s1 ++ s2) idx) :
    ∃ d x, idx = d ++ x ∧ InBounds s1 d ∧ InBounds s2 x := by
  induction s1 generalizing idx with
  | nil => exact ⟨[], idx, rfl, trivial, h⟩
  | cons n s ih =>
    cases idx with
    | nil => exact absurd h (by simp [InBounds])
    | cons i is =>
      simp only [List.cons_append, InBounds] at h
      obtain ⟨d, x, rfl, hd, hx⟩ := ih is h.2
      exact ⟨i :: d, x, rfl, ⟨h.1, hd⟩, hx⟩

end Lcm
