import LcmProofs.SimPanel
import LcmProofs.Congr
import LcmProofs.OnGrid
import LcmProps.Examples
namespace Lcm

/-! # C06 — solve and simulate agree with each other

(b) is a statement about target plumbing: `solve_and_simulate` *is* `simulate` with
`vf_arr_list := solve(params)` (`if vf_arr_list is None: vf_arr_list = solve_model(params)`).
(a) combines R1 and R2: the simulated value of an agent and the array entry of its grid state are both *the*
maximum (`IsMaxOver`, unique) of the same objective over the same admissible set. `C06_on_grid_value` /
`C06_on_grid_value_unrestricted` prove it at full strength under the only hypotheses that the variable names are
pairwise distinct (`allNames … .Nodup` - enforced by `Model`: dict keys, no name used as state and choice) and
that the agent's state is, as a set of (name, value) pairs, the grid state: the identification of the two
environments is `env_on_grid` (lookups are invariant under permutation of an association list with distinct
keys), "filters read filter-restricted variables only" is `filt_on_grid` (frame property `callF_frame` of by-name
evaluation + the definition of *restricted* = ancestor of a filter). The `_partial` versions keep the two facts
as explicit hypotheses. -/

/-- target 'solve_and_simulate' -/
def solveAndSimulate (m : Model) (P : Params) (init : List (List (Name × Rat))) (draws : Draws) : List (List Record) :=
  simulate m P (solve m P true) init draws true

/-- (b) `solve_and_simulate` returns what `simulate` returns when it is handed the solved arrays -/
theorem C06_solve_and_simulate (m : Model) (P : Params) (init : List (List (Name × Rat))) (draws : Draws) :
    solveAndSimulate m P init draws = simulate m P (solve m P true) init draws true := rfl

/-- period `t` of the simulation and period `t` of the solution use the *same* continuation: the array of
period `t+1` with the feasible restricted states of period `t+1`; none in the last period -/
theorem C06_same_continuation (m : Model) (P : Params) (t : Nat) :
    simNext m P (solve m P true) t = nextOf m P (solve m P true) t := rfl

/-- (a), models with filter-restricted variables: if agent `i`'s period-`t` state is the grid state addressed
by `(k, dIdx, xIdx)`, the simulated value equals the entry of the solved array of period `t` -/
theorem C06_on_grid_value_partial (m : Model) (P : Params) (t : Nat) (ht : t < m.nPeriods)
    (hsparse : (!((groups m).sS.isEmpty && (groups m).sC.isEmpty)) = true)
    (k : Nat) (hk : k < (feasOf m P t).length) (dIdx xIdx : List Nat)
    (hd : InBounds (sizes (groups m).dS) dIdx) (hx : InBounds (sizes (cStateGrids (groups m))) xIdx)
    (states : List (List (Name × Rat))) (i : Nat) (hi : i < states.length)
    (hEnv : ∀ c e y, EnvEq (toEnv (states.getD i [] ++ c ++ e ++ y))
      (toEnv ((feasOf m P t)[k] ++ c) ++ toEnv (pickAt (groups m).dS dIdx ++ e ++ pickAt (cStateGrids (groups m)) xIdx) ++ toEnv y))
    (hFilt : ∀ c, agentFilt m P (groups m) t (states.getD i []) c = spaceFilt m P t ((feasOf m P t)[k]) c) :
    (agentDecision m P (groups m) t (simNext m P (solve m P true) t) states i).value
      = ((solve m P true).getD t default).get (k :: (dIdx ++ xIdx)) := by
  have hR2 := (agentDecision_spec m P (groups m) t (simNext m P (solve m P true) t) states i hi).2.1
  have hR1 := solve_entry_isMax_restricted m P t ht hsparse k hk dIdx xIdx hd hx
  simp only at hR1
  have hobj : ∀ c e y, agentObj m P (groups m) t (simNext m P (solve m P true) t) (states.getD i []) c e y
      = objAt m P (groups m) t (nextOf m P (solve m P true) t) ((feasOf m P t)[k]) dIdx xIdx c e y := by
    intro c e y
    unfold agentObj objAt
    exact uAndF_congr_env m P (groups m) t _ _ _ (hEnv c e y)
  refine (hR2.congr ?_ ?_).unique hR1
  · intro x
    simp only [hFilt, hobj]
  · intro x _
    simp only [hobj]

/-- (a), models without filter-restricted variables -/
theorem C06_on_grid_value_unrestricted_partial (m : Model) (P : Params) (t : Nat) (ht : t < m.nPeriods)
    (hdense : (!((groups m).sS.isEmpty && (groups m).sC.isEmpty)) = false)
    (dIdx xIdx : List Nat)
    (hd : InBounds (sizes (groups m).dS) dIdx) (hx : InBounds (sizes (cStateGrids (groups m))) xIdx)
    (states : List (List (Name × Rat))) (i : Nat) (hi : i < states.length)
    (hEnv : ∀ e y, e ∈ assignments (groups m).dC → y ∈ assignments (groups m).cC →
      EnvEq (toEnv (states.getD i [] ++ [] ++ e ++ y))
        (toEnv (pickAt (groups m).dS dIdx ++ e ++ pickAt (cStateGrids (groups m)) xIdx) ++ toEnv y)) :
    (agentDecision m P (groups m) t (simNext m P (solve m P true) t) states i).value
      = ((solve m P true).getD t default).get (dIdx ++ xIdx) := by
  have hsC : (groups m).sC = [] := by
    have : ((groups m).sS.isEmpty && (groups m).sC.isEmpty) = true := by simpa using hdense
    simp only [Bool.and_eq_true, List.isEmpty_iff] at this
    exact this.2
  have hR2 := (agentDecision_spec m P (groups m) t (simNext m P (solve m P true) t) states i hi).2.1
  have hR1 := solve_entry_isMax_unrestricted m P t ht hdense dIdx xIdx hd hx
  simp only at hR1
  have hobj : ∀ e y, e ∈ assignments (groups m).dC → y ∈ assignments (groups m).cC →
      agentObj m P (groups m) t (simNext m P (solve m P true) t) (states.getD i []) [] e y
        = objAtDense m P (groups m) t (nextOf m P (solve m P true) t) dIdx xIdx e y := by
    intro e y he hy
    unfold agentObj objAtDense
    exact uAndF_congr_env m P (groups m) t _ _ _ (hEnv e y he hy)
  have hfilt : ∀ c, agentFilt m P (groups m) t (states.getD i []) c = true := by
    intro c; simp [agentFilt, hsC]
  have hmem : ∀ c : List (Name × Rat), c ∈ assignments (groups m).sC ↔ c = [] := by
    intro c; rw [hsC]; simp [assignments]
  have hR2' : IsMaxOver
      (fun x : List (Name × Rat) × List (Name × Rat) =>
        x.1 ∈ assignments (groups m).dC ∧ (x.2 ∈ assignments (groups m).cC ∧
          feasibleOf (objAtDense m P (groups m) t (nextOf m P (solve m P true) t) dIdx xIdx x.1 x.2) = true))
      (fun x => valueOf (objAtDense m P (groups m) t (nextOf m P (solve m P true) t) dIdx xIdx x.1 x.2))
      (agentDecision m P (groups m) t (simNext m P (solve m P true) t) states i).value := by
    obtain ⟨hub, hatt⟩ := hR2
    constructor
    · intro x hx
      have := hub ([], x) ⟨⟨(hmem []).mpr rfl, hfilt []⟩, hx.1, hx.2.1, by rw [hobj _ _ hx.1 hx.2.1]; exact hx.2.2⟩
      simpa only [hobj _ _ hx.1 hx.2.1] using this
    · rcases hatt with ⟨x, hx, hv⟩ | ⟨hnone, hv⟩
      · left
        have hx1 : x.1 = [] := (hmem x.1).mp hx.1.1
        refine ⟨x.2, ⟨hx.2.1, hx.2.2.1, ?_⟩, ?_⟩
        · have := hx.2.2.2; rw [hx1, hobj _ _ hx.2.1 hx.2.2.1] at this; exact this
        · rw [hv]
          show Ext.fin (valueOf (agentObj m P (groups m) t (simNext m P (solve m P true) t) (states.getD i []) x.1 x.2.1 x.2.2)) = _
          rw [hx1, hobj _ _ hx.2.1 hx.2.2.1]
      · right
        refine ⟨fun x hx => hnone ([], x) ⟨⟨(hmem []).mpr rfl, hfilt []⟩, hx.1, hx.2.1, by rw [hobj _ _ hx.1 hx.2.1]; exact hx.2.2⟩, hv⟩
  exact hR2'.unique hR1

/-- (a) at full strength, models without filter-restricted variables -/
theorem C06_on_grid_value_unrestricted (m : Model) (P : Params) (t : Nat) (ht : t < m.nPeriods)
    (hdense : (!((groups m).sS.isEmpty && (groups m).sC.isEmpty)) = false)
    (dIdx xIdx : List Nat)
    (hd : InBounds (sizes (groups m).dS) dIdx) (hx : InBounds (sizes (cStateGrids (groups m))) xIdx)
    (states : List (List (Name × Rat))) (i : Nat) (hi : i < states.length)
    (hnames : (allNames (groups m)).Nodup)
    (hst : (states.getD i []).Perm (pickAt (groups m).dS dIdx ++ pickAt (cStateGrids (groups m)) xIdx)) :
    (agentDecision m P (groups m) t (simNext m P (solve m P true) t) states i).value
      = ((solve m P true).getD t default).get (dIdx ++ xIdx) := by
  have hdl : dIdx.length = (groups m).dS.length := by rw [inBounds_length _ _ hd, sizes_length]
  have hxl : xIdx.length = (cStateGrids (groups m)).length := by rw [inBounds_length _ _ hx, sizes_length]
  have hemp : ((groups m).sS.isEmpty && (groups m).sC.isEmpty) = true := by simpa using hdense
  simp only [Bool.and_eq_true, List.isEmpty_iff] at hemp
  apply C06_on_grid_value_unrestricted_partial m P t ht hdense dIdx xIdx hd hx states i hi
  intro e y he hy
  have := env_on_grid (groups m) hnames (states.getD i []) [] [] e y dIdx xIdx
    (by rw [hemp.1]; simp [assignments]) (by rw [hemp.2]; simp [assignments]) he hy hdl hxl (by simpa using hst)
  have h0 : toEnv ([] : List (Name × Rat)) = [] := rfl
  simpa [h0] using this

/-- **(a) at full strength, models with filter-restricted variables**: if the variable names are pairwise
distinct (which `Model` enforces: dict keys, no name used as state and choice) and agent `i`'s period-`t` state
is - as a set of (name, value) pairs - the grid state addressed by `(k, dIdx, xIdx)`, then the simulated value
equals the entry of the solved array of period `t`. No further hypothesis: the environment equivalence is
`env_on_grid`, "filters read restricted variables only" is `filt_on_grid` (frame property of by-name evaluation
+ the definition of *restricted* as "ancestor of a filter"). -/
theorem C06_on_grid_value (m : Model) (P : Params) (t : Nat) (ht : t < m.nPeriods)
    (hsparse : (!((groups m).sS.isEmpty && (groups m).sC.isEmpty)) = true)
    (k : Nat) (hk : k < (feasOf m P t).length) (dIdx xIdx : List Nat)
    (hd : InBounds (sizes (groups m).dS) dIdx) (hx : InBounds (sizes (cStateGrids (groups m))) xIdx)
    (states : List (List (Name × Rat))) (i : Nat) (hi : i < states.length)
    (hnames : (allNames (groups m)).Nodup)
    (hst : (states.getD i []).Perm
      ((feasOf m P t)[k] ++ pickAt (groups m).dS dIdx ++ pickAt (cStateGrids (groups m)) xIdx)) :
    (agentDecision m P (groups m) t (simNext m P (solve m P true) t) states i).value
      = ((solve m P true).getD t default).get (k :: (dIdx ++ xIdx)) := by
  have hdl : dIdx.length = (groups m).dS.length := by rw [inBounds_length _ _ hd, sizes_length]
  have hxl : xIdx.length = (cStateGrids (groups m)).length := by rw [inBounds_length _ _ hx, sizes_length]
  have hsmem : (feasOf m P t)[k] ∈ feasOf m P t := List.getElem_mem hk
  have hs : (feasOf m P t)[k] ∈ assignments (groups m).sS := List.mem_of_mem_filter hsmem
  have hR2 := (agentDecision_spec m P (groups m) t (simNext m P (solve m P true) t) states i hi).2.1
  have hR1 := solve_entry_isMax_restricted m P t ht hsparse k hk dIdx xIdx hd hx
  simp only at hR1
  have hobj : ∀ c e y, c ∈ assignments (groups m).sC → e ∈ assignments (groups m).dC → y ∈ assignments (groups m).cC →
      agentObj m P (groups m) t (simNext m P (solve m P true) t) (states.getD i []) c e y
        = objAt m P (groups m) t (nextOf m P (solve m P true) t) ((feasOf m P t)[k]) dIdx xIdx c e y := by
    intro c e y hc he hy
    unfold agentObj objAt
    exact uAndF_congr_env m P (groups m) t _ _ _
      (env_on_grid (groups m) hnames _ _ c e y dIdx xIdx hs hc he hy hdl hxl hst)
  have hfilt : ∀ c, c ∈ assignments (groups m).sC →
      agentFilt m P (groups m) t (states.getD i []) c = spaceFilt m P t ((feasOf m P t)[k]) c := by
    intro c hc
    by_cases hsC : (groups m).sC.isEmpty = true
    · -- no restricted choice: the data space applies no filter; the grid state is feasible by construction
      have hnil : (groups m).sC = [] := List.isEmpty_iff.mp hsC
      have hc0 : c = [] := by rw [hnil] at hc; simpa [assignments] using hc
      have hany : (assignments (groups m).sC).any (spaceFilt m P t ((feasOf m P t)[k])) = true :=
        (List.mem_filter.mp hsmem).2
      rw [hnil] at hany
      have : spaceFilt m P t ((feasOf m P t)[k]) [] = true := by simpa [assignments] using hany
      rw [hc0, this]
      simp [agentFilt, hnil]
    · exact filt_on_grid m P t hnames _ _ c dIdx xIdx hs hc hdl hxl hst (by simpa using hsC)
  refine (hR2.congr ?_ ?_).unique hR1
  · intro x
    constructor
    · rintro ⟨⟨h1, h2⟩, h3, h4, h5⟩
      exact ⟨⟨h1, by rw [← hfilt _ h1]; exact h2⟩, h3, h4, by rw [← hobj _ _ _ h1 h3 h4]; exact h5⟩
    · rintro ⟨⟨h1, h2⟩, h3, h4, h5⟩
      exact ⟨⟨h1, by rw [hfilt _ h1]; exact h2⟩, h3, h4, by rw [hobj _ _ _ h1 h3 h4]; exact h5⟩
  · rintro x ⟨⟨h1, _⟩, h3, h4, _⟩
    simp only [hobj _ _ _ h1 h3 h4]

-- non-vacuity / pinned: on the F1 witness the simulated values in period 0 are the array entries V0[1], V0[2]
#guard ((solveAndSimulate Ex.f1Model Ex.f1Params [[("s", 1)], [("s", 2)]] (fun _ _ _ _ => 0)).getD 0 []).map (·.value)
  == [((solve Ex.f1Model Ex.f1Params).getD 0 default).get [1], ((solve Ex.f1Model Ex.f1Params).getD 0 default).get [2]]

end Lcm
