import LcmModel.SimStep
import LcmProofs.SimStep
namespace Lcm
variable {C E Y : Type}

/-! C08 core: the decision of agent `k` in a batch of `n` equals the decision of the same agent
simulated alone — tie rule included. -/

theorem foldl_natmax_upper (xs : List Nat) (a : Nat) : ∀ x ∈ xs, x ≤ xs.foldl Nat.max a := by
  induction xs generalizing a with
  | nil => simp
  | cons y ys ih =>
    intro x hx
    simp only [List.foldl_cons]
    rcases List.mem_cons.mp hx with rfl | hx
    · exact Nat.le_trans (Nat.le_max_right a x) (foldl_natmax_ge ys _)
    · exact ih _ x hx

/-- characterisation of the selected row: the largest hit -/
theorem natmax_char (xs : List Nat) (h : xs ≠ []) (r : Nat) (hr : r ∈ xs) (hub : ∀ x ∈ xs, x ≤ r) :
    xs.foldl Nat.max 0 = r := by
  have hm := foldl_natmax_mem xs h
  have h1 := hub _ hm
  have h2 := foldl_natmax_upper xs 0 r hr
  omega

/-- rows of the data state-choice space split around agent `k`'s block -/
theorem combos_range_split (n k : Nat) (hk : k < n) (scGrid : List C) (filt : Nat → C → Bool) :
    combos (List.range n) scGrid filt
      = combos (List.range k) scGrid filt
        ++ ((scGrid.filter (filt k)).map fun c => (k, c))
        ++ combos ((List.range' (k + 1) (n - k - 1))) scGrid filt := by
  have hr : List.range n = List.range k ++ k :: List.range' (k + 1) (n - k - 1) := by
    apply List.ext_getElem
    · simp; omega
    · intro i h1 h2
      simp only [List.getElem_range]
      by_cases hik : i < k
      · rw [List.getElem_append_left (by simpa using hik)]; simp
      · rw [List.getElem_append_right (by simpa using hik)]
        simp only [List.length_range]
        rcases Nat.eq_or_lt_of_le (Nat.le_of_not_lt hik) with h | h
        · subst h; simp
        · have : i - k = (i - k - 1) + 1 := by omega
          rw [List.getElem_cons, dif_neg (by omega)]
          simp [List.getElem_range']; omega
  rw [hr]
  simp only [combos, List.flatMap_append, List.filter_append, List.flatMap_cons, List.filter_map,
    Function.comp_def, List.append_assoc]


/-- index (within a block) of the last element attaining the block maximum -/
def lastHit (B : List Ext) : Nat :=
  ((List.range B.length).filter fun j => decide (B.getD j .ninf = foldMax B)).foldl Nat.max 0

theorem lastHit_lt (B : List Ext) (hB : B ≠ []) : lastHit B < B.length := by
  have hm := foldMax_mem B hB
  obtain ⟨i, hi, hiv⟩ := List.getElem_of_mem hm
  have hhits : ((List.range B.length).filter fun j => decide (B.getD j .ninf = foldMax B)) ≠ [] := by
    intro h
    have : i ∈ (List.range B.length).filter fun j => decide (B.getD j .ninf = foldMax B) := by
      simp only [List.mem_filter, List.mem_range, decide_eq_true_eq]
      exact ⟨hi, by rw [← List.getElem_eq_getD (h := hi)]; exact hiv⟩
    rw [h] at this; simp at this
  have := foldl_natmax_mem _ hhits
  simp only [List.mem_filter, List.mem_range] at this
  exact this.1

theorem getD_mid {α} (A B Cc : List α) (j : Nat) (hj : j < B.length) (d : α) :
    (A ++ B ++ Cc).getD (A.length + j) d = B.getD j d := by
  rw [List.append_assoc]
  simp only [List.getD_eq_getElem?_getD]
  rw [List.getElem?_append_right (by omega)]
  simp only [Nat.add_sub_cancel_left]
  rw [List.getElem?_append_left hj]

theorem getD_left {α} (A B : List α) (r : Nat) (hr : r < A.length) (d : α) :
    (A ++ B).getD r d = A.getD r d := by
  simp only [List.getD_eq_getElem?_getD]
  rw [List.getElem?_append_left hr]

theorem getD_right {α} (A B : List α) (r : Nat) (hr : A.length ≤ r) (d : α) :
    (A ++ B).getD r d = B.getD (r - A.length) d := by
  simp only [List.getD_eq_getElem?_getD]
  rw [List.getElem?_append_right hr]

theorem getD_mem_or_default {α} (l : List α) (r : Nat) (d : α) : l.getD r d ∈ l ∨ l.getD r d = d := by
  by_cases h : r < l.length
  · left; rw [← List.getElem_eq_getD (h := h)]; exact List.getElem_mem h
  · right
    have : l[r]? = none := List.getElem?_eq_none (by omega)
    simp [List.getD_eq_getElem?_getD, this]

/-- segment arg-max when the segment of `k` is one contiguous block `B` of the rows -/
theorem segArgmaxAt_block (A B Cc : List Ext) (idsA idsC : List Nat) (k : Nat)
    (hA : idsA.length = A.length) (hC : idsC.length = Cc.length)
    (hkA : k ∉ idsA) (hkC : k ∉ idsC) (hB : B ≠ []) :
    segArgmaxAt (A ++ B ++ Cc) (idsA ++ List.replicate B.length k ++ idsC) k
      = (A.length + lastHit B, foldMax B) := by
  -- the value
  have hval : segMaxAt (A ++ B ++ Cc) (idsA ++ List.replicate B.length k ++ idsC) k = foldMax B := by
    unfold segMaxAt
    rw [List.zip_append (by simp [hA]), List.zip_append (by simp [hA]), List.filterMap_append,
      List.filterMap_append, foldMax_append, foldMax_append]
    rw [filterMap_zip_ne A idsA k (fun x hx hxk => hkA (hxk ▸ hx)),
      filterMap_zip_eq B B.length k rfl,
      filterMap_zip_ne Cc idsC k (fun x hx hxk => hkC (hxk ▸ hx))]
    simp [foldMax_nil, Ext.max_ninf_left, Ext.max_ninf_right]
  -- hits inside the block
  have hBhits : ((List.range B.length).filter fun j => decide (B.getD j .ninf = foldMax B)) ≠ [] := by
    have hm := foldMax_mem B hB
    obtain ⟨j, hj, hjv⟩ := List.getElem_of_mem hm
    intro h
    have : j ∈ (List.range B.length).filter fun j => decide (B.getD j .ninf = foldMax B) := by
      simp only [List.mem_filter, List.mem_range, decide_eq_true_eq]
      exact ⟨hj, by rw [← List.getElem_eq_getD (h := hj)]; exact hjv⟩
    rw [h] at this; simp at this
  have hlast0 := foldl_natmax_mem _ hBhits
  have hlast : lastHit B < B.length ∧ B.getD (lastHit B) .ninf = foldMax B := by
    have := hlast0
    simp only [List.mem_filter, List.mem_range, decide_eq_true_eq] at this
    exact this
  have hlast_ub : ∀ x, x < B.length → B.getD x .ninf = foldMax B → x ≤ lastHit B := by
    intro x hx hv
    exact foldl_natmax_upper _ 0 x (by
      simp only [List.mem_filter, List.mem_range, decide_eq_true_eq]; exact ⟨hx, hv⟩)
  have hids_len : (idsA ++ List.replicate B.length k ++ idsC).length = (A ++ B ++ Cc).length := by
    simp [hA, hC]
  apply Prod.ext
  · show (List.foldl Nat.max 0 _) = _
    rw [hval]
    apply natmax_char
    · intro h
      have : A.length + lastHit B ∈ (List.range (A ++ B ++ Cc).length).filter fun r =>
          decide ((idsA ++ List.replicate B.length k ++ idsC).getD r (k + 1) = k) &&
            decide ((A ++ B ++ Cc).getD r .ninf = foldMax B) := by
        simp only [List.mem_filter, List.mem_range, Bool.and_eq_true, decide_eq_true_eq]
        refine ⟨by simp; omega, ?_, ?_⟩
        · have := getD_mid idsA (List.replicate B.length k) idsC (lastHit B) (by simpa using hlast.1) (k + 1)
          rw [hA] at this; rw [this]; simp [List.getD_eq_getElem?_getD, hlast.1]
        · rw [getD_mid A B Cc _ hlast.1]; exact hlast.2
      rw [h] at this; simp at this
    · simp only [List.mem_filter, List.mem_range, Bool.and_eq_true, decide_eq_true_eq]
      refine ⟨by simp; omega, ?_, ?_⟩
      · have := getD_mid idsA (List.replicate B.length k) idsC (lastHit B) (by simpa using hlast.1) (k + 1)
        rw [hA] at this; rw [this]; simp [List.getD_eq_getElem?_getD, hlast.1]
      · rw [getD_mid A B Cc _ hlast.1]; exact hlast.2
    · intro r hr
      simp only [List.mem_filter, List.mem_range, Bool.and_eq_true, decide_eq_true_eq] at hr
      obtain ⟨hrlt, hrid, hrv⟩ := hr
      -- r must lie inside the block
      by_cases h1 : r < A.length
      · exfalso
        rw [List.append_assoc, getD_left idsA _ r (by omega)] at hrid
        rcases getD_mem_or_default idsA r (k + 1) with h | h
        · exact hkA (hrid ▸ h)
        · omega
      · by_cases h2 : r < A.length + B.length
        · have hj : r - A.length < B.length := by omega
          have hr' : r = A.length + (r - A.length) := by omega
          rw [hr', getD_mid A B Cc _ hj] at hrv
          have := hlast_ub (r - A.length) hj hrv
          omega
        · exfalso
          have hlen2 : (idsA ++ List.replicate B.length k).length ≤ r := by simp [hA]; omega
          rw [getD_right _ idsC r hlen2] at hrid
          rcases getD_mem_or_default idsC (r - (idsA ++ List.replicate B.length k).length) (k + 1) with h | h
          · exact hkC (hrid ▸ h)
          · omega
  · exact hval


theorem fst_not_mem_combos (ss : List Nat) (scGrid : List C) (filt : Nat → C → Bool) (k : Nat)
    (hk : k ∉ ss) : k ∉ (combos ss scGrid filt).map (·.1) := by
  intro h
  obtain ⟨p, hp, hpk⟩ := List.mem_map.mp h
  have := (mem_combos ss scGrid filt p hp).1
  rw [hpk] at this
  exact hk this

/-- everything `simChoice` computes from a row `(i, c)` -/
def rowOut [Inhabited E] [Inhabited Y] (dcGrid : List E) (ccGrid : List Y)
    (q : C → E → Y → Rat) (feas : C → E → Y → Bool) (c : C) : E × Y × Ext :=
  let contPol := fun (e : E) =>
    argmaxBlock (ccGrid.map fun y => Ext.fin (q c e y)) (ccGrid.map fun y => feas c e y)
  let densePol := argmaxBlock (dcGrid.map fun e => (contPol e).2) (dcGrid.map fun _ => true)
  let e := dcGrid.getD densePol.1 default
  (e, ccGrid.getD (contPol e).1 default, densePol.2)

/-- `simChoice` in closed form: the last filter-passing restricted choice whose row value attains
the maximum, together with what that row computes — a function of agent `k`'s own `filt k`, `q k`,
`feas k` only. -/
theorem simChoice_closed [Inhabited C] [Inhabited E] [Inhabited Y] (n : Nat) (scGrid : List C)
    (dcGrid : List E) (ccGrid : List Y) (filt : Nat → C → Bool) (q : Nat → C → E → Y → Rat)
    (feas : Nat → C → E → Y → Bool) (k : Nat) (hk : k < n) (hne : scGrid.filter (filt k) ≠ []) :
    simChoice n scGrid dcGrid ccGrid filt q feas k =
      let block := scGrid.filter (filt k)
      let vals := block.map fun c => (rowOut dcGrid ccGrid (q k) (feas k) c).2.2
      let c := block.getD (lastHit vals) default
      let o := rowOut dcGrid ccGrid (q k) (feas k) c
      (c, o.1, o.2.1, foldMax vals) := by
  unfold simChoice
  simp only
  -- split the rows around agent k's block
  have hsplit := combos_range_split n k hk scGrid filt
  set RA := combos (List.range k) scGrid filt with hRA
  set RC := combos (List.range' (k + 1) (n - k - 1)) scGrid filt with hRC
  set block := scGrid.filter (filt k) with hblock
  rw [hsplit]
  simp only [List.map_append, List.map_map]
  have hids : (List.map ((fun x => x.1) ∘ fun c => (k, c)) block) = List.replicate block.length k := by
    simp [Function.comp_def, List.map_const']
  rw [hids]
  have hkA : k ∉ RA.map (·.1) := fst_not_mem_combos _ _ _ _ (by simp)
  have hkC : k ∉ RC.map (·.1) := fst_not_mem_combos _ _ _ _ (by simp [List.mem_range']; omega)
  have hBne : (List.map ((fun r : Nat × C =>
      (argmaxBlock (dcGrid.map fun e => (argmaxBlock (ccGrid.map fun y => Ext.fin (q r.1 r.2 e y))
        (ccGrid.map fun y => feas r.1 r.2 e y)).2) (dcGrid.map fun _ => true)).2) ∘ fun c => (k, c)) block) ≠ [] := by
    simpa using hne
  have hseg := segArgmaxAt_block
    (RA.map fun r => (argmaxBlock (dcGrid.map fun e => (argmaxBlock (ccGrid.map fun y => Ext.fin (q r.1 r.2 e y))
        (ccGrid.map fun y => feas r.1 r.2 e y)).2) (dcGrid.map fun _ => true)).2)
    (List.map ((fun r : Nat × C =>
      (argmaxBlock (dcGrid.map fun e => (argmaxBlock (ccGrid.map fun y => Ext.fin (q r.1 r.2 e y))
        (ccGrid.map fun y => feas r.1 r.2 e y)).2) (dcGrid.map fun _ => true)).2) ∘ fun c => (k, c)) block)
    (RC.map fun r => (argmaxBlock (dcGrid.map fun e => (argmaxBlock (ccGrid.map fun y => Ext.fin (q r.1 r.2 e y))
        (ccGrid.map fun y => feas r.1 r.2 e y)).2) (dcGrid.map fun _ => true)).2)
    (RA.map (·.1)) (RC.map (·.1)) k (by simp) (by simp) hkA hkC hBne
  simp only [List.length_map] at hseg
  rw [hseg]
  simp only
  -- the selected row
  have hvals : (List.map ((fun r : Nat × C =>
      (argmaxBlock (dcGrid.map fun e => (argmaxBlock (ccGrid.map fun y => Ext.fin (q r.1 r.2 e y))
        (ccGrid.map fun y => feas r.1 r.2 e y)).2) (dcGrid.map fun _ => true)).2) ∘ fun c => (k, c)) block)
      = block.map fun c => (rowOut dcGrid ccGrid (q k) (feas k) c).2.2 := by
    apply List.map_congr_left; intro c _; rfl
  rw [hvals]
  set j := lastHit (block.map fun c => (rowOut dcGrid ccGrid (q k) (feas k) c).2.2) with hj
  have hjlt : j < block.length := by
    have hne' : (block.map fun c => (rowOut dcGrid ccGrid (q k) (feas k) c).2.2) ≠ [] := by simpa using hne
    have := lastHit_lt _ hne'
    simpa using this
  have hrow : (RA ++ List.map (fun c => (k, c)) block ++ RC).getD (RA.length + j) default
      = (k, block.getD j default) := by
    rw [getD_mid RA _ RC j (by simpa using hjlt)]
    simp [List.getD_eq_getElem?_getD, hjlt]
  rw [hrow]
  rfl

/-- **C08 core**: agent `k`'s decision inside any batch of `n` agents equals its decision when
simulated alone (batch of one), tie rule included. -/
theorem simChoice_alone [Inhabited C] [Inhabited E] [Inhabited Y] (n : Nat) (scGrid : List C)
    (dcGrid : List E) (ccGrid : List Y) (filt : Nat → C → Bool) (q : Nat → C → E → Y → Rat)
    (feas : Nat → C → E → Y → Bool) (k : Nat) (hk : k < n) (hne : scGrid.filter (filt k) ≠ []) :
    simChoice n scGrid dcGrid ccGrid filt q feas k
      = simChoice 1 scGrid dcGrid ccGrid (fun _ => filt k) (fun _ => q k) (fun _ => feas k) 0 := by
  rw [simChoice_closed n scGrid dcGrid ccGrid filt q feas k hk hne,
    simChoice_closed 1 scGrid dcGrid ccGrid (fun _ => filt k) (fun _ => q k) (fun _ => feas k) 0
      (by omega) hne]

#print axioms simChoice_alone
end Lcm
