"""Finding 1 (C09): the result of solve(params) is not fixed at the time of the call when
params has numpy leaves -- it changes if the caller re-uses (overwrites) its own numpy
parameter buffer after the call has returned.

Run:  LCM_WT=/tmp/hunt2_C09 /venv/bin/python finding_1.py      (exit code 1 = defect present)
"""
# ---- shim -----------------------------------------------------------------------------
import sys, types, os
WT = os.environ.get("LCM_WT", "/tmp/hunt2_C09")
sys.path.insert(0, os.path.join(WT, "src"))
import jax, jax._src.util as _u
m = types.ModuleType("jax.util"); m.safe_zip = _u.safe_zip; m.unzip2 = _u.unzip2
sys.modules["jax.util"] = m; jax.util = m
jax.config.update("jax_enable_x64", True)
import lcm
assert lcm.__file__.startswith(WT), lcm.__file__
# ---------------------------------------------------------------------------------------
from dataclasses import dataclass

import jax.numpy as jnp
import numpy as np

from lcm import DiscreteGrid, LinspaceGrid, Model
from lcm.entry_point import get_lcm_function


@dataclass
class Work:
    no: int = 0
    yes: int = 1


def utility(consumption, work, wealth, delta):  # noqa: ARG001
    return jnp.log(consumption) - delta * work


def next_wealth(wealth, consumption, work, interest_rate):
    return (1 + interest_rate) * (wealth - consumption) + 2.0 * work


def budget_constraint(consumption, wealth):
    return consumption <= wealth


MODEL = Model(
    n_periods=6,
    functions={
        "utility": utility,
        "next_wealth": next_wealth,
        "budget_constraint": budget_constraint,
    },
    choices={
        "work": DiscreteGrid(Work),
        "consumption": LinspaceGrid(start=1, stop=100, n_points=300),
    },
    states={"wealth": LinspaceGrid(start=1, stop=100, n_points=200)},
)


def aligned_vector(n, align=64):
    """A float64 vector whose memory starts at a multiple of `align` bytes.

    (numpy returns such buffers by chance all the time; we force it to make the script
    deterministic. JAX's CPU client aliases 64-byte aligned host buffers instead of
    copying them.)
    """
    buf = np.empty(n * 8 + align, dtype=np.uint8)
    start = (-buf.ctypes.data) % align
    return buf[start : start + n * 8].view(np.float64)


def make_params(theta):
    # the leaves are 0-d numpy *views* into the parameter vector theta
    return {
        "beta": theta[0:1].reshape(()),
        "utility": {"delta": theta[1:2].reshape(())},
        "next_wealth": {"interest_rate": theta[2:3].reshape(())},
        "budget_constraint": {},
    }


def float_params(theta):
    return {
        "beta": float(theta[0]),
        "utility": {"delta": float(theta[1])},
        "next_wealth": {"interest_rate": float(theta[2])},
        "budget_constraint": {},
    }


def as_np(v):
    return [np.asarray(a) for a in v]


def same(a, b):
    return all(np.array_equal(x, y) for x, y in zip(a, b, strict=True))


solve, _ = get_lcm_function(MODEL, targets="solve", debug_mode=False)

THETA_A = np.array([0.95, 1.0, 0.05])
THETA_B = np.array([0.50, 0.2, 0.00])

# Reference results: python-float leaves (always converted at call time).
ref_a = as_np(solve(float_params(THETA_A)))
ref_b = as_np(solve(float_params(THETA_B)))
assert not same(ref_a, ref_b)
# beta of B, the other two parameters of A (only theta[0] is 64-byte aligned, see below)
ref_mix = as_np(solve(float_params([THETA_B[0], THETA_A[1], THETA_A[2]])))

theta = aligned_vector(3)
params = make_params(theta)
assert all(isinstance(leaf, np.ndarray) for leaf in (params["beta"], params["utility"]["delta"]))

n_trials, n_wrong, n_equal_b, n_equal_mix, n_neither = 20, 0, 0, 0, 0
for _ in range(n_trials):
    theta[:] = THETA_A
    result = solve(params)      # <- call with parameters A; returns immediately
    theta[:] = THETA_B          # caller re-uses its buffer for the next candidate
    result = as_np(result)      # only now the result of the first call is looked at
    if not same(result, ref_a):
        n_wrong += 1
        if same(result, ref_b):
            n_equal_b += 1
        elif same(result, ref_mix):
            n_equal_mix += 1
        else:
            n_neither += 1

print("input   : V = solve(params) with 0-d numpy leaves (views into one parameter vector),")
print("          parameter vector = A = %s at the time of the call;" % THETA_A.tolist())
print("          the caller overwrites the vector in place with B = %s after the call" % THETA_B.tolist())
print("          returned, and only then reads V.")
print("expected: V == solve(A) in all %d trials (result determined by the arguments of the call)" % n_trials)
print("observed: V != solve(A) in %d of %d trials" % (n_wrong, n_trials))
print("          %d x V is exactly solve(B)" % n_equal_b)
print("          %d x V is exactly solve([beta of B, delta and interest_rate of A]) -- only the leaf" % n_equal_mix)
print("               that happens to start at a 64-byte aligned address is read late")
print("          %d x V is something else (periods solved with different parameter values)" % n_neither)
if n_wrong:
    print("DEFECT PRESENT: the generated solve function reads the caller's numpy parameter")
    print("buffers after it has returned (asynchronous dispatch, zero-copy host buffers).")
    sys.exit(1)
print("defect not observed")
sys.exit(0)
