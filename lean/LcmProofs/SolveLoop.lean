import LcmModel.Solve
namespace Lcm

/-! The backward loop of `solve`: chronological list, period t computed from period t+1. -/

/-- value array of period `T-1-j`, defined by recursion from the last period backwards -/
def bw (m : Model) (P : Params) (shift : Bool) : Nat → Tensor Ext × Space
  | 0 =>
    let t := m.nPeriods - 1
    let sp := mkSpace m P (groups m) t
    (solvePeriod m P (groups m) t sp none, sp)
  | j + 1 =>
    let t := m.nPeriods - 1 - (j + 1)
    let sp := mkSpace m P (groups m) t
    let prev := bw m P shift j
    (solvePeriod m P (groups m) t sp (some (prev.1, if shift then prev.2.feas else sp.feas)), sp)

/-- invariant of the loop: with `k` periods left to do (periods k-1, …, 0), `next` holding period
`k`'s result and `acc` the arrays of periods k, …, T-1 -/
theorem go_eq (m : Model) (P : Params) (shift : Bool) (k : Nat) (hk : k ≤ m.nPeriods)
    (next : Option (Tensor Ext × Space)) (acc : List (Tensor Ext))
    (hnext : next = if k = m.nPeriods then none else some (bw m P shift (m.nPeriods - 1 - k))) :
    solve.go m P shift (groups m) k next acc
      = ((List.range k).map fun t => (bw m P shift (m.nPeriods - 1 - t)).1) ++ acc := by
  induction k generalizing next acc with
  | zero => simp [solve.go]
  | succ k ih =>
    have hk' : k ≤ m.nPeriods := by omega
    simp only [solve.go]
    -- the array computed in this step is bw (T-1-k)
    have hV : (solvePeriod m P (groups m) k (mkSpace m P (groups m) k)
          (Option.map (fun x => (x.1, if shift = true then x.2.feas else (mkSpace m P (groups m) k).feas)) next),
          mkSpace m P (groups m) k) = bw m P shift (m.nPeriods - 1 - k) := by
      subst hnext
      by_cases hlast : k + 1 = m.nPeriods
      · have h0 : m.nPeriods - 1 - k = 0 := by omega
        have hk1 : m.nPeriods - 1 = k := by omega
        simp only [hlast, if_true, Option.map_none]
        rw [h0]
        simp only [bw, hk1]
      · have hj : m.nPeriods - 1 - k = (m.nPeriods - 1 - (k + 1)) + 1 := by omega
        have ht : m.nPeriods - 1 - ((m.nPeriods - 1 - (k + 1)) + 1) = k := by omega
        simp only [hlast, if_false, Option.map_some]
        rw [hj]
        simp only [bw, ht]
    rw [ih hk' _ _ (by
      have : k ≠ m.nPeriods := by omega
      simp only [this, if_false]
      rw [← hV])]
    rw [List.range_succ, List.map_append, List.append_assoc]
    congr 1
    simp only [List.map_cons, List.map_nil, List.cons_append, List.nil_append]
    rw [← hV]

/-- **`solve` returns one array per period in chronological order, and the array of period `t` is
`solvePeriod` applied to the array of period `t+1` (none in the last period)** -/
theorem solve_eq (m : Model) (P : Params) (shift : Bool) :
    solve m P shift = (List.range m.nPeriods).map fun t => (bw m P shift (m.nPeriods - 1 - t)).1 := by
  unfold solve
  have := go_eq m P shift m.nPeriods (Nat.le_refl _) none [] (by simp)
  simpa using this

theorem solve_length (m : Model) (P : Params) (shift : Bool) : (solve m P shift).length = m.nPeriods := by
  rw [solve_eq]; simp

#print axioms solve_eq
end Lcm
