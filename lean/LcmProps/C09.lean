import LcmProofs.Congr
import LcmModel.Sim
namespace Lcm

/-! # C09 — generated functions are pure (partial)

In the model the generated solve / simulate functions *are* mathematical functions of their arguments, so the
history statement is a triviality there (`C09_history`); its content - that the implementation has no hidden
state (JIT caches, module-level dicts, mutable defaults, hash-seed dependent set iteration, process state) - is
runtime behaviour the model cannot exhibit and is covered by the differential histories of the check only.
The part that is logic: the name plumbing collects argument names in **sets** (`get_union_of_arguments`), whose
iteration order depends on the hash seed; the theorems show that no result depends on that order. -/

/-- a call history on one function object: every answer is the function of that call's own arguments -/
theorem C09_history {Call Result : Type} (eval : Call → Result) (calls : List Call) (k : Nat) (hk : k < calls.length) :
    (calls.map eval)[k]'(by simpa using hk) = eval calls[k] := by simp

/-- interleaving other calls changes nothing: the answer to a call is the same in any two histories -/
theorem C09_interleaving_irrelevant {Call Result : Type} (eval : Call → Result) (h1 h2 : List Call) (c : Call) :
    ((h1 ++ [c]).map eval).getLast? = ((h2 ++ [c]).map eval).getLast? := by simp

/-- the order in which argument names are collected / passed is irrelevant: every model function reads its
environment through lookups only (all calls are by keyword) -/
theorem C09_arg_order_irrelevant (m : Model) (P : Params) (fuel : Nat) (e e' : Env) (h : EnvEq e e') (f : Name) :
    callF m P fuel e f = callF m P fuel e' f := callF_congr_env m P fuel e e' h f

theorem C09_objective_arg_order_irrelevant (m : Model) (P : Params) (g : Groups) (t : Nat)
    (next : Option (Tensor Ext × List (List (Name × Rat)))) (e e' : Env) (h : EnvEq e e') :
    uAndF m P g t next e = uAndF m P g t next e' := uAndF_congr_env m P g t next e e' h

/-- the result depends on the parameters only through the values stored under each function's name: params
objects with equal leaves are interchangeable (python floats, numpy or jax scalars carry the same number) -/
theorem C09_params_by_value (m : Model) (P P' : Params) (hP : ∀ f p, P.get? f p = P'.get? f p)
    (fuel : Nat) (e : Env) (f : Name) : callF m P fuel e f = callF m P' fuel e f :=
  callF_congr_params m P P' hP fuel e f

-- non-vacuity: two environments with the same bindings in different order
example : EnvEq [("a", Val.num 1), ("b", Val.num 2)] [("b", Val.num 2), ("a", Val.num 1)] := by
  intro x
  by_cases ha : x = "a"
  · subst ha; decide +kernel
  · by_cases hb : x = "b"
    · subst hb; decide +kernel
    · have h1 : ("a" == x) = false := by rw [beq_eq_false_iff_ne]; exact fun h => ha h.symm
      have h2 : ("b" == x) = false := by rw [beq_eq_false_iff_ne]; exact fun h => hb h.symm
      simp [Env.get?, List.find?, h1, h2]

end Lcm
