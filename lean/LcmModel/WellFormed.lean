import LcmModel.Spec
namespace Lcm

/-! The hypotheses under which the refinement and invariance theorems of `LcmProps` are stated, as one computable
check. The driver evaluates it on every specification the correspondence explores (op `wf`), so the evidence files say
for how many explored specifications the theorems' hypotheses actually hold. -/

def nodupB (l : List Name) : Bool := l.eraseDups.length == l.length

structure WfReport where
  variableNamesDistinct : Bool      -- `((m.states ++ m.choices).map (·.1)).Nodup`
  functionNamesDistinct : Bool      -- `(m.functions.map (·.name)).Nodup`
  nextKeysDistinct : Bool           -- `NextKeysNodup m`
  noFilterWithoutRestrictedVariable : Bool   -- `(groups m).sS.isEmpty && (groups m).sC.isEmpty → filterNames m = []`
  noFunctionTakesUtility : Bool     -- `∀ f ∈ m.functions, "utility" ∉ f.args`
  noRestrictionNamedUtility : Bool  -- `names` of `AffineUtility`

def wfReport (m : Model) : WfReport :=
  let fi := functionInfo m
  let g := groups m
  { variableNamesDistinct := nodupB ((m.states ++ m.choices).map (·.1))
    functionNamesDistinct := nodupB (m.functions.map (·.name))
    nextKeysDistinct :=
      nodupB (((fi.filter (·.isNext)).filter (!·.isStochasticNext)).map fun f => stripNext f.name) &&
      nodupB (((fi.filter (·.isNext)).filter (·.isStochasticNext)).map fun f => stripNext f.name)
    noFilterWithoutRestrictedVariable := !(g.sS.isEmpty && g.sC.isEmpty) || (filterNames m).isEmpty
    noFunctionTakesUtility := m.functions.all fun f => !f.args.contains "utility"
    noRestrictionNamedUtility := fi.all fun f => !(f.isConstraint || f.isFilter || f.isNext) || f.name != "utility" }

def WfReport.all (r : WfReport) : Bool :=
  r.variableNamesDistinct && r.functionNamesDistinct && r.nextKeysDistinct && r.noFilterWithoutRestrictedVariable &&
    r.noFunctionTakesUtility && r.noRestrictionNamedUtility

end Lcm
