import LcmModel.InterpCorners
import LcmProofs.Interp2
import Mathlib.Tactic.Ring
import Mathlib.Algebra.Order.Field.Rat
import Mathlib.Algebra.BigOperators.Group.List.Basic
namespace Lcm

theorem sum_map_mul_left_rat {α} (l : List α) (c : Rat) (f : α → Rat) :
    (l.map fun x => c * f x).sum = c * (l.map f).sum := by
  induction l with
  | nil => simp
  | cons x l ih => simp only [List.map_cons, List.sum_cons, ih]; ring

/-- **the corner-product sum of the code equals the recursive form** (any rank) -/
theorem interpCorners_eq_interp (t : Tensor Rat) (cs : List Rat) (h : cs.length = t.shape.length) :
    interpCorners t cs = interp t cs := by
  induction cs generalizing t with
  | nil =>
    have : t.shape = [] := by
      cases hs : t.shape with
      | nil => rfl
      | cons _ _ => rw [hs] at h; simp at h
    simp [interpCorners, interp, this, cornerProduct, weightProduct]
  | cons c cs ih =>
    obtain ⟨shape, get⟩ := t
    cases shape with
    | nil => simp at h
    | cons n s =>
      have hlen : cs.length = s.length := by simpa using h
      simp only [interp, List.headD_cons]
      rw [← ih (Tensor.slice ⟨n :: s, get⟩ (lowerIdx' c n)) (by simpa [Tensor.slice] using hlen),
        ← ih (Tensor.slice ⟨n :: s, get⟩ (lowerIdx' c n + 1)) (by simpa [Tensor.slice] using hlen)]
      simp only [interpCorners, Tensor.slice, List.zip_cons_cons, List.map_cons, cornerProduct, axisData,
        List.flatMap_cons, List.flatMap_nil, List.append_nil, List.map_append, List.map_map, List.sum_append,
        List.tail_cons]
      rw [← sum_map_mul_left_rat, ← sum_map_mul_left_rat]
      congr 1 <;>
      · congr 1
        apply List.map_congr_left
        intro corner _
        simp only [Function.comp, weightProduct, List.map_cons, List.foldr_cons]
        ring

#print axioms interpCorners_eq_interp
end Lcm
