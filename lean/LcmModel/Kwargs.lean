namespace Lcm

inductive PKind where | posOnly | posOrKw | kwOnly
deriving DecidableEq, Repr

inductive CallErr where | valueError | typeError
deriving DecidableEq, Repr

/-- How a plain Python function `def f(<params>)` binds a call: positional values to the
positional parameters in order, keywords by name; TypeError on any mismatch. -/
def pyBind (params : List (String × PKind)) (args : List Int) (kwargs : List (String × Int)) :
    Except CallErr (List (String × Int)) := do
  let positional := params.filter fun p => p.2 != .kwOnly
  if args.length > positional.length then throw .typeError
  let boundPos := (positional.take args.length).map (·.1) |>.zip args
  -- keywords: must name a non-positional-only parameter not yet bound, no duplicates
  for (k, _) in kwargs do
    match params.find? (·.1 == k) with
    | none => throw .typeError
    | some p =>
      if p.2 == .posOnly then throw .typeError
      if boundPos.any (·.1 == k) then throw .typeError
  if (kwargs.map (·.1)).eraseDups.length != kwargs.length then throw .typeError
  let all := boundPos ++ kwargs
  if params.any fun p => !all.any (·.1 == p.1) then throw .typeError
  pure (params.map fun p => (p.1, ((all.find? (·.1 == p.1)).map (·.2)).getD 0))

/-- `convert_kwargs_to_args`: values sorted by the position of their key in `parameters`;
ValueError (`list.index`) for an unknown key -/
def convertKwargsToArgs (kwargs : List (String × Int)) (parameters : List String) :
    Except CallErr (List Int) := do
  for (k, _) in kwargs do
    if !parameters.contains k then throw .valueError
  let keyed := kwargs.map fun (k, v) => ((parameters.findIdx? (· == k)).getD 0, v)
  -- stable insertion sort by index
  let sorted := keyed.foldl (fun acc x =>
    let (lo, hi) := acc.span fun y => y.1 ≤ x.1
    lo ++ [x] ++ hi) []
  pure (sorted.map (·.2))

/-- `allow_only_kwargs(func)(*args, **kwargs)` -/
def allowOnlyKwargs (params : List (String × PKind)) (args : List Int) (kwargs : List (String × Int)) :
    Except CallErr (List (String × Int)) := do
  if !args.isEmpty then throw .valueError
  let names := params.map (·.1)
  if kwargs.any fun kv => !names.contains kv.1 then throw .valueError
  if names.any fun n => !kwargs.any (·.1 == n) then throw .valueError
  let kwOnly := (params.filter (·.2 == .kwOnly)).map (·.1)
  let kwOnlyKwargs := kwargs.filter fun kv => kwOnly.contains kv.1
  let posKwargs := kwargs.filter fun kv => !kwOnly.contains kv.1
  let positional ← convertKwargsToArgs posKwargs names
  pyBind params positional kwOnlyKwargs

/-- `allow_args(func)(*args, **kwargs)`; `repaired` adds the F4 check -/
def allowArgs (params : List (String × PKind)) (args : List Int) (kwargs : List (String × Int))
    (repaired : Bool := false) : Except CallErr (List (String × Int)) := do
  let names := params.map (·.1)
  if args.length + kwargs.length != names.length then throw .valueError
  if repaired then
    let expected := names.drop args.length
    if !(kwargs.all (fun kv => expected.contains kv.1) && expected.all fun n => kwargs.any (·.1 == n)) then
      throw .valueError
  let positional := args ++ (← convertKwargsToArgs kwargs names)
  let nPosOnly := (params.filter (·.2 == .posOnly)).length
  let posOnlyVals := positional.take nPosOnly
  let kw := (names.drop nPosOnly).zip (positional.drop nPosOnly)
  pyBind params posOnlyVals kw

end Lcm
