import LcmProofs.Laws
namespace Lcm

/-! Finite-horizon dynamic programme over arbitrary state and choice types, indexed by the number `j` of
periods *after* the current one (`j = 0`: last period). `cont j f s x` is the expected continuation of a value
function `f` of the following period (interpolation + expectation over the stochastic transitions): the only
facts used about it are those proved for `interp` and for transition rows summing to one - it commutes with
`f ↦ a·f + c` (`interp_affine`, `expect_affine`). Every entry of `solve` is such a step by R1. -/

structure DP (S X : Type) where
  choices : Nat → S → List X              -- admissible grid choices (all filters and constraints applied)
  u : Nat → S → X → Rat
  cont : Nat → (S → Rat) → S → X → Rat

def Ext.toRat : Ext → Rat
  | .fin q => q
  | .ninf => 0

/-- value `j` periods before the end -/
def DP.value {S X : Type} (d : DP S X) (β : Rat) : Nat → S → Ext
  | 0, s => bellmanStep (d.choices 0 s) (fun _ => true) (d.u 0 s) (fun _ => 0) β
  | j + 1, s =>
    bellmanStep (d.choices (j + 1) s) (fun _ => true) (d.u (j + 1) s)
      (d.cont (j + 1) (fun s' => (d.value β j s').toRat) s) β

theorem bellmanStep_fin_of_ne_nil {X : Type} (xs : List X) (u cont : X → Rat) (β : Rat) (h : xs ≠ []) :
    ∃ q, bellmanStep xs (fun _ => true) u cont β = .fin q := by
  unfold bellmanStep
  have hne : (List.map (fun x => Ext.fin (u x + β * cont x)) (List.filter (fun _ => true) xs)) ≠ [] := by
    simpa using h
  have := foldMax_mem _ hne
  rw [List.mem_map] at this
  obtain ⟨x, _, hx⟩ := this
  exact ⟨_, hx.symm⟩

theorem toRat_affine (a b : Rat) (v : Ext) (h : ∃ q, v = .fin q) : (Ext.affine a b v).toRat = a * v.toRat + b := by
  obtain ⟨q, rfl⟩ := h; rfl

/-- the transformed programme: `u ↦ a·u + b` -/
def DP.scale {S X : Type} (d : DP S X) (a b : Rat) : DP S X :=
  { d with u := fun j s x => a * d.u j s x + b }

/-- **affine law over the whole horizon**: with `a > 0`, every state admitting a choice, and a continuation
functional that commutes with affine maps, `V'_j = a·V_j + b·Σ_{k ≤ j} β^k` -/
theorem DP.value_scale {S X : Type} (d : DP S X) (β a b : Rat) (ha : 0 < a)
    (hne : ∀ j s, d.choices j s ≠ [])
    (hcont : ∀ j (f : S → Rat) (c : Rat) s x, d.cont j (fun s' => a * f s' + c) s x = a * d.cont j f s x + c)
    (j : Nat) (s : S) :
    (d.scale a b).value β j s = Ext.affine a (b * geo β (j + 1)) (d.value β j s) := by
  induction j generalizing s with
  | zero =>
    simp only [DP.value, DP.scale]
    have := bellmanStep_affine (d.choices 0 s) (fun _ => true) (d.u 0 s) (fun _ => 0) β a b 0 ha
    simp only [mul_zero, add_zero, mul_one] at this
    simp only [geo, mul_zero, add_zero, mul_one]
    convert this using 2
  | succ j ih =>
    simp only [DP.value]
    have hfin : ∀ s', ∃ q, d.value β j s' = .fin q := by
      intro s'
      cases j with
      | zero => exact bellmanStep_fin_of_ne_nil _ _ _ _ (hne 0 s')
      | succ j => exact bellmanStep_fin_of_ne_nil _ _ _ _ (hne (j + 1) s')
    have hV : (fun s' => ((d.scale a b).value β j s').toRat)
        = fun s' => a * (d.value β j s').toRat + b * geo β (j + 1) := by
      funext s'
      rw [ih s', toRat_affine _ _ _ (hfin s')]
    show bellmanStep (d.choices (j + 1) s) (fun _ => true) (fun x => a * d.u (j + 1) s x + b)
        (d.cont (j + 1) (fun s' => ((d.scale a b).value β j s').toRat) s) β = _
    rw [hV]
    have hc : (d.cont (j + 1) (fun s' => a * (d.value β j s').toRat + b * geo β (j + 1)) s)
        = fun x => a * d.cont (j + 1) (fun s' => (d.value β j s').toRat) s x + b * geo β (j + 1) := by
      funext x; exact hcont (j + 1) _ _ s x
    rw [hc, bellmanStep_affine _ _ _ _ β a b (geo β (j + 1)) ha]
    rfl

/-- **beta = 0**: every period's value is its own one-period problem -/
theorem DP.value_beta_zero {S X : Type} (d : DP S X) (j : Nat) (s : S) :
    d.value 0 j s = bellmanStep (d.choices j s) (fun _ => true) (d.u j s) (fun _ => 0) 0 := by
  cases j with
  | zero => rfl
  | succ j => simp only [DP.value]; exact bellmanStep_beta_zero _ _ _ _ _

/-- **stationarity**: the value `j` periods before the end depends only on the data of the last `j+1` periods - two
programmes (e.g. the same period-independent model with horizons `T` and `T'`) that agree on those agree on it -/
theorem DP.value_congr {S X : Type} (d d' : DP S X) (β : Rat) (j : Nat)
    (h : ∀ i ≤ j, d.choices i = d'.choices i ∧ d.u i = d'.u i ∧ d.cont i = d'.cont i) (s : S) :
    d.value β j s = d'.value β j s := by
  induction j generalizing s with
  | zero =>
    obtain ⟨h1, h2, _⟩ := h 0 (Nat.le_refl 0)
    simp only [DP.value, h1, h2]
  | succ j ih =>
    obtain ⟨h1, h2, h3⟩ := h (j + 1) (Nat.le_refl _)
    have hprev : (fun s' => (d.value β j s').toRat) = fun s' => (d'.value β j s').toRat := by
      funext s'; rw [ih (fun i hi => h i (Nat.le_succ_of_le hi)) s']
    simp only [DP.value, h1, h2, h3, hprev]

#print axioms DP.value_scale
end Lcm
