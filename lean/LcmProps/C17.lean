import LcmProofs.SolveFull
import Mathlib.Data.List.Nodup
namespace Lcm

/-! # C17 — the state-choice space contains exactly the filter-passing combinations

Model: `mkSpace` (`LcmModel/Solve.lean`) = `create_state_choice_space`: `assignments` is the row-major
Cartesian product of the restricted variables' grids (`jnp.meshgrid(indexing="ij")`), `combos` keeps the
combinations passing the filter of period `t` (`arr[mask]`, order preserved), `feasStates` are the
restricted-state combinations with at least one passing choice (`mask.any(axis=choice_axes)`), the state indexer
is the rank in `feasStates` (−1 = not found), `segIdsImpl` is `np.repeat(np.arange(n_feasible), n_choices)`. -/

variable {S C : Type}

/-- stored rows = exactly the filter-passing combinations of the product grid -/
theorem C17_row_iff (ss : List S) (sc : List C) (filt : S → C → Bool) (p : S × C) :
    p ∈ combos ss sc filt ↔ p.1 ∈ ss ∧ p.2 ∈ sc ∧ filt p.1 p.2 = true := by
  simp only [combos, List.mem_filter, List.mem_flatMap, List.mem_map]
  constructor
  · rintro ⟨⟨s, hs, c, hc, rfl⟩, hf⟩; exact ⟨hs, hc, hf⟩
  · rintro ⟨hs, hc, hf⟩; exact ⟨⟨p.1, hs, p.2, hc, rfl⟩, hf⟩

/-- row-major order of the canonical variable order: the rows are the filtered product, state part outer -/
theorem C17_rows_row_major (ss : List S) (sc : List C) (filt : S → C → Bool) :
    combos ss sc filt = (ss.flatMap fun s => sc.map fun c => (s, c)).filter fun p => filt p.1 p.2 := rfl

/-- equivalently, block by block: the rows of state `s` are its passing choices, in grid order -/
theorem C17_rows_blocks (s : S) (rest : List S) (sc : List C) (filt : S → C → Bool) :
    combos (s :: rest) sc filt = ((sc.filter (filt s)).map fun c => (s, c)) ++ combos rest sc filt :=
  combos_cons s rest sc filt

/-- no duplicates (grids have distinct points) -/
theorem C17_rows_nodup (ss : List S) (sc : List C) (filt : S → C → Bool) (hs : ss.Nodup) (hc : sc.Nodup) :
    (combos ss sc filt).Nodup := by
  induction ss with
  | nil => simp [combos]
  | cons s rest ih =>
    rw [combos_cons]
    rw [List.nodup_cons] at hs
    rw [List.nodup_append]
    refine ⟨?_, ih hs.2, ?_⟩
    · exact List.Nodup.map (fun a b h => by simpa using h) (hc.filter _)
    · intro a ha b hb hab
      rw [List.mem_map] at ha
      obtain ⟨c, _, rfl⟩ := ha
      subst hab
      exact hs.1 ((C17_row_iff rest sc filt (s, c)).mp hb).1

/-- feasible restricted-state combinations: those with at least one passing choice, in grid order -/
theorem C17_feasible_state_iff (ss : List S) (sc : List C) (filt : S → C → Bool) (s : S) :
    s ∈ feasStates ss sc filt ↔ s ∈ ss ∧ ∃ c ∈ sc, filt s c = true := by
  simp [feasStates, List.mem_filter, List.any_eq_true]

theorem C17_feasible_states_sublist (ss : List S) (sc : List C) (filt : S → C → Bool) :
    (feasStates ss sc filt).Sublist ss := List.filter_sublist

/-- **the state indexer**: a feasible combination is mapped to its rank among the feasible combinations
(position in `feasStates`), every other combination to "not found" (the fill value −1) -/
theorem C17_indexer [DecidableEq S] (ss : List S) (sc : List C) (filt : S → C → Bool) (hs : ss.Nodup) (s : S) :
    (∀ k (hk : k < (feasStates ss sc filt).length), (feasStates ss sc filt)[k] = s →
        (feasStates ss sc filt).findIdx? (· == s) = some k) ∧
    (s ∉ feasStates ss sc filt → (feasStates ss sc filt).findIdx? (· == s) = none) := by
  have hnd : (feasStates ss sc filt).Nodup := hs.sublist (C17_feasible_states_sublist ss sc filt)
  constructor
  · intro k hk hks
    rw [List.findIdx?_eq_some_iff_getElem]
    refine ⟨hk, by simp [hks], ?_⟩
    intro j hjk
    have hj : j < (feasStates ss sc filt).length := by omega
    intro h
    have : (feasStates ss sc filt)[j] = s := by simpa using h
    have := (List.Nodup.getElem_inj_iff hnd (hi := hj) (hj := hk)).mp (this.trans hks.symm)
    omega
  · intro hnot
    rw [List.findIdx?_eq_none_iff]
    intro x hx
    rw [beq_eq_false_iff_ne]
    intro h; subst h; exact hnot hx

/-- **choice segments**: with the segment ids of `create_indexers_and_segments`, segment `k` consists of
exactly the stored rows of the `k`-th feasible state (stated through the segment maximum of arbitrary row
values, which is how the segments are consumed) -/
theorem C17_segments (ss : List S) (sc : List C) (filt : S → C → Bool) (g : S × C → Ext) (k : Nat)
    (hk : k < (feasStates ss sc filt).length) :
    segMaxAt ((combos ss sc filt).map g) (segIdsImpl ss sc filt) k
      = foldMax ((sc.filter (filt ((feasStates ss sc filt)[k]))).map fun c =>
          g ((feasStates ss sc filt)[k], c)) :=
  segMaxAt_combos ss sc filt g k hk

theorem sum_map_length_filter (ss : List S) (sc : List C) (filt : S → C → Bool) :
    (combos ss sc filt).length = ((ss.map fun s => (sc.filter (filt s)).length)).sum := by
  induction ss with
  | nil => simp [combos]
  | cons s rest ih => rw [combos_cons]; simp [ih]

theorem repeatArange_length (cs : List Nat) (off : Nat) : (repeatArange cs off).length = cs.sum := by
  induction cs generalizing off with
  | nil => simp [repeatArange]
  | cons c cs ih => rw [repeatArange_cons]; simp [ih]

/-- one segment id per stored row -/
theorem C17_segment_ids_length (ss : List S) (sc : List C) (filt : S → C → Bool) :
    (segIdsImpl ss sc filt).length = (combos ss sc filt).length := by
  unfold segIdsImpl
  rw [repeatArange_length, sum_map_length_filter]
  -- states without passing choice contribute 0 rows
  induction ss with
  | nil => simp [feasStates]
  | cons s rest ih =>
    simp only [feasStates, List.filter_cons] at ih ⊢
    by_cases h : sc.any (filt s) = true
    · simp only [h, if_true, List.map_cons, List.sum_cons]; rw [ih]
    · have hz : (sc.filter (filt s)).length = 0 := by
        rw [List.length_eq_zero_iff, List.filter_eq_nil_iff]
        intro c hc hf
        exact h (List.any_eq_true.mpr ⟨c, hc, hf⟩)
      simp only [h, Bool.false_eq_true, if_false, List.map_cons, List.sum_cons, hz, Nat.zero_add]; exact ih

/-- the space of the model is built from these pieces (definitional) -/
theorem C17_mkSpace (m : Model) (P : Params) (t : Nat) :
    let g := groups m
    (mkSpace m P g t).rows = combos (assignments g.sS) (assignments g.sC) (spaceFilt m P t) ∧
    (mkSpace m P g t).feas = feasStates (assignments g.sS) (assignments g.sC) (spaceFilt m P t) ∧
    (mkSpace m P g t).segIds = segIdsImpl (assignments g.sS) (assignments g.sC) (spaceFilt m P t) :=
  ⟨rfl, rfl, rfl⟩

/-- unrestricted discrete variables and continuous states are stored as their full grids: the dense part of
an index addresses `pickAt` of the full grids (`denseEnv`) -/
theorem C17_dense_full (l : List (Name × List Rat)) : (allIdx (sizes l)).map (pickAt l) = assignments l :=
  allIdx_pickAt l

-- non-vacuity
example : combos [0, 1, 2] [0, 1] (fun (s c : Nat) => decide (s ≤ c) || c == 0) = [(0, 0), (0, 1), (1, 0), (1, 1), (2, 0)] := by decide
example : segIdsImpl [0, 1, 2] [0, 1] (fun (s c : Nat) => decide (s ≠ 1)) = [0, 0, 1, 1] ∧
    feasStates [0, 1, 2] [0, 1] (fun (s c : Nat) => decide (s ≠ 1)) = [0, 2] := by decide

end Lcm
