"""One simulated panel per case, evaluated against the Lean specification; shared by C02, C03, C13."""
from __future__ import annotations

import random
from fractions import Fraction as Fr

from common import impl, impl_site
from gen import gen_initial_states, has_log, nontrivial, signature
from pipeline import (ImplFns, check_simulation, compare_value_arrays, explicit_case, frame_rows, init_impl,
                      materialise_case, model_layout, model_solve)
from dsl import params_impl

FORCES = [["mixed"], ["mixed", "cont2", "stacked"], ["filter"], ["cont2", "flatc", "lower"], ["stoch"], ["f1"], ["constraint"], None, ["mixed", "stoch"], ["aux"], ["nofilter"],
          ["f1", "constraint"], ["stoch3", "eqsize"], ["stoch3"], ["log"], ["log", "mixed"], ["filter", "flatd"], ["flatc", "lower"], ["mixed", "flatd", "lower"], ["flatc", "flatd", "lower", "filter"], ["filter", "cofilter"], ["filter", "cofilter", "mixed"], ["divguard"], ["divguard", "filter"]]
AGENTS = [1, 6, 7, 11]


def sim_cases(seed, tier, n_quick=36, n_thorough=600):
    n = n_quick if tier == "quick" else n_thorough
    return [{"kind": "gen", "seed": seed * 1_000_003 + 7919 + i, "force": FORCES[i % len(FORCES)], "n_params": 1,
             "budget": 3000 if tier == "quick" else 12000, "n_agents": AGENTS[i % len(AGENTS)] if tier == "quick" else [1, 6, 7, 11, 64][i % 5],
             "random_V": i % 4 == 3, "on_grid": i % 5 == 0, "int_init": i % 3 == 1} for i in range(n)]


def random_value_arrays(r, mj):
    """dyadic random arrays with the layout of the solution (C02: 'the value arrays in use')"""
    I = impl()
    lay = model_layout(mj)
    out = []
    for t in range(mj["n_periods"]):
        shape = lay[t]["shape"]
        size = 1
        for k in shape:
            size *= k
        data = [r.randint(-16, 16) / 4 for _ in range(size)]
        out.append(I.np.array(data, dtype=float).reshape(shape))
    return out


def run_panel(case, want_targets=None):
    """Returns dict with mj, P, V (numpy), rows, init, res (check_simulation result) or {'skip': reason} / {'raise': ...}"""
    I = impl()
    mj, meta, Ps, r = materialise_case(case)
    P = Ps[0]
    info = {"mj": mj, "meta": meta, "P": P}
    n = case.get("n_agents", 6)
    if "init" in case:
        init = {s: [Fr(x) for x in v] for s, v in case["init"].items()}
    else:
        init = gen_initial_states(r, mj, n, on_grid=case.get("on_grid", False), meta=meta)
        if case.get("int_init"):
            # integer-valued starting points for the continuous states (passed with an integer dtype below)
            for s, g in mj["states"]:
                if g["k"] != "disc":
                    init[s] = [Fr(int(Fr(g["a"])) + r.randint(-1, 3)) for _ in range(n)]
    if case.get("starved") and "init" not in case and n > 1:
        # "starved" agents: supported model, but an off-grid agent far below the grid of a continuous state that bounds the
        # choices from above (`choices <= state + slack`): every option of such an agent is infeasible (value -inf). The frame
        # still reports choices for it, and its states still follow the law of motion at those reported choices.
        bound_states = sorted({a for f in mj["functions"] if f["name"].endswith("_constraint") and f["name"] != "lower_constraint"
                               for a in f["args"] if a in dict(mj["states"]) and dict(mj["states"])[a]["k"] == "lin"})
        if bound_states:
            for j in r.sample(range(n), k=min(2, n - 1)):
                for sname in bound_states:
                    init[sname][j] = Fr(dict(mj["states"])[sname]["a"]) - 16 - j
            info["starved"] = True
    info["init"] = init
    seed = case.get("sim_seed", r.randint(0, 10_000))
    info["sim_seed"] = seed
    Vm = model_solve(mj, P)
    has_ninf = any(y == "-inf" for b in Vm["V"] for y in b["data"])
    has_undef = any(u for u in Vm["undef"])
    if (has_undef or has_ninf) and not case.get("allow_ninf"):
        info["skip"] = "unsupported (-inf value or undefined transition)"
        return info
    has_ninf = has_ninf or has_undef      # an undefined objective in the model = a continuation value read at a -inf entry
    info["has_ninf"] = has_ninf
    try:
        fns = ImplFns(mj, jit=True)
        if case.get("random_V"):
            V = random_value_arrays(r, mj)
        else:
            V = [I.np.asarray(v) for v in fns.solve(params_impl(P))]
        init_obj = init_impl(mj, init, int_cont=bool(case.get("int_init")), narrow=bool(case.get("narrow_init")))
        info["init_keys"] = list(init_obj)
        info["init_snap"] = {k: I.np.asarray(v).copy() for k, v in init_obj.items()}
        df = fns.simulate(params_impl(P), initial_states=init_obj, vf_arr_list=[I.jnp.asarray(v) for v in V],
                          seed=seed, **({"additional_targets": want_targets} if want_targets else {}))
        info["init_obj"] = init_obj      # the very dict object that was passed (C03: a caller who keeps and reuses it)
    except Exception as e:  # noqa: BLE001
        info["raise"] = f"{impl_site(e)}: {str(e)[:300]}"
        info["raise_key"] = f"raise:{impl_site(e)}"
        return info
    info["fns"] = fns
    info["V"] = V
    info["df"] = df
    info["rows"] = frame_rows(df, mj, n)
    # value arrays with -inf entries are outside the class the model-side oracle speaks about: properties that compare
    # the implementation with itself (C06 a/b) still run on them
    info["res"] = None if has_ninf else check_simulation(mj, P, V, info["rows"], init, tol=(1e-9 if has_log(mj) else None))
    return info


def base_out(info, case):
    mj, meta = info["mj"], info["meta"]
    out = {"sig": signature(mj), "nontrivial": nontrivial(mj), "evals": 0, "violations": [], "hist": {}}
    h = out["hist"]
    h[f"T={mj['n_periods']}"] = 1
    h[f"filter_family={meta.get('filter_family')}"] = 1
    h[f"n_agents={case.get('n_agents')}"] = 1
    h[f"random_V={bool(case.get('random_V'))}"] = 1
    for k in ("n_cc", "n_dc", "n_stoch"):
        h[f"{k}={meta.get(k)}"] = 1
    h[f"flat_choices={len(meta.get('flat') or [])}"] = 1
    h[f"lower_bound={bool(meta.get('lower_bound'))}"] = 1
    h[f"int_init={bool(case.get('int_init'))}"] = 1
    h[f"narrow_init={bool(case.get('narrow_init'))}"] = 1
    if info.get("starved"):
        h["starved_agents"] = 1
    from pipeline import wf_hist

    wf_hist(mj, h)
    return out


def replay_case(info, case):
    from dsl import params_json

    c = explicit_case(info["mj"], [info["P"]], n_agents=case.get("n_agents", 6), sim_seed=info.get("sim_seed", 0),
                      init={s: [str(x) for x in v] for s, v in info["init"].items()}, random_V=case.get("random_V", False), int_init=case.get("int_init", False), narrow_init=case.get("narrow_init", False),
                      seed=case.get("seed", 0), meta=info["meta"])
    return c
