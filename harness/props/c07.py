"""C07 - the parameter template is complete and parameters are routed by function name.

Tie: (1) the template returned by `get_lcm_function` against the Lean model's `functionParams` /
`shockShapes` (op `params_template`) and against the harness's own reading of the specification
(three-way); (2) routing: specifications in which the *same* parameter name occurs in several functions
(auxiliary, utility, constraint, transition) with *different* values, solved and simulated by the
implementation and compared with the model (exact) - also after swapping the values between the
functions, and with beta varied alone.
"""
from __future__ import annotations

import copy
import random
from fractions import Fraction as Fr

from common import driver, fr, impl, impl_site, same_number
from dsl import build_model, param_slots, params_impl, params_json, shock_shapes
from gen import gen_initial_states, nontrivial, signature, strip
from pipeline import (ImplFns, check_simulation, compare_value_arrays, explicit_case, frame_rows, init_impl, materialise_case,
                      model_solve)
from props.simcommon import base_out

CANARY = True
RULE = ("cases = generated dyadic specifications forced to reuse one parameter name in every function family (auxiliary, utility, "
        "constraint, transition) with pairwise different values, stochastic states with shuffled dependency lists incl. _period; "
        "distinct = structural signature; evaluations = template entries compared + value entries compared + agent-periods checked")
ASSUMPTIONS = ["exact comparison on dyadic inputs"]
FORCES = [["collide"], ["collide", "stoch"], ["collide", "aux"], ["collide", "constraint"], ["collide", "mixed"], ["collide", "stoch", "aux"], ["stoch"], None,
          ["collide", "twin"], ["twin", "aux"], ["stoch", "iid"], ["collide", "kwonly"], ["kwonly", "aux", "constraint"]]


def cases(seed, tier):
    n = 32 if tier == "quick" else 500
    return [{"kind": "gen", "seed": seed * 1_000_003 + 70001 + i, "force": FORCES[i % len(FORCES)], "n_params": 1, "budget": 3000,
             "simulate": i % 3 == 0 and "iid" not in (FORCES[i % len(FORCES)] or []),   # simulating an argument-less transition: finding K3
             "jit": i % 2 == 0} for i in range(n)]


def distinct_values(r, P):
    """give every occurrence of a parameter name its own value"""
    vals = [Fr(1, 2), Fr(1), Fr(-1, 2), Fr(2), Fr(3, 2), Fr(1, 4), Fr(-1, 4), Fr(3, 4), Fr(5, 4), Fr(-1)]
    r.shuffle(vals)
    k = 0
    Q = copy.deepcopy(P)
    for f in Q["funcs"]:
        for p in Q["funcs"][f]:
            Q["funcs"][f][p] = vals[k % len(vals)]
            k += 1
    return Q


def swapped(P):
    """rotate the values among the functions that share a parameter name"""
    Q = copy.deepcopy(P)
    by_name = {}
    for f, ps in P["funcs"].items():
        for p, v in ps.items():
            by_name.setdefault(p, []).append((f, v))
    for p, occ in by_name.items():
        if len(occ) > 1:
            vals = [v for _, v in occ]
            vals = vals[1:] + vals[:1]
            for (f, _), v in zip(occ, vals):
                Q["funcs"][f][p] = v
    return Q


def run_case(case):
    I = impl()
    np = I.np
    mj, meta, Ps, r = materialise_case(case)
    info = {"mj": mj, "meta": meta}
    out = base_out(info, case)
    vs = []
    evals = 0
    P0 = distinct_values(r, Ps[0])
    rc = explicit_case(mj, [P0], jit=case.get("jit", True), simulate=case.get("simulate", False), seed=case.get("seed", 0), meta=meta)
    try:
        fns = ImplFns(mj, jit=case.get("jit", True))
    except Exception as e:  # noqa: BLE001
        out["violations"].append({"clause": "functions are created for a supported specification", "detail": f"{impl_site(e)}: {str(e)[:300]}", "key": f"raise:{impl_site(e)}", "shrink_case": rc})
        return out
    # ---------------- (1) template
    tmpl = fns.template
    mt = driver().call({"op": "params_template", "model": strip(mj)})
    slots = param_slots(mj)
    shapes = shock_shapes(mj)
    want_keys = {"beta"} | set(slots) | ({"shocks"} if shapes else set())
    if set(tmpl) != want_keys:
        vs.append({"clause": "template keys: beta, every function, shocks iff a stochastic state exists", "detail": f"extra {sorted(set(tmpl) - want_keys)}, missing {sorted(want_keys - set(tmpl))}"})
    # the template of the second build from the *same* model object (ImplFns creates the simulate function after the solve function)
    t2 = fns.sim_template
    if set(t2) != want_keys or any(sorted(t2.get(f, {})) != ps for f, ps in slots.items() if isinstance(t2.get(f), dict)):
        vs.append({"clause": "template keys: beta, every function, shocks iff a stochastic state exists",
                   "detail": f"second get_lcm_function call on the same model object: extra {sorted(set(t2) - want_keys)}, missing {sorted(want_keys - set(t2))}"})
    for f, ps in slots.items():
        evals += 1
        got = sorted(tmpl.get(f, {})) if isinstance(tmpl.get(f), dict) else None
        if got != ps or mt["functions"].get(f) != ps:
            vs.append({"clause": "template lists exactly the non-variable, non-function, non-period arguments of each function", "detail": f"function {f}: implementation {got}, model {mt['functions'].get(f)}, specification {ps}"})
    for x, sh in shapes.items():
        evals += 1
        got = list(np.asarray(tmpl.get("shocks", {}).get(x)).shape) if x in tmpl.get("shocks", {}) else None
        if got != sh or mt["shocks"].get(x) != sh:
            vs.append({"clause": "shock array shape = dependency sizes in signature order, then number of labels", "detail": f"state {x}: implementation {got}, model {mt['shocks'].get(x)}, specification {sh}"})
    if set(tmpl.get("shocks", {})) != set(shapes):
        vs.append({"clause": "one shock array per stochastic state", "detail": f"implementation {sorted(tmpl.get('shocks', {}))}, specification {sorted(shapes)}"})
    # ---------------- (2) routing
    collisions = sum(1 for p in {p for ps in slots.values() for p in ps} if sum(p in ps for ps in slots.values()) > 1)
    out["hist"][f"colliding_names={min(collisions, 2)}"] = 1
    Plist = [P0, swapped(P0)]
    Pb = copy.deepcopy(P0)
    Pb["beta"] = Fr(1, 4) if P0["beta"] != Fr(1, 4) else Fr(3, 4)
    Plist.append(Pb)
    if not vs:
        for P in Plist:
            try:
                Vi = [np.asarray(v) for v in fns.solve(params_impl(P))]
            except Exception as e:  # noqa: BLE001
                vs.append({"clause": "solve runs with parameters that follow the template", "detail": f"{impl_site(e)}: {str(e)[:300]}"})
                break
            Vm = model_solve(mj, P)
            diffs, st = compare_value_arrays(Vi, Vm, mj["n_periods"])
            evals += st["entries"]
            for d in diffs[:1]:
                vs.append({"clause": "every function receives exactly the values stored under its own name", "detail": f"params {P['funcs']} beta {P['beta']}: {d['detail']}"})
            if diffs:
                break
        if case.get("simulate") and not vs:
            P = P0
            Vm = model_solve(mj, P)
            if not (any(Vm["undef"]) or any(y == "-inf" for b in Vm["V"] for y in b["data"])):
                try:
                    init = gen_initial_states(r, mj, 5, meta=meta)
                    V = [np.asarray(v) for v in fns.solve(params_impl(P))]
                    # functions with parameters of their own are also requested as additional targets: the reported columns must be
                    # computed with the values passed to *this* call
                    ptargets = [f["name"] for f in mj["functions"] if P["funcs"].get(f["name"]) and not f.get("stochastic") and not f["name"].endswith("_filter")]
                    df = fns.simulate(params_impl(P), initial_states=init_impl(mj, init), vf_arr_list=[I.jnp.asarray(v) for v in V], seed=3,
                                      **({"additional_targets": ptargets} if ptargets else {}))
                    rows_ = frame_rows(df, mj, 5)
                    res = check_simulation(mj, P, V, rows_, init)
                    evals += res["stats"]["agent_periods"]
                    for d in (res["C02"] + res["C03"])[:1]:
                        vs.append({"clause": "every function receives exactly the values stored under its own name (simulation)", "detail": d["detail"]})
                    if ptargets and not vs:
                        T_ = mj["n_periods"]
                        req_rows = [{"env": [[s_, fr(rows_[t][i]["states"][s_])] for s_, _ in mj["states"]] + [[c_, fr(rows_[t][i]["choices"][c_])] for c_, _ in mj["choices"]], "t": t}
                                    for t in range(T_) for i in range(5)]
                        ans = driver().call({"op": "eval_funcs", "model": strip(mj), "params": params_json(P), "names": ptargets, "rows": req_rows})
                        for kk, name in enumerate(ptargets):
                            col = np.asarray(df[name])
                            for ridx, a in enumerate(ans):
                                evals += 1
                                if a[kk] is not None and not same_number(float(col[ridx]), a[kk]):
                                    vs.append({"clause": "every function receives exactly the values stored under its own name (additional targets of the simulation)",
                                               "detail": f"target {name} row {divmod(ridx, 5)}: frame {fr(float(col[ridx]))}, with params[{name}] = {P['funcs'][name]} the function gives {a[kk]}"})
                                    break
                            if vs:
                                break
                        out["hist"]["param_targets"] = 1
                except Exception as e:  # noqa: BLE001
                    vs.append({"clause": "simulate runs with parameters that follow the template", "detail": f"{impl_site(e)}: {str(e)[:300]}"})
    out["evals"] = evals
    for v in vs[:3]:
        v["key"] = "C07:" + v["clause"]
        v["shrink_case"] = rc
        out["violations"].append(v)
    out["sample"] = {"template_functions": {f: sorted(v) for f, v in tmpl.items() if isinstance(v, dict) and f != "shocks"},
                     "shock_shapes": {x: list(np.asarray(a).shape) for x, a in tmpl.get("shocks", {}).items()}, "params_used": {f: {p: str(v) for p, v in ps.items()} for f, ps in P0["funcs"].items() if ps}}
    return out
