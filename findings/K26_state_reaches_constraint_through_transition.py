# --- shim -----------------------------------------------------------------------------
import sys, types, os
WT = os.environ.get("LCM_WT")  # path of your worktree, e.g. /tmp/seed_C01
sys.path.insert(0, os.path.join(WT, "src"))
import jax, jax._src.util as _u
m = types.ModuleType("jax.util"); m.safe_zip = _u.safe_zip; m.unzip2 = _u.unzip2
sys.modules["jax.util"] = m; jax.util = m
jax.config.update("jax_enable_x64", True)
import lcm
assert lcm.__file__.startswith(WT), lcm.__file__
# --------------------------------------------------------------------------------------
"""Finding 1: a state that enters a constraint (or utility) only THROUGH a transition
function is classified as 'auxiliary' and dropped from the last period's state space,
although the last-period feasibility depends on it.  solve() crashes; the documented
array (axis 'z' of length 3, then axis 'x' of length 4) is never produced.
"""
from dataclasses import dataclass
import itertools
import numpy as np
import jax.numpy as jnp
from lcm import DiscreteGrid, LinspaceGrid, Model
from lcm.entry_point import get_lcm_function
from lcm.input_processing import process_model


@dataclass
class Regime:
    low: int = 0
    mid: int = 1
    high: int = 2


def utility(x, c):
    return jnp.log(c) + 0.1 * x


def next_x(x, c, z):                 # z = return regime, a discrete state
    return x - c + 0.5 + 0.3 * z


def next_z(z):
    return z


def solvency_constraint(next_x):     # natural way to write "end-of-period wealth >= 1"
    return next_x >= 1.0


def build(utility_func):
    return Model(
        n_periods=3,
        functions={
            "utility": utility_func,
            "next_x": next_x,
            "next_z": next_z,
            "solvency_constraint": solvency_constraint,
        },
        states={"x": LinspaceGrid(start=1, stop=5, n_points=4), "z": DiscreteGrid(Regime)},
        choices={"c": LinspaceGrid(start=0.5, stop=2, n_points=4)},
    )


model = build(utility)
params = {"beta": 0.9, "utility": {}, "next_x": {}, "next_z": {}, "solvency_constraint": {}}

# independent reference for the LAST period in the documented layout (z, x)
xg = np.linspace(1, 5, 4); cg = np.linspace(0.5, 2, 4)
expected_last = np.full((3, 4), -np.inf)
for (iz, z), (ix, x) in itertools.product(enumerate(range(3)), enumerate(xg)):
    for c in cg:
        if x - c + 0.5 + 0.3 * z >= 1.0:
            expected_last[iz, ix] = max(expected_last[iz, ix], np.log(c) + 0.1 * x)

print("INPUT: states x (Linspace 4 points), z (3 categories); choice c; functions:")
print("  utility(x, c); next_x(x, c, z); next_z(z); solvency_constraint(next_x)")
print("EXPECTED: 3 arrays of shape (3, 4) [axis z, then axis x]; last period depends on z:")
print(expected_last)
vi = process_model(model).variable_info
print("variable_info.is_auxiliary:", vi["is_auxiliary"].to_dict())

bad = False
try:
    solve, _ = get_lcm_function(model, targets="solve", debug_mode=False)
    sol = solve(params)
    shapes = [tuple(a.shape) for a in sol]
    print("OBSERVED shapes:", shapes)
    if shapes != [(3, 4)] * 3 or not np.allclose(np.asarray(sol[-1]), expected_last):
        bad = True
        print("OBSERVED: layout / values deviate from the documented layout")
except Exception as e:  # noqa: BLE001
    bad = True
    print(f"OBSERVED: solve crashed with {type(e).__name__}: {e}")

# Control: the very same model with a vacuous direct dependence on z works and
# reproduces the reference, i.e. the model is inside the supported class.
def utility_ctrl(x, c, z):
    return jnp.log(c) + 0.1 * x + 0.0 * z

solve_c, _ = get_lcm_function(build(utility_ctrl), targets="solve", debug_mode=False)
sol_c = solve_c(params)
print("CONTROL (utility mentions z vacuously): shapes", [tuple(a.shape) for a in sol_c],
      "last period equals reference:", bool(np.allclose(np.asarray(sol_c[-1]), expected_last)))

if bad:
    print("DEFECT PRESENT")
    sys.exit(1)
print("ok")
