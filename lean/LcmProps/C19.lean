import LcmProofs.Dispatch
import LcmModel.Kernels
import LcmModel.Kwargs
namespace Lcm

/-! # C19 — vectorisation dispatchers equal nested loops over named arguments

Model: a function is a map `List (Tensor α) → Tensor α` over its positional argument list; `vmapAt f p`
(`jax.vmap` with `in_axes[p] = 0`, `None` elsewhere) maps over the leading axis of argument `p` and puts the
mapped axis first; `baseProductmap` iterates `vmapAt` over `reversed(positions)` exactly as `_base_productmap`
does; `productmapModel`/`vmap1dModel`/`spacemapModel` add the name → position lookup. The wrappers are
modelled over `(args, kwargs)` with Python's own binding rules (`pyBind`). -/

variable {α : Type} [Inhabited α]

/-- **entry `(i₁,…,i_k) ++ rest` of the product map is the function applied to the `i_j`-th elements of the
mapped arguments, all other arguments passed through, axes in the order in which the names were listed** -
whatever the positions of the names in the signature -/
theorem C19_productmap (params : List Name) (f : List (Tensor α) → Tensor α) (vars : List Name)
    (is : List Nat) (hlen : is.length = vars.length) (args : List (Tensor α)) (rest : List Nat) :
    (productmapModel params f vars args).get (is ++ rest)
      = (f (setSlices args (vars.map (paramPos params)) is)).get rest := by
  unfold productmapModel
  exact baseProductmap_get f (vars.map (paramPos params)) is (by simpa using hlen) args rest

/-- mapping over several arguments jointly pairs their elements: entry `i` uses the `i`-th element of
*every* listed argument -/
theorem C19_vmap1d (params : List Name) (f : List (Tensor α) → Tensor α) (vars : List Name)
    (args : List (Tensor α)) (i : Nat) (rest : List Nat) :
    (vmap1dModel params f vars args).get (i :: rest)
      = (f ((vars.map (paramPos params)).foldl (fun acc p => acc.set p ((args[p]!).slice i)) args)).get rest := rfl

/-- the combined space map: without jointly mapped names it is the product map … -/
theorem C19_spacemap_dense_only (params : List Name) (f : List (Tensor α) → Tensor α) (dense : List Name)
    (b : Bool) : spacemapModel params f dense [] b = productmapModel params f dense := by
  simp [spacemapModel]

/-- … with `put_dense_first = false` the joint axis comes first, then the product axes in listed order … -/
theorem C19_spacemap_sparse_first (params : List Name) (f : List (Tensor α) → Tensor α)
    (dense sparse : List Name) (hs : sparse ≠ []) (args : List (Tensor α)) (i : Nat) (is : List Nat)
    (hlen : is.length = dense.length) (rest : List Nat) :
    (spacemapModel params f dense sparse false args).get (i :: (is ++ rest))
      = (f (setSlices ((sparse.map (paramPos params)).foldl (fun acc p => acc.set p ((args[p]!).slice i)) args)
            (dense.map (paramPos params)) is)).get rest := by
  have hne : sparse.isEmpty = false := by cases sparse <;> simp_all
  simp only [spacemapModel, hne, Bool.false_eq_true, if_false]
  show ((productmapModel params f dense) _).get (is ++ rest) = _
  exact C19_productmap params f dense is hlen _ rest

/-- … and with `put_dense_first = true` the product axes come first, the joint axis last -/
theorem C19_spacemap_dense_first (params : List Name) (f : List (Tensor α) → Tensor α)
    (dense sparse : List Name) (hs : sparse ≠ []) (args : List (Tensor α)) (i : Nat) (is : List Nat)
    (hlen : is.length = dense.length) (rest : List Nat) :
    (spacemapModel params f dense sparse true args).get (is ++ (i :: rest))
      = (f ((sparse.map (paramPos params)).foldl (fun acc p => acc.set p (((setSlices args (dense.map (paramPos params)) is)[p]!).slice i))
            (setSlices args (dense.map (paramPos params)) is))).get rest := by
  have hne : sparse.isEmpty = false := by cases sparse <;> simp_all
  simp only [spacemapModel, hne, Bool.false_eq_true, if_false, if_true]
  rw [C19_productmap params _ dense is hlen args (i :: rest)]
  rfl

-- ------------------------------------------------------------------ wrappers
/-- `allow_only_kwargs` rejects positional arguments -/
theorem C19_only_kwargs_rejects_positional (params : List (String × PKind)) (a : Int) (args : List Int)
    (kwargs : List (String × Int)) :
    allowOnlyKwargs params (a :: args) kwargs = .error .valueError := by
  unfold allowOnlyKwargs
  simp only [List.isEmpty_cons, Bool.not_false, if_true]
  rfl

/-- `allow_only_kwargs` rejects an unexpected keyword -/
theorem C19_only_kwargs_rejects_unexpected (params : List (String × PKind)) (kwargs : List (String × Int))
    (k : String) (v : Int) (hk : (k, v) ∈ kwargs) (hnot : (params.map (·.1)).contains k = false) :
    allowOnlyKwargs params [] kwargs = .error .valueError := by
  unfold allowOnlyKwargs
  have hany : (kwargs.any fun kv => !(params.map (·.1)).contains kv.1) = true := by
    rw [List.any_eq_true]; exact ⟨(k, v), hk, by rw [hnot]; rfl⟩
  simp only [List.isEmpty_nil, Bool.not_true, Bool.false_eq_true, if_false, hany, if_true]
  rfl

/-- `allow_only_kwargs` rejects a missing argument -/
theorem C19_only_kwargs_rejects_missing (params : List (String × PKind)) (kwargs : List (String × Int))
    (n : String) (hn : n ∈ params.map (·.1)) (hmiss : ∀ kv ∈ kwargs, (kv.1 == n) = false)
    (hextra : (kwargs.any fun kv => !(params.map (·.1)).contains kv.1) = false) :
    allowOnlyKwargs params [] kwargs = .error .valueError := by
  unfold allowOnlyKwargs
  have hany : ((params.map (·.1)).any fun n => !kwargs.any (·.1 == n)) = true := by
    rw [List.any_eq_true]
    refine ⟨n, hn, ?_⟩
    have : kwargs.any (·.1 == n) = false := by
      rw [List.any_eq_false]; intro kv hkv; simp [hmiss kv hkv]
    simp [this]
  simp only [List.isEmpty_nil, Bool.not_true, Bool.false_eq_true, if_false, hextra, hany, if_true]
  rfl

/-- `allow_args` (with the F4 repair) rejects a call whose keywords are not exactly the parameters that are
not bound positionally - in particular a keyword that duplicates a positionally bound parameter -/
theorem C19_allow_args_rejects_wrong_keywords (params : List (String × PKind)) (args : List Int)
    (kwargs : List (String × Int))
    (hbad : (kwargs.all (fun kv => ((params.map (·.1)).drop args.length).contains kv.1) &&
      ((params.map (·.1)).drop args.length).all fun n => kwargs.any (·.1 == n)) = false) :
    allowArgs params args kwargs true = .error .valueError := by
  unfold allowArgs
  by_cases hcount : (args.length + kwargs.length != (params.map (·.1)).length) = true
  · simp only [hcount, if_true]
    rfl
  · simp only [Bool.not_eq_true] at hcount
    simp only [hcount, Bool.false_eq_true, if_false, if_true, hbad, Bool.not_false]
    rfl

/-- both wrappers reject a wrong number of arguments -/
theorem C19_allow_args_rejects_wrong_count (params : List (String × PKind)) (args : List Int)
    (kwargs : List (String × Int)) (rep : Bool) (h : args.length + kwargs.length ≠ params.length) :
    allowArgs params args kwargs rep = .error .valueError := by
  unfold allowArgs
  have : (args.length + kwargs.length != (params.map (·.1)).length) = true := by simpa using h
  simp only [this, if_true]
  rfl

-- non-vacuity: binding by name whatever the keyword order; the F4 witness; keyword-only parameters
def okVal (r : Except CallErr (List (String × Int))) : Option (List (String × Int)) := r.toOption
def isValueError (r : Except CallErr (List (String × Int))) : Bool :=
  match r with | .error .valueError => true | _ => false
#guard okVal (allowOnlyKwargs [("a", .posOrKw), ("b", .posOrKw), ("c", .kwOnly)] [] [("c", 3), ("a", 1), ("b", 2)])
    = some [("a", 1), ("b", 2), ("c", 3)]
#guard isValueError (allowArgs [("a", .posOrKw), ("b", .posOrKw), ("c", .posOrKw)] [1, 2] [("a", 3)] true)
#guard okVal (allowArgs [("a", .posOrKw), ("b", .posOrKw), ("c", .posOrKw)] [1, 2] [("a", 3)] false)
    = some [("a", 1), ("b", 2), ("c", 3)]
#guard okVal (allowArgs [("a", .posOnly), ("b", .posOrKw), ("c", .kwOnly)] [7] [("c", 9), ("b", 8)] true)
    = some [("a", 7), ("b", 8), ("c", 9)]

end Lcm
