"""C18 - maximisers returned by the arg-max primitives attain the maximum.

Tie: `lcm.argmax.argmax` (all shapes up to rank 4, every subset and order of axes, masks incl. all-masked
rows, integer-valued arrays with ties), `segment_argmax` and `get_solve_discrete_problem(...)` against the
Lean models `argmaxND`, `segmentArgmaxND`, `solveDiscreteProblem`; eager and jitted. Relation: for `argmax`
equality (the property pins the first position, position 0 and the initial value when everything is masked);
for `segment_argmax` the property only asks for *a* row of the segment attaining the segment maximum - a
different maximiser than the model's (the last one) is a correspondence difference, not a violation.
Fused-producer stream: the array is computed inside the same jitted function by upstream arithmetic
(mul-add chain, log, interpolation); relation: the element at the returned position is unmasked and within
tolerance of the masked maximum.
"""
from __future__ import annotations

import itertools
import random
from fractions import Fraction as Fr

from common import driver, fr, impl, impl_site
from dsl import build_model
from gen import gen_model, strip

RULE = ("cases = random arrays (rank 1-4, axis sizes 1-4, integer values in [-2, 2] so that ties are frequent) x axes subsets in any order x masks "
        "(30 % none, 15 % all-masked) x eager/jit; segmentations of the leading axis into 1-4 sorted non-empty segments; value arrays of "
        "generated specifications for the discrete problem; fused producers; distinct = (primitive, rank, number of axes, mask kind, jit); "
        "evaluations = primitive calls compared")
ASSUMPTIONS = ["XLA evaluating a fused producer twice with different rounding is outside the model (array elements have one value there); searched by the fused stream only"]
TRUSTED_EXTRA = ["C18 partial: the 'computed inside the same JIT computation' clause is covered by the fused-producer differential stream only"]


def cases(seed, tier):
    n = 192 if tier == "quick" else 3600
    return [{"seed": seed * 1_000_003 + 18001 + i, "what": ["argmax", "argmax", "segment", "discrete", "fused", "policy", "argmax", "segment", "discrete", "fused", "policy", "solve"][i % 12]} for i in range(n)]


def ext(x):
    import math

    return "-inf" if x == -math.inf else fr(float(x))


def _same_ext_lists(a, b):
    return len(a) == len(b) and all((x == y) or (x not in ("-inf",) and y not in ("-inf",) and Fr(x) == Fr(y)) for x, y in zip(a, b))


def run_case(case):
    I = impl()
    jax, jnp, np = I.jax, I.jnp, I.np
    from lcm.argmax import argmax, segment_argmax

    r = random.Random(case["seed"])
    what = case["what"]
    out = {"nontrivial": True, "evals": 0, "violations": [], "corr_breaks": [], "hist": {f"what={what}": 1}}
    vs = out["violations"]
    jit = r.random() < 0.5
    if what == "argmax":
        nd = r.randint(1, 4)
        shape = [r.randint(1, 4) for _ in range(nd)]
        k = r.randint(1, nd) if r.random() < 0.93 else 0      # the empty set of axes is a set of axes too: nothing is reduced
        axes = r.sample(range(nd), k)
        a = np.array([r.randint(-2, 2) for _ in range(int(np.prod(shape)))], dtype=float).reshape(shape)
        near = r.random() < 0.3
        if near:
            a = np.array([r.choice([3.0 * (1 - 2e-6), 3.0, 3.0 * (1 - 4e-6), 1.0]) for _ in range(int(np.prod(shape)))]).reshape(shape)
        ninf = r.random() < 0.3
        if ninf:
            # legitimate -inf values (log(0) utilities, -inf continuation values) among the unmasked elements: not to be confused
            # with the value masked elements are replaced by
            flat = a.ravel().copy()
            for j in range(flat.size):
                if r.random() < 0.6:
                    flat[j] = -np.inf
            a = flat.reshape(shape)
        mk = r.choice(["none", "some", "some", "some", "all", "rowall"])
        mask = None
        if mk != "none":
            mask = np.array([r.random() < 0.6 for _ in range(a.size)]).reshape(shape)
            if mk == "all":
                mask[...] = False
            if mk == "rowall":
                mask[tuple(0 if d in axes else slice(None) for d in range(nd))] = mask[tuple(0 if d in axes else slice(None) for d in range(nd))]
                idx = tuple(slice(None) if d in axes else 0 for d in range(nd))
                mask[idx] = False
        out["sig"] = f"argmax nd={nd} k={k} mask={mk} jit={jit} sorted={axes == sorted(axes)} ninf={ninf}"
        f = (lambda x, w: argmax(x, axis=tuple(axes), where=w, initial=-jnp.inf)) if mask is not None else (lambda x, w: argmax(x, axis=tuple(axes)))
        if jit:
            f = jax.jit(f)
        try:
            ix, mx = f(jnp.asarray(a), jnp.asarray(mask) if mask is not None else None)
        except Exception as e:  # noqa: BLE001
            vs.append({"clause": "argmax evaluates", "detail": f"shape {shape} axes {axes}: {impl_site(e)}: {str(e)[:200]}", "key": "C18:eval"})
            return out
        req = {"op": "argmax", "a": {"shape": shape, "data": [fr(float(x)) for x in a.ravel()]}, "axes": axes}
        if mask is not None:
            req["mask"] = {"shape": shape, "data": [bool(x) for x in mask.ravel()]}
        o = driver().call(req)
        ix, mx = np.asarray(ix), np.asarray(mx)
        ixl = [int(x) for x in ix.ravel()] if ix.shape else [int(ix)]
        mxl = [ext(x) for x in (mx.ravel() if mx.shape else [float(mx)])]
        out["evals"] = 1
        out["hist"][f"mask={mk}"] = 1
        if list(ix.shape) != o["shape"] or ixl != o["idx"] or not _same_ext_lists(mxl, o["max"]):
            vs.append({"clause": "flattened position of the first unmasked element equal to the masked maximum (0 and the initial value if everything is masked), together with that maximum",
                       "detail": f"array {a.tolist()} axes {axes} mask {None if mask is None else mask.tolist()} jit={jit}: implementation idx {ixl} max {mxl} shape {list(ix.shape)}; model idx {o['idx']} max {o['max']} shape {o['shape']}", "key": "C18:argmax"})
        out["sample"] = {"shape": shape, "axes": axes, "mask": mk, "jit": jit, "idx": ixl[:6], "max": mxl[:6]}
        return out
    if what == "solve":
        # the reductions as the library composes them over the periods (entry_point.py builds one discrete-problem solver per
        # period, each with the choice segments of *its* period): specifications with period-dependent filters, whole solution
        from pipeline import compare_value_arrays, impl_solve, materialise_case, model_solve

        c2 = {"kind": "gen", "seed": case["seed"], "force": r.choice([["f1two"], ["f1", "mixed"], ["f1two", "mixed"]]), "n_params": 1, "budget": 1500}
        mj, meta, Ps, _ = materialise_case(c2)
        out["sig"] = f"solve T={mj['n_periods']} family={meta.get('filter_family')} jit={jit}"
        try:
            Vi, _ = impl_solve(mj, Ps[0], jit=jit)
        except Exception as e:  # noqa: BLE001
            vs.append({"clause": "solve evaluates", "detail": f"{impl_site(e)}: {str(e)[:200]}", "key": "C18:eval"})
            return out
        diffs, st = compare_value_arrays(Vi, model_solve(mj, Ps[0]), mj["n_periods"], None)
        out["evals"] = st["entries"]
        out["hist"]["solve_with_period_dependent_filter"] = 1
        for d in diffs[:1]:
            vs.append({"clause": "max over the choice axes then segment max = max over all discrete choice combinations of the state (every period of a solution)",
                       "detail": d["detail"], "key": "C18:solve", "case_model": {"seed": c2["seed"], "force": c2["force"]}})
        out["sample"] = {"periods": mj["n_periods"], "entries": st["entries"]}
        return out
    if what == "policy":
        # the arg-max as the library itself calls it: `create_compute_conditional_continuation_policy` (entry_point.py) on a
        # utility-and-feasibility function whose values are produced inside the same (jitted) computation; -inf utilities
        # (log(0)) among the feasible choices and fully infeasible problems included
        from lcm.entry_point import create_compute_conditional_continuation_policy, create_compute_conditional_continuation_value

        nc = r.randint(1, 2)
        shape = [r.randint(1, 4) for _ in range(nc)]
        size = int(np.prod(shape))
        kind = r.choice(["finite", "ninf", "ninf", "all_ninf", "none_feasible"])
        vals = [float(r.randint(-4, 4)) / 2 for _ in range(size)]
        feas = [r.random() < 0.6 for _ in range(size)]
        if kind in ("ninf", "all_ninf"):
            vals = [(-np.inf if (kind == "all_ninf" and feas[j]) or r.random() < 0.5 else v) for j, v in enumerate(vals)]
        if kind == "none_feasible":
            feas = [False] * size
        A = jnp.asarray(np.array(vals).reshape(shape))
        M = jnp.asarray(np.array(feas).reshape(shape))
        names = [f"c{j}" for j in range(nc)]
        scale, shift = r.choice([1.0, 2.0, 0.5]), float(r.randint(-2, 2))
        ns = {"A": A, "M": M, "scale": scale, "shift": shift}
        exec(f"def uf({', '.join(names)}, w):\n    idx = ({', '.join(names)},)\n    return A[idx] * scale + shift + 0.0 * w, M[idx]\n", ns)  # noqa: S102
        grids = {n_: jnp.arange(k) for n_, k in zip(names, shape)}
        out["sig"] = f"policy nc={nc} kind={kind} jit={jit}"
        try:
            pol = create_compute_conditional_continuation_policy(ns["uf"], names)
            val = create_compute_conditional_continuation_value(ns["uf"], names)
            if jit:
                pol, val = jax.jit(pol), jax.jit(val)
            ix, mx = pol(**grids, w=jnp.asarray(1.0))
            vmax = val(**grids, w=jnp.asarray(1.0))
        except Exception as e:  # noqa: BLE001
            vs.append({"clause": "the policy function evaluates", "detail": f"{impl_site(e)}: {str(e)[:200]}", "key": "C18:eval"})
            return out
        u = [v * scale + shift for v in vals]
        o = driver().call({"op": "argmax", "a": {"shape": shape, "data": [ext(x) for x in u]}, "axes": list(range(nc)),
                           "mask": {"shape": shape, "data": [bool(x) for x in feas]}})
        out["evals"] = 2
        out["hist"][f"policy_kind={kind}"] = 1
        got_ix, got_mx, got_v = int(np.asarray(ix)), ext(float(np.asarray(mx))), ext(float(np.asarray(vmax)))
        if [got_ix] != o["idx"] or not _same_ext_lists([got_mx], o["max"]) or not _same_ext_lists([got_v], o["max"]):
            vs.append({"clause": "flattened position of the first unmasked element equal to the masked maximum (0 and the initial value if everything is masked), together with that maximum",
                       "detail": f"continuation policy over utilities {u} feasible {feas} shape {shape} jit={jit}: position {got_ix} maximum {got_mx} value function {got_v}; model position {o['idx']} maximum {o['max']}", "key": "C18:policy"})
        out["sample"] = {"utilities": [ext(x) for x in u], "feasible": feas, "position": got_ix, "maximum": got_mx}
        return out
    if what == "segment":
        nd = r.randint(1, 3)
        n = r.randint(1, 8)
        shape = [n] + [r.randint(1, 3) for _ in range(nd - 1)]
        nseg = r.randint(1, min(4, n))
        cuts = sorted(r.sample(range(1, n), nseg - 1)) if nseg > 1 else []
        ids = []
        for s, (lo, hi) in enumerate(zip([0] + cuts, cuts + [n])):
            ids += [s] * (hi - lo)
        a = np.array([r.randint(-2, 2) for _ in range(int(np.prod(shape)))], dtype=float).reshape(shape)
        near = r.random() < 0.4
        if near:
            # near ties: values within 1e-6 relative of each other, the smaller one *after* the larger one
            base = np.array([r.choice([3.0, 3.0 * (1 - 2e-6), 3.0 * (1 - 4e-6), 1.0]) for _ in range(int(np.prod(shape)))]).reshape(shape)
            a = base
        out["sig"] = f"segment nd={nd} nseg={nseg} jit={jit} near={near}"
        f = (lambda x, s: segment_argmax(x, segment_ids=s, num_segments=nseg))
        if jit:
            f = jax.jit(f)
        try:
            ix, mx = f(jnp.asarray(a), jnp.asarray(ids))
        except Exception as e:  # noqa: BLE001
            vs.append({"clause": "segment_argmax evaluates", "detail": f"{impl_site(e)}: {str(e)[:200]}", "key": "C18:eval"})
            return out
        o = driver().call({"op": "segment_argmax", "a": {"shape": shape, "data": [fr(float(x)) for x in a.ravel()]}, "seg_ids": ids, "num": nseg})
        ix, mx = np.asarray(ix), np.asarray(mx)
        out["evals"] = 1
        mxl = [ext(x) for x in mx.ravel()]
        if list(mx.shape) != o["shape"] or not _same_ext_lists(mxl, o["max"]):
            vs.append({"clause": "segment maximum", "detail": f"array {a.tolist()} ids {ids}: implementation {mxl}, model {o['max']}", "key": "C18:segmax"})
        else:
            # property relation: the returned row lies in the segment and attains the segment maximum
            for pos in itertools.product(*[range(k) for k in mx.shape]):
                row = int(ix[pos])
                seg = pos[0]
                if not (0 <= row < n) or ids[row] != seg or a[(row,) + pos[1:]] != mx[pos]:
                    vs.append({"clause": "for every segment a row of that segment attaining the segment maximum", "detail": f"array {a.tolist()} ids {ids}: segment {seg} position {pos[1:]}: returned row {row}", "key": "C18:segarg"})
                    break
            else:
                if [int(x) for x in ix.ravel()] != o["idx"]:
                    out["corr_breaks"].append({"clause": "segment_argmax returns the last maximiser of the segment (as the model)", "detail": f"array {a.tolist()} ids {ids}: implementation {ix.tolist()}, model {o['idx']}", "key": "C18:segtie", "nofail": True})
        out["sample"] = {"shape": shape, "segment_ids": ids, "jit": jit, "idx": [int(x) for x in ix.ravel()][:6]}
        return out
    if what == "discrete":
        from lcm.discrete_problem import get_solve_discrete_problem
        from lcm.input_processing.util import get_variable_info
        from lcm.typing import ShockType

        mj, meta = gen_model(r, force=r.choice([["mixed"], ["filter"], None, ["nofilter"], ["f1"]]), budget=400)
        from pipeline import model_layout

        lay = model_layout(mj)
        t = r.randrange(mj["n_periods"])
        L = lay[t]
        G = dict(mj["states"] + mj["choices"])
        has_sparse = bool(L["sparse_states"] or L["sparse_choices"])
        shape = ([len(L["rows"])] if has_sparse else []) + [G[k]["n"] for k in L["dense_states"] + L["dense_choices"] + L["cont_states"]]
        if any(k == 0 for k in shape):
            out["skipped"] = "empty space"
            return out
        a = np.array([r.choice([-np.inf, -2.0, -1.0, 0.0, 1.0, 2.0, 0.5]) for _ in range(int(np.prod(shape)) if shape else 1)]).reshape(shape)
        segs = {"segment_ids": jnp.asarray(L["seg_ids"]), "num_segments": len(L["feas"])} if has_sparse else None
        out["sig"] = f"discrete sparse={has_sparse} ndense={len(L['dense_choices'])} jit={jit}"
        mj_impl = mj
        if t == mj["n_periods"] - 1 and r.random() < 0.5:
            # an *auxiliary* discrete state (it enters transition functions only): the last period's space does not contain it,
            # so the values array, the choice axes and the result are those of the specification without it
            import copy

            mj_impl = copy.deepcopy(mj)
            n_ax = r.choice([2, 3, 4])
            mj_impl["states"].insert(r.randint(0, len(mj_impl["states"])), ["axq", {"k": "disc", "n": n_ax}])
            other = r.choice([k for k, _ in mj["states"]])
            args_ax = ["axq", other] if r.random() < 0.5 else ["axq"]
            r.shuffle(args_ax)
            mj_impl["functions"].append({"name": "next_axq", "args": args_ax, "body": ["min", ["var", "axq"], ["num", str(n_ax - 1)]], "stochastic": False, "ints": True})
            out["hist"]["auxiliary_state_last_period"] = 1
        try:
            vi = get_variable_info(build_model(mj_impl))
            fn = get_solve_discrete_problem(random_utility_shock_type=ShockType.NONE, variable_info=vi, is_last_period=(t == mj["n_periods"] - 1), choice_segments=segs)
            res = np.asarray((jax.jit(lambda v: fn(v, params={})) if jit else (lambda v: fn(v, params={})))(jnp.asarray(a)))
        except Exception as e:  # noqa: BLE001
            vs.append({"clause": "the discrete problem evaluates", "detail": f"{impl_site(e)}: {str(e)[:200]}", "key": "C18:eval"})
            return out
        req = {"op": "discrete_problem", "model": strip(mj), "values": {"shape": shape, "data": [ext(x) for x in a.ravel()]}}
        if has_sparse:
            req["seg_ids"] = L["seg_ids"]
            req["num"] = len(L["feas"])
        o = driver().call(req)
        out["evals"] = 1
        got = [ext(x) for x in (res.ravel() if res.shape else [float(res)])]
        if list(res.shape) != o["out"]["shape"] or got != o["out"]["data"]:
            vs.append({"clause": "max over the choice axes then segment max = max over all discrete choice combinations of each state",
                       "detail": f"{'(auxiliary state axq declared, last period) ' if mj_impl is not mj else ''}restricted {L['sparse_states'] + L['sparse_choices']} dense {L['dense_states']}|{L['dense_choices']}|{L['cont_states']} values shape {shape}: implementation shape {list(res.shape)} {got[:8]}, model axes {o['axes']} shape {o['out']['shape']} {o['out']['data'][:8]}", "key": "C18:discrete"})
        out["sample"] = {"values_shape": shape, "choice_axes_model": o["axes"], "result_shape": list(res.shape)}
        return out
    # fused producer: the array handed to `argmax` is computed inside the same jitted function and is NOT returned from it
    # (returning it would force XLA to materialise it once, which hides a double evaluation)
    kind = r.choice(["muladd", "log", "interp", "grid2", "grid2", "grid2", "maskfused", "maskfused"])
    out["sig"] = f"fused kind={kind}"
    if kind == "maskfused":
        # the *mask* is produced inside the jitted function (a budget constraint with runtime coefficients whose bound is hit
        # exactly by one grid point of every row); the values are plain inputs
        n, m = r.randint(20, 200), r.choice([17, 37, 64])
        cg = np.linspace(1.0, 400.0, m)
        wv = np.linspace(1.0, 400.0, n)
        price, tax = r.choice([(1.3, 0.95), (0.7, 1.1), (1.9, 0.35)])
        ks = np.array([r.randrange(m) for _ in range(n)])
        budget = price * cg[ks] + tax * wv

        @jax.jit
        def fusedm(cg, wv, budget, price, tax):
            mask = price * cg[None, :] + tax * wv[:, None] <= budget[:, None]
            a_ = jnp.broadcast_to(cg[None, :], mask.shape)
            return argmax(a_, axis=1, where=mask, initial=-jnp.inf)

        try:
            ix, mx = (np.asarray(v) for v in fusedm(jnp.asarray(cg), jnp.asarray(wv), jnp.asarray(budget), price, tax))
        except Exception as e:  # noqa: BLE001
            vs.append({"clause": "argmax evaluates inside a jitted computation", "detail": f"{impl_site(e)}: {str(e)[:200]}", "key": "C18:eval"})
            return out
        out["evals"] = n
        for i_ in range(n):
            j_ = int(ix[i_])
            # whatever the rounding of the mask is, the returned position must carry the returned maximum
            if mx[i_] != -np.inf and cg[j_] != mx[i_]:
                vs.append({"clause": "inside a jitted computation the returned position is an unmasked element attaining the masked maximum",
                           "detail": f"maskfused price={price} tax={tax} grid {m} row {i_}: position {j_} has value {cg[j_]!r} but the reported maximum is {float(mx[i_])!r} (the mask price*c + tax*w <= budget is computed inside the jitted function)",
                           "key": "C18:fused"})
                break
        out["sample"] = {"fused": kind, "rows": n, "row_length": m}
        return out
    if kind == "grid2":
        # the shape of the continuous problem of lcm: rows = states, last two axes = product of two choice grids, the
        # objective is transcendental in the grid values and the mask is a budget constraint
        n = r.randint(2, 12)
        nc, ng = r.choice([(4, 4), (5, 4), (9, 4), (3, 4), (6, 4), (4, 8), (7, 5), (3, 3), (8, 4), (2, 4)])
        cg = np.linspace(0.5, r.choice([6.0, 9.0, 12.0]), nc)
        gg = np.linspace(0.0, r.choice([3.0, 4.5]), ng)
        wv = np.array([r.uniform(1.0, 14.0) for _ in range(n)])
        ukind = r.choice(["loglog", "loglin", "sqrt"])

        def obj(xp, c, g):
            if ukind == "loglog":
                return xp.log(c) + 0.6 * xp.log(1.0 + g)
            if ukind == "loglin":
                return xp.log(c) + 0.6 * g
            return xp.sqrt(c) + 0.6 * xp.sqrt(g)

        @jax.jit
        def fused2(wv, cg, gg):
            def one(w_):
                def cell(c, g):
                    return obj(jnp, c, g), c + g <= w_
                u_, f_ = jax.vmap(jax.vmap(cell, in_axes=(None, 0)), in_axes=(0, None))(cg, gg)
                return argmax(u_, where=f_, initial=-jnp.inf)
            return jax.vmap(one)(wv)

        try:
            ix, mx = (np.asarray(v) for v in fused2(jnp.asarray(wv), jnp.asarray(cg), jnp.asarray(gg)))
        except Exception as e:  # noqa: BLE001
            vs.append({"clause": "argmax evaluates inside a jitted computation", "detail": f"{impl_site(e)}: {str(e)[:200]}", "key": "C18:eval"})
            return out
        out["evals"] = n
        for i_ in range(n):
            uu = obj(np, cg[:, None], gg[None, :] + 0 * cg[:, None])
            ff = (cg[:, None] + gg[None, :]) <= wv[i_]
            if not ff.any():
                continue
            best = uu[ff].max()
            j_ = int(ix[i_])
            cj, gj = divmod(j_, ng)
            tol = 1e-9 * max(1.0, abs(best))
            if not ff[cj, gj] or abs(uu[cj, gj] - best) > tol or abs(mx[i_] - best) > tol:
                vs.append({"clause": "inside a jitted computation the returned position is an unmasked element attaining the masked maximum",
                           "detail": f"grid2 {ukind} grids {nc}x{ng} (c in [0.5, {cg[-1]}], g in [0, {gg[-1]}]) budget {wv[i_]!r}: position {j_} = (c={cg[cj]}, g={gg[gj]}) feasible={bool(ff[cj, gj])} objective {uu[cj, gj]!r}, masked maximum {best!r}, reported maximum {float(mx[i_])!r}",
                           "key": "C18:fused"})
                break
        out["sample"] = {"fused": kind, "rows": n, "grids": [nc, ng], "utility": ukind}
        return out
    n, m = r.randint(2, 6), r.randint(3, 40)
    x = np.array([[r.uniform(0.1, 5) for _ in range(m)] for _ in range(n)])
    w = np.array([r.uniform(-2, 2) for _ in range(m)])
    mask = np.array([[r.random() < 0.7 for _ in range(m)] for _ in range(n)])

    def producer(xp, x, w):
        if kind == "muladd":
            return x * w + 0.95 * (x * x - w)
        if kind == "log":
            return xp.log(x) + 0.95 * xp.log(x * 1.3 + w * w)
        from lcm.ndimage import map_coordinates

        return jnp.log(x) + 0.95 * map_coordinates(jnp.asarray(w), [x * ((m - 1) / 5.0)])

    @jax.jit
    def fused(x, w, mask):
        return argmax(producer(jnp, x, w), axis=1, where=mask, initial=-jnp.inf)

    try:
        ix, mx = (np.asarray(v) for v in fused(jnp.asarray(x), jnp.asarray(w), jnp.asarray(mask)))
        u = np.asarray(producer(jnp, jnp.asarray(x), jnp.asarray(w)))     # evaluated on its own, for the oracle only
    except Exception as e:  # noqa: BLE001
        vs.append({"clause": "argmax evaluates inside a jitted computation", "detail": f"{impl_site(e)}: {str(e)[:200]}", "key": "C18:eval"})
        return out
    out["evals"] = n
    for i in range(n):
        if not mask[i].any():
            continue
        j = int(ix[i])
        best = u[i][mask[i]].max()
        tol = 1e-9 * max(1.0, abs(best))
        if not mask[i][j] or abs(u[i][j] - best) > tol or abs(mx[i] - best) > tol:
            vs.append({"clause": "inside a jitted computation the returned position is an unmasked element attaining the masked maximum", "detail": f"{kind}: row {i}: position {j} masked={not mask[i][j]} value {u[i][j]} max {best} reported {mx[i]}", "key": "C18:fused"})
            break
    out["sample"] = {"fused": kind, "rows": n, "row_length": m}
    return out
