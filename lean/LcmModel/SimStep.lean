import LcmModel.SolveStep
namespace Lcm
variable {C E Y : Type}

/-- `jnp.argmax` of a Boolean vector: first True, 0 if none -/
def firstTrue (bs : List Bool) : Nat :=
  let i := bs.findIdx (· = true)
  if i < bs.length then i else 0

/-- `lcm.argmax.argmax` on one flattened block: (position, max). -/
def argmaxBlock (xs : List Ext) (mask : List Bool) : Nat × Ext :=
  let m := maskedMax xs mask
  (firstTrue ((xs.zip mask).map fun p => decide (p.1 = m) && p.2), m)

/-- `segment_argmax`: rows of segment k whose value equals the segment max; the largest row id
(`max_value_mask * arange` then `segment_max`), 0 if none. -/
def segArgmaxAt (vals : List Ext) (segIds : List Nat) (k : Nat) : Nat × Ext :=
  let m := segMaxAt vals segIds k
  let hits := (List.range vals.length).filter fun r =>
    decide (segIds.getD r (k + 1) = k) && decide (vals.getD r .ninf = m)
  (hits.foldl Nat.max 0, m)

/-- One agent-period of `simulate`, restricted choices in `scGrid`, unrestricted discrete choices
`dcGrid`, continuous choices `ccGrid` (already flattened products), for `n` agents whose filter and
objective are `filt i`, `q i`, `feas i`. Returns (restricted choice, dense choice, continuous
choice, value) of agent `k`. Mirrors: create_data_scs → ccv policy (argmax) → dense argmax →
segment argmax → re-indexing by the sparse argmax (with the F2 repair) → index → grid value. -/
def simChoice [Inhabited C] [Inhabited E] [Inhabited Y] (n : Nat) (scGrid : List C) (dcGrid : List E) (ccGrid : List Y)
    (filt : Nat → C → Bool) (q : Nat → C → E → Y → Rat) (feas : Nat → C → E → Y → Bool)
    (k : Nat) : C × E × Y × Ext :=
  let rows := combos (List.range n) scGrid filt
  let segIds := rows.map (·.1)
  -- ccv policy and value per (row, dense choice)
  let contPol := fun (r : Nat × C) (e : E) =>
    argmaxBlock (ccGrid.map fun y => Ext.fin (q r.1 r.2 e y)) (ccGrid.map fun y => feas r.1 r.2 e y)
  -- dense argmax per row (no mask)
  let densePol := fun (r : Nat × C) =>
    argmaxBlock (dcGrid.map fun e => (contPol r e).2) (dcGrid.map fun _ => true)
  let (rStar, v) := segArgmaxAt (rows.map fun r => (densePol r).2) segIds k
  let row := rows.getD rStar default
  let eIdx := (densePol row).1
  let e := dcGrid.getD eIdx default
  let yIdx := (contPol row e).1
  (row.2, e, ccGrid.getD yIdx default, v)

end Lcm
