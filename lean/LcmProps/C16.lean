import LcmModel.GridsPy
import LcmModel.Dsl
import LcmProofs.InterpT
import LcmProofs.LogGrid
namespace Lcm

/-! # C16 — a grid is either rejected or materialises exactly as specified

Model: `validateContinuous` / `validateLogspace` / `validateDiscrete` over Python values (`PyVal`: int, bool ⊂
int, float incl. ±inf / nan, str, None, other) with Python's comparison semantics; `Grid.points` for
`jnp.linspace`; `logNode` (over ℝ) for `jnp.logspace(log start, log stop, n, base=e)`. The model mirrors the
code *after* the repair F3 (`repaired = true`: finite bounds, positive start for log grids). Float
representability (|x| > 1e38 in float32, spacing below the float resolution) is outside exact arithmetic. -/

/-- decision logic of the continuous-grid validation, stated outright (`finiteAsFloat`: a float that is neither ±inf nor
nan, or an int that can be converted to a float - repairs F3 and F11) -/
theorem C16_continuous_accept_iff (start stop n : PyVal) :
    validateContinuous start stop n true = true ↔
      (start.isNumber = true ∧ stop.isNumber = true ∧ n.isInt = true ∧ 1 ≤ n.asInt ∧
        start.toFloat.ge stop.toFloat = false ∧ start.finiteAsFloat = true ∧ stop.finiteAsFloat = true) := by
  unfold validateContinuous
  cases h1 : start.isNumber <;> cases h2 : stop.isNumber <;> cases h3 : n.isInt <;>
    cases h4 : start.toFloat.ge stop.toFloat <;> cases h5 : start.finiteAsFloat <;>
    cases h6 : stop.finiteAsFloat <;> simp

/-- a bound that is finite as a float is a rational number in the model -/
theorem finiteAsFloat_toFloat (v : PyVal) (h : v.finiteAsFloat = true) : v.toFloat.isFinite = true := by
  cases v with
  | float f => simpa [PyVal.finiteAsFloat, PyVal.toFloat] using h
  | int i => rfl
  | bool b => rfl
  | _ => simp [PyVal.finiteAsFloat] at h

/-- an int bound is accepted only below the largest float: `|i| < floatIntBound = 2^1024 - 2^970` -/
theorem C16_int_bound_in_float_range (i : Int) (stop n : PyVal) (h : validateContinuous (.int i) stop n true = true) :
    i.natAbs < floatIntBound := by
  rw [C16_continuous_accept_iff] at h
  simpa [PyVal.finiteAsFloat] using h.2.2.2.2.2.1

/-- accepted bounds are finite rationals with `start < stop` -/
theorem C16_accepted_bounds (start stop n : PyVal) (h : validateContinuous start stop n true = true) :
    ∃ a b : Rat, start.toFloat = .fin a ∧ stop.toFloat = .fin b ∧ a < b := by
  rw [C16_continuous_accept_iff] at h
  obtain ⟨_, _, _, _, hge, hfa, hfb⟩ := h
  have hfa := finiteAsFloat_toFloat _ hfa
  have hfb := finiteAsFloat_toFloat _ hfb
  cases ha : start.toFloat <;> simp [ha, PyFloat.isFinite] at hfa
  cases hb : stop.toFloat <;> simp [hb, PyFloat.isFinite] at hfb
  rename_i a b
  refine ⟨a, b, rfl, rfl, ?_⟩
  simp [ha, hb, PyFloat.ge] at hge
  exact hge

/-- a log grid additionally needs a strictly positive start -/
theorem C16_logspace_accept_iff (start stop n : PyVal) :
    validateLogspace start stop n true = true ↔
      (validateContinuous start stop n true = true ∧ ∃ q : Rat, start.toFloat = .fin q ∧ 0 < q) := by
  unfold validateLogspace
  cases h : start.toFloat <;> simp

-- ------------------------------------------------------------------ linear grid: exact materialisation
theorem lin_points_getElem (a b : Rat) (n i : Nat) (hn : 2 ≤ n) (hi : i < n) :
    (Grid.points (.lin a b n))[i]? = some (a + (i : Rat) * ((b - a) / ((n : Rat) - 1))) := by
  have : ¬ n ≤ 1 := by omega
  simp [Grid.points, this, hi]

/-- exactly `n_points` values -/
theorem C16_lin_length (a b : Rat) (n : Nat) (hn : 1 ≤ n) : (Grid.points (.lin a b n)).length = n := by
  unfold Grid.points
  by_cases h : n ≤ 1
  · have : n = 1 := by omega
    simp [this]
  · simp [h]

/-- first element = start, last element = stop (two or more points), equal spacing, strictly increasing -/
theorem C16_lin_exact (a b : Rat) (n : Nat) (hab : a < b) (hn : 2 ≤ n) :
    (Grid.points (.lin a b n))[0]? = some a ∧
    (Grid.points (.lin a b n))[n - 1]? = some b ∧
    (∀ i, i + 1 < n → ∃ x y, (Grid.points (.lin a b n))[i]? = some x ∧ (Grid.points (.lin a b n))[i + 1]? = some y ∧
        y - x = (b - a) / ((n : Rat) - 1) ∧ x < y) := by
  have hs := step_pos_rat a b n hab hn
  refine ⟨?_, ?_, ?_⟩
  · rw [lin_points_getElem a b n 0 hn (by omega)]; simp
  · rw [lin_points_getElem a b n (n - 1) hn (by omega)]
    congr 1
    have h1 : ((n - 1 : Nat) : Rat) = (n : Rat) - 1 := by
      have : 1 ≤ n := by omega
      push_cast [Nat.cast_sub this]; ring
    rw [h1]
    have hne : (n : Rat) - 1 ≠ 0 := by
      have : (2 : Rat) ≤ n := by exact_mod_cast hn
      linarith
    field_simp
    ring
  · intro i hi
    refine ⟨_, _, lin_points_getElem a b n i hn (by omega), lin_points_getElem a b n (i + 1) hn hi, ?_, ?_⟩
    · push_cast; ring
    · push_cast; linarith

/-- with a single point the grid is `[start]` -/
theorem C16_lin_single (a b : Rat) : Grid.points (.lin a b 1) = [a] := by simp [Grid.points]

-- ------------------------------------------------------------------ log grid over ℝ
/-- first node = start, last node = stop, constant ratio (equal spacing on the log scale), strictly increasing -/
theorem C16_log_exact (a b : ℝ) (n : ℕ) (ha : 0 < a) (hab : a < b) (hn : 2 ≤ n) :
    logNode a b n 0 = a ∧ logNode a b n ((n : ℝ) - 1) = b ∧
    (∀ k : ℝ, Real.log (logNode a b n (k + 1)) - Real.log (logNode a b n k) = (Real.log b - Real.log a) / ((n : ℝ) - 1)) ∧
    (∀ k : ℝ, logNode a b n k < logNode a b n (k + 1)) ∧ (∀ k : ℝ, 0 < logNode a b n k) := by
  have hs := step_pos a b n ha hab hn
  have hb : 0 < b := lt_trans ha hab
  have hne : (n : ℝ) - 1 ≠ 0 := by
    have : (2 : ℝ) ≤ n := by exact_mod_cast hn
    linarith
  refine ⟨?_, ?_, ?_, ?_, ?_⟩
  · unfold logNode; simp [Real.exp_log ha]
  · unfold logNode
    have : Real.log a + (Real.log b - Real.log a) / ((n : ℝ) - 1) * ((n : ℝ) - 1) = Real.log b := by
      field_simp; ring
    rw [this, Real.exp_log hb]
  · intro k; unfold logNode; rw [Real.log_exp, Real.log_exp]; ring
  · intro k; unfold logNode; apply Real.exp_lt_exp.mpr; nlinarith
  · intro k; unfold logNode; exact Real.exp_pos _

-- ------------------------------------------------------------------ discrete grid
/-- accepted exactly when the category class is a dataclass with at least one field whose values, in
declaration order, are numerically 0, 1, 2, … -/
theorem C16_discrete_iff (isDataclass : Bool) (vals : List PyVal) :
    validateDiscrete isDataclass vals = true ↔
      (isDataclass = true ∧ vals ≠ [] ∧ (∀ v ∈ vals, v.isNumber = true) ∧
        ∀ p ∈ vals.zipIdx, p.1.eqInt p.2 = true) := by
  simp [validateDiscrete, List.all_eq_true, and_assoc]

/-- numeric equality with the position already implies "is a number": the codes are 0, 1, 2, … -/
theorem C16_discrete_codes (v : PyVal) (i : Int) (h : v.eqInt i = true) : v.isNumber = true := by
  cases v <;> simp_all [PyVal.eqInt, PyVal.isNumber]

-- non-vacuity: Python semantics of the corner cases
example : validateContinuous (.int 1) (.int 1) (.int 3) true = false := by decide +kernel
example : validateContinuous (.float .nan) (.int 1) (.int 3) true = false ∧
    validateContinuous (.float .nan) (.int 1) (.int 3) false = true := by decide +kernel
example : validateContinuous (.int 0) (.float (.fin (1/2))) (.bool true) true = true := by decide +kernel
example : validateLogspace (.int 0) (.int 1) (.int 3) true = false ∧ validateLogspace (.int 1) (.int 2) (.int 3) true = true := by
  decide +kernel
example : validateDiscrete true [.int 0, .float (.fin 1), .bool false] = false ∧
    validateDiscrete true [.bool false, .float (.fin 1), .int 2] = true := by decide +kernel
example : Grid.points (.lin 1 3 5) = [1, 3/2, 2, 5/2, 3] := by decide +kernel

end Lcm
