import LcmModel.Solve
import LcmModel.Sim
import LcmModel.Diag
import LcmModel.Spec
import LcmModel.WellFormed
import LcmModel.Keys
import LcmModel.Validate
import LcmModel.FuncRep
import LcmModel.Kernels
import LcmModel.LogGridF
import LcmModel.ArgmaxND
import LcmModel.Kwargs
import LcmModel.GridsPy
import Lean.Data.Json
open Lean Lcm

def parseRat (s : String) : Except String Rat :=
  match s.splitOn "/" with
  | [p] => match p.toInt? with | some i => pure (i : Rat) | none => throw s!"bad rat {s}"
  | [p, q] => match p.toInt?, q.toNat? with
    | some a, some b => if b = 0 then throw "zero den" else pure ((a : Rat) / (b : Rat))
    | _, _ => throw s!"bad rat {s}"
  | _ => throw s!"bad rat {s}"

def showRat (q : Rat) : String := if q.den = 1 then s!"{q.num}" else s!"{q.num}/{q.den}"
def showExt : Ext → String | .ninf => "-inf" | .fin q => showRat q

partial def parseExpr (j : Json) : Except String Expr := do
  let arr ← j.getArr?
  let tag ← (arr[0]!).getStr?
  let sub := fun (i : Nat) => parseExpr arr[i]!
  match tag with
  | "num" => do let s ← (arr[1]!).getStr?; pure (.num (← parseRat s))
  | "var" => do pure (.var (← (arr[1]!).getStr?))
  | "add" => do pure (.add (← sub 1) (← sub 2))
  | "sub" => do pure (.sub (← sub 1) (← sub 2))
  | "mul" => do pure (.mul (← sub 1) (← sub 2))
  | "neg" => do pure (.neg (← sub 1))
  | "div" => do pure (.div (← sub 1) (← sub 2))
  | "min" => do pure (.min (← sub 1) (← sub 2))
  | "max" => do pure (.max (← sub 1) (← sub 2))
  | "le" => do pure (.le (← sub 1) (← sub 2))
  | "lt" => do pure (.lt (← sub 1) (← sub 2))
  | "eq" => do pure (.eq (← sub 1) (← sub 2))
  | "and" => do pure (.and (← sub 1) (← sub 2))
  | "or" => do pure (.or (← sub 1) (← sub 2))
  | "not" => do pure (.not (← sub 1))
  | "ite" => do pure (.ite (← sub 1) (← sub 2) (← sub 3))
  | t => throw s!"bad expr tag {t}"

def parseGrid (j : Json) : Except String Grid := do
  let k ← j.getObjValAs? String "k"
  match k with
  | "lin" => do
    let a ← parseRat (← j.getObjValAs? String "a")
    let b ← parseRat (← j.getObjValAs? String "b")
    pure (.lin a b (← j.getObjValAs? Nat "n"))
  | "disc" => do pure (.disc (← j.getObjValAs? Nat "n"))
  | "tab" => do
    let xs ← j.getObjValAs? (Array String) "nodes"
    pure (.tab (← xs.toList.mapM parseRat))
  | _ => throw "bad grid"

def parseVars (j : Json) : Except String (List (Lcm.Name × Grid)) := do
  let arr ← j.getArr?
  arr.toList.mapM fun e => do
    let p ← e.getArr?
    pure ((← (p[0]!).getStr?), (← parseGrid p[1]!))

def parseModel (j : Json) : Except String Model := do
  let fs ← (← j.getObjVal? "functions").getArr?
  let funcs ← fs.toList.mapM fun f => do
    pure ({ name := ← f.getObjValAs? String "name", args := (← f.getObjValAs? (Array String) "args").toList,
            body := ← parseExpr (← f.getObjVal? "body"),
            stochastic := ← f.getObjValAs? Bool "stochastic" } : Func)
  pure { nPeriods := ← j.getObjValAs? Nat "n_periods", functions := funcs,
         choices := ← parseVars (← j.getObjVal? "choices"), states := ← parseVars (← j.getObjVal? "states") }

def parseTensor (j : Json) : Except String (Tensor Rat) := do
  let shape ← j.getObjValAs? (Array Nat) "shape"
  let data ← (← j.getObjValAs? (Array String) "data").mapM parseRat
  pure { shape := shape.toList, get := fun idx => data[ravel shape.toList idx]! }

def parseParams (j : Json) : Except String Params := do
  let beta ← parseRat (← j.getObjValAs? String "beta")
  let fo ← (← j.getObjVal? "funcs").getObj?
  let funcs ← fo.toList.mapM fun (fname, pj) => do
    let po ← pj.getObj?
    let ps ← po.toList.mapM fun (p, v) => do pure (p, ← parseRat (← v.getStr?))
    pure (fname, ps)
  let so ← (← j.getObjVal? "shocks").getObj?
  let shocks ← so.toList.mapM fun (x, tj) => do pure (x, ← parseTensor tj)
  pure { beta, funcs, shocks }

def tensorJson (t : Tensor Ext) : Json :=
  Json.mkObj [("shape", toJson t.shape), ("data", toJson (t.toFlat.map showExt))]


def parseExtTensor (j : Json) : Except String (Tensor Ext) := do
  let shape ← j.getObjValAs? (Array Nat) "shape"
  let data ← (← j.getObjValAs? (Array String) "data").mapM fun s =>
    if s == "-inf" then pure Ext.ninf else do pure (Ext.fin (← parseRat s))
  pure { shape := shape.toList, get := fun idx => data[ravel shape.toList idx]! }

def parseAssoc (j : Json) : Except String (List (Lcm.Name × Rat)) := do
  let arr ← j.getArr?
  arr.toList.mapM fun e => do
    let p ← e.getArr?
    pure ((← (p[0]!).getStr?), (← parseRat (← (p[1]!).getStr?)))

/-- draws: array over periods of objects var ↦ array over agents of {shape, data} -/
def parseDraws (j : Json) : Except String Draws := do
  let periods ← j.getArr?
  let tbl ← periods.toList.mapM fun pj => do
    let o ← pj.getObj?
    o.toList.mapM fun (x, aj) => do
      let agents ← aj.getArr?
      let ts ← agents.toList.mapM fun tj => do
        let shape ← tj.getObjValAs? (Array Nat) "shape"
        let data ← tj.getObjValAs? (Array Nat) "data"
        pure (shape.toList, data)
      pure (x, ts)
  pure fun t x i depIdx =>
    match ((tbl.getD t []).find? (·.1 == x)).bind (fun e => e.2[i]?) with
    | some (shape, data) => data[ravel shape depIdx]!
    | none => 0

def assocJson (a : List (Lcm.Name × Rat)) : Json :=
  Json.mkObj (a.map fun p => (p.1, Json.str (showRat p.2)))

def recordJson (r : Record) : Json :=
  Json.mkObj [("value", Json.str (showExt r.value)), ("choices", assocJson r.choices), ("states", assocJson r.states)]


def parsePyVal (j : Json) : Except String PyVal := do
  let a ← j.getArr?
  match (← (a[0]!).getStr?) with
  | "int" => pure (.int (← (a[1]!).getInt?))
  | "bool" => pure (.bool (← (a[1]!).getBool?))
  | "float" => do
    let s ← (a[1]!).getStr?
    match s with
    | "inf" => pure (.float .pinf) | "-inf" => pure (.float .ninf) | "nan" => pure (.float .nan)
    | _ => pure (.float (.fin (← parseRat s)))
  | "str" => pure .str | "none" => pure .none | _ => pure .other

def parseFloatTensor (j : Json) : Except String (Tensor Float) := do
  let shape ← j.getObjValAs? (Array Nat) "shape"
  let data ← j.getObjValAs? (Array Nat) "bits"
  pure { shape := shape.toList, get := fun idx => Float.ofBits (data[ravel shape.toList idx]!).toUInt64 }

def floatTensorJson (t : Tensor Float) : Json :=
  Json.mkObj [("shape", toJson t.shape), ("bits", toJson (t.toFlat.map fun x => x.toBits.toNat))]

def parseRatTensor := parseTensor

def ratTensorJson (t : Tensor Rat) : Json :=
  Json.mkObj [("shape", toJson t.shape), ("data", toJson (t.toFlat.map showRat))]

def parseIntTensor (j : Json) : Except String (Tensor Int) := do
  let shape ← j.getObjValAs? (Array Nat) "shape"
  let data ← j.getObjValAs? (Array Int) "data"
  pure { shape := shape.toList, get := fun idx => data[ravel shape.toList idx]! }

def parseSegs (j : Json) : Except String (Option (List Nat × Nat)) :=
  match j.getObjValAs? (Array Nat) "seg_ids" with
  | .ok ids => do pure (some (ids.toList, ← j.getObjValAs? Nat "num"))
  | .error _ => pure none

def bitsOf (j : Json) (k : String) : Except String Float := do
  pure (Float.ofBits (← j.getObjValAs? Nat k).toUInt64)

/-- body used by the dispatcher ops: sum_p coef_p * (sum of all entries of argument p) -/
def tensorTotal (t : Tensor Rat) : Rat := (t.toFlat).foldl (· + ·) 0
def linBody (coefs : List Int) : List (Tensor Rat) → Tensor Rat := fun args =>
  { shape := [], get := fun _ => ((coefs.zip args).map fun (c, a) => (c : Rat) * tensorTotal a).foldl (· + ·) 0 }

/-- array-valued variant of `linBody`: a vector of length `L` whose k-th entry is (k+1) times the scalar -/
def linBodyVec (coefs : List Int) (L : Nat) : List (Tensor Rat) → Tensor Rat := fun args =>
  let sc := ((coefs.zip args).map fun (c, a) => (c : Rat) * tensorTotal a).foldl (· + ·) 0
  { shape := [L], get := fun idx => ((idx.headD 0 : Nat) + 1 : Rat) * sc }

def handle (j : Json) : Except String Json := do
  let op ← j.getObjValAs? String "op"
  match op with
  | "solve" =>
    let m ← parseModel (← j.getObjVal? "model")
    let P ← parseParams (← j.getObjVal? "params")
    let shift := (j.getObjValAs? Bool "shift").toOption.getD true
    let V := solve m P shift
    let diag := if (j.getObjValAs? Bool "diag").toOption.getD true then solveDiag m P shift else []
    return Json.mkObj [("ok", Json.mkObj [("V", Json.arr (V.map tensorJson).toArray), ("undef", toJson diag)])]
  | "simulate" =>
    let m ← parseModel (← j.getObjVal? "model")
    let P ← parseParams (← j.getObjVal? "params")
    let shift := (j.getObjValAs? Bool "shift").toOption.getD true
    let V ← (← (← j.getObjVal? "V").getArr?).toList.mapM parseExtTensor
    let init ← (← (← j.getObjVal? "init").getArr?).toList.mapM parseAssoc
    let draws ← parseDraws (← j.getObjVal? "draws")
    let out := simulate m P V init draws shift
    return Json.mkObj [("ok", Json.arr (out.map fun recs => Json.arr (recs.map recordJson).toArray).toArray)]
  | "argmax" =>
    let a ← parseExtTensor (← j.getObjVal? "a")
    let axes ← j.getObjValAs? (Array Nat) "axes"
    let mask ← match j.getObjVal? "mask" with
      | .ok mj => do
        let shape ← mj.getObjValAs? (Array Nat) "shape"
        let data ← mj.getObjValAs? (Array Bool) "data"
        pure (some ({ shape := shape.toList, get := fun idx => data[ravel shape.toList idx]! } : Tensor Bool))
      | .error _ => pure none
    let (ix, mx) := argmaxND a axes.toList mask
    return Json.mkObj [("ok", Json.mkObj [("shape", toJson ix.shape), ("idx", toJson ix.toFlat), ("max", toJson (mx.toFlat.map showExt))])]
  | "kwargs_call" =>
    let wrapper ← j.getObjValAs? String "wrapper"
    let ps ← (← j.getObjVal? "params").getArr?
    let params ← ps.toList.mapM fun pj => do
      let a ← pj.getArr?
      let kind ← match (← (a[1]!).getStr?) with
        | "posOnly" => pure PKind.posOnly | "posOrKw" => pure PKind.posOrKw | "kwOnly" => pure PKind.kwOnly
        | _ => throw "bad kind"
      pure ((← (a[0]!).getStr?), kind)
    let args ← j.getObjValAs? (Array Int) "args"
    let kws ← (← j.getObjVal? "kwargs").getArr?
    let kwargs ← kws.toList.mapM fun kj => do
      let a ← kj.getArr?
      pure ((← (a[0]!).getStr?), (← (a[1]!).getInt?))
    let res := match wrapper with
      | "allow_only_kwargs" => allowOnlyKwargs params args.toList kwargs
      | "allow_args" => allowArgs params args.toList kwargs false
      | _ => allowArgs params args.toList kwargs true
    return match res with
      | .ok b => Json.mkObj [("ok", Json.mkObj (b.map fun (k, v) => (k, toJson v)))]
      | .error .valueError => Json.mkObj [("ok", Json.str "ValueError")]
      | .error .typeError => Json.mkObj [("ok", Json.str "TypeError")]
  | "grid_validate" =>
    let start ← parsePyVal (← j.getObjVal? "start")
    let stop ← parsePyVal (← j.getObjVal? "stop")
    let n ← parsePyVal (← j.getObjVal? "n")
    let rep := (j.getObjValAs? Bool "repaired").toOption.getD false
    let isLog := (j.getObjValAs? Bool "log").toOption.getD false
    return Json.mkObj [("ok", toJson (if isLog then validateLogspace start stop n rep else validateContinuous start stop n rep))]
  | "discrete_validate" =>
    let isdc ← j.getObjValAs? Bool "dataclass"
    let vals ← (← (← j.getObjVal? "vals").getArr?).toList.mapM parsePyVal
    return Json.mkObj [("ok", toJson (validateDiscrete isdc vals))]
  | "sim_spec" =>
    let m ← parseModel (← j.getObjVal? "model")
    let P ← parseParams (← j.getObjVal? "params")
    let shift := (j.getObjValAs? Bool "shift").toOption.getD true
    let t ← j.getObjValAs? Nat "t"
    let g := groups m
    let next : Option (Tensor Ext × List (List (Lcm.Name × Rat))) ← match j.getObjVal? "Vnext" with
      | .ok (Json.null) => pure none
      | .ok vj => do
        let V ← parseExtTensor vj
        pure (some (V, (mkSpace m P g (if shift then t + 1 else t)).feas))
      | .error _ => pure none
    let agents ← (← j.getObjVal? "agents").getArr?
    let outs ← agents.toList.mapM fun aj => do
      let st ← parseAssoc (← aj.getObjVal? "states")
      let ch ← parseAssoc (← aj.getObjVal? "choices")
      let a := specAgent m P g t next st ch
      pure (Json.mkObj [
        ("best", Json.str (showExt a.best)), ("n_optimal", toJson a.nOptimal), ("n_admissible", toJson a.nAdmissible),
        ("undefined", toJson a.undefined),
        ("q", match a.qReported with | some (q, _) => Json.str (showRat q) | none => Json.null),
        ("adm", match a.qReported with | some (_, f) => toJson f | none => Json.null),
        ("on_grid", toJson a.onGrid), ("next_det", assocJson a.nextDet),
        ("rows", Json.mkObj (a.rows.map fun (x, r) => (x, toJson (r.map showRat))))])
    return Json.mkObj [("ok", Json.arr outs.toArray)]
  | "spec_v" =>
    let m ← parseModel (← j.getObjVal? "model")
    let P ← parseParams (← j.getObjVal? "params")
    let shift := (j.getObjValAs? Bool "shift").toOption.getD true
    let t ← j.getObjValAs? Nat "t"
    let g := groups m
    let next : Option (Tensor Ext × List (List (Lcm.Name × Rat))) ← match j.getObjVal? "Vnext" with
      | .ok (Json.null) => pure none
      | .ok vj => do
        let V ← parseExtTensor vj
        pure (some (V, (mkSpace m P g (if shift then t + 1 else t)).feas))
      | .error _ => pure none
    let sts ← (← (← j.getObjVal? "states").getArr?).toList.mapM parseAssoc
    return Json.mkObj [("ok", toJson (sts.map fun st => showExt (specV m P g t next st)))]
  | "key_paths" =>
    let nv ← j.getObjValAs? Nat "n_vars"
    let na ← j.getObjValAs? Nat "n_agents"
    let T ← j.getObjValAs? Nat "n_periods"
    let out := (List.range T).map fun t => (List.range nv).map fun v => (List.range na).map fun i => agentKey nv na t v i
    return Json.mkObj [("ok", toJson out)]
  | "layout" =>
    let m ← parseModel (← j.getObjVal? "model")
    let P : Params := { beta := 0, funcs := [], shocks := [] }
    let g := groups m
    let out := (List.range m.nPeriods).map fun t =>
      let sp := mkSpace m P g t
      Json.mkObj [
        ("sparse_states", toJson (g.sS.map (·.1))), ("sparse_choices", toJson (g.sC.map (·.1))),
        ("dense_states", toJson (g.dS.map (·.1))), ("dense_choices", toJson (g.dC.map (·.1))),
        ("cont_states", toJson (g.cS.map (·.1))), ("cont_choices", toJson (g.cC.map (·.1))),
        ("feas", toJson (sp.feas.map fun a => a.map fun p => showRat p.2)),
        ("rows", toJson (sp.rows.map fun r => (r.1 ++ r.2).map fun p => showRat p.2)),
        ("seg_ids", toJson sp.segIds),
        ("indexer", Json.mkObj [("shape", toJson (sizes g.sS)),
          ("data", toJson ((assignments g.sS).map fun a => match sp.feas.findIdx? (· == a) with | some k => (k : Int) | none => (-1 : Int)))]),
        ("shape", toJson ((if g.sS.isEmpty then [] else [sp.feas.length]) ++ sizes g.dS ++ sizes (cStateGrids g)))]
    return Json.mkObj [("ok", Json.arr out.toArray)]
  | "eval_funcs" =>
    let m ← parseModel (← j.getObjVal? "model")
    let P ← parseParams (← j.getObjVal? "params")
    let names ← j.getObjValAs? (Array String) "names"
    let rows ← (← j.getObjVal? "rows").getArr?
    let outs ← rows.toList.mapM fun rj => do
      let env ← parseAssoc (← rj.getObjVal? "env")
      let t ← rj.getObjValAs? Nat "t"
      pure (Json.arr (names.toList.map fun n =>
        match evalAt m P env t n with
        | some (.num q) => Json.str (showRat q)
        | some (.bool b) => Json.str (if b then "1" else "0")
        | none => Json.null).toArray)
    return Json.mkObj [("ok", Json.arr outs.toArray)]
  | "params_template" =>
    let m ← parseModel (← j.getObjVal? "model")
    let fp := functionParams m
    let ss := shockShapes m
    return Json.mkObj [("ok", Json.mkObj [
      ("functions", Json.mkObj (fp.map fun (f, ps) => (f, toJson ps))),
      ("function_order", toJson (fp.map (·.1))),
      ("shocks", Json.mkObj (ss.map fun (x, sh) => (x, toJson sh))),
      ("has_shocks", toJson (!ss.isEmpty))])]
  | "validate_model" =>
    let mj ← j.getObjVal? "model"
    let fs ← (← mj.getObjVal? "functions").getArr?
    let funcs ← fs.toList.mapM fun f => do
      pure ({ func := { name := ← f.getObjValAs? String "name", args := (← f.getObjValAs? (Array String) "args").toList,
                        body := .num 0, stochastic := ← f.getObjValAs? Bool "stochastic" },
              keyIsStr := (f.getObjValAs? Bool "key_ok").toOption.getD true,
              isCallable := (f.getObjValAs? Bool "value_ok").toOption.getD true } : RawFunc)
    let parseRawVars := fun (vj : Json) => do
      let arr ← vj.getArr?
      arr.toList.mapM fun e => do
        let p ← e.getArr?
        let isGrid := ((p[2]?).bind fun x => x.getBool?.toOption).getD true
        let keyOk := ((p[3]?).bind fun x => x.getBool?.toOption).getD true
        let grid ← if isGrid then parseGrid p[1]! else pure (Grid.disc 0)
        pure ({ name := ← (p[0]!).getStr?, grid := grid, keyIsStr := keyOk, isGrid := isGrid } : RawVar)
    let raw : RawModel := { nPeriods := ← mj.getObjValAs? Int "n_periods", functions := funcs,
                            choices := ← parseRawVars (← mj.getObjVal? "choices"), states := ← parseRawVars (← mj.getObjVal? "states") }
    return Json.mkObj [("ok", Json.str (match validateModel raw with
      | .accepted => "accepted" | .modelInitError => "ModelInit" | .valueError => "ValueError"))]
  | "function_representation" =>
    let sj ← j.getObjVal? "space_info"
    let interpArr ← (← sj.getObjVal? "interp").getArr?
    let interp ← interpArr.toList.mapM fun e => do
      let p ← e.getArr?
      pure ((← (p[0]!).getStr?), (← parseGrid p[1]!))
    let idxArr ← (← sj.getObjVal? "indexers").getArr?
    let indexers ← idxArr.toList.mapM fun e => do
      pure ({ axisNames := (← e.getObjValAs? (Array String) "axis_names").toList, name := ← e.getObjValAs? String "name",
              outName := ← e.getObjValAs? String "out_name" } : IndexerInfo)
    let si : SpaceInfo := { axisNames := (← sj.getObjValAs? (Array String) "axis_names").toList,
                            lookup := (← sj.getObjValAs? (Array String) "lookup").toList, interp, indexers }
    let pfx ← j.getObjValAs? String "prefix"
    let ao ← (← j.getObjVal? "arrays").getObj?
    let arrays ← ao.toList.mapM fun (k, v) => do pure (k, ← parseIntTensor v)
    let V ← parseTensor (← j.getObjVal? "V")
    let pts ← (← (← j.getObjVal? "points").getArr?).toList.mapM parseAssoc
    let outs := pts.map fun pt =>
      match functionRepresentation si pfx (fun n => (arrays.find? (·.1 == n)).map (·.2)) V
          (fun n => (pt.find? (·.1 == n)).map (·.2)) with
      | .ok q => Json.str (showRat q)
      | .error .valueError => Json.str "ValueError"
      | .error .undefined => Json.str "undefined"
    return Json.mkObj [("ok", Json.arr outs.toArray)]
  | "map_coordinates" =>
    let inp ← parseTensor (← j.getObjVal? "input")
    let isInt := (j.getObjValAs? Bool "int_input").toOption.getD false
    let pts ← (← (← j.getObjVal? "coords").getArr?).toList.mapM fun pj => do
      (← pj.getObjValAs? (Array String) "c").toList.mapM parseRat
    let outs := pts.map fun cs =>
      if cs.length != inp.shape.length then "ValueError"
      else let q := interp inp cs
        if isInt then toString (roundHalfAway q) else showRat q
    return Json.mkObj [("ok", toJson outs)]
  | "coord" =>
    let g ← parseGrid (← j.getObjVal? "grid")
    let vals ← (← j.getObjValAs? (Array String) "values").toList.mapM parseRat
    return Json.mkObj [("ok", toJson (vals.map fun v => showRat (coordOf g v)))]
  | "grid_points" =>
    let g ← parseGrid (← j.getObjVal? "grid")
    return Json.mkObj [("ok", toJson (g.points.map showRat))]
  | "log_grid" =>
    let a ← bitsOf j "a"; let b ← bitsOf j "b"; let n ← j.getObjValAs? Nat "n"
    let vals := (← j.getObjValAs? (Array Nat) "values").toList.map fun x => Float.ofBits x.toUInt64
    let kind := (j.getObjValAs? String "kind").toOption.getD "log"
    let pts := if kind == "log" then logspaceF a b n else linspaceF a b n
    let cs := vals.map fun v => if kind == "log" then logCoordF v a b n else linCoordF v a b n
    return Json.mkObj [("ok", Json.mkObj [("points", toJson (pts.map fun x => x.toBits.toNat)), ("coords", toJson (cs.map fun x => x.toBits.toNat))])]
  | "segment_argmax" =>
    let a ← parseExtTensor (← j.getObjVal? "a")
    let ids ← j.getObjValAs? (Array Nat) "seg_ids"
    let num ← j.getObjValAs? Nat "num"
    let (ix, mx) := segmentArgmaxND a ids.toList num
    return Json.mkObj [("ok", Json.mkObj [("shape", toJson ix.shape), ("idx", toJson ix.toFlat), ("max", toJson (mx.toFlat.map showExt))])]
  | "discrete_problem" =>
    let m ← parseModel (← j.getObjVal? "model")
    let values ← parseExtTensor (← j.getObjVal? "values")
    let segs ← parseSegs j
    let axes := denseChoiceAxes (variableInfo m)
    let out := solveDiscreteProblem values axes segs
    return Json.mkObj [("ok", Json.mkObj [("axes", toJson axes), ("out", tensorJson out)])]
  | "dispatch" =>
    let kind ← j.getObjValAs? String "kind"
    let params := (← j.getObjValAs? (Array String) "params").toList
    let coefs := (← j.getObjValAs? (Array (Array Int)) "coefs").toList.map (·.toList)
    let ao ← j.getObjVal? "args"
    let args ← params.mapM fun p => do parseTensor (← ao.getObjVal? p)
    let vars := ((j.getObjValAs? (Array String) "vars").toOption.getD #[]).toList
    let dense := ((j.getObjValAs? (Array String) "dense").toOption.getD #[]).toList
    let sparse := ((j.getObjValAs? (Array String) "sparse").toOption.getD #[]).toList
    let df := (j.getObjValAs? Bool "dense_first").toOption.getD false
    let leafLen := (j.getObjValAs? Nat "leaf_len").toOption.getD 0
    let outs := coefs.map fun cf =>
      let f := if leafLen = 0 then linBody cf else linBodyVec cf leafLen
      let r := match kind with
        | "productmap" => productmapModel params f vars args
        | "vmap1d" => vmap1dModel params f vars args
        | _ => spacemapModel params f dense sparse df args
      ratTensorJson r
    return Json.mkObj [("ok", Json.arr outs.toArray)]
  | "lse" =>
    let values ← parseFloatTensor (← j.getObjVal? "values")
    let scale ← bitsOf j "scale"
    let axes := ((j.getObjValAs? (Array Nat) "axes").toOption.getD #[]).toList
    let segs ← parseSegs j
    return Json.mkObj [("ok", floatTensorJson (emaxExtremeValueF values scale axes segs))]
  | "segment_lse" =>
    let a ← parseFloatTensor (← j.getObjVal? "a")
    let ids ← j.getObjValAs? (Array Nat) "seg_ids"
    let num ← j.getObjValAs? Nat "num"
    return Json.mkObj [("ok", floatTensorJson (segmentLogSumExpF a ids.toList num))]
  | "wf" =>
    let m ← parseModel (← j.getObjVal? "model")
    let r := wfReport m
    return Json.mkObj [("ok", Json.mkObj [("all", toJson r.all), ("variable_names_distinct", toJson r.variableNamesDistinct),
      ("function_names_distinct", toJson r.functionNamesDistinct), ("next_keys_distinct", toJson r.nextKeysDistinct),
      ("no_filter_without_restricted_variable", toJson r.noFilterWithoutRestrictedVariable),
      ("no_function_takes_utility", toJson r.noFunctionTakesUtility), ("no_restriction_named_utility", toJson r.noRestrictionNamedUtility)])]
  | "variable_info" =>
    let m ← parseModel (← j.getObjVal? "model")
    return Json.mkObj [("ok", toJson ((variableInfo m).map (·.name)))]
  | _ => throw s!"unknown op {op}"

partial def loop (h out : IO.FS.Stream) : IO Unit := do
  let line ← h.getLine
  if line.isEmpty then return ()
  let ans := match Json.parse line with
    | .ok j => (match handle j with | .ok r => r | .error e => Json.mkObj [("err", Json.str e)])
    | .error e => Json.mkObj [("err", Json.str e)]
  out.putStrLn ans.compress
  out.flush
  loop h out

def main : IO Unit := do loop (← IO.getStdin) (← IO.getStdout)
