import LcmModel.Tensor
namespace Lcm

variable {S C : Type}

/-- all (state, choice) combinations passing the filter, row-major (state outer) -/
def combos (ssGrid : List S) (scGrid : List C) (filt : S → C → Bool) : List (S × C) :=
  (ssGrid.flatMap fun s => scGrid.map fun c => (s, c)).filter fun p => filt p.1 p.2

def feasStates (ssGrid : List S) (scGrid : List C) (filt : S → C → Bool) : List S :=
  ssGrid.filter fun s => scGrid.any (filt s)

/-- np.repeat(np.arange(n) + off, counts) -/
def repeatArange (counts : List Nat) (off : Nat := 0) : List Nat :=
  (counts.zipIdx off).flatMap fun p => List.replicate p.1 p.2

/-- as in `create_indexers_and_segments`: n_choices per feasible state, then repeat(arange, n_choices) -/
def segIdsImpl (ssGrid : List S) (scGrid : List C) (filt : S → C → Bool) : List Nat :=
  repeatArange ((feasStates ssGrid scGrid filt).map fun s => (scGrid.filter (filt s)).length)

end Lcm
