import LcmProofs.SolveFull
import LcmProofs.Laws
import LcmProofs.Frame
import Mathlib.Tactic.Ring
import Mathlib.Tactic.Linarith
namespace Lcm

/-! C11, first clause, for the executable model itself: replacing utility by `a·u + b` (a > 0) turns every entry of
every array returned by `solve` from `v` into `a·v + b·(1 + β + … + β^(T-1-t))` - for every layout, with continuation
values read by (multi)linear interpolation or extrapolation and averaged with transition rows that sum to one. `-inf` stays `-inf`.

The proof follows the definition of `solve` operation by operation; every operation of the pipeline commutes with a
positive affine map applied entrywise: the objective (`uAndF`), the masked max over continuous choices, `materialize`,
the max over dense choice axes, the segment max, and - through weights that sum to one - the interpolation and the
expectation of the continuation value. -/

/-- entrywise affine image, `-inf` fixed -/
def TEq (a c : Rat) (T' T : Tensor Ext) : Prop :=
  T'.shape = T.shape ∧ ∀ idx, T'.get idx = Ext.affine a c (T.get idx)

theorem maskedMax_affine (a c : Rat) (ha : 0 < a) (xs : List Ext) (mask : List Bool) :
    maskedMax (xs.map (Ext.affine a c)) mask = Ext.affine a c (maskedMax xs mask) := by
  unfold maskedMax
  rw [← foldMax_affine a c ha]
  congr 1
  induction xs generalizing mask with
  | nil => simp
  | cons x xs ih =>
    cases mask with
    | nil => simp
    | cons b bs =>
      simp only [List.map_cons, List.zip_cons_cons, List.filterMap_cons]
      cases b <;> simp [ih bs]

theorem segMaxAt_affine (a c : Rat) (ha : 0 < a) (xs : List Ext) (ids : List Nat) (k : Nat) :
    segMaxAt (xs.map (Ext.affine a c)) ids k = Ext.affine a c (segMaxAt xs ids k) := by
  unfold segMaxAt
  rw [← foldMax_affine a c ha]
  congr 1
  induction xs generalizing ids with
  | nil => simp
  | cons x xs ih =>
    cases ids with
    | nil => simp
    | cons i is =>
      simp only [List.map_cons, List.zip_cons_cons, List.filterMap_cons]
      by_cases h : i = k <;> simp [h, ih is]

theorem TEq.materialize {a c : Rat} {T' T : Tensor Ext} (h : TEq a c T' T) : TEq a c T'.materialize T.materialize := by
  refine ⟨h.1, fun idx => ?_⟩
  simp only [Tensor.materialize, Tensor.toFlat, h.1]
  have hmap : (allIdx T.shape).map T'.get = ((allIdx T.shape).map T.get).map (Ext.affine a c) := by
    rw [List.map_map]; apply List.map_congr_left; intro i _; exact h.2 i
  rw [hmap]
  generalize ravel T.shape idx = n
  generalize (allIdx T.shape).map T.get = l
  rw [getElem!_def, getElem!_def]
  simp only [List.getElem?_toArray, List.getElem?_map]
  cases l[n]? <;> rfl

theorem TEq.maxMid {a c : Rat} (ha : 0 < a) {T' T : Tensor Ext} (h : TEq a c T' T) (k n : Nat) :
    TEq a c (T'.maxMid k n) (T.maxMid k n) := by
  refine ⟨by simp only [Tensor.maxMid, h.1], fun idx => ?_⟩
  simp only [Tensor.maxMid, h.1]
  rw [← foldMax_affine a c ha, List.map_map]
  congr 1
  apply List.map_congr_left
  intro j _
  exact h.2 _

theorem TEq.segmentMax {a c : Rat} (ha : 0 < a) {T' T : Tensor Ext} (h : TEq a c T' T) (ids : List Nat) (num : Nat) :
    TEq a c (T'.segmentMax ids num) (T.segmentMax ids num) := by
  refine ⟨by simp only [Tensor.segmentMax, h.1], fun idx => ?_⟩
  cases idx with
  | nil => rfl
  | cons s rest =>
    simp only [Tensor.segmentMax, h.1]
    rw [← segMaxAt_affine a c ha, List.map_map]
    congr 1
    apply List.map_congr_left
    intro r _
    exact h.2 _

theorem TEq.slice {a c : Rat} {T' T : Tensor Ext} (h : TEq a c T' T) (i : Nat) : TEq a c (T'.slice i) (T.slice i) :=
  ⟨by simp only [Tensor.slice, h.1], fun idx => h.2 _⟩

/-- multilinear interpolation commutes with a positive affine map of the entries (the weights of every blend sum to
one); undefined (a touched corner is `-inf`) on both sides at once -/
theorem interpExt_affine (a c : Rat) (coords : List Rat) (T' T : Tensor Ext) (h : TEq a c T' T) :
    interpExt T' coords = (interpExt T coords).map fun q => a * q + c := by
  induction coords generalizing T' T with
  | nil =>
    simp only [interpExt, h.2 []]
    cases T.get [] <;> rfl
  | cons x xs ih =>
    simp only [interpExt, h.1]
    rw [ih _ _ (h.slice _), ih _ _ (h.slice _)]
    cases interpExt (T.slice (lowerIdx' x (T.shape.headD 0))) xs with
    | none => rfl
    | some u =>
      cases interpExt (T.slice (lowerIdx' x (T.shape.headD 0) + 1)) xs with
      | none => rfl
      | some v =>
        simp only [Option.bind_eq_bind, Option.bind_some, Option.map_some, Option.pure_def]
        congr 1
        ring

theorem bind_map_congr {α β γ : Type} (x : Option α) (f f' : α → Option β) (f'' : α → Option γ) (g : β → γ)
    (h : ∀ y, f'' y = (f y).map g) (hf : f' = f) : x.bind f'' = (x.bind f').map g := by
  subst hf
  cases x with
  | none => rfl
  | some y => exact h y

theorem vhat_affine (a c : Rat) (g : Groups) (feas : List (List (Name × Rat))) (V' V : Tensor Ext)
    (h : TEq a c V' V) (env : Env) :
    vhat g feas V' env = (vhat g feas V env).map fun q => a * q + c := by
  unfold vhat
  simp only [Option.bind_eq_bind]
  refine bind_map_congr _ _ _ _ _ (fun sLabels => ?_) rfl
  split
  · simp only [Option.bind_some]
    refine bind_map_congr _ _ _ _ _ (fun dIdx => ?_) rfl
    refine bind_map_congr _ _ _ _ _ (fun coords => ?_) rfl
    apply interpExt_affine
    exact ⟨by simp only [h.1], fun idx => h.2 _⟩
  · refine bind_map_congr _ _ _ _ _ (fun lead => ?_) rfl
    refine bind_map_congr _ _ _ _ _ (fun dIdx => ?_) rfl
    refine bind_map_congr _ _ _ _ _ (fun coords => ?_) rfl
    apply interpExt_affine
    exact ⟨by simp only [h.1], fun idx => h.2 _⟩

/-- the expectation over the nodes: with `K' = a·K + c` the weighted sum becomes `a·(sum) + c·(sum of weights)` -/
theorem foldlM_nodes_affine (a c : Rat) (K K' : List (Name × Rat) → Option Rat)
    (hK : ∀ x, K' x = (K x).map fun q => a * q + c)
    (nodes : List (List (Name × Rat) × Rat)) (acc acc' s : Rat) (hacc : acc' = a * acc + c * s) :
    nodes.foldlM (fun ac (p : List (Name × Rat) × Rat) => do let vn ← K' p.1; pure (ac + p.2 * vn)) acc'
      = (nodes.foldlM (fun ac (p : List (Name × Rat) × Rat) => do let vn ← K p.1; pure (ac + p.2 * vn)) acc).map
          fun ev => a * ev + c * (s + (nodes.map (fun (p : List (Name × Rat) × Rat) => p.2)).sum) := by
  induction nodes generalizing acc acc' s with
  | nil => simp [hacc]
  | cons p ps ih =>
    simp only [List.foldlM_cons, hK p.1]
    cases K p.1 with
    | none => rfl
    | some v =>
      simp only [Option.map_some, Option.bind_eq_bind, Option.bind_some, Option.pure_def]
      have ih' := ih (acc + p.2 * v) (acc' + p.2 * (a * v + c)) (s + p.2) (by rw [hacc]; ring)
      simp only [Option.bind_eq_bind, Option.pure_def] at ih'
      rw [ih']
      congr 1
      funext ev
      simp only [List.map_cons, List.sum_cons]
      ring

/-! ### the objective in bind normal form -/

def constraintNames (m : Model) : List Name := ((functionInfo m).filter (·.isConstraint)).map (·.name)

def utilOf (m : Model) (P : Params) (env : Env) : Option Rat := (callF m P m.fuel env "utility").map Val.toRat

def detOf (m : Model) (P : Params) (env : Env) : Option Env :=
  (((functionInfo m).filter (·.isNext)).filter (!·.isStochasticNext)).mapM fun n =>
    (callF m P m.fuel env n.name).map fun v => (stripNext n.name, v)

def wrowsOf (m : Model) (P : Params) (env : Env) : Option (List (Name × List Rat)) :=
  ((((functionInfo m).filter (·.isNext)).filter (·.isStochasticNext)).map (·.name)).mapM fun n => do
    let f ← m.func? n
    let x := stripNext n
    let deps ← f.args.mapM fun a => (env.get? a).map fun v => natOfRat v.toRat
    let arr ← (P.shocks.find? (·.1 == x)).map (·.2)
    let nlab := arr.shape.getLastD 0
    pure (x, (List.range nlab).map fun l => arr.get (deps ++ [l]))

def nodesOf (wrows : List (Name × List Rat)) : List (List (Name × Rat) × Rat) :=
  wrows.foldr (fun (xw : Name × List Rat) acc =>
    (xw.2.zipIdx).flatMap fun (w, l) => acc.map fun (a, pw) => ((xw.1, (l : Rat)) :: a, w * pw))
    [([], 1)]

theorem uAndF_none_eq (m : Model) (P : Params) (g : Groups) (t : Nat) (env0 : Env) :
    uAndF m P g t none env0
      = (allTrue m P (env0 ++ periodEnv t) (constraintNames m)).bind fun f =>
          (utilOf m P (env0 ++ periodEnv t)).bind fun u => some (u, f) := rfl

theorem uAndF_some_eq (m : Model) (P : Params) (g : Groups) (t : Nat) (V : Tensor Ext)
    (feas : List (List (Name × Rat))) (env0 : Env) :
    uAndF m P g t (some (V, feas)) env0
      = (allTrue m P (env0 ++ periodEnv t) (constraintNames m)).bind fun f =>
          (utilOf m P (env0 ++ periodEnv t)).bind fun u =>
            (detOf m P (env0 ++ periodEnv t)).bind fun det =>
              (wrowsOf m P (env0 ++ periodEnv t)).bind fun wrows =>
                ((nodesOf wrows).foldlM (fun acc (p : List (Name × Rat) × Rat) => do
                    let vn ← vhat g feas V (det ++ toEnv p.1)
                    pure (acc + p.2 * vn)) (0 : Rat)).bind fun ev =>
                  some (u + P.beta * ev, f) := rfl


/-! ### node weights -/

theorem sum_mul_left (c : Rat) (acc : List (List (Name × Rat) × Rat)) :
    (acc.map fun (ap : List (Name × Rat) × Rat) => c * ap.2).sum = c * (acc.map (·.2)).sum := by
  induction acc with
  | nil => simp
  | cons q qs ihq => simp only [List.map_cons, List.sum_cons, ihq]; ring

theorem sum_flatMap_weights (zs : List (Rat × Nat)) (x : Name) (acc : List (List (Name × Rat) × Rat)) :
    ((zs.flatMap fun (wl : Rat × Nat) => acc.map fun (ap : List (Name × Rat) × Rat) =>
        ((x, (wl.2 : Rat)) :: ap.1, wl.1 * ap.2)).map (·.2)).sum
      = (zs.map (·.1)).sum * (acc.map (·.2)).sum := by
  induction zs with
  | nil => simp
  | cons z zs ih =>
    simp only [List.flatMap_cons, List.map_append, List.sum_append, List.map_cons, List.sum_cons]
    rw [ih, List.map_map]
    have : (acc.map ((fun (q : List (Name × Rat) × Rat) => q.2) ∘ fun (ap : List (Name × Rat) × Rat) =>
        ((x, (z.2 : Rat)) :: ap.1, z.1 * ap.2))) = acc.map fun ap => z.1 * ap.2 := rfl
    rw [this]
    rw [sum_mul_left z.1 acc]; ring

theorem zipIdx_map_fst' (l : List Rat) (k : Nat) : (l.zipIdx k).map (·.1) = l := by
  induction l generalizing k with
  | nil => rfl
  | cons x xs ih => simp [List.zipIdx_cons, ih]

/-- the joint node weights sum to one when every transition row does -/
theorem nodes_weight_sum (wrows : List (Name × List Rat)) (h : ∀ xw ∈ wrows, xw.2.sum = 1) :
    ((nodesOf wrows).map (·.2)).sum = 1 := by
  induction wrows with
  | nil => simp [nodesOf]
  | cons xw rest ih =>
    have hrest := ih (fun y hy => h y (List.mem_cons_of_mem _ hy))
    show ((xw.2.zipIdx.flatMap fun (wl : Rat × Nat) => (nodesOf rest).map fun (ap : List (Name × Rat) × Rat) =>
      ((xw.1, (wl.2 : Rat)) :: ap.1, wl.1 * ap.2)).map (·.2)).sum = 1
    rw [sum_flatMap_weights, zipIdx_map_fst', hrest, h xw (by simp)]
    norm_num

theorem mapM_forall {α β : Type} (f : α → Option β) (Q : β → Prop) (l : List α) (r : List β)
    (h : l.mapM f = some r) (hq : ∀ a b, f a = some b → Q b) : ∀ b ∈ r, Q b := by
  induction l generalizing r with
  | nil => simp at h; subst h; simp
  | cons a l ih =>
    rw [List.mapM_cons] at h
    cases hfa : f a with
    | none => rw [hfa] at h; simp at h
    | some b =>
      rw [hfa] at h
      cases hl : l.mapM f with
      | none => rw [hl] at h; simp at h
      | some r' =>
        rw [hl] at h
        simp at h
        subst h
        intro y hy
        rcases List.mem_cons.mp hy with rfl | hy'
        · exact hq a _ hfa
        · exact ih r' hl y hy'

/-- every transition row of `params["shocks"]` sums to one -/
def RowsSumToOne (P : Params) : Prop :=
  ∀ xa ∈ P.shocks, ∀ deps : List Nat,
    ((List.range (xa.2.shape.getLastD 0)).map fun l => xa.2.get (deps ++ [l])).sum = 1

theorem wrowsOf_rows (m : Model) (P : Params) (env : Env) (hR : RowsSumToOne P) (wrows : List (Name × List Rat))
    (h : wrowsOf m P env = some wrows) : ∀ xw ∈ wrows, xw.2.sum = 1 := by
  refine mapM_forall _ (fun xw => xw.2.sum = 1) _ _ h ?_
  intro n xw hn
  cases hf : m.func? n with
  | none => simp [hf] at hn
  | some f =>
    simp only [hf, Option.bind_eq_bind, Option.bind_some] at hn
    cases hd : f.args.mapM (fun a => (env.get? a).map fun v => natOfRat v.toRat) with
    | none => simp [hd] at hn
    | some deps =>
      simp only [hd, Option.bind_some] at hn
      cases hfind : P.shocks.find? (·.1 == stripNext n) with
      | none => simp [hfind] at hn
      | some xa =>
        simp only [hfind, Option.map_some, Option.bind_some, Option.pure_def, Option.some.injEq] at hn
        subst hn
        exact hR xa (List.mem_of_find?_eq_some hfind) deps


/-! ### two specifications that differ in utility only: `u' = a·u + b` -/

/-- two specifications that differ in the function `utility` only -/
structure SameButUtility (m m' : Model) (P : Params) : Prop where
  periods : m'.nPeriods = m.nPeriods
  grp : groups m' = groups m
  finfo : functionInfo m' = functionInfo m
  /-- every function other than utility evaluates alike -/
  other : ∀ env n, n ≠ "utility" → callF m' P m'.fuel env n = callF m P m.fuel env n
  funcs : ∀ n, n ≠ "utility" → m'.func? n = m.func? n
  /-- no filter, constraint or transition is called `utility` (classification is by suffix / prefix) -/
  names : ∀ fi ∈ functionInfo m, (fi.isConstraint = true ∨ fi.isFilter = true ∨ fi.isNext = true) → fi.name ≠ "utility"

structure AffineUtility (m m' : Model) (P : Params) (a b : Rat) : Prop extends SameButUtility m m' P where
  util : ∀ env, utilOf m' P env = (utilOf m P env).map fun u => a * u + b

theorem allTrue_congr_names (m m' : Model) (P : Params) (env : Env) (names : List Name)
    (h : ∀ n ∈ names, callF m' P m'.fuel env n = callF m P m.fuel env n) :
    allTrue m' P env names = allTrue m P env names := by
  unfold allTrue
  apply foldlM_congr_option
  intro n hn acc
  rw [h n hn]

variable {m m' : Model} {P : Params} {a b : Rat}

theorem SameButUtility.constraints (h : SameButUtility m m' P) (env : Env) :
    allTrue m' P env (constraintNames m') = allTrue m P env (constraintNames m) := by
  unfold constraintNames
  rw [h.finfo]
  apply allTrue_congr_names
  intro n hn
  rw [List.mem_map] at hn
  obtain ⟨fi, hfi, rfl⟩ := hn
  rw [List.mem_filter] at hfi
  exact h.other env _ (h.names fi hfi.1 (Or.inl hfi.2))

theorem SameButUtility.filters (h : SameButUtility m m' P) (env : Env) :
    allTrue m' P env (((functionInfo m').filter (·.isFilter)).map (·.name))
      = allTrue m P env (((functionInfo m).filter (·.isFilter)).map (·.name)) := by
  rw [h.finfo]
  apply allTrue_congr_names
  intro n hn
  rw [List.mem_map] at hn
  obtain ⟨fi, hfi, rfl⟩ := hn
  rw [List.mem_filter] at hfi
  exact h.other env _ (h.names fi hfi.1 (Or.inr (Or.inl hfi.2)))

theorem SameButUtility.det (h : SameButUtility m m' P) (env : Env) : detOf m' P env = detOf m P env := by
  unfold detOf
  rw [h.finfo]
  apply mapM_congr_option
  intro fi hfi
  rw [List.mem_filter, List.mem_filter] at hfi
  rw [h.other env _ (h.names fi hfi.1.1 (Or.inr (Or.inr hfi.1.2)))]

theorem SameButUtility.wrows (h : SameButUtility m m' P) (env : Env) : wrowsOf m' P env = wrowsOf m P env := by
  unfold wrowsOf
  rw [h.finfo]
  apply mapM_congr_option
  intro n hn
  rw [List.mem_map] at hn
  obtain ⟨fi, hfi, rfl⟩ := hn
  rw [List.mem_filter, List.mem_filter] at hfi
  rw [h.funcs _ (h.names fi hfi.1.1 (Or.inr (Or.inr hfi.1.2)))]

theorem SameButUtility.mkSpace (h : SameButUtility m m' P) (g : Groups) (t : Nat) :
    mkSpace m' P g t = mkSpace m P g t := by
  unfold Lcm.mkSpace
  have : (fun (s c : List (Name × Rat)) =>
      (allTrue m' P (toEnv (s ++ c) ++ periodEnv t) (((functionInfo m').filter (·.isFilter)).map (·.name))).getD false)
    = (fun (s c : List (Name × Rat)) =>
      (allTrue m P (toEnv (s ++ c) ++ periodEnv t) (((functionInfo m).filter (·.isFilter)).map (·.name))).getD false) := by
    funext s c
    rw [h.filters]
  simp only [this]

/-- last period: `(q, f) ↦ (a·q + b, f)` -/
theorem AffineUtility.uAndF_none (h : AffineUtility m m' P a b) (g : Groups) (t : Nat) (env0 : Env) :
    uAndF m' P g t none env0 = (uAndF m P g t none env0).map fun qf => (a * qf.1 + b, qf.2) := by
  rw [uAndF_none_eq, uAndF_none_eq, h.constraints, h.util]
  cases allTrue m P (env0 ++ periodEnv t) (constraintNames m) with
  | none => rfl
  | some f =>
    cases utilOf m P (env0 ++ periodEnv t) with
    | none => rfl
    | some u => rfl

/-- earlier periods: if the continuation array is the affine image with constant `c1`, the objective is the affine image
with constant `b + β·c1` -/
theorem AffineUtility.uAndF_some (h : AffineUtility m m' P a b) (hR : RowsSumToOne P) (g : Groups) (t : Nat)
    (V' V : Tensor Ext) (feas : List (List (Name × Rat))) (c1 : Rat) (hV : TEq a c1 V' V) (env0 : Env) :
    uAndF m' P g t (some (V', feas)) env0
      = (uAndF m P g t (some (V, feas)) env0).map fun qf => (a * qf.1 + (b + P.beta * c1), qf.2) := by
  rw [uAndF_some_eq, uAndF_some_eq, h.constraints, h.util, h.det, h.wrows]
  cases allTrue m P (env0 ++ periodEnv t) (constraintNames m) with
  | none => rfl
  | some f =>
    cases utilOf m P (env0 ++ periodEnv t) with
    | none => rfl
    | some u =>
      cases detOf m P (env0 ++ periodEnv t) with
      | none => rfl
      | some det =>
        cases hw : wrowsOf m P (env0 ++ periodEnv t) with
        | none => rfl
        | some wrows =>
          simp only [Option.bind_some, Option.map_some]
          have hsum := nodes_weight_sum wrows (wrowsOf_rows m P _ hR wrows hw)
          have hfold := foldlM_nodes_affine a c1 (fun x => vhat g feas V (det ++ toEnv x))
            (fun x => vhat g feas V' (det ++ toEnv x)) (fun x => vhat_affine a c1 g feas V' V hV _)
            (nodesOf wrows) 0 0 0 (by ring)
          rw [hfold, hsum]
          cases List.foldlM (fun ac (p : List (Name × Rat) × Rat) => do
              let vn ← vhat g feas V (det ++ toEnv p.1); pure (ac + p.2 * vn)) (0 : Rat) (nodesOf wrows) with
          | none => rfl
          | some ev =>
            simp only [Option.map_some, Option.bind_some]
            congr 2
            ring


/-! ### one period, then the whole horizon -/

theorem extOf_map (o : Option (Rat × Bool)) (a c : Rat) :
    extOf (o.map fun qf => (a * qf.1 + c, qf.2)) = Ext.affine a c (extOf o) := by
  cases o with
  | none => rfl
  | some qf => rfl

theorem feasibleOf_map (o : Option (Rat × Bool)) (a c : Rat) :
    feasibleOf (o.map fun qf => (a * qf.1 + c, qf.2)) = feasibleOf o := by
  cases o with
  | none => rfl
  | some qf => rfl

/-- the objective of `m'` is the affine image (constant `c`) of the objective of `m` -/
def ObjAffine (m m' : Model) (P : Params) (g : Groups) (t : Nat) (a c : Rat)
    (next next' : Option (Tensor Ext × List (List (Name × Rat)))) : Prop :=
  ∀ env0, uAndF m' P g t next' env0 = (uAndF m P g t next env0).map fun qf => (a * qf.1 + c, qf.2)

theorem ccvEnv_affine {g : Groups} {t : Nat} {c : Rat} {next next' : Option (Tensor Ext × List (List (Name × Rat)))}
    (ha : 0 < a) (hQ : ObjAffine m m' P g t a c next next') (env : Env) :
    ccvEnv m' P g t next' env = Ext.affine a c (ccvEnv m P g t next env) := by
  unfold ccvEnv
  rw [← maskedMax_affine a c ha, List.map_map]
  congr 1
  · apply List.map_congr_left
    intro cc _
    have := hQ (env ++ toEnv cc)
    simp only [Function.comp]
    rw [this, extOf_map]
  · apply List.map_congr_left
    intro cc _
    have := hQ (env ++ toEnv cc)
    rw [this, feasibleOf_map]

theorem solvePeriod_affine {g : Groups} {t : Nat} {c : Rat} {next next' : Option (Tensor Ext × List (List (Name × Rat)))}
    (ha : 0 < a) (hQ : ObjAffine m m' P g t a c next next') (sp : Space) :
    TEq a c (solvePeriod m' P g t sp next') (solvePeriod m P g t sp next) := by
  unfold solvePeriod
  simp only []
  split
  · have h0 : TEq a c (ccvSparse m' P g t sp next') (ccvSparse m P g t sp next) := by
      refine ⟨rfl, fun idx => ?_⟩
      cases idx with
      | nil => rfl
      | cons r rest => exact ccvEnv_affine ha hQ _
    exact ((h0.materialize.maxMid ha _ _).segmentMax ha _ _).materialize
  · have h0 : TEq a c (ccvDense m' P g t next') (ccvDense m P g t next) :=
      ⟨rfl, fun idx => ccvEnv_affine ha hQ _⟩
    exact (h0.materialize.maxMid ha _ _).materialize

/-- **C11, affine law, for the executable `solve`, every period**: with `t = T-1-j`, every entry `v` of the period-`t`
array becomes `a·v + b·(1 + β + … + β^j)`; `-inf` stays `-inf` -/
theorem solve_affine (h : AffineUtility m m' P a b) (ha : 0 < a) (hR : RowsSumToOne P) (j : Nat) (hj : j < m.nPeriods) :
    TEq a (b * geo P.beta (j + 1))
      ((solve m' P true).getD (m.nPeriods - 1 - j) default) ((solve m P true).getD (m.nPeriods - 1 - j) default) := by
  induction j with
  | zero =>
    have ht : m.nPeriods - 1 - 0 < m.nPeriods := by omega
    have ht' : m.nPeriods - 1 - 0 < m'.nPeriods := by rw [h.periods]; exact ht
    rw [solve_getD m P _ ht, solve_getD m' P _ ht', h.grp, h.mkSpace]
    have hn : nextOf m P (solve m P true) (m.nPeriods - 1 - 0) = none := by unfold nextOf; split <;> [omega; rfl]
    have hn' : nextOf m' P (solve m' P true) (m.nPeriods - 1 - 0) = none := by
      unfold nextOf; rw [h.periods]; split <;> [omega; rfl]
    rw [hn, hn']
    have hc : b * geo P.beta (0 + 1) = b := by simp [geo]
    rw [hc]
    exact solvePeriod_affine ha (fun env0 => h.uAndF_none _ _ env0) _
  | succ j ih =>
    have ihj := ih (by omega)
    have ht : m.nPeriods - 1 - (j + 1) < m.nPeriods := by omega
    have ht' : m.nPeriods - 1 - (j + 1) < m'.nPeriods := by rw [h.periods]; exact ht
    have hsucc : m.nPeriods - 1 - (j + 1) + 1 = m.nPeriods - 1 - j := by omega
    rw [solve_getD m P _ ht, solve_getD m' P _ ht', h.grp, h.mkSpace]
    have hn : nextOf m P (solve m P true) (m.nPeriods - 1 - (j + 1))
        = some ((solve m P true).getD (m.nPeriods - 1 - j) default, (mkSpace m P (groups m) (m.nPeriods - 1 - j)).feas) := by
      unfold nextOf; rw [hsucc]; split <;> [rfl; omega]
    have hn' : nextOf m' P (solve m' P true) (m.nPeriods - 1 - (j + 1))
        = some ((solve m' P true).getD (m.nPeriods - 1 - j) default, (mkSpace m P (groups m) (m.nPeriods - 1 - j)).feas) := by
      unfold nextOf; rw [h.periods, hsucc, h.grp, h.mkSpace]; split <;> [rfl; omega]
    rw [hn, hn']
    have hc : b * geo P.beta (j + 1 + 1) = b + P.beta * (b * geo P.beta (j + 1)) := by
      show b * (1 + P.beta * geo P.beta (j + 1)) = _; ring
    rw [hc]
    exact solvePeriod_affine ha (fun env0 => h.uAndF_some hR _ _ _ _ _ _ ihj env0) _

#print axioms solve_affine
end Lcm
