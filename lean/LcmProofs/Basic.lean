import LcmModel.Basic
import Mathlib.Tactic.Ring
import Mathlib.Tactic.FieldSimp
import Mathlib.Tactic.Linarith
import Mathlib.Algebra.Order.Field.Rat
import Mathlib.Data.Rat.Floor

namespace Lcm

theorem linCoord_grid (start stop : Rat) (n i : Nat) (hn : 2 ≤ n) (h : start < stop) :
    linCoord (linGrid start stop n i) start stop n = i := by
  unfold linCoord linGrid
  have h1 : (n : Rat) - 1 ≠ 0 := by
    have : (2 : Rat) ≤ n := by exact_mod_cast hn
    linarith
  have h2 : stop - start ≠ 0 := by linarith
  field_simp
  ring

end Lcm

namespace Lcm
#print axioms linCoord_grid
end Lcm
