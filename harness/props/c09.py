"""C09 - generated functions are pure: results depend only on the arguments of the call.

The history statement is trivial in the Lean model (the generated function *is* a function); its
content is whether the implementation has hidden state. Oracle, on one function object: a random
history of 5-9 calls interleaving two parameter sets, two batches of initial states, two seeds and
three leaf types; every solve answer must equal the Lean model's `solve` of the current arguments
(exact), every simulate answer must equal the answer of a fresh function object called once with the
same arguments; functions rebuilt from the same model give the same answers; `model.functions` and the
params passed in are unchanged; subprocesses under different PYTHONHASHSEED return bit-identical output.
"""
from __future__ import annotations

import copy
import json
import os
import random
import subprocess
import sys
from fractions import Fraction as Fr
from pathlib import Path

from common import REPO, fr, impl, impl_site
from dsl import params_impl, params_json
from gen import gen_initial_states, gen_params, nontrivial, signature
from pipeline import ImplFns, compare_value_arrays, frame_rows, init_impl, materialise_case, model_solve
from props.simcommon import FORCES, base_out

RULE = ("cases = generated dyadic specifications x random call histories (5-9 calls on one function object, interleaving 2 parameter "
        "sets x 2 initial batches x 2 seeds x leaf types float/numpy/jax x targets solve/simulate) + rebuilds + subprocess runs under "
        "PYTHONHASHSEED in {0, 1, 4711}; distinct = structural signature x history pattern; evaluations = calls compared")
ASSUMPTIONS = ["JIT caches, hash seeds and process boundaries are runtime behaviour outside the Lean model; they are covered by this differential run only"]
TRUSTED_EXTRA = ["C09: the proof part is order-independence of the name plumbing (C09_* theorems); hidden state of the implementation is covered by the differential histories only"]

CHILD = r'''
import sys, json
sys.path.insert(0, sys.argv[1])
from common import impl, fr
impl()
from pipeline import ImplFns, init_impl, unjson_params, frame_rows
from dsl import params_impl
from fractions import Fraction as Fr
job = json.loads(sys.stdin.read())
mj = job["model"]; P = unjson_params(job["params"])
fns = ImplFns(mj, jit=True)
V = fns.solve(params_impl(P))
init = {s: [Fr(x) for x in v] for s, v in job["init"].items()}
df = fns.simulate(params_impl(P), initial_states=init_impl(mj, init), vf_arr_list=V, seed=job["seed"])
import numpy as np
out = {"V": [[fr(float(x)) for x in np.asarray(v).ravel()] for v in V],
       "cols": sorted(df.columns), "frame": {c: [fr(float(x)) for x in np.asarray(df[c])] for c in df.columns},
       "template": json.dumps(fns.template, sort_keys=True, default=lambda a: list(np.asarray(a).shape))}
print("RESULT" + json.dumps(out))
'''


def cases(seed, tier):
    n = 20 if tier == "quick" else 200
    out = []
    for i in range(n):
        hs = [0, 1, 2, 3, 4711] if (i % 5 == 0) else []
        f = list(FORCES[i % len(FORCES)] or [])
        if hs:
            # set-iteration order matters where several names of one kind are collected: two continuous choices
            # ... or two/three stochastic states (keys are handed out per name)
            f = sorted(set([x for x in f if x != "nocc"] + (["cont2"] if (i // 5) % 2 == 0 else ["stoch3"])))
        out.append({"kind": "gen", "seed": seed * 1_000_003 + 55001 + i, "force": f, "n_params": 2, "budget": 2500, "hashseeds": hs})
    return out


def _frame_key(df):
    import numpy as np

    return {c: [fr(float(x)) for x in np.asarray(df[c])] for c in df.columns}


def _snapshot_params(p):
    import numpy as np

    if isinstance(p, dict):
        return {k: _snapshot_params(v) for k, v in p.items()}
    return (type(p).__name__, np.asarray(p).tolist())


def run_case(case):
    I = impl()
    np = I.np
    mj, meta, Ps, r = materialise_case(case)
    info = {"mj": mj, "meta": meta}
    out = base_out(info, case)
    Pa, Pb = Ps[0], Ps[1]
    for P in (Pa, Pb):
        Vm = model_solve(mj, P)
        if any(u for u in Vm["undef"]) or any(y == "-inf" for b in Vm["V"] for y in b["data"]):
            out["skipped"] = "unsupported (-inf value or undefined transition)"
            return out
    inits = [gen_initial_states(r, mj, 4, meta=meta), gen_initial_states(r, mj, 6, meta=meta)]
    seeds = [7, 8]
    vs = []
    evals = 0
    try:
        fns = ImplFns(mj, jit=True)
        model = fns.model
        fn_ids = {k: id(v) for k, v in model.functions.items()}
        fn_keys = list(model.functions)
        # reference answers from a fresh function object, one call per distinct argument tuple
        ref = ImplFns(mj, jit=True)
        ref_sim = {}
        Vref = {}
        for pi, P in enumerate((Pa, Pb)):
            Vref[pi] = ref.solve(params_impl(P))
            for ii in range(2):
                for si in range(2):
                    ref_sim[(pi, ii, si)] = _frame_key(ref.simulate(params_impl(P), initial_states=init_impl(mj, inits[ii]), vf_arr_list=Vref[pi], seed=seeds[si]))
        # the history on the first object
        hist = []
        shared = params_impl(Pa)          # one params dict object that is changed *in place* between calls
        # one initial_states dict object per batch, passed to every call of the history (a caller who keeps its inputs)
        init_objs = [init_impl(mj, x) for x in inits]
        init_snap = [_snapshot_params(x) for x in init_objs]
        init_keys = [list(x) for x in init_objs]
        for step in range(r.randint(5, 9)):
            pi, ii, si = r.randrange(2), r.randrange(2), r.randrange(2)
            leaf = r.choice(["float", "numpy", "jax"])
            target = r.choice(["solve", "simulate", "simulate", "solve_and_simulate"])
            hist.append((target, pi, ii, si, leaf))
            P = (Pa, Pb)[pi]
            params = params_impl(P, leaf)
            before = _snapshot_params(params)
            if target == "solve_and_simulate":
                # same dict object as in earlier calls, new values written into it
                fresh = params_impl(P)
                for k_, v_ in fresh.items():
                    if isinstance(v_, dict):
                        for kk_, vv_ in v_.items():
                            shared[k_][kk_] = vv_
                    else:
                        shared[k_] = v_
                df = fns.solve_and_simulate(shared, initial_states=init_objs[ii], seed=seeds[si])
                evals += 1
                if _frame_key(df) != ref_sim[(pi, ii, si)]:
                    vs.append({"clause": "a call returns the result determined by its own arguments", "detail": f"history {hist}: solve_and_simulate with a params dict changed in place differs from a fresh function object called with the same values"})
                if [_snapshot_params(x) for x in init_objs] != init_snap or [list(x) for x in init_objs] != init_keys:
                    vs.append({"clause": "initial_states passed in are not modified", "detail": f"history {hist}: the caller's initial_states dict changed during the call"})
                if vs:
                    break
                continue
            if target == "solve":
                V = [np.asarray(v) for v in fns.solve(params)]
                diffs, st = compare_value_arrays(V, model_solve(mj, P), mj["n_periods"])
                evals += 1
                if diffs:
                    vs.append({"clause": "a call returns the result determined by its own arguments", "detail": f"history {hist}: solve differs from the model: {diffs[0]['detail']}"})
            else:
                df = fns.simulate(params, initial_states=init_objs[ii], vf_arr_list=Vref[pi], seed=seeds[si])
                evals += 1
                if _frame_key(df) != ref_sim[(pi, ii, si)]:
                    vs.append({"clause": "a call returns the result determined by its own arguments", "detail": f"history {hist}: simulate differs from a fresh function object called with the same arguments"})
            if _snapshot_params(params) != before:
                vs.append({"clause": "params passed in are not modified", "detail": f"history {hist}"})
            if [_snapshot_params(x) for x in init_objs] != init_snap or [list(x) for x in init_objs] != init_keys:
                vs.append({"clause": "initial_states passed in are not modified", "detail": f"history {hist}: the caller's initial_states dict changed during the call"})
            if vs:
                break
        # rebuild from the same model object and compare
        from lcm.entry_point import get_lcm_function

        # the parameter template handed out by every build is the caller's to fill in place: a later build (of this or of another
        # specification) must neither return the same object nor touch what the caller wrote into an earlier one
        def _fill(t_, val):
            for k_ in t_:
                if k_ == "shocks":
                    continue
                if isinstance(t_[k_], dict):
                    for kk_ in t_[k_]:
                        t_[k_][kk_] = val
                else:
                    t_[k_] = val
        tA = fns.template
        _fill(tA, 0.625)
        snapA = _snapshot_params({k_: v_ for k_, v_ in tA.items() if k_ != "shocks"})
        _, tB = get_lcm_function(model, targets="solve")
        evals += 1
        if tB is tA or any(isinstance(tA.get(k_), dict) and tA[k_] is tB.get(k_) for k_ in tA):
            vs.append({"clause": "building the functions again from the same model gives the same results", "detail": "two builds return the same parameter-template object (or share a sub-dict)"})
        elif _snapshot_params({k_: v_ for k_, v_ in tA.items() if k_ != "shocks"}) != snapA:
            vs.append({"clause": "params passed in are not modified", "detail": "a later get_lcm_function call changed the values the caller had written into an earlier template"})
        else:
            flatB = [v_ for k_, v_ in tB.items() if k_ != "shocks" for v_ in (v_.values() if isinstance(v_, dict) else [v_])]
            if any(isinstance(x_, float) and x_ == 0.625 for x_ in flatB):
                vs.append({"clause": "building the functions again from the same model gives the same results", "detail": "the template of a fresh build already contains values written into the template of an earlier build"})

        # the template object of the first build now holds other values (0.625 everywhere, written above) and is NOT passed:
        # a call with separately built params - additional targets included - is determined by those params alone
        if not vs:
            from props.c13 import target_pool

            tg = target_pool(mj)
            _fill(fns.sim_template, 0.625)      # the template that came with the simulate function, edited by its owner as well
            if tg:
                want = _frame_key(ref.simulate(params_impl(Pa), initial_states=init_impl(mj, inits[0]), vf_arr_list=Vref[0], seed=seeds[0], additional_targets=tg))
                got = _frame_key(fns.simulate(params_impl(Pa), initial_states=init_impl(mj, inits[0]), vf_arr_list=Vref[0], seed=seeds[0], additional_targets=tg))
                evals += 1
                out["hist"]["targets_after_template_was_edited"] = 1
                if got != want:
                    vs.append({"clause": "a call returns the result determined by its own arguments",
                               "detail": f"simulate with additional targets {tg}: after other values were written into the (not passed) template object of this build, the frame differs from that of a fresh function object called with the same arguments"})
        # two parameter sets that differ far below printing precision (the x and x + h of a finite difference), array leaves:
        # the second call must be the result of *its* parameters
        if not vs:
            import copy as _copy

            for leaf in ("numpy", "jax"):
                p1 = params_impl(Pa, leaf)
                p2 = _copy.deepcopy(p1)
                mk = np.asarray if leaf == "numpy" else I.jnp.asarray
                p1["beta"] = mk(float(Pa["beta"]))
                p2["beta"] = mk(float(Pa["beta"]) + 2.0 ** -30)
                fns.solve_and_simulate(p1, initial_states=init_impl(mj, inits[0]), seed=seeds[0])
                got = _frame_key(fns.solve_and_simulate(p2, initial_states=init_impl(mj, inits[0]), seed=seeds[0]))
                want = _frame_key(ref.solve_and_simulate(p2, initial_states=init_impl(mj, inits[0]), seed=seeds[0]))
                evals += 1
                out["hist"]["nearby_params_array_leaves"] = 1
                if got != want:
                    vs.append({"clause": "a call returns the result determined by its own arguments",
                               "detail": f"solve_and_simulate with {leaf} array leaves: a call with beta + 2^-30 right after a call with beta differs from a fresh function object called with beta + 2^-30"})
                    break
        solve2, tmpl2 = get_lcm_function(model, targets="solve")
        V2 = [np.asarray(v) for v in solve2(params_impl(Pa))]
        evals += 1
        if any(not np.array_equal(a, np.asarray(b)) for a, b in zip(V2, Vref[0])):
            vs.append({"clause": "building the functions again from the same model gives the same results", "detail": "solve after rebuild differs"})
        if list(model.functions) != fn_keys or {k: id(v) for k, v in model.functions.items()} != fn_ids:
            vs.append({"clause": "the model object is not modified", "detail": f"model.functions keys/identities changed: {list(model.functions)}"})
        # other processes, other hash seeds
        outs = []
        for hs in case.get("hashseeds", []):
            env = dict(os.environ)
            env["PYTHONHASHSEED"] = str(hs)
            job = {"model": mj, "params": params_json(Pa), "init": {s: [str(x) for x in v] for s, v in inits[0].items()}, "seed": seeds[0]}
            p = subprocess.run([sys.executable, "-c", CHILD, str(Path(__file__).resolve().parent.parent)], input=json.dumps(job), capture_output=True, text=True, env=env, timeout=600)
            line = next((ln for ln in p.stdout.splitlines() if ln.startswith("RESULT")), None)
            if line is None:
                vs.append({"clause": "another process under another hash seed gives the same results", "detail": f"child under PYTHONHASHSEED={hs} failed: {p.stderr[-400:]}"})
                break
            outs.append((hs, json.loads(line[6:])))
            evals += 1
        for hs, o in outs:
            mine = {"V": [[fr(float(x)) for x in np.asarray(v).ravel()] for v in Vref[0]], "frame": ref_sim[(0, 0, 0)]}
            if o["V"] != mine["V"] or o["frame"] != mine["frame"]:
                vs.append({"clause": "another process under another hash seed gives the same results", "detail": f"PYTHONHASHSEED={hs}: output differs from the in-process result"})
            if o["template"] != outs[0][1]["template"]:
                vs.append({"clause": "another process under another hash seed gives the same results", "detail": f"PYTHONHASHSEED={hs}: params template differs"})
    except Exception as e:  # noqa: BLE001
        out["violations"].append({"clause": "generated functions run on a supported specification", "detail": f"{impl_site(e)}: {str(e)[:300]}", "key": f"raise:{impl_site(e)}"})
        return out
    out["evals"] = evals
    out["sig"] += "|" + ",".join(sorted({h[0] + h[4] for h in hist}))
    out["hist"]["history_len"] = len(hist)
    out["hist"]["subprocess_runs"] = len(case.get("hashseeds", []))
    for v in vs[:3]:
        v["key"] = "C09:" + v["clause"]
        out["violations"].append(v)
    out["sample"] = {"history": hist, "hashseeds": case.get("hashseeds", [])}
    return out
