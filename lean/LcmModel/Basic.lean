namespace Lcm

/-- linspace coordinate -/
def linCoord (v start stop : Rat) (n : Nat) : Rat :=
  (v - start) / ((stop - start) / ((n : Rat) - 1))

def linGrid (start stop : Rat) (n : Nat) (i : Nat) : Rat :=
  start + (i : Rat) * ((stop - start) / ((n : Rat) - 1))

/-- clipped floor index and weights as in `_compute_indices_and_weights` -/
def lowerIndex (c : Rat) (size : Nat) : Int :=
  max 0 (min c.floor ((size : Int) - 2))

def interp1 (xs : List Rat) (c : Rat) : Rat :=
  let lo := lowerIndex c xs.length
  let w := c - (lo : Rat)
  (1 - w) * xs.getD lo.toNat 0 + w * xs.getD (lo.toNat + 1) 0

end Lcm
