import LcmModel.SimStep
import LcmProofs.SolveStep
namespace Lcm
variable {C E Y : Type}

theorem firstTrue_spec (bs : List Bool) (h : ∃ i, ∃ hi : i < bs.length, bs[i] = true) :
    ∃ hj : firstTrue bs < bs.length, bs[firstTrue bs] = true := by
  obtain ⟨i, hi, hbi⟩ := h
  have hlt : bs.findIdx (· = true) < bs.length := by
    apply List.findIdx_lt_length_of_exists
    exact ⟨bs[i], List.getElem_mem hi, by simpa using hbi⟩
  have hget := List.findIdx_getElem (w := hlt)
  have e : firstTrue bs = bs.findIdx (· = true) := by
    unfold firstTrue
    simp only [hlt, if_true]
  refine ⟨by rw [e]; exact hlt, ?_⟩
  simp only [e]
  simpa using hget

/-- Lemma A: if the masked max is not −inf, `argmax` returns an unmasked position whose element
equals the max. -/
theorem argmaxBlock_spec (xs : List Ext) (mask : List Bool) (hlen : xs.length = mask.length)
    (hm : maskedMax xs mask ≠ .ninf) :
    ∃ hj : (argmaxBlock xs mask).1 < xs.length,
      mask[(argmaxBlock xs mask).1]'(by omega) = true ∧
      xs[(argmaxBlock xs mask).1] = maskedMax xs mask := by
  -- the max is a member of the unmasked values
  have hne : ((xs.zip mask).filterMap fun p => if p.2 then some p.1 else none) ≠ [] := by
    intro h; apply hm; simp [maskedMax, h, foldMax_nil]
  have hmem := foldMax_mem _ hne
  obtain ⟨p, hp, hpv⟩ := List.mem_filterMap.mp hmem
  obtain ⟨i, hi, hpi⟩ := List.getElem_of_mem hp
  have hi' : i < xs.length := by simp at hi; omega
  have hi'' : i < mask.length := by omega
  have hp1 : p = (xs[i], mask[i]) := by rw [← hpi]; simp
  subst hp1
  have hmask : mask[i] = true := by
    by_cases h : mask[i] = true
    · exact h
    · simp [h] at hpv
  have hval : xs[i] = maskedMax xs mask := by
    simp [hmask] at hpv; exact hpv
  -- so the hit vector has a True at i
  let hits := (xs.zip mask).map fun p => decide (p.1 = maskedMax xs mask) && p.2
  have hhl : hits.length = xs.length := by simp [hits]; omega
  have hex : ∃ j, ∃ hj : j < hits.length, hits[j] = true := by
    refine ⟨i, by omega, ?_⟩
    simp [hits, hmask, hval]
  obtain ⟨hj, hjt⟩ := firstTrue_spec hits hex
  have hjx : firstTrue hits < xs.length := by omega
  refine ⟨by simpa [argmaxBlock] using hjx, ?_⟩
  have : hits[firstTrue hits] = (decide (xs[firstTrue hits] = maskedMax xs mask) && mask[firstTrue hits]'(by omega)) := by
    simp [hits]
  rw [this] at hjt
  simp only [Bool.and_eq_true, decide_eq_true_eq] at hjt
  exact ⟨by simpa [argmaxBlock] using hjt.2, by simpa [argmaxBlock] using hjt.1⟩

#print axioms argmaxBlock_spec
end Lcm

namespace Lcm

theorem foldl_natmax_mem_or (xs : List Nat) (a : Nat) :
    xs.foldl Nat.max a = a ∨ xs.foldl Nat.max a ∈ xs := by
  induction xs generalizing a with
  | nil => simp
  | cons x xs ih =>
    simp only [List.foldl_cons]
    rcases ih (Nat.max a x) with h | h
    · rw [h]
      rcases Nat.le_total a x with hax | hxa
      · right; simp [Nat.max_def, hax]
      · by_cases hxa' : a ≤ x
        · right; simp [Nat.max_def, hxa']
        · left; simp [Nat.max_def, hxa']
    · right; exact List.mem_cons_of_mem _ h

theorem foldl_natmax_ge (xs : List Nat) (a : Nat) : a ≤ xs.foldl Nat.max a := by
  induction xs generalizing a with
  | nil => simp
  | cons x xs ih =>
    simp only [List.foldl_cons]
    exact Nat.le_trans (Nat.le_max_left a x) (ih _)

/-- the largest element of a non-empty list of naturals (fold from 0) is a member -/
theorem foldl_natmax_mem (xs : List Nat) (h : xs ≠ []) : xs.foldl Nat.max 0 ∈ xs := by
  rcases foldl_natmax_mem_or xs 0 with h0 | hm
  · -- the max is 0: then every element is 0, in particular the head
    cases xs with
    | nil => exact absurd rfl h
    | cons x xs =>
      have : x ≤ (x :: xs).foldl Nat.max 0 := by
        simp only [List.foldl_cons]
        exact Nat.le_trans (Nat.le_max_right 0 x) (foldl_natmax_ge xs _)
      rw [h0] at this
      have hx : x = 0 := by omega
      rw [h0, hx]; simp
  · exact hm

/-- Lemma C: for a non-empty segment, `segment_argmax` returns a row of that segment whose value
is the segment maximum. -/
theorem segArgmaxAt_spec (vals : List Ext) (segIds : List Nat) (hlen : vals.length = segIds.length)
    (k : Nat) (hne : ∃ r, ∃ hr : r < segIds.length, segIds[r] = k) :
    ∃ hr : (segArgmaxAt vals segIds k).1 < vals.length,
      segIds[(segArgmaxAt vals segIds k).1]'(by omega) = k ∧
      vals[(segArgmaxAt vals segIds k).1] = segMaxAt vals segIds k := by
  obtain ⟨r1, hr1, hs1⟩ := hne
  -- the segment's value list is non-empty, so its max is one of its members
  have hL : ((vals.zip segIds).filterMap fun p => if p.2 = k then some p.1 else none) ≠ [] := by
    intro h
    have hmem : (vals[r1]'(by omega), segIds[r1]) ∈ vals.zip segIds := by
      have : (vals.zip segIds)[r1]'(by simp; omega) = (vals[r1]'(by omega), segIds[r1]) := by simp
      rw [← this]; exact List.getElem_mem _
    have : vals[r1]'(by omega) ∈ ((vals.zip segIds).filterMap fun p => if p.2 = k then some p.1 else none) :=
      List.mem_filterMap.mpr ⟨_, hmem, by simp [hs1]⟩
    rw [h] at this; simp at this
  have hmem := foldMax_mem _ hL
  obtain ⟨p, hp, hpv⟩ := List.mem_filterMap.mp hmem
  obtain ⟨r0, hr0, hpr0⟩ := List.getElem_of_mem hp
  have hr0v : r0 < vals.length := by simp at hr0; omega
  have hp1 : p = (vals[r0], segIds[r0]'(by omega)) := by rw [← hpr0]; simp
  subst hp1
  have hseg0 : segIds[r0]'(by omega) = k := by
    by_cases h : segIds[r0]'(by omega) = k
    · exact h
    · simp [h] at hpv
  have hval0 : vals[r0] = segMaxAt vals segIds k := by
    simp [hseg0] at hpv; exact hpv
  -- hence r0 is a hit, the hit list is non-empty, and its maximum is a hit
  let hits := (List.range vals.length).filter fun r =>
    decide (segIds.getD r (k + 1) = k) && decide (vals.getD r .ninf = segMaxAt vals segIds k)
  have hr0hit : r0 ∈ hits := by
    simp only [hits, List.mem_filter, List.mem_range, Bool.and_eq_true, decide_eq_true_eq]
    refine ⟨hr0v, ?_, ?_⟩
    · rw [← List.getElem_eq_getD (h := by omega)]; exact hseg0
    · rw [← List.getElem_eq_getD (h := hr0v)]; exact hval0
  have hhits : hits ≠ [] := by intro h; rw [h] at hr0hit; simp at hr0hit
  have hstar := foldl_natmax_mem hits hhits
  have hstar' : (segArgmaxAt vals segIds k).1 ∈ hits := by simpa [segArgmaxAt, hits] using hstar
  simp only [hits, List.mem_filter, List.mem_range, Bool.and_eq_true, decide_eq_true_eq] at hstar'
  obtain ⟨hlt, hs, hv⟩ := hstar'
  refine ⟨hlt, ?_, ?_⟩
  · rw [← List.getElem_eq_getD (h := by omega)] at hs; exact hs
  · rw [← List.getElem_eq_getD (h := hlt)] at hv; exact hv

#print axioms segArgmaxAt_spec
end Lcm

namespace Lcm
variable {C E Y : Type}

theorem maskedMax_all_true (xs : List Ext) :
    maskedMax xs (xs.map fun _ => true) = foldMax xs := by
  unfold maskedMax
  congr 1
  induction xs with
  | nil => simp
  | cons x xs ih => simp [List.zip_cons_cons, List.filterMap_cons, ih]

/-- the part of `vImpl_isMax` after the segment max has been resolved, for a fixed state `s` -/
theorem denseSeg_isMax {S : Type} (scGrid : List C) (dcGrid : List E) (ccGrid : List Y)
    (filt : S → C → Bool) (q : S → C → E → Y → Rat) (feas : S → C → E → Y → Bool) (s : S) :
    IsMaxOver
      (fun x : C × (E × Y) =>
        (x.1 ∈ scGrid ∧ filt s x.1 = true) ∧
          (x.2.1 ∈ dcGrid ∧ (x.2.2 ∈ ccGrid ∧ feas s x.1 x.2.1 x.2.2 = true)))
      (fun x => q s x.1 x.2.1 x.2.2)
      (foldMax ((scGrid.filter (filt s)).map fun c => denseMaxAt dcGrid ccGrid q feas (s, c))) := by
  refine isMaxOver_nested scGrid (fun c => c ∈ scGrid ∧ filt s c = true) (fun _ h => h.1)
    (fun c (x : E × Y) => x.1 ∈ dcGrid ∧ (x.2 ∈ ccGrid ∧ feas s c x.1 x.2 = true))
    (fun c x => q s c x.1 x.2) (fun c => denseMaxAt dcGrid ccGrid q feas (s, c)) ?_
    (scGrid.filter (filt s)) (fun c => by simp [List.mem_filter])
  intro c _
  unfold denseMaxAt
  refine isMaxOver_nested dcGrid (fun e => e ∈ dcGrid) (fun _ h => h)
    (fun e (y : Y) => y ∈ ccGrid ∧ feas s c e y = true)
    (fun e y => q s c e y) (fun e => ccvAt ccGrid q feas s c e) ?_ dcGrid (fun e => Iff.rfl)
  intro e _
  unfold ccvAt
  rw [maskedMax_map ccGrid (fun y => q s c e y) (fun y => feas s c e y)]
  exact isMaxOver_filter ccGrid (fun y => feas s c e y) (fun y => q s c e y)

/-- segment max when the segment ids are the (distinct) agent ids themselves, as in
`create_choice_segments` (`state_ids[mask]`) -/
theorem segMaxAt_combos_ids (ss : List Nat) (hnd : ss.Nodup) (scGrid : List C)
    (filt : Nat → C → Bool) (g : Nat × C → Ext) (k : Nat) (hk : k ∈ ss) :
    segMaxAt ((combos ss scGrid filt).map g) ((combos ss scGrid filt).map (·.1)) k
      = foldMax ((scGrid.filter (filt k)).map fun c => g (k, c)) := by
  induction ss with
  | nil => simp at hk
  | cons s rest ih =>
    rw [combos_cons]
    have hnd' := (List.nodup_cons.mp hnd)
    simp only [List.map_append, List.map_map]
    unfold segMaxAt
    rw [List.zip_append (by simp), List.filterMap_append, foldMax_append]
    have hblock : (List.map ((fun x => x.1) ∘ fun c => (s, c)) (scGrid.filter (filt s)))
        = List.replicate (scGrid.filter (filt s)).length s := by
      simp [Function.comp_def, List.map_const']
    rw [hblock]
    by_cases hsk : s = k
    · subst hsk
      rw [filterMap_zip_eq _ _ _ (by simp)]
      rw [filterMap_zip_ne _ _ s (by
        intro x hx
        obtain ⟨p, hp, hpx⟩ := List.mem_map.mp hx
        have : p.1 ∈ rest := by
          simp only [combos, List.mem_filter, List.mem_flatMap, List.mem_map] at hp
          obtain ⟨⟨a, ha, c, _, hac⟩, _⟩ := hp
          rw [← hac]; exact ha
        intro hxs; rw [← hpx] at hxs; rw [hxs] at this; exact hnd'.1 this)]
      simp [foldMax_nil, Ext.max_ninf_right, Function.comp_def]
    · rw [filterMap_zip_ne _ (List.replicate _ s) k (by
        intro x hx; have := (List.mem_replicate.mp hx).2; omega)]
      simp only [foldMax_nil, Ext.max_ninf_left]
      have hk' : k ∈ rest := by
        rcases List.mem_cons.mp hk with h | h
        · exact absurd h.symm hsk
        · exact h
      have := ih hnd'.2 hk'
      unfold segMaxAt at this
      exact this

#print axioms segMaxAt_combos_ids
end Lcm

namespace Lcm
variable {C E Y : Type}

theorem mem_combos {S : Type} (ss : List S) (sc : List C) (filt : S → C → Bool) (p : S × C)
    (h : p ∈ combos ss sc filt) : p.1 ∈ ss ∧ p.2 ∈ sc ∧ filt p.1 p.2 = true := by
  simp only [combos, List.mem_filter, List.mem_flatMap, List.mem_map] at h
  obtain ⟨⟨a, ha, c, hc, hac⟩, hf⟩ := h
  subst hac
  exact ⟨ha, hc, hf⟩

theorem argmaxBlock_snd (xs : List Ext) (mask : List Bool) : (argmaxBlock xs mask).2 = maskedMax xs mask := rfl
theorem segArgmaxAt_snd (vals : List Ext) (ids : List Nat) (k : Nat) :
    (segArgmaxAt vals ids k).2 = segMaxAt vals ids k := rfl

/-- **R2, decision of one agent in one period** (prototype). With `n` agents whose filters,
constraints and objectives are `filt i`, `feas i`, `q i`, agent `k`'s reported value is the maximum
over all its feasible grid choice combinations, and whenever that maximum is not −inf the reported
(restricted, unrestricted-discrete, continuous) choice is on the grids, passes the filter and the
constraints, and attains it — whatever the other agents in the batch are. -/
theorem simChoice_spec [Inhabited C] [Inhabited E] [Inhabited Y] (n : Nat) (scGrid : List C)
    (dcGrid : List E) (ccGrid : List Y) (filt : Nat → C → Bool) (q : Nat → C → E → Y → Rat)
    (feas : Nat → C → E → Y → Bool) (k : Nat) (hk : k < n) :
    let out := simChoice n scGrid dcGrid ccGrid filt q feas k
    IsMaxOver
      (fun x : C × (E × Y) =>
        (x.1 ∈ scGrid ∧ filt k x.1 = true) ∧
          (x.2.1 ∈ dcGrid ∧ (x.2.2 ∈ ccGrid ∧ feas k x.1 x.2.1 x.2.2 = true)))
      (fun x => q k x.1 x.2.1 x.2.2) out.2.2.2
    ∧ (out.2.2.2 ≠ .ninf →
        out.1 ∈ scGrid ∧ filt k out.1 = true ∧ out.2.1 ∈ dcGrid ∧ out.2.2.1 ∈ ccGrid ∧
        feas k out.1 out.2.1 out.2.2.1 = true ∧
        out.2.2.2 = .fin (q k out.1 out.2.1 out.2.2.1)) := by
  intro out
  -- names for the pieces of simChoice
  let rows := combos (List.range n) scGrid filt
  let contPol := fun (r : Nat × C) (e : E) =>
    argmaxBlock (ccGrid.map fun y => Ext.fin (q r.1 r.2 e y)) (ccGrid.map fun y => feas r.1 r.2 e y)
  let densePol := fun (r : Nat × C) =>
    argmaxBlock (dcGrid.map fun e => (contPol r e).2) (dcGrid.map fun _ => true)
  have hcont : ∀ r e, (contPol r e).2 = ccvAt ccGrid q feas r.1 r.2 e := fun _ _ => rfl
  have hdense : ∀ r, (densePol r).2 = denseMaxAt dcGrid ccGrid q feas r := by
    intro r
    show maskedMax (dcGrid.map fun e => (contPol r e).2) (dcGrid.map fun _ => true) = _
    have : (dcGrid.map fun _ => true) = ((dcGrid.map fun e => (contPol r e).2).map fun _ => true) := by
      simp
    rw [this, maskedMax_all_true]; rfl
  have hvals : (rows.map fun r => (densePol r).2) = rows.map (denseMaxAt dcGrid ccGrid q feas) := by
    simp [hdense]
  have hv : out.2.2.2 = foldMax ((scGrid.filter (filt k)).map fun c =>
      denseMaxAt dcGrid ccGrid q feas (k, c)) := by
    show (segArgmaxAt (rows.map fun r => (densePol r).2) (rows.map (·.1)) k).2 = _
    rw [segArgmaxAt_snd, hvals]
    exact segMaxAt_combos_ids (List.range n) List.nodup_range scGrid filt _ k (List.mem_range.mpr hk)
  refine ⟨by rw [hv]; exact denseSeg_isMax scGrid dcGrid ccGrid filt q feas k, ?_⟩
  intro hfin
  -- the segment of agent k is non-empty, otherwise the value would be −inf
  have hseg : scGrid.filter (filt k) ≠ [] := by
    intro h; apply hfin; rw [hv, h]; rfl
  obtain ⟨c0, hc0⟩ := List.exists_mem_of_ne_nil _ hseg
  have hrow0 : (k, c0) ∈ rows := by
    simp only [rows, combos, List.mem_filter, List.mem_flatMap, List.mem_map, List.mem_range]
    exact ⟨⟨k, hk, c0, (List.mem_filter.mp hc0).1, rfl⟩, (List.mem_filter.mp hc0).2⟩
  obtain ⟨r0, hr0, hr0e⟩ := List.getElem_of_mem hrow0
  have hne : ∃ r, ∃ hr : r < (rows.map (·.1)).length, (rows.map (·.1))[r] = k :=
    ⟨r0, by simpa using hr0, by simp [hr0e]⟩
  obtain ⟨hrs, hsegk, hvalk⟩ := segArgmaxAt_spec (rows.map fun r => (densePol r).2) (rows.map (·.1))
    (by simp) k hne
  -- the selected row
  set rStar := (segArgmaxAt (rows.map fun r => (densePol r).2) (rows.map (·.1)) k).1 with hrStar
  have hrs' : rStar < rows.length := by simpa using hrs
  have hrow : rows.getD rStar default = rows[rStar] := (List.getElem_eq_getD (h := hrs') default).symm
  have hrowk : (rows[rStar]).1 = k := by simpa using hsegk
  have hmemrow : rows[rStar] ∈ rows := List.getElem_mem hrs'
  obtain ⟨rc, hrc⟩ : ∃ rc, rows[rStar] = (k, rc) := ⟨(rows[rStar]).2, by rw [← hrowk]⟩
  rw [hrc] at hmemrow
  have hrowfilt := mem_combos _ _ _ _ hmemrow
  have hrow' : rows.getD rStar default = (k, rc) := by rw [hrow, hrc]
  -- its dense value equals the reported value, hence is finite
  have hdv : (densePol (k, rc)).2 = out.2.2.2 := by
    have : (rows.map fun r => (densePol r).2)[rStar]'(by simpa using hrs') = (densePol rows[rStar]).2 := by simp
    rw [← hrc, ← this, hvalk]; rfl
  have hdfin : maskedMax (dcGrid.map fun e => (contPol (k, rc) e).2) (dcGrid.map fun _ => true) ≠ .ninf := by
    have : (densePol (k, rc)).2 ≠ .ninf := by rw [hdv]; exact hfin
    exact this
  obtain ⟨hej, _, hev⟩ := argmaxBlock_spec _ _ (by simp) hdfin
  set eIdx := (densePol (k, rc)).1 with heIdx
  have heIdx' : eIdx < dcGrid.length := by simpa using hej
  have he : dcGrid.getD eIdx default = dcGrid[eIdx] := (List.getElem_eq_getD (h := heIdx') default).symm
  have hecv : (contPol (k, rc) dcGrid[eIdx]).2 = out.2.2.2 := by
    have h1 : (dcGrid.map fun e => (contPol (k, rc) e).2)[eIdx]'(by simpa using heIdx') =
        (contPol (k, rc) dcGrid[eIdx]).2 := by simp
    rw [← h1, ← hdv]
    exact hev
  have hcfin : maskedMax (ccGrid.map fun y => Ext.fin (q k rc dcGrid[eIdx] y))
      (ccGrid.map fun y => feas k rc dcGrid[eIdx] y) ≠ .ninf := by
    have : (contPol (k, rc) dcGrid[eIdx]).2 ≠ .ninf := by rw [hecv]; exact hfin
    exact this
  obtain ⟨hyj, hym, hyv⟩ := argmaxBlock_spec _ _ (by simp) hcfin
  set yIdx := (contPol (k, rc) dcGrid[eIdx]).1 with hyIdx
  have hyIdx' : yIdx < ccGrid.length := by simpa using hyj
  have hy : ccGrid.getD yIdx default = ccGrid[yIdx] := (List.getElem_eq_getD (h := hyIdx') default).symm
  -- unfold what `out` is
  have hout1 : out.1 = rc := by
    show (rows.getD rStar default).2 = _; rw [hrow']
  have hout2 : out.2.1 = dcGrid[eIdx] := by
    show dcGrid.getD (densePol (rows.getD rStar default)).1 default = _
    rw [hrow']; exact he
  have hout3 : out.2.2.1 = ccGrid[yIdx] := by
    show ccGrid.getD (contPol (rows.getD rStar default)
      (dcGrid.getD (densePol (rows.getD rStar default)).1 default)).1 default = _
    rw [hrow', he]; exact hy
  rw [hout1, hout2, hout3]
  refine ⟨hrowfilt.2.1, hrowfilt.2.2, List.getElem_mem _, List.getElem_mem _, ?_, ?_⟩
  · have := hym
    simp only [List.getElem_map] at this
    exact this
  · have h1 := hyv
    simp only [List.getElem_map] at h1
    rw [← hecv]
    exact h1.symm

#print axioms simChoice_spec
end Lcm
