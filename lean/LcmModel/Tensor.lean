namespace Lcm

/-- Function-based tensor: shape plus index function. -/
structure Tensor (α : Type) where
  shape : List Nat
  get : List Nat → α

/-- all multi-indices of a shape in row-major order -/
def allIdx : List Nat → List (List Nat)
  | [] => [[]]
  | n :: s => (List.range n).flatMap fun i => (allIdx s).map (i :: ·)

/-- row-major flat position -/
def ravel : List Nat → List Nat → Nat
  | [], _ => 0
  | _ :: _, [] => 0
  | _ :: s, i :: is => i * s.prod + ravel s is

def InBounds : List Nat → List Nat → Prop
  | [], [] => True
  | n :: s, i :: is => i < n ∧ InBounds s is
  | _, _ => False

def Tensor.toFlat {α} (t : Tensor α) : List α := (allIdx t.shape).map t.get

/-- materialise: evaluate every entry once, then read by flat position -/
def Tensor.materialize {α} [Inhabited α] (t : Tensor α) : Tensor α :=
  let data := t.toFlat.toArray
  { shape := t.shape, get := fun idx => data[ravel t.shape idx]! }

inductive Ext where
  | ninf
  | fin (q : Rat)
deriving DecidableEq, Repr

def Ext.max : Ext → Ext → Ext
  | .ninf, b => b
  | a, .ninf => a
  | .fin a, .fin b => .fin (if a ≤ b then b else a)

def foldMax (xs : List Ext) : Ext := xs.foldl Ext.max .ninf

/-- reduce (max) over the axes at positions [k, k+m) -/
def Tensor.maxMid (t : Tensor Ext) (k m : Nat) : Tensor Ext :=
  { shape := t.shape.take k ++ t.shape.drop (k + m)
    get := fun idx =>
      foldMax ((allIdx ((t.shape.drop k).take m)).map fun j => t.get (idx.take k ++ j ++ idx.drop k)) }

/-- segment max over a list (documented semantics of `jax.ops.segment_max` on the leading axis):
max of the entries whose segment id is `k`, −inf for an empty segment -/
def segMaxAt (vals : List Ext) (segIds : List Nat) (k : Nat) : Ext :=
  foldMax ((vals.zip segIds).filterMap fun p => if p.2 = k then some p.1 else none)

def Tensor.segmentMax (t : Tensor Ext) (segIds : List Nat) (num : Nat) : Tensor Ext :=
  { shape := num :: t.shape.tail
    get := fun idx => match idx with
      | [] => .ninf
      | s :: rest => segMaxAt ((List.range (t.shape.headD 0)).map fun r => t.get (r :: rest)) segIds s }

end Lcm
