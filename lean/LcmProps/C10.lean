import LcmProofs.Laws
import LcmProofs.Congr
import LcmProofs.FuncPerm
import LcmProofs.EnvPerm
import LcmProofs.SpecPerm
import LcmProofs.ChoicePerm
import LcmProofs.FuncOrder
import LcmProofs.FilterConstraint
import LcmProps.C01
namespace Lcm

/-! # C10 — equivalent model specifications yield equal solutions (partial)

Proved at the specification level: the value of a state is a maximum over a *set* of admissible choices
(`IsMaxOver`, order-free), so it cannot depend on enumeration order, on how a restriction is classified, or on
always-true restrictions; and the by-name evaluation of the model functions reads environments only through
lookups, so the order of declarations / of arguments is irrelevant.

Proved for the executable `solve` itself, **last period, layout re-indexing included**
(`C10_last_period_entries_agree_restricted` / `_unrestricted`): for two specifications that declare the same states,
choices and functions in different orders, the stored entries of the two last-period arrays that belong to the same
named state are equal - whatever axes, feasible-ranks and group orders the two layouts have. The proof goes through
the specification level: each entry is `specV` of its state (`C01_entry_eq_spec_*`), and `specV … none` is invariant
under permuting declarations (`C10_last_period_value_of_state`: enumeration order by `assignments_perm`, lookups by
`envEq_of_perm`, function lookup by `find?_func_perm`, conjunction order by `allTrue_perm`).

Proved for **every period** when the states keep their order (`C10_choice_and_function_order_irrelevant`, further down):
permuting the choices and the functions leaves all arrays identical.

Not proved in Lean (covered by the metamorphic correspondence only): permuted *states* in earlier periods - it needs,
in addition, that the two continuation functions `vhat` agree as functions of the named state, i.e. invariance of the
multilinear interpolation under permuting continuous axes jointly with the feasible-rank re-indexing - and consistent
renaming (needs a commutation lemma for every name-handling function: `next_` prefix, `_filter` / `_constraint`
suffixes). -/

/-- the value is determined by the admissible set and the objective on it: two specifications with the same
admissible choices and the same objective have the same value at that state -/
theorem C10_same_set_same_value {X : Type} {P P' : X → Prop} {f f' : X → Rat} {v v' : Ext}
    (hv : IsMaxOver P f v) (hv' : IsMaxOver P' f' v') (hP : ∀ x, P x ↔ P' x) (hf : ∀ x, P x → f x = f' x) : v = v' :=
  (hv.congr hP hf).unique hv'

/-- permuting the enumeration order of the choice grid (declaration order of the choices, order of the grid
product) does not change the value -/
theorem C10_choice_order_irrelevant {X : Type} (xs ys : List X) (h : xs.Perm ys) (adm : X → Bool)
    (u cont : X → Rat) (β : Rat) : bellmanStep xs adm u cont β = bellmanStep ys adm u cont β :=
  bellmanStep_perm xs ys h adm u cont β

/-- adding a constraint or filter that is always true leaves every value unchanged -/
theorem C10_true_restriction {X : Type} (xs : List X) (adm tr : X → Bool) (htr : ∀ x ∈ xs, tr x = true)
    (u cont : X → Rat) (β : Rat) :
    bellmanStep xs (fun x => adm x && tr x) u cont β = bellmanStep xs adm u cont β :=
  bellmanStep_true_restriction xs adm tr htr u cont β

/-- the same restriction expressed as a filter (applied when the space is built) or as a constraint (applied
as a mask when maximising) gives the same value at every state that remains in the space -/
theorem C10_filter_vs_constraint {X : Type} (xs : List X) (r1 r2 : X → Bool) (u cont : X → Rat) (β : Rat) :
    bellmanStep (xs.filter r1) r2 u cont β = bellmanStep (xs.filter r2) r1 u cont β := by
  obtain ⟨h1, h2⟩ := bellmanStep_restrictions xs r1 r2 u cont β
  rw [h1, h2]

/-- the order in which variables are declared / arguments are collected is irrelevant to every model
function: by-name evaluation reads the environment only through lookups -/
theorem C10_env_order_irrelevant (m : Model) (P : Params) (g : Groups) (t : Nat)
    (next : Option (Tensor Ext × List (List (Name × Rat)))) (e e' : Env) (h : EnvEq e e') :
    uAndF m P g t next e = uAndF m P g t next e' := uAndF_congr_env m P g t next e e' h

/-- permuting the declaration order of the **functions** does not change the value of any model function (names are
dict keys, hence distinct): utility, constraints, filters, transitions and auxiliary functions evaluate alike -/
theorem C10_function_order_irrelevant (m : Model) (fs' : List Func) (hp : m.functions.Perm fs')
    (hnd : (m.functions.map (·.name)).Nodup) (P : Params) (fuel : Nat) (e : Env) (fname : Name) :
    callF m P fuel e fname = callF { m with functions := fs' } P fuel e fname :=
  callF_perm_functions m fs' hp hnd P fuel e fname

/-- permuting the declaration order of the **variables** permutes the (name, value) lists that environments are
built from; with distinct names no lookup changes -/
theorem C10_variable_order_irrelevant (a b : List (Name × Rat)) (hp : a.Perm b) (hnd : (a.map (·.1)).Nodup) :
    EnvEq (toEnv a) (toEnv b) := envEq_of_perm a b hp hnd

/-- the combined filter / constraint is a conjunction: the order of the functions in the dict is irrelevant
(stated for two restrictions; `allTrue` folds `&&` over the list) -/
theorem C10_conjunction_order (a b : Bool) : (true && a && b) = (true && b && a) := by
  cases a <;> cases b <;> rfl

/-- **last-period value of a named state**: two specifications declaring the same states, choices and functions in
different orders give the same value to the same state -/
theorem C10_last_period_value_of_state {m m' : Model} (h : PermOf m m') (hnd : (m.functions.map (·.name)).Nodup)
    (P : Params) (g g' : Groups) (t : Nat) (st st' : List (Name × Rat)) (hst : st.Perm st')
    (hkeys : (st.map (·.1) ++ m.choices.map (·.1)).Nodup) :
    specV m P g t none st = specV m' P g' t none st' :=
  specV_last_perm h hnd P g g' t st st' hst hkeys

theorem PermOf.names_nodup {m m' : Model} (h : PermOf m m') (hnd : ((m.states ++ m.choices).map (·.1)).Nodup) :
    ((m'.states ++ m'.choices).map (·.1)).Nodup :=
  (((h.states.append h.choices).map (·.1)).nodup_iff).mp hnd

theorem nextOf_last (m : Model) (P : Params) (V : List (Tensor Ext)) (t : Nat) (ht : t + 1 = m.nPeriods) :
    nextOf m P V t = none := by
  unfold nextOf
  split
  · omega
  · rfl

/-- **the last-period arrays of `solve`, layout re-indexing included** (both specifications have filter-restricted
variables): entries that belong to the same named state are equal -/
theorem C10_last_period_entries_agree_restricted {m m' : Model} (h : PermOf m m')
    (hfn : (m.functions.map (·.name)).Nodup) (hnd : ((m.states ++ m.choices).map (·.1)).Nodup)
    (P : Params) (t : Nat) (ht : t + 1 = m.nPeriods)
    (hsparse : (!((groups m).sS.isEmpty && (groups m).sC.isEmpty)) = true)
    (hsparse' : (!((groups m').sS.isEmpty && (groups m').sC.isEmpty)) = true)
    (k : Nat) (hk : k < (feasOf m P t).length) (dIdx xIdx : List Nat)
    (hd : InBounds (sizes (groups m).dS) dIdx) (hx : InBounds (sizes (cStateGrids (groups m))) xIdx)
    (k' : Nat) (hk' : k' < (feasOf m' P t).length) (dIdx' xIdx' : List Nat)
    (hd' : InBounds (sizes (groups m').dS) dIdx') (hx' : InBounds (sizes (cStateGrids (groups m'))) xIdx')
    (hsame : ((feasOf m P t)[k] ++ pickAt (groups m).dS dIdx ++ pickAt (cStateGrids (groups m)) xIdx).Perm
      ((feasOf m' P t)[k'] ++ pickAt (groups m').dS dIdx' ++ pickAt (cStateGrids (groups m')) xIdx')) :
    ((solve m P true).getD t default).get (k :: (dIdx ++ xIdx))
      = ((solve m' P true).getD t default).get (k' :: (dIdx' ++ xIdx')) := by
  have ht1 : t < m.nPeriods := by omega
  have ht1' : t < m'.nPeriods := by rw [h.periods]; exact ht1
  have ht' : t + 1 = m'.nPeriods := by rw [h.periods]; exact ht
  rw [C01_entry_eq_spec_restricted m P t ht1 hsparse k hk dIdx xIdx hd hx hnd,
    C01_entry_eq_spec_restricted m' P t ht1' hsparse' k' hk' dIdx' xIdx' hd' hx' (h.names_nodup hnd),
    nextOf_last m P _ t ht, nextOf_last m' P _ t ht']
  apply specV_last_perm h hfn P _ _ t _ _ hsame
  have hdl : dIdx.length = (groups m).dS.length := by rw [inBounds_length _ _ hd, sizes_length]
  have hxl : xIdx.length = (cStateGrids (groups m)).length := by rw [inBounds_length _ _ hx, sizes_length]
  have hs : (feasOf m P t)[k] ∈ assignments (groups m).sS := List.mem_of_mem_filter (List.getElem_mem hk)
  simp only [List.map_append]
  rw [assignments_keys _ _ hs, pickAt_keys _ _ hdl, pickAt_keys _ _ hxl]
  exact gridState_choice_names_nodup m hnd

/-- the same for specifications without filter-restricted variables (and without variable-free filters that fail:
`solve` does not evaluate those) -/
theorem C10_last_period_entries_agree_unrestricted {m m' : Model} (h : PermOf m m')
    (hfn : (m.functions.map (·.name)).Nodup) (hnd : ((m.states ++ m.choices).map (·.1)).Nodup)
    (P : Params) (t : Nat) (ht : t + 1 = m.nPeriods)
    (hdense : (!((groups m).sS.isEmpty && (groups m).sC.isEmpty)) = false)
    (hdense' : (!((groups m').sS.isEmpty && (groups m').sC.isEmpty)) = false)
    (dIdx xIdx : List Nat)
    (hd : InBounds (sizes (groups m).dS) dIdx) (hx : InBounds (sizes (cStateGrids (groups m))) xIdx)
    (dIdx' xIdx' : List Nat)
    (hd' : InBounds (sizes (groups m').dS) dIdx') (hx' : InBounds (sizes (cStateGrids (groups m'))) xIdx')
    (hfs : allTrue m P (toEnv (pickAt (groups m).dS dIdx ++ pickAt (cStateGrids (groups m)) xIdx) ++ periodEnv t)
      (filterNames m) = some true)
    (hfs' : allTrue m' P (toEnv (pickAt (groups m').dS dIdx' ++ pickAt (cStateGrids (groups m')) xIdx') ++ periodEnv t)
      (filterNames m') = some true)
    (hsame : (pickAt (groups m).dS dIdx ++ pickAt (cStateGrids (groups m)) xIdx).Perm
      (pickAt (groups m').dS dIdx' ++ pickAt (cStateGrids (groups m')) xIdx')) :
    ((solve m P true).getD t default).get (dIdx ++ xIdx)
      = ((solve m' P true).getD t default).get (dIdx' ++ xIdx') := by
  have ht1 : t < m.nPeriods := by omega
  have ht1' : t < m'.nPeriods := by rw [h.periods]; exact ht1
  have ht' : t + 1 = m'.nPeriods := by rw [h.periods]; exact ht
  rw [C01_entry_eq_spec_unrestricted m P t ht1 hdense dIdx xIdx hd hx hnd hfs,
    C01_entry_eq_spec_unrestricted m' P t ht1' hdense' dIdx' xIdx' hd' hx' (h.names_nodup hnd) hfs',
    nextOf_last m P _ t ht, nextOf_last m' P _ t ht']
  apply specV_last_perm h hfn P _ _ t _ _ hsame
  have hdl : dIdx.length = (groups m).dS.length := by rw [inBounds_length _ _ hd, sizes_length]
  have hxl : xIdx.length = (cStateGrids (groups m)).length := by rw [inBounds_length _ _ hx, sizes_length]
  have hemp : ((groups m).sS.isEmpty && (groups m).sC.isEmpty) = true := by simpa using hdense
  simp only [Bool.and_eq_true, List.isEmpty_iff] at hemp
  simp only [List.map_append]
  rw [pickAt_keys _ _ hdl, pickAt_keys _ _ hxl]
  have := gridState_choice_names_nodup m hnd
  rw [hemp.1] at this
  simpa using this

/-! ## Every period: the order of the choices and of the functions

`C10_choice_and_function_order_irrelevant`: two specifications that declare the same states in the same order, the same
choices in any order and the same functions in any order (stochastic and deterministic transition functions included) have
**identical value arrays in every period** - although everything `solve` does with the choices differs: which group a
choice belongs to is the same, but the order inside the groups, the stored rows of the state-choice space, the segment
ids, the dense choice axes and the enumeration order of the continuous grids all change. Proof: both arrays are
materialised tensors of the same shape (`solve_shape`, the state groups agree: `state_groups_eq`); every in-range entry
is `specV` of the same named state (`C01_entry_eq_spec_*`, `feasOf_choicePerm`); `specV` is invariant
(`specV_perm_of`) because the objectives agree (`uAndF_funcPerm`: conjunction order, lookup order, and - for the
expectation - the node list of permuted transition rows is a rearrangement with the same product weights,
`nodes_map_perm`) once the continuation arrays agree - which is the induction hypothesis. `NextKeysNodup`: the names
`x` under which the values of the functions `next_x` are stored are pairwise distinct (true whenever the function names
are: `next_x ↦ x` is injective on names with that prefix; kept as a hypothesis because `String` operations do not
reduce in the kernel). -/

theorem cond_choicePerm {m m' : Model} (h : ChoicePermOf m m') (hfn : (m.functions.map (·.name)).Nodup)
    (hnd : ((m.states ++ m.choices).map (·.1)).Nodup) :
    (!((groups m').sS.isEmpty && (groups m').sC.isEmpty)) = (!((groups m).sS.isEmpty && (groups m).sC.isEmpty)) := by
  obtain ⟨hS, _, _⟩ := state_groups_eq h hfn
  have hl := (sC_perm h hfn hnd).length_eq
  rw [hS]
  congr 2
  cases h1 : (groups m).sC with
  | nil => rw [h1] at hl; cases h2 : (groups m').sC with
    | nil => rfl
    | cons a l => rw [h2] at hl; simp at hl
  | cons a l => rw [h1] at hl; cases h2 : (groups m').sC with
    | nil => rw [h2] at hl; simp at hl
    | cons a' l' => rfl

theorem period_choicePerm {m m' : Model} (h : ChoicePermOf m m')
    (hfn : (m.functions.map (·.name)).Nodup) (hnd : ((m.states ++ m.choices).map (·.1)).Nodup)
    (hnofilt : ((groups m).sS.isEmpty && (groups m).sC.isEmpty) = true → filterNames m = [])
    (hk : NextKeysNodup m)
    (P : Params) (t : Nat) (ht : t < m.nPeriods)
    (hnext : nextOf m' P (solve m' P true) t = nextOf m P (solve m P true) t) :
    (solve m' P true).getD t default = (solve m P true).getD t default := by
  have ht' : t < m'.nPeriods := by rw [h.periods]; exact ht
  obtain ⟨hS, hD, hC⟩ := state_groups_eq h hfn
  have hCg : cStateGrids (groups m') = cStateGrids (groups m) := by unfold cStateGrids; rw [hC]
  have hfeas := feasOf_choicePerm h hfn hnd P t
  have hcond := cond_choicePerm h hfn hnd
  have hnd' : ((m'.states ++ m'.choices).map (·.1)).Nodup := h.permOf.names_nodup hnd
  obtain ⟨X, hX⟩ := solvePeriod_materialized m P (groups m) t (mkSpace m P (groups m) t) (nextOf m P (solve m P true) t)
  obtain ⟨X', hX'⟩ := solvePeriod_materialized m' P (groups m') t (mkSpace m' P (groups m') t) (nextOf m' P (solve m' P true) t)
  have hshape : ((solve m' P true).getD t default).shape = ((solve m P true).getD t default).shape := by
    rw [solve_shape m P t ht, solve_shape m' P t ht', hcond, hfeas, hD, hCg]
  refine materialized_ext _ _ X X' ((solve_getD m P t ht).trans hX) ((solve_getD m' P t ht').trans hX') hshape ?_
  intro idx hidx
  rw [solve_shape m P t ht] at hidx
  have huF : ∀ e, uAndF m P (groups m) t (nextOf m P (solve m P true) t) e
      = uAndF m' P (groups m') t (nextOf m P (solve m P true) t) e :=
    fun e => uAndF_funcPerm h hfn hk P t _ e
  by_cases hsp : (!((groups m).sS.isEmpty && (groups m).sC.isEmpty)) = true
  · -- arrays with a leading axis of feasible restricted-state combinations
    have hsp' : (!((groups m').sS.isEmpty && (groups m').sC.isEmpty)) = true := by rw [hcond]; exact hsp
    simp only [hsp, if_true, List.append_assoc, List.singleton_append] at hidx
    cases idx with
    | nil => exact absurd hidx (by simp [InBounds])
    | cons k rest =>
      obtain ⟨hk, hrest⟩ := hidx
      obtain ⟨dIdx, xIdx, rfl, hd, hx⟩ := inBounds_split _ _ _ hrest
      have hk' : k < (feasOf m' P t).length := by rw [hfeas]; exact hk
      have hd' : InBounds (sizes (groups m').dS) dIdx := by rw [hD]; exact hd
      have hx' : InBounds (sizes (cStateGrids (groups m'))) xIdx := by rw [hCg]; exact hx
      rw [C01_entry_eq_spec_restricted m P t ht hsp k hk dIdx xIdx hd hx hnd,
        C01_entry_eq_spec_restricted m' P t ht' hsp' k hk' dIdx xIdx hd' hx' hnd', hnext]
      have hst : ((feasOf m' P t)[k] ++ pickAt (groups m').dS dIdx ++ pickAt (cStateGrids (groups m')) xIdx)
          = ((feasOf m P t)[k] ++ pickAt (groups m).dS dIdx ++ pickAt (cStateGrids (groups m)) xIdx) := by
        simp only [hfeas, hD, hCg]
      rw [hst]
      symm
      apply specV_perm_of h.permOf hfn P _ _ t _ _ huF _ _ (List.Perm.refl _)
      have hdl : dIdx.length = (groups m).dS.length := by rw [inBounds_length _ _ hd, sizes_length]
      have hxl : xIdx.length = (cStateGrids (groups m)).length := by rw [inBounds_length _ _ hx, sizes_length]
      have hs : (feasOf m P t)[k] ∈ assignments (groups m).sS := List.mem_of_mem_filter (List.getElem_mem hk)
      simp only [List.map_append]
      rw [assignments_keys _ _ hs, pickAt_keys _ _ hdl, pickAt_keys _ _ hxl]
      exact gridState_choice_names_nodup m hnd
  · -- arrays without such an axis
    have hdn : (!((groups m).sS.isEmpty && (groups m).sC.isEmpty)) = false := by simpa using hsp
    have hdn' : (!((groups m').sS.isEmpty && (groups m').sC.isEmpty)) = false := by rw [hcond]; exact hdn
    simp only [hdn, Bool.false_eq_true, if_false, List.nil_append] at hidx
    obtain ⟨dIdx, xIdx, rfl, hd, hx⟩ := inBounds_split _ _ _ hidx
    have hd' : InBounds (sizes (groups m').dS) dIdx := by rw [hD]; exact hd
    have hx' : InBounds (sizes (cStateGrids (groups m'))) xIdx := by rw [hCg]; exact hx
    have hfn0 : filterNames m = [] := hnofilt (by simpa using hdn)
    have hfn0' : filterNames m' = [] := by
      have := h.permOf.names (·.isFilter)
      unfold filterNames at hfn0 ⊢
      rw [hfn0] at this
      exact List.perm_nil.mp this.symm
    rw [C01_entry_eq_spec_unrestricted m P t ht hdn dIdx xIdx hd hx hnd (by rw [hfn0]; rfl),
      C01_entry_eq_spec_unrestricted m' P t ht' hdn' dIdx xIdx hd' hx' hnd' (by rw [hfn0']; rfl), hnext]
    have hst : (pickAt (groups m').dS dIdx ++ pickAt (cStateGrids (groups m')) xIdx)
        = (pickAt (groups m).dS dIdx ++ pickAt (cStateGrids (groups m)) xIdx) := by
      simp only [hD, hCg]
    rw [hst]
    symm
    apply specV_perm_of h.permOf hfn P _ _ t _ _ huF _ _ (List.Perm.refl _)
    have hdl : dIdx.length = (groups m).dS.length := by rw [inBounds_length _ _ hd, sizes_length]
    have hxl : xIdx.length = (cStateGrids (groups m)).length := by rw [inBounds_length _ _ hx, sizes_length]
    have hemp : ((groups m).sS.isEmpty && (groups m).sC.isEmpty) = true := by simpa using hdn
    simp only [Bool.and_eq_true, List.isEmpty_iff] at hemp
    simp only [List.map_append]
    rw [pickAt_keys _ _ hdl, pickAt_keys _ _ hxl]
    have := gridState_choice_names_nodup m hnd
    rw [hemp.1] at this
    simpa using this

/-- **every period** -/
theorem C10_choice_and_function_order_irrelevant {m m' : Model} (h : ChoicePermOf m m')
    (hfn : (m.functions.map (·.name)).Nodup) (hnd : ((m.states ++ m.choices).map (·.1)).Nodup)
    (hnofilt : ((groups m).sS.isEmpty && (groups m).sC.isEmpty) = true → filterNames m = [])
    (hk : NextKeysNodup m)
    (P : Params) (j : Nat) (hj : j < m.nPeriods) :
    (solve m' P true).getD (m.nPeriods - 1 - j) default = (solve m P true).getD (m.nPeriods - 1 - j) default := by
  induction j with
  | zero =>
    apply period_choicePerm h hfn hnd hnofilt hk P _ (by omega)
    rw [nextOf_last m P _ _ (by omega), nextOf_last m' P _ _ (by rw [h.periods]; omega)]
  | succ j ih =>
    have ihj := ih (by omega)
    apply period_choicePerm h hfn hnd hnofilt hk P _ (by omega)
    have hsucc : m.nPeriods - 1 - (j + 1) + 1 = m.nPeriods - 1 - j := by omega
    unfold nextOf
    rw [h.periods, hsucc, ihj]
    have : (mkSpace m' P (groups m') (m.nPeriods - 1 - j)).feas = (mkSpace m P (groups m) (m.nPeriods - 1 - j)).feas := by
      rw [mkSpace_feas, mkSpace_feas]; exact feasOf_choicePerm h hfn hnd P _
    rw [this]

/-- the consumption example with its choices and its functions declared in the opposite order -/
def Ex.consModel' : Model :=
  { Ex.consModel with choices := Ex.consModel.choices.reverse, functions := Ex.consModel.functions.reverse }

-- the hypotheses of `C10_choice_and_function_order_irrelevant` hold for this pair, and the arrays are identical
example : Ex.consModel.choices.Perm Ex.consModel'.choices := (List.reverse_perm _).symm
example : Ex.consModel.functions.Perm Ex.consModel'.functions := (List.reverse_perm _).symm
#guard (((functionInfo Ex.consModel).filter (·.isNext)).map fun fi => stripNext fi.name) == ["w"]
#guard (Ex.consModel.functions.map (·.name)).eraseDups.length == Ex.consModel.functions.length
#guard filterNames Ex.consModel == []
#guard ((solve Ex.consModel' Ex.consParams).map fun V => (V.shape, V.toFlat))
  == ((solve Ex.consModel Ex.consParams).map fun V => (V.shape, V.toFlat))

/-- two stochastic states (`h` with 2 labels depending on `h`; `p` with 3 labels depending on `p` and the choice `d`),
three periods -/
def Ex.stochModel : Model :=
  { nPeriods := 3
    states := [("h", .disc 2), ("p", .disc 3)]
    choices := [("d", .disc 2)]
    functions := [
      { name := "utility", args := ["h", "p", "d"],
        body := .add (.add (.var "h") (.mul (.num 2) (.var "p"))) (.mul (.var "d") (.sub (.var "h") (.var "p"))) },
      { name := "next_h", args := ["h"], body := .num 0, stochastic := true },
      { name := "next_p", args := ["p", "d"], body := .num 0, stochastic := true } ] }

def Ex.stochParams : Params :=
  { beta := 3/4, funcs := []
    shocks := [
      ("h", { shape := [2, 2], get := fun idx => ([1/4, 3/4, 1/2, 1/2] : List Rat).getD (ravel [2, 2] idx) 0 }),
      ("p", { shape := [3, 2, 3],
              get := fun idx => ([1/2, 1/4, 1/4, 0, 1, 0, 1/8, 3/8, 1/2, 1/4, 1/4, 1/2, 1, 0, 0, 1/2, 0, 1/2] : List Rat).getD
                (ravel [3, 2, 3] idx) 0 }) ] }

/-- the same specification with the functions (both stochastic transitions among them) declared in the opposite order -/
def Ex.stochModel' : Model := { Ex.stochModel with functions := Ex.stochModel.functions.reverse }

example : Ex.stochModel.functions.Perm Ex.stochModel'.functions := (List.reverse_perm _).symm
#guard (((functionInfo Ex.stochModel).filter (·.isNext)).map fun fi => (stripNext fi.name, fi.isStochasticNext)) == [("h", true), ("p", true)]
#guard ((solve Ex.stochModel' Ex.stochParams).map fun V => (V.shape, V.toFlat))
  == ((solve Ex.stochModel Ex.stochParams).map fun V => (V.shape, V.toFlat))
#guard (((solve Ex.stochModel Ex.stochParams).getD 0 default).toFlat.all fun v => v != .ninf)

/-! ## The same restriction as a filter or as a constraint (last period) -/

/-- the value of every named state is the same whether a restriction is declared as a filter (applied when the
state-choice space is built) or as a constraint (applied inside the maximisation) -/
theorem C10_filter_as_constraint_value {m m' : Model} {P : Params} {nF nC : Name} (h : FilterToConstraint m m' P nF nC)
    (g g' : Groups) (t : Nat) (st : List (Name × Rat)) :
    specV m' P g' t none st = specV m P g t none st :=
  specV_filter_constraint h g g' t st

theorem PermOf.refl (m : Model) : PermOf m m := ⟨rfl, List.Perm.refl _, List.Perm.refl _, List.Perm.refl _⟩

/-- **stored entries, last period**: the filter form stores the states that keep a feasible choice along a leading axis,
the constraint form (no filter left) stores every state; entries that belong to the same named state are equal -/
theorem C10_filter_as_constraint_last_period_entries {m m' : Model} {P : Params} {nF nC : Name}
    (h : FilterToConstraint m m' P nF nC)
    (hfn : (m.functions.map (·.name)).Nodup)
    (hnd : ((m.states ++ m.choices).map (·.1)).Nodup) (hnd' : ((m'.states ++ m'.choices).map (·.1)).Nodup)
    (t : Nat) (ht : t + 1 = m.nPeriods) (ht' : t + 1 = m'.nPeriods)
    (hsparse : (!((groups m).sS.isEmpty && (groups m).sC.isEmpty)) = true)
    (hdense' : (!((groups m').sS.isEmpty && (groups m').sC.isEmpty)) = false)
    (k : Nat) (hk : k < (feasOf m P t).length) (dIdx xIdx : List Nat)
    (hd : InBounds (sizes (groups m).dS) dIdx) (hx : InBounds (sizes (cStateGrids (groups m))) xIdx)
    (dIdx' xIdx' : List Nat)
    (hd' : InBounds (sizes (groups m').dS) dIdx') (hx' : InBounds (sizes (cStateGrids (groups m'))) xIdx')
    (hfs' : allTrue m' P (toEnv (pickAt (groups m').dS dIdx' ++ pickAt (cStateGrids (groups m')) xIdx') ++ periodEnv t)
      (filterNames m') = some true)
    (hsame : ((feasOf m P t)[k] ++ pickAt (groups m).dS dIdx ++ pickAt (cStateGrids (groups m)) xIdx).Perm
      (pickAt (groups m').dS dIdx' ++ pickAt (cStateGrids (groups m')) xIdx')) :
    ((solve m' P true).getD t default).get (dIdx' ++ xIdx')
      = ((solve m P true).getD t default).get (k :: (dIdx ++ xIdx)) := by
  rw [C01_entry_eq_spec_restricted m P t (by omega) hsparse k hk dIdx xIdx hd hx hnd,
    C01_entry_eq_spec_unrestricted m' P t (by omega) hdense' dIdx' xIdx' hd' hx' hnd' hfs',
    nextOf_last m P _ t ht, nextOf_last m' P _ t ht', specV_filter_constraint h (groups m) (groups m') t]
  symm
  apply specV_perm_of (PermOf.refl m) hfn P _ _ t none none (fun _ => rfl) _ _ hsame
  have hdl : dIdx.length = (groups m).dS.length := by rw [inBounds_length _ _ hd, sizes_length]
  have hxl : xIdx.length = (cStateGrids (groups m)).length := by rw [inBounds_length _ _ hx, sizes_length]
  have hs : (feasOf m P t)[k] ∈ assignments (groups m).sS := List.mem_of_mem_filter (List.getElem_mem hk)
  simp only [List.map_append]
  rw [assignments_keys _ _ hs, pickAt_keys _ _ hdl, pickAt_keys _ _ hxl]
  exact gridState_choice_names_nodup m hnd

/-- the F1 witness with its period-dependent filter re-declared as a constraint -/
def Ex.f1AsConstraint : Model :=
  { Ex.f1Model with functions := Ex.f1Model.functions.map fun f =>
      if f.name == "p_filter" then { f with name := "p_constraint" } else f }

-- the filter form stores s = 1, 2 in the last period (shape [2]); the constraint form stores s = 0, 1, 2 with -inf at s = 0
#guard filterNames Ex.f1Model == ["p_filter"] && filterNames Ex.f1AsConstraint == []
#guard constraintNames Ex.f1AsConstraint == ["p_constraint"] && constraintNames Ex.f1Model == []
#guard ((solve Ex.f1Model Ex.f1Params).getD 1 default).toFlat == [.fin 11, .fin 21]
#guard ((solve Ex.f1AsConstraint Ex.f1Params).getD 1 default).toFlat == [.ninf, .fin 11, .fin 21]

/-- the F1 witness with its functions and (single) variables declared in another order -/
def Ex.f1Model' : Model := { Ex.f1Model with functions := Ex.f1Model.functions.reverse }

example : PermOf Ex.f1Model Ex.f1Model' :=
  ⟨rfl, List.Perm.refl _, List.Perm.refl _, (List.reverse_perm _).symm⟩
example : (Ex.f1Model.functions.map (·.name)).Nodup := by decide
#guard ((solve Ex.f1Model' Ex.f1Params).getD 1 default).toFlat == ((solve Ex.f1Model Ex.f1Params).getD 1 default).toFlat

-- non-vacuity
example : bellmanStep [0, 1, 2] (fun x => x != 1) (fun x => (x : Rat)) (fun _ => 0) 1
    = bellmanStep [2, 0, 1] (fun x => x != 1) (fun x => (x : Rat)) (fun _ => 0) 1 := by decide +kernel

end Lcm
