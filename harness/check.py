#!/venv/bin/python
"""Entry point of every registered check:  check.py <ID> [--tier quick|thorough] [--replay FILE]

Stages (DESIGN.md section 5): build -> audit -> corpus/known findings -> explore -> verdict.
Exit codes: 0 property held on everything explored; 1 with a `VIOLATION property=<id> replay=<path>`
line; 2 infrastructure failure (never a VIOLATION line).
"""
from __future__ import annotations

import argparse
import importlib
import json
import multiprocessing as mp
import os
import sys
import time
import traceback
from collections import Counter
from pathlib import Path

HERE = Path(__file__).resolve().parent
sys.path.insert(0, str(HERE))

import leanside  # noqa: E402
from common import GUARD_ENV, REPO, VERIF, HarnessError  # noqa: E402

os.environ[GUARD_ENV] = "1"

TRUSTED_BASE = [
    "Lean 4.33.0 kernel; Mathlib v4.33.0 modules imported individually in proof files",
    "axioms of every listed theorem are a subset of {propext, Classical.choice, Quot.sound} (audited on this run); no sorry/admit/native_decide/bv_decide/own axioms (grep on this run)",
    "hand-written Lean model under lean/LcmModel (modelled, not verified: jax.numpy/jax.ops/jax.vmap/jax.random primitives, dags, inspect, pandas, taken with documented semantics)",
    "correspondence harness under harness/ (generators, Expr->Python code generator, jax.util shim, JSON transport, float<->rational conversion)",
    "floating-point rounding is outside the model; the exact stream uses dyadic inputs on which float arithmetic is exact",
]


def _worker_init(prop):
    global _MOD
    sys.path.insert(0, str(HERE))
    _MOD = importlib.import_module(f"props.{prop.lower()}")


def _worker_run(case):
    t0 = time.time()
    from common import INEXACT

    INEXACT["count"] = 0
    try:
        out = _MOD.run_case(case)
        if INEXACT["count"]:
            out.setdefault("hist", {})["inexact_comparisons(<=1e-12 rel, not alarmed)"] = INEXACT["count"]
    except HarnessError as e:
        out = {"harness_error": str(e)}
    except Exception as e:  # noqa: BLE001
        out = {"harness_error": f"{type(e).__name__}: {e}\n{traceback.format_exc()[-1500:]}"}
    out["case"] = case
    out["wall"] = time.time() - t0
    return out


def run_cases(prop, cases, workers):
    if not cases:
        return []
    if workers <= 1 or len(cases) == 1:
        _worker_init(prop)
        return [_worker_run(c) for c in cases]
    ctx = mp.get_context("spawn")
    with ctx.Pool(min(workers, len(cases)), initializer=_worker_init, initargs=(prop,)) as pool:
        return list(pool.imap_unordered(_worker_run, cases, chunksize=1))


def load_findings(prop):
    p = VERIF / "known_findings.json"
    if not p.exists():
        return []
    return [e for e in json.loads(p.read_text())["findings"] if e["property"] == prop]


def write_replay(prop, idx, payload):
    d = VERIF / "replay"
    d.mkdir(exist_ok=True)
    path = d / f"{prop}-{idx}.json"
    path.write_text(json.dumps(payload, indent=1, default=str))
    return path


def main():
    ap = argparse.ArgumentParser()
    ap.add_argument("prop")
    ap.add_argument("--tier", default=os.environ.get("VERIF_TIER") or "quick", choices=["quick", "thorough"])
    ap.add_argument("--replay")
    ap.add_argument("--workers", type=int, default=int(os.environ.get("VERIF_WORKERS", "16")))
    ap.add_argument("--no-lean", action="store_true", help="development only: skip build and audit")
    ap.add_argument("--verbose", action="store_true")
    args = ap.parse_args()
    prop = args.prop.upper()
    seed = int(os.environ.get("VERIF_SEED", "0") or 0)
    t_start = time.time()

    try:
        mod = importlib.import_module(f"props.{prop.lower()}")
    except ModuleNotFoundError as e:
        print(f"no check for {prop}: {e}")
        return 2

    # ------------------------------------------------------------------ replay mode
    if args.replay:
        payload = json.loads(Path(args.replay).read_text())
        _worker_init(prop)
        out = _worker_run(payload["case"])
        vs = out.get("violations", []) + out.get("corr_breaks", [])
        print(json.dumps({k: out.get(k) for k in ("violations", "corr_breaks", "harness_error", "skipped")}, indent=1, default=str))
        if out.get("harness_error"):
            return 2
        if vs:
            print(f"VIOLATION property={prop} replay={args.replay}")
            return 1
        print("replay: no violation on the current tree")
        return 0

    # ------------------------------------------------------------------ build + audit
    try:
        if args.no_lean:
            audit = {"obligations": [], "discharged": [], "failed": [], "checker_cmd": "skipped (--no-lean)"}
        else:
            leanside.build()
            audit = leanside.audit(prop, thorough=(args.tier == "thorough"))
    except HarnessError as e:
        print(f"INFRASTRUCTURE: {e}")
        return 2

    # ------------------------------------------------------------------ canary: the comparison code must flag wrong answers
    if getattr(mod, "CANARY", False):
        try:
            import pipeline

            cf = pipeline.canary()
        except HarnessError as e:
            print(f"INFRASTRUCTURE: canary could not run: {e}")
            return 2
        except Exception as e:  # noqa: BLE001
            cf = []
            print(f"note: canary skipped ({type(e).__name__}: {str(e)[:200]})")
        if cf:
            print(f"INFRASTRUCTURE: canary failed: {cf}")
            return 2

    # ------------------------------------------------------------------ corpus, known findings, exploration
    findings = load_findings(prop)
    known = [e for e in findings if e["status"] == "known"]
    corpus_cases = []
    cdir = VERIF / "corpus" / prop
    if cdir.exists():
        for p in sorted(cdir.glob("*.json")):
            c = json.loads(p.read_text())
            c["_origin"] = f"corpus/{prop}/{p.name}"
            corpus_cases.append(c)
    script_hits = {}
    for i, e in enumerate(findings):
        if isinstance(e.get("witness"), dict) and e["witness"].get("kind") == "script":
            # a finding whose witness is a stand-alone reproducer (findings/*.py, exit status 1 while the defect is present,
            # run against the tree under test); it is not a case of the property's generator
            import subprocess

            sp = VERIF / e["witness"]["script"]
            try:
                r_ = subprocess.run(["/venv/bin/python", str(sp)], env={**os.environ, "LCM_WT": str(REPO)}, capture_output=True, text=True, timeout=900)
                script_hits[e["id"]] = (r_.returncode, (r_.stdout + r_.stderr)[-600:])
            except Exception as ex:  # noqa: BLE001
                script_hits[e["id"]] = (None, str(ex)[:300])
            continue
        if e.get("witness") is not None:
            c = dict(e["witness"])
            c["_origin"] = f"finding:{e['status']}:{i}"
            c["_finding_id"] = e["id"]
            corpus_cases.append(c)
    # where did the code move away from the tree the model was validated on? (not a violation: more exploration)
    import fingerprint

    src_changes = fingerprint.changes(REPO)
    anchored_changes = [c for c in src_changes if any(c.startswith(a + ":") for a in fingerprint.anchored(prop))]
    rounds = 1 + (1 if src_changes else 0) + (1 if anchored_changes else 0)
    try:
        cases = corpus_cases + [c for k in range(rounds) for c in mod.cases(seed + 1000 * k, args.tier)]
    except HarnessError as e:
        print(f"INFRASTRUCTURE: {e}")
        return 2
    outs = run_cases(prop, cases, args.workers)

    # ------------------------------------------------------------------ aggregate
    hist = Counter()
    sigs = set()
    samples = []
    evaluations = 0
    violations = []
    corr_breaks = []
    harness_errors = []
    skipped = Counter()
    for o in outs:
        if o.get("harness_error"):
            harness_errors.append(o)
            continue
        evaluations += o.get("evals", 0)
        for k, v in (o.get("hist") or {}).items():
            hist[k] += v
        if o.get("skipped"):
            skipped[o["skipped"]] += 1
        if o.get("sig") and o.get("nontrivial", True) and not o.get("skipped"):
            sigs.add(o["sig"])
        if o.get("sample") is not None and len(samples) < 3:
            samples.append(o["sample"])
        for v in o.get("violations", []):
            v["case"] = o["case"]
            violations.append(v)
            if args.verbose:
                print("  violation:", o["case"].get("seed"), o["case"].get("force"), v.get("clause"), "|", str(v.get("detail"))[:200], "|", v.get("key"))
        for v in o.get("corr_breaks", []):
            v["case"] = o["case"]
            corr_breaks.append(v)
            if args.verbose:
                print("  corr-break:", o["case"].get("seed"), o["case"].get("force"), v.get("clause"), "|", str(v.get("detail"))[:200], "|", v.get("key"))

    if any("model driver not built" in he["harness_error"] for he in harness_errors):
        # the Lean driver binary is missing (only possible with --no-lean, or while another `lake build` replaces it)
        print("INFRASTRUCTURE: model driver not built (run without --no-lean, or `cd lean && lake build lcmdriver`)")
        return 2
    if harness_errors and len(harness_errors) > max(2, len(outs) // 10):
        # the harness itself cannot drive the implementation: the correspondence is broken
        he = harness_errors[0]
        corr_breaks.append({"clause": "correspondence cannot be executed", "detail": he["harness_error"][:2000], "case": he["case"], "key": "harness"})
    elif harness_errors:
        for he in harness_errors:
            print(f"note: harness error on one case (ignored): {he['harness_error'][:300]}")

    # known findings: fold violations whose key matches a `known` entry
    lines = []
    exit_code = 0
    reported_known = set()
    fresh = []
    for v in violations + corr_breaks:
        key = v.get("key")
        fid = (v.get("case") or {}).get("_finding_id")
        if fid is not None:
            # a violation on a finding's own witness belongs to that finding (if it is still `known`)
            hit = next((e for e in known if e["id"] == fid and e.get("key") == key), None)
        else:
            hit = next((e for e in known if e.get("key") == key), None)
        if hit is not None:
            reported_known.add(hit["id"])
        else:
            fresh.append(v)
    for e in findings:
        if e["id"] in script_hits:
            rc_, tail_ = script_hits[e["id"]]
            if rc_ == 1 and e["status"] == "known":
                reported_known.add(e["id"])
            elif rc_ == 1 and e["status"] == "fixed":
                fresh.append({"clause": f"finding {e['id']} (recorded as fixed) is back", "detail": tail_, "key": e.get("key"), "case": {"script": e["witness"]["script"]}})
            elif rc_ not in (0, 1):
                print(f"note: reproducer of finding {e['id']} did not run cleanly (status {rc_}): {tail_[-200:]}")
    for e in known:
        if e["id"] in reported_known:
            lines.append(f"KNOWN-FINDING: property={prop} {e['what_fails']}")
    # obligations that no longer check
    if audit["failed"]:
        fresh.append({"clause": "Lean obligation no longer checks", "detail": audit["failed"], "kind": "obligation", "nofail": True, "case": None})

    n_viol = 0
    if fresh:
        # prefer violations with a concrete failing input over correspondence breaks
        fresh.sort(key=lambda v: (bool(v.get("nofail")), len(json.dumps(v.get("case"), default=str))))
        with_input = [v for v in fresh if not v.get("nofail")]
        chosen = with_input[0] if with_input else fresh[0]
        if hasattr(mod, "shrink") and not chosen.get("nofail") and chosen.get("case") is not None:
            try:
                chosen = mod.shrink(chosen) or chosen
            except Exception as e:  # noqa: BLE001
                print(f"note: shrinking failed ({type(e).__name__}: {e}); reporting the unshrunk case")
        n_viol = len(fresh)
        payload = {
            "property": prop,
            "kind": chosen.get("kind", "oracle" if not chosen.get("nofail") else "correspondence"),
            "violated_clause": chosen.get("clause"),
            "detail": chosen.get("detail"),
            "case": chosen.get("case"),
            "theorems_affected": audit["obligations"],
            "how_to_rerun": f"cd /verif && /venv/bin/python harness/check.py {prop} --replay <this file>",
            "other_violations": len(fresh) - 1,
        }
        path = write_replay(prop, seed, payload)
        suffix = " no-failing-input-found" if chosen.get("nofail") else ""
        lines.append(f"VIOLATION property={prop} replay={path}{suffix}")
        exit_code = 1

    # ------------------------------------------------------------------ evidence
    wall = time.time() - t_start
    ev = {
        "property_id": prop,
        "tier": args.tier,
        "seed": seed,
        "level": "proof",
        "coverage": {
            "obligations": len(audit["obligations"]),
            "discharged": len(audit["discharged"]),
            "checker_cmd": audit["checker_cmd"],
            "trusted_base": TRUSTED_BASE + list(getattr(mod, "TRUSTED_EXTRA", [])),
            "theorems": audit["obligations"],
            "evaluations": evaluations,
            "distinct_nontrivial": len(sigs),
            "rule": getattr(mod, "RULE", ""),
            "samples": samples or [{"note": "no case produced a sample"}],
            "disagreements_checked": len(violations) + len(corr_breaks),
            "cases_run": len(outs),
            "corpus_cases": len(corpus_cases),
            "skipped": dict(skipped),
            "distribution": dict(sorted(hist.items())),
            "known_findings_reproduced": sorted(reported_known),
            "repo": str(REPO),
            "source_definitions_changed_since_model_validation": src_changes[:40],
            "of_which_in_anchored_files": anchored_changes[:40],
            "exploration_rounds": rounds,
        },
        "assumptions": list(getattr(mod, "ASSUMPTIONS", [])),
        "wall_s": round(wall, 2),
        "violations": n_viol,
    }
    if not args.no_lean or not (VERIF / "evidence" / f"{prop}.json").exists():
        (VERIF / "evidence").mkdir(exist_ok=True)
        (VERIF / "evidence" / f"{prop}.json").write_text(json.dumps(ev, indent=1, default=str))
    print(f"{prop} tier={args.tier} seed={seed} cases={len(outs)} evaluations={evaluations} distinct={len(sigs)} "
          f"obligations={len(audit['discharged'])}/{len(audit['obligations'])} skipped={dict(skipped)} wall={wall:.1f}s")
    for ln in lines:
        print(ln)
    return exit_code


if __name__ == "__main__":
    try:
        rc = main()
    except HarnessError as e:
        print(f"INFRASTRUCTURE: {e}")
        rc = 2
    sys.exit(rc)
