"""C04 - stochastic draws: specified probabilities, independent, seed-reproducible.

Proof part (Lean, LcmProps/C04): the key schedule of `simulate` as paths in the split tree is injective
in (period, variable, agent) and prefix-free (no consumed key is an ancestor of another; no key is both
split and consumed) - the JAX key-hygiene contract under which draws are independent; the inverse-CDF
sampler never returns a zero-probability label and hits label k on an interval of length p_k.
Tie: the model's key paths are resolved with the real `jax.random.split`; `jax.random.choice` with that
key and the row selected by the agent's period-t variables must reproduce every stochastic next state of
the implementation's frame exactly. Same seed twice -> identical frames; another seed -> identical period 0.
Supporting evidence only (statistical, not provable): chi-square of label frequencies per conditional
row, and of cross-variable / cross-period independence, alarm threshold p < 1e-9.
"""
from __future__ import annotations

import itertools
import random
from collections import Counter
from fractions import Fraction as Fr

from common import driver, fr, impl, impl_site
from dsl import params_impl, params_json, shock_shapes
from gen import gen_initial_states, gen_params, nontrivial, signature
from pipeline import ImplFns, frame_rows, init_impl, materialise_case, model_solve
from props.simcommon import base_out

RULE = ("cases = generated dyadic specifications with 1-3 stochastic states (dependency lists of distinct sizes in shuffled order incl. "
        "_period; rows with zeros and point masses) x seeds x batches; every stochastic draw of the frame is re-derived from the model's "
        "key path with the real jax.random primitives; plus large batches (quick 20 000 agents) for frequency tests; distinct = "
        "structural signature; evaluations = draws reproduced + frequency cells tested")
ASSUMPTIONS = ["threefry bits are uniform and independent across distinct keys (trusted, JAX)", "frequency clause is statistical: chi-square at p < 1e-9 is supporting evidence, not proof"]
TRUSTED_EXTRA = ["C04 partial: the distributional clause rests on the JAX bit generator; proved are the key schedule (injective, prefix-free) and the sampler arithmetic"]


def cases(seed, tier):
    n = 24 if tier == "quick" else 300
    out = []
    for i in range(n):
        big = (i % 8 == 7)
        out.append({"kind": "gen", "seed": seed * 1_000_003 + 90001 + i, "force": ["stoch"] + (["mixed"] if i % 3 == 0 else []) + (["discrete"] if big else []),
                    "n_params": 1, "budget": 1500 if big else 3000, "n_agents": (20000 if tier == "quick" else 200000) if big else [3, 6, 7, 11][i % 4],
                    "big": big, "max_T": 3 if big else 4})
    return out


def resolve_key(jax, root, path, nv, n_agents):
    """key at a model path: the first len(path)-1 steps are splits into nv+1, the last into n_agents"""
    key = root
    for depth, k in enumerate(path):
        cnt = n_agents if depth == len(path) - 1 else nv + 1
        key = jax.random.split(key, cnt)[k]
    return key


def chi2_p(obs, exp):
    from scipy.stats import chi2

    stat = 0.0
    dof = -1
    for o, e in zip(obs, exp):
        if e > 0:
            stat += (o - e) ** 2 / e
            dof += 1
    return 1.0 if dof <= 0 else float(chi2.sf(stat, dof))


def run_case(case):
    I = impl()
    jax, jnp, np = I.jax, I.jnp, I.np
    mj, meta, Ps, r = materialise_case(case)
    P = Ps[0]
    info = {"mj": mj, "meta": meta}
    out = base_out(info, case)
    stoch = [f for f in mj["functions"] if f.get("stochastic")]
    if not stoch:
        out["skipped"] = "no stochastic state generated"
        return out
    Vm = model_solve(mj, P)
    if any(u for u in Vm["undef"]) or any(y == "-inf" for b in Vm["V"] for y in b["data"]):
        out["skipped"] = "unsupported (-inf value or undefined transition)"
        return out
    n = case.get("n_agents", 6)
    T = mj["n_periods"]
    init = gen_initial_states(r, mj, n, meta=meta)
    seed = r.randint(0, 10_000)
    vs = []
    cb = []
    evals = 0
    try:
        fns = ImplFns(mj, jit=True)
        params = params_impl(P)
        V = fns.solve(params)
        ini = init_impl(mj, init)
        df = fns.simulate(params, initial_states=ini, vf_arr_list=V, seed=seed)
        cols = {c: np.asarray(df[c]) for c in df.columns}
        # ---- seed determinism / period-0 independence of the seed
        df_same = fns.simulate(params, initial_states=ini, vf_arr_list=V, seed=seed)
        for c in df.columns:
            if not np.array_equal(np.asarray(df_same[c]), cols[c]):
                vs.append({"clause": "same seed gives identical frames", "detail": f"column {c} differs between two runs with seed {seed}"})
                break
        df_other = fns.simulate(params, initial_states=ini, vf_arr_list=V, seed=seed + 1)
        for c in df.columns:
            if not np.array_equal(np.asarray(df_other[c])[:n], cols[c][:n]):
                vs.append({"clause": "changing the seed changes nothing in period 0", "detail": f"column {c} of period 0 differs between seeds {seed} and {seed + 1}"})
                break
        evals += 2
        # ---- exact key schedule
        names = [f["name"] for f in mj["functions"] if f.get("stochastic")]   # function-dict order
        fargs = {f["name"]: f["args"] for f in mj["functions"]}
        nv = len(names)
        nlab = {nm: dict(mj["states"])[nm.removeprefix("next_")]["n"] for nm in names}
        shocks = {x: np.array([float(v) for v in t["data"]]).reshape(t["shape"]) for x, t in P["shocks"].items()}
        check_agents = range(n) if not case.get("big") else range(0, n, max(1, n // 40))
        if T > 1:
            paths = driver().call({"op": "key_paths", "n_vars": nv, "n_agents": n, "n_periods": T - 1}) if not case.get("big") else None
            root = jax.random.PRNGKey(seed)
            for t in range(T - 1):
                for j, nm in enumerate(names):
                    x = nm.removeprefix("next_")
                    # model path of the per-variable key, then split per agent
                    vpath = [0] * t + [j + 1]
                    base = root
                    for k in vpath:
                        base = jax.random.split(base, nv + 1)[k]
                    akeys = jax.random.split(base, n)
                    for i in check_agents:
                        if paths is not None and paths[t][j][i] != vpath + [i] and not cb:
                            cb.append({"clause": "key schedule of the Lean model equals the one the harness resolves", "detail": f"model key path {paths[t][j][i]} vs harness path {vpath + [i]}", "key": "C04:key-schedule", "nofail": True})
                        deps = tuple(t if a == "_period" else int(cols[a][t * n + i]) for a in fargs[nm])
                        row = shocks[x][deps]
                        lab = int(jax.random.choice(akeys[i], a=jnp.arange(nlab[nm]), p=jnp.asarray(row)))
                        got = float(cols[x][(t + 1) * n + i])
                        evals += 1
                        if got != lab and not cb:
                            # the implementation does not follow the modelled key schedule / sampler: a correspondence break, not
                            # by itself a violation (another valid schedule would also differ) - the clauses below decide
                            cb.append({"clause": "draw equals jax.random.choice at the model's key path with the row selected by the agent's period-t variables",
                                       "detail": f"period {t} variable {x} agent {i}: frame {got}, schedule gives {lab} (row {row.tolist()}, deps {fargs[nm]}={deps})",
                                       "key": "C04:key-schedule", "nofail": True})
                        if 0 <= int(got) < len(row) and row[int(got)] == 0:
                            vs.append({"clause": "a label with probability zero is never drawn", "detail": f"period {t} variable {x} agent {i} label {int(got)} row {row.tolist()} (deps {fargs[nm]}={deps})"})
                            break
        # ---- frequencies (supporting evidence), only with many agents
        if case.get("big") and T > 1 and not vs:  # (also when the key schedule differs from the modelled one: `cb`)
            for t in range(T - 1):
                per_var = {}
                for nm in names:
                    x = nm.removeprefix("next_")
                    groups = {}
                    for i in range(n):
                        deps = tuple(t if a == "_period" else int(cols[a][t * n + i]) for a in fargs[nm])
                        groups.setdefault(deps, []).append(int(cols[x][(t + 1) * n + i]))
                    for deps, labs in groups.items():
                        if len(labs) < 200:
                            continue
                        row = shocks[x][deps]
                        cnt = Counter(labs)
                        obs = [cnt.get(k, 0) for k in range(nlab[nm])]
                        exp = [len(labs) * float(p) for p in row]
                        evals += len(obs)
                        if any(o > 0 and e == 0 for o, e in zip(obs, exp)):
                            vs.append({"clause": "a label with probability zero is never drawn", "detail": f"period {t} variable {x} deps {deps}: counts {obs}, row {row.tolist()}"})
                        p = chi2_p(obs, exp)
                        out["hist"]["freq_rows_tested"] = out["hist"].get("freq_rows_tested", 0) + 1
                        if p < 1e-9:
                            vs.append({"clause": "label frequencies match the transition row", "detail": f"period {t} variable {x} deps {deps}: counts {obs}, expected {exp}, p={p:.3g}"})
                    per_var[x] = cols[x][(t + 1) * n:(t + 2) * n]
                # cross-variable independence: within a group of agents that share the conditioning rows of both
                # variables, the joint table must match the product of the two rows
                xs = list(per_var)
                for a, b in itertools.combinations(xs, 2):
                    fa, fb = fargs["next_" + a], fargs["next_" + b]
                    groups = {}
                    for i in range(n):
                        da = tuple(t if v == "_period" else int(cols[v][t * n + i]) for v in fa)
                        db = tuple(t if v == "_period" else int(cols[v][t * n + i]) for v in fb)
                        groups.setdefault((da, db), []).append((int(per_var[a][i]), int(per_var[b][i])))
                    for (da, db), pairs in groups.items():
                        if len(pairs) < 500:
                            continue
                        ra, rb = shocks[a][da], shocks[b][db]
                        tab = Counter(pairs)
                        cells = [(ka, kb) for ka in range(len(ra)) for kb in range(len(rb))]
                        obs = [tab.get(c, 0) for c in cells]
                        exp = [len(pairs) * float(ra[ka]) * float(rb[kb]) for ka, kb in cells]
                        evals += len(cells)
                        out["hist"]["cross_tables"] = out["hist"].get("cross_tables", 0) + 1
                        p = chi2_p(obs, exp)
                        if any(o > 0 and e == 0 for o, e in zip(obs, exp)) or p < 1e-9:
                            vs.append({"clause": "draws are independent across different stochastic variables",
                                       "detail": f"period {t}: variables {a},{b} given rows {da},{db}: joint counts {obs}, expected {exp}, p={p:.3g}"})
            # across agents: the draws of agents i and i+L (same conditioning row) must agree with probability sum p_k^2 - for
            # every lag L, in particular the powers of two at which a blocked / chunked key schedule would repeat itself
            import math as _m

            lags = [1, 2, 3] + [2 ** k for k in range(6, 20) if 2 ** k < n // 2]
            for t in range(T - 1):
                for nm in names:
                    x = nm.removeprefix("next_")
                    deps_of = [tuple(t if a == "_period" else int(cols[a][t * n + i]) for a in fargs[nm]) for i in range(n)]
                    nxt = cols[x][(t + 1) * n:(t + 2) * n]
                    for L in lags:
                        per_row = {}
                        for i in range(n - L):
                            if deps_of[i] == deps_of[i + L]:
                                a_ = per_row.setdefault(deps_of[i], [0, 0])
                                a_[0] += 1
                                a_[1] += int(nxt[i] == nxt[i + L])
                        for d_, (N_, hit) in per_row.items():
                            row = shocks[x][d_]
                            mprob = float((row ** 2).sum())
                            if N_ < 300 or not (0.02 < mprob < 0.98):
                                continue
                            z = (hit - N_ * mprob) / _m.sqrt(N_ * mprob * (1 - mprob))
                            evals += 1
                            out["hist"]["lag_tests"] = out["hist"].get("lag_tests", 0) + 1
                            if abs(z) > 6.5:
                                vs.append({"clause": "draws are independent across agents",
                                           "detail": f"period {t} variable {x} row {row.tolist()} (deps {d_}): agents i and i+{L} drew the same label in {hit} of {N_} pairs, expected {N_ * mprob:.1f} (z = {z:.1f})"})
                                break
                        if vs:
                            break
                    if vs:
                        break
                if vs:
                    break
            # cross-period: the same agent's draws for one variable in consecutive periods must not be identical everywhere
            if T > 2:
                for nm in names:
                    x = nm.removeprefix("next_")
                    a1 = cols[x][n:2 * n]
                    a2 = cols[x][2 * n:3 * n]
                    rows_ = shocks[x].reshape(-1, shocks[x].shape[-1])
                    nondeg = all((row > 0).sum() > 1 for row in rows_)
                    if nondeg and np.array_equal(a1, a2):
                        vs.append({"clause": "draws are independent across periods", "detail": f"variable {x}: periods 1 and 2 identical for all {n} agents although every row is non-degenerate"})
    except Exception as e:  # noqa: BLE001
        out["violations"].append({"clause": "simulate runs on a supported specification", "detail": f"{impl_site(e)}: {str(e)[:300]}", "key": f"raise:{impl_site(e)}"})
        return out
    out["evals"] = evals
    out["hist"][f"n_stoch_vars={len(names)}"] = 1
    out["hist"]["big_batch"] = int(bool(case.get("big")))
    for v in vs[:3]:
        v["key"] = "C04:" + v["clause"]
        out["violations"].append(v)
    out.setdefault("corr_breaks", []).extend(cb)
    out["sample"] = {"stochastic": {nm: fargs[nm] for nm in names}, "n_agents": n, "seed": seed, "T": T}
    return out
