"""Regenerates /verif/MANIFEST.json from the table below (development helper; not used by the checks)."""
import json
from pathlib import Path

BASELINE = "cd /repo && /venv/bin/python -m pytest -ra -q -p no:cacheprovider --timeout=900 --continue-on-collection-errors"
COMMON_NOTE = ("Trusted base: Lean 4.33.0 kernel, axioms of every C??_* theorem within {propext, Classical.choice, Quot.sound} (audited every run, "
               "no sorry/native_decide/own axioms); the hand-written model lean/LcmModel (jax/dags/pandas primitives modelled with documented "
               "semantics, not verified); the correspondence harness (generators, Expr->Python code generator, jax.util shim, JSON transport). "
               "Theorems quantify over all models/sizes/periods; the tie to /repo is sampled on every run and bounded as stated in the evidence file. ")

P = {
 "C01": ("R1: every entry of every array of the executable model `solve` is the maximum (IsMaxOver, unique) of utility + beta*E[V-hat] over the grid choices passing all filters and constraints, for both array layouts, by backward recursion over any number of periods (C01_entry_isMax_restricted/_unrestricted, C01_backward_recursion), and equals the plain-enumeration specification value `specV` of the grid state the entry belongs to - all declared choices in declaration order, no groups/axes/feasible-rank - under the only hypothesis that declared names are pairwise distinct (C01_entry_eq_spec_restricted/_unrestricted); tie: the compiled model is run against get_lcm_function(...,'solve') on generated dyadic specifications, comparison of exact rationals entry by entry, jit on and off",
         "Floating-point rounding is outside the model (removed by dyadic inputs: float arithmetic is exact there); 'independent of JIT' is a correspondence obligation (both settings run), not a theorem; the objective `uAndF` (utility + beta * sum of weights * interpolated next value) is part of the model definition.",
         "Lean 4 refinement proof (backward induction) + exact differential correspondence"),
 "C02": ("R2 per agent and period: the arg-max chain of `simulate` (data state-choice space, masked arg-max over continuous grids, dense arg-max, segment arg-max, re-indexing) returns a value that is the maximum of the agent's own objective over its admissible grid choices and, when finite, choices on the grids that are admissible and attain it - for any mix of restricted/unrestricted discrete choices and any continuous grids (C02_decision_is_feasible_maximiser), and that value equals the plain-enumeration maximum `specAgent.best` over all declared choices in declaration order (C02_value_is_plain_enumeration_max: the oracle the harness uses is proved equal to the implementation-shaped model, not merely tested against it); tie + oracle: every agent-period of implementation panels is checked against `specAgent` (exact; near-tie and three-stochastic-state families included)",
         "Near-tie flips from rounding are excluded by dyadic inputs; agent-periods whose objective is undefined in the model are skipped and counted.",
         "Lean 4 proof of the arg-max chain + specification oracle on implementation panels"),
 "C03": ("law of motion of the executable `simulate`: period-0 states are the inputs, the state list of period t+1 is the re-keyed list of transition values computed from each agent's own period-t record, stochastic labels are drawn with the dependency indices in signature order, each state is looked up under its own name after the `next_` prefix is stripped (C03_states_of_agent_succ, C03_lookup_own_value, C03_prefix_stripped, ...); tie: step-wise on implementation frames, the Lean model evaluates every transition by name at the implementation's own states and reported choices",
         "The sampler is a parameter of the model (every theorem holds for every draw function); positivity of the drawn label's probability is checked on the implementation for every draw.",
         "Lean 4 proof (loop unrolling) + step-wise differential correspondence"),
 "C04": ("PARTIAL. Proved: the PRNG key schedule of `simulate` as paths in the split tree is injective in (period, variable, agent), prefix-free, and never consumes a key that is split (the JAX contract for independent draws); the inverse-CDF sampler never returns a zero-probability label, returns a valid label and hits label k on an interval of length p_k. Tie: every stochastic draw of implementation frames is re-derived with the real jax.random.split / jax.random.choice along the model's key paths; same-seed and period-0 checks. The distributional clause itself rests on threefry uniformity (trusted) and is supported by chi-square tests (p < 1e-9 alarms), not proved",
         "Frequencies are statistical, not provable; uniformity/independence of threefry bits for distinct keys is trusted.",
         "Lean 4 proof of key hygiene and sampler arithmetic + exact draw reproduction + chi-square (supporting)"),
 "C05": ("shape theorem for every period of `solve` (leading axis of feasible restricted-state combinations only when a variable is restricted, then unrestricted discrete states, then continuous states, grid lengths), declaration-order theorems for each group of the canonical variable order, entry theorem through R1 (C05_*); tie: shapes compared with the model's layout, and sampled entries re-valued by the specification-level enumeration at the state the layout contract assigns to the index",
         "In the supported class every filter involves a state, so 'some variable restricted' = 'some state restricted'.",
         "Lean 4 proof + layout-directed differential correspondence"),
 "C06": ("(b) is definitional in the model; (a) is proved at full strength by uniqueness of IsMaxOver from R1 and R2: if the variable names are pairwise distinct and the agent's state is, as a set of (name, value) pairs, a stored grid state, the simulated value equals the entry of the solved array (C06_on_grid_value, C06_on_grid_value_unrestricted; the environment identification is `env_on_grid`, 'filters read restricted variables only' is the frame lemma `filt_on_grid`; the `_partial` versions keep both as hypotheses); tie: simulated values of on-grid agents (all states of fully discrete models) are compared with the implementation's own value arrays through the model's layout, and 'solve_and_simulate' frames with solve->'simulate' frames",
         "States without a feasible choice (value -inf) are included in the implementation-side comparison (both routes must report -inf).",
         "Lean 4 proof (R1 + R2 + uniqueness) + differential correspondence"),
 "C07": ("template: one entry per function, exactly the non-variable non-function non-period arguments, alphabetically sorted and duplicate-free, shock shapes in signature order (C07_function_params, C07_params_sorted, C07_shock_shape); routing: by-name evaluation reads params[f] only under f's own name, equal names in different functions do not interact, beta enters once per period (C07_routing, C07_noninterference, C07_lookup_by_function_name, C07_beta_once); tie: three-way template comparison and solve/simulate with colliding parameter names, swapped values and varied beta (exact)",
         "", "Lean 4 proof + exact differential correspondence"),
 "C08": ("the decision of an agent inside any batch equals its decision alone, tie rule included; two batches containing the same state give that agent the same decision; period 0 for any model (C08_decision_alone, C08_batch_irrelevant, C08_period0_any_model), whole paths of deterministic models (C08_path_alone, C08_paths_batch_irrelevant); metamorphic tie on the implementation: permutation, subset, single agent, duplication, reversed key order",
         "Hypothesis: the agent has at least one filter-passing restricted choice (otherwise the implementation's num_segments shifts rows; outside the supported inputs). Agents without any feasible choice (all options -inf) are included in the implementation-side metamorphic comparison.",
         "Lean 4 proof (closed form of the arg-max chain) + metamorphic differential testing"),
 "C09": ("PARTIAL. In the model generated functions are functions (history theorem trivial); proved is the logic part: results do not depend on the order in which argument names are collected/passed (set iteration order) nor on anything but the values stored under each function's name (C09_arg_order_irrelevant, C09_params_by_value). Hidden state of the implementation (JIT caches, module state, hash seeds, processes) is covered by differential call histories, rebuilds, deep comparison of model.functions/params and subprocess runs under different PYTHONHASHSEED only",
         "Runtime state is outside any executable model of the logic.", "Lean 4 proof of order-independence + differential call histories"),
 "C10": ("PARTIAL. Proved at specification level: the value depends only on the admissible set and the objective on it (order-free IsMaxOver), not on enumeration order, classification filter vs constraint, or always-true restrictions; by-name evaluation reads environments through lookups only (C10_*). Also proved: by-name evaluation and every filter/constraint conjunction are invariant under permuting the declaration order of functions and of variables with distinct names (C10_function_order_irrelevant, C10_variable_order_irrelevant). Not proved: the simultaneous layout re-indexing of the stored arrays under permuted declarations, and consistent renaming. Tie: metamorphic pairs (permutation, renaming, true constraint, true filter, filter->constraint) solved by the implementation and matched state by state through the layouts",
         "Renaming and layout re-indexing are covered by the metamorphic correspondence only.", "Lean 4 proof (order-free specification) + metamorphic differential testing"),
 "C11": ("affine law step, geometric accumulation, beta = 0, stationarity step, degenerate transition rows, for the specification-level Bellman step and its linear ingredients (interpolation weights and transition rows sum to one) - C11_*; every array entry is such a step by R1; whole-horizon statements for the abstract finite-horizon recursion (C11_affine: V' = a V + b sum beta^k for every period and state, C11_beta_zero_all_periods, C11_stationary); tie: metamorphic pairs of implementation runs (exact), thorough tier includes specifications far beyond what the model enumerates",
         "The whole-horizon theorems are stated for the abstract recursion `DP` (state space, feasible set, utility, transition kernel as parameters), of which the model's period step is an instance by R1.", "Lean 4 proof of the DP laws + metamorphic differential testing"),
 "C12": ("PARTIAL. Decision logic of Model(...) and of function creation proved outright (accept iff no rule violated; which error at which stage) - C12_*; grid rules in C16. The converse ('every accepted specification runs') is false of the current code: K1-K7 and K9 in known_findings.json are replayed every run and reported as KNOWN-FINDING. Tie: malformed stream (every single rule on every base family, and 1-3 combined violations) classified by stage and error kind against the model; accepted stream solved and simulated with parameters following the implementation's own template",
         "Wrong types of n_periods / non-dict containers are not among the listed rules and not generated.", "Lean 4 proof of the validation decision logic + differential classification"),
 "C13": ("panel of the executable `simulate`: n_periods*n_agents rows, one record per agent and period, row t*n+i is agent i in period t, index recovered by div/mod, row content = that agent's decision (C13_*); tie: DataFrame length, MultiIndex order and names, column set, _period, and every additional target column against the model's by-name evaluation at the row (exact)",
         "pandas MultiIndex.from_product order is taken as documented (period-major).", "Lean 4 proof + exact differential correspondence"),
 "C14": ("stored values reproduced at nodes after the discrete selection (any number of continuous axes), affine in each coordinate for a fixed cell, boundary cell continued outside a linear grid, axes guard (C14_*); tie: get_function_representation with generated SpaceInfo (random feasibility masks, lin/log grids) against the Lean model `functionRepresentation` (exact / 1e-9 for log grids) plus the clauses evaluated on the implementation alone",
         "JAX index wrap-around for infeasible combinations (-1) is outside the property.", "Lean 4 proof + differential correspondence"),
 "C15": ("integer coordinates return entries (any rank), blend recursion with weights summing to one, affine per axis incl. extrapolation, boundary cells; linear grids: node coordinate, strict monotonicity, round trip for every value (exact rationals); log grids over the reals: cell bounds, coordinate in cell, node coordinate, round trip (C15_*); tie: map_coordinates rank 1-4 incl. integer inputs (exact), get_coordinate of both grid classes incl. values within 1e-6 relative of log-grid nodes on grids of up to 400 nodes",
         "The corner-product sum of the code (`interpCorners`: sum over the 2^n corners of products of one-dimensional weights) is proved equal to the recursive form (C15_corner_eq_rec); floor/clip/astype semantics as documented; Float instance of the log formulas carries no theorem.", "Lean 4 proof (Rat and Real) + differential correspondence"),
 "C16": ("acceptance decision logic over Python values incl. nan/inf/bool semantics; accepted linear grids have n points, first = start, last = stop, equal spacing, strictly increasing; log grid nodes over the reals; discrete grids accepted iff codes are numerically 0,1,2,... (C16_*); tie: constructors on generated values, materialisation oracle on every accepted grid",
         "Float range/representability (e.g. 1e40 in float32) is outside exact arithmetic; the harness runs with x64.", "Lean 4 proof of decision logic and exact materialisation + differential correspondence"),
 "C17": ("rows = exactly the filter-passing combinations of the row-major product, duplicate-free; feasible states; indexer = rank or not-found; segments group rows by state rank; dense variables as full grids (C17_*); tie: create_state_choice_space on generated specifications, every period, jit_filter on/off, compared with `mkSpace` (exact equality of rows, indexer, segments, dense grids, SpaceInfo)",
         "", "Lean 4 proof + exact differential correspondence"),
 "C18": ("PARTIAL. argmax: position is an unmasked maximiser, the first one, (0, -inf) when all masked; segment_argmax: a row of the segment attaining the segment max; discrete problem = max over all choice combinations (C18_*); tie: argmax/segment_argmax/get_solve_discrete_problem on generated arrays with exact ties and near ties (1e-6 relative), eager and jitted. The 'produced inside the same JIT computation' clause is searched by a fused-producer stream only",
         "XLA double evaluation with different rounding cannot be exhibited by a model in which an element has one value.", "Lean 4 proof + differential correspondence + fused-producer search"),
 "C19": ("productmap entry theorem (axes in listed order, any signature positions), vmap_1d pairing, spacemap axis placement; wrappers reject positional/unexpected/missing/duplicated/wrong-count arguments (C19_*); tie: generated signatures with all parameter kinds, all mapped subsets/orders, scalar/tuple/dict outputs with scalar and array-valued leaves against nested Python loops (oracle) and the Lean dispatcher model",
         "jax.vmap taken with documented semantics; variadics not generated.", "Lean 4 proof + nested-loop oracle + differential correspondence"),
 "C20": ("over the reals: stable form = s*log(sum exp(v/s)), layout irrelevance, bounds, shift, limit s->0+, and the arithmetic no-overflow argument (C20_*); tie (tolerance): both private kernels against the Float instance of the same definitions, plus the clauses evaluated on the implementation (finiteness up to 1e6)",
         "IEEE overflow/underflow is outside the model; Float is opaque to the Lean kernel (the Float instance carries no theorem).", "Lean 4 proof over the reals (Mathlib) + tolerance differential correspondence"),
}

checks = []
for pid, (text, note, tech) in P.items():
    checks.append({
        "property_id": pid,
        "quick_cmd": f"/venv/bin/python harness/check.py {pid} --tier quick",
        "thorough_cmd": f"/venv/bin/python harness/check.py {pid} --tier thorough",
        "evidence_file": f"evidence/{pid}.json",
        "replay_cmd_template": f"/venv/bin/python harness/check.py {pid} --replay {{path}}",
        "engine": "lean4-model+correspondence",
        "level_claimed": {"category": "proof", "text": text, "design_ref": f"DESIGN.md section 6 ({pid}) and section 11"},
        "level_note": COMMON_NOTE + note,
        "technique": tech,
    })

manifest = {
    "version": 1,
    "setup_cmd": "cd lean && lake build",
    "hooks": {
        "guard": "OPENSOURCEECONOMICS_LCM_VERIF",
        "enable": "no source hooks exist: the checks set OPENSOURCEECONOMICS_LCM_VERIF=1 but /repo contains no guarded code; lcm is imported from /repo/src (editable install, asserted at import); the jax.util compatibility shim lives in harness/common.py",
        "baseline_off_cmd": BASELINE,
        "source_commits": [],
        "add_only": True,
    },
    "engines": [{"name": "lean4-model+correspondence", "path": "lean/ (Lake project lcmv: LcmModel, LcmProofs, LcmProps, lcmdriver) + harness/",
                 "serves_properties": list(P), "kind_free_text": "machine-checked proof in Lean 4 about a hand-written executable model, tied to /repo by a differential correspondence harness run on every check"}],
    "checks": checks,
    "notes": ("Genuine defects repaired in /repo by separate 'fix:' commits (see known_findings.json): b79ec18 (F1 state indexers), b03b4be (F2 dense argmax), "
              "147fa34 (F3 grid validation), 29084d8 (F4 allow_args), c6cda41 (F5 vmap_1d keyword-only). Known findings K1-K7 (property C12) are recorded, not repaired. "
              "Exit codes of every check: 0 held, 1 VIOLATION line, 2 infrastructure."),
    "not_applicable": [],
}
Path(__file__).resolve().parent.parent.joinpath("MANIFEST.json").write_text(json.dumps(manifest, indent=1))
print("written", len(checks))
