import LcmProofs.SimPanel
namespace Lcm

/-! Whole-path independence of agents in models without stochastic transitions (C08). -/

/-- the next states of agent `i` computed in period `t`, as a function of that agent's record alone, when no
transition is stochastic -/
def nextOfRecord (m : Model) (P : Params) (t : Nat) (rec_ : Record) : List (Name × Rat) :=
  let env := toEnv (rec_.states ++ rec_.choices) ++ periodEnv t
  ((functionInfo m).filter (·.isNext)).map fun nf =>
    (stripNext nf.name, ((callF m P m.fuel env nf.name).map Val.toRat).getD 0)

def Deterministic (m : Model) : Prop := ∀ nf ∈ (functionInfo m).filter (·.isNext), nf.isStochasticNext = false

theorem periodOut_next_deterministic (m : Model) (P : Params) (V : List (Tensor Ext)) (draws : Draws) (t : Nat)
    (states : List (List (Name × Rat))) (i : Nat) (hi : i < states.length) (hdet : Deterministic m) :
    (periodOut m P V draws t states).2.getD i []
      = nextOfRecord m P t ((periodOut m P V draws t states).1.getD i default) := by
  simp only [periodOut, simulatePeriod, nextOfRecord]
  rw [List.getD_eq_getElem?_getD, List.getElem?_map, List.getElem?_range hi]
  simp only [Option.map_some, Option.getD_some]
  apply List.map_congr_left
  intro nf hnf
  simp [hdet nf hnf]

theorem rekey_getD (m : Model) (nxt : List (List (Name × Rat))) (i : Nat) (hi : i < nxt.length) :
    (rekey m nxt).getD i [] = m.states.map fun s => (s.1, (((nxt.getD i []).find? (·.1 == s.1)).map (·.2)).getD 0) := by
  simp only [rekey]
  rw [List.getD_eq_getElem?_getD, List.getElem?_map, List.getElem?_eq_getElem hi]
  simp [List.getD_eq_getElem?_getD, List.getElem?_eq_getElem hi]

/-- **path independence**: in a model without stochastic transitions the state of agent `i` in every period
is the state the agent reaches when it is simulated alone - whatever the other agents of the batch are.
`hne` : along its own path the agent always has a filter-passing restricted choice. -/
theorem statesAt_alone (m : Model) (P : Params) (V : List (Tensor Ext)) (init : List (List (Name × Rat)))
    (draws draws' : Draws) (i : Nat) (hi : i < init.length) (hdet : Deterministic m)
    (hne : ∀ t, (assignments (groups m).sC).filter
      (agentFilt m P (groups m) t ((statesAt m P V [init.getD i []] draws' t).getD 0 [])) ≠ []) (t : Nat) :
    (statesAt m P V init draws t).getD i [] = (statesAt m P V [init.getD i []] draws' t).getD 0 [] := by
  induction t with
  | zero => simp [statesAt_zero]
  | succ t ih =>
    have hlen : i < (statesAt m P V init draws t).length := by rw [statesAt_length]; exact hi
    have hlen1 : 0 < (statesAt m P V [init.getD i []] draws' t).length := by rw [statesAt_length]; simp
    rw [statesAt_succ, statesAt_succ,
      rekey_getD m _ i (by rw [periodOut_snd_length]; exact hlen),
      rekey_getD m _ 0 (by rw [periodOut_snd_length]; exact hlen1),
      periodOut_next_deterministic m P V draws t _ i hlen hdet,
      periodOut_next_deterministic m P V draws' t _ 0 hlen1 hdet,
      periodOut_record_getD m P V draws t _ i hlen, periodOut_record_getD m P V draws' t _ 0 hlen1]
    have hrec : agentDecision m P (groups m) t (simNext m P V t) (statesAt m P V init draws t) i
        = agentDecision m P (groups m) t (simNext m P V t) (statesAt m P V [init.getD i []] draws' t) 0 :=
      agentDecision_batch_irrelevant m P (groups m) t (simNext m P V t) _ _ i 0 hlen hlen1 ih
        (by rw [ih]; exact hne t)
    rw [hrec]

/-- … and so is its whole record (value, choices, states) in every period -/
theorem record_alone (m : Model) (P : Params) (V : List (Tensor Ext)) (init : List (List (Name × Rat)))
    (draws draws' : Draws) (i : Nat) (hi : i < init.length) (hdet : Deterministic m)
    (hne : ∀ t, (assignments (groups m).sC).filter
      (agentFilt m P (groups m) t ((statesAt m P V [init.getD i []] draws' t).getD 0 [])) ≠ [])
    (t : Nat) (ht : t < m.nPeriods) :
    ((simulate m P V init draws true).getD t []).getD i default
      = ((simulate m P V [init.getD i []] draws' true).getD t []).getD 0 default := by
  have hs := statesAt_alone m P V init draws draws' i hi hdet hne t
  have hlen : i < (statesAt m P V init draws t).length := by rw [statesAt_length]; exact hi
  have hlen1 : 0 < (statesAt m P V [init.getD i []] draws' t).length := by rw [statesAt_length]; simp
  rw [simulate_getD m P V init draws t ht, simulate_getD m P V _ draws' t ht,
    periodOut_record_getD m P V draws t _ i hlen, periodOut_record_getD m P V draws' t _ 0 hlen1]
  exact agentDecision_batch_irrelevant m P (groups m) t (simNext m P V t) _ _ i 0 hlen hlen1 hs
    (by rw [hs]; exact hne t)

#print axioms record_alone
end Lcm
