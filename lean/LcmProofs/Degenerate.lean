import LcmProofs.FuncOrder
import LcmProofs.InfeasibleIrrelevant
import Mathlib.Tactic.Ring
namespace Lcm

/-! C11, degenerate transition rows, for the executable `solve`: a stochastic state whose transition row is one-hot at the
label the deterministic transition returns gives the same solution as the specification with that deterministic
transition. The expectation over the product of label grids collapses: all nodes that carry another label of `x` have
weight zero - *provided the continuation is defined there* (the supported class: no `-inf` entry, no excluded state is
touched; otherwise the implementation computes `0 * -inf = nan` where the deterministic specification is fine). -/

theorem seqSum_append (a b : List (Option Rat)) :
    seqSum (a ++ b) = (seqSum a).bind fun u => (seqSum b).map (u + ·) := by
  induction a with
  | nil =>
    simp only [List.nil_append, seqSum, Option.bind_some]
    cases seqSum b <;> simp
  | cons o a ih =>
    simp only [List.cons_append, seqSum, ih]
    cases o <;> cases seqSum a <;> cases seqSum b <;> simp [Option.bind, Option.map]
    ring

theorem seqSum_zero (L : List (Option Rat)) (h : ∀ o ∈ L, o = some 0) : seqSum L = some 0 := by
  induction L with
  | nil => rfl
  | cons o L ih =>
    simp only [seqSum]
    rw [h o (by simp), ih (fun o' ho' => h o' (List.mem_cons_of_mem _ ho'))]
    simp

/-- a row with a single one -/
def OneHot (row : List Rat) (ℓ : Nat) : Prop :=
  ℓ < row.length ∧ ∀ l, l < row.length → row.getD l 0 = if l = ℓ then 1 else 0

theorem seqSum_blocks_zero (B : Rat × Nat → List (Option Rat)) (row : List Rat) (k : Nat)
    (h0 : ∀ i, i < row.length → seqSum (B (row.getD i 0, k + i)) = some 0) :
    seqSum ((row.zipIdx k).flatMap B) = some 0 := by
  induction row generalizing k with
  | nil => rfl
  | cons a row ih =>
    rw [List.zipIdx_cons, List.flatMap_cons, seqSum_append]
    have hb : seqSum (B (a, k)) = some 0 := by simpa using h0 0 (by simp)
    rw [hb, ih (k + 1) (fun i hi => by
      have := h0 (i + 1) (by simpa using hi)
      simpa [List.getD_cons_succ, Nat.add_assoc, Nat.add_comm 1 i] using this)]
    simp

/-- blocks indexed by (weight, label): all blocks but the one of label `k + j` sum to zero -/
theorem seqSum_blocks (B : Rat × Nat → List (Option Rat)) (row : List Rat) (k j : Nat) (S : Option Rat)
    (hj : j < row.length)
    (h0 : ∀ i, i < row.length → i ≠ j → seqSum (B (row.getD i 0, k + i)) = some 0)
    (h1 : seqSum (B (row.getD j 0, k + j)) = S) :
    seqSum ((row.zipIdx k).flatMap B) = S := by
  induction row generalizing k j with
  | nil => simp at hj
  | cons a row ih =>
    rw [List.zipIdx_cons, List.flatMap_cons, seqSum_append]
    cases j with
    | zero =>
      have hb : seqSum (B (a, k)) = S := by simpa using h1
      have hrest : seqSum ((row.zipIdx (k + 1)).flatMap B) = some 0 :=
        seqSum_blocks_zero B row (k + 1) (fun i hi => by
          have := h0 (i + 1) (by simpa using hi) (by simp)
          simpa [List.getD_cons_succ, Nat.add_assoc, Nat.add_comm 1 i] using this)
      rw [hb, hrest]
      cases S <;> simp
    | succ j =>
      have hb : seqSum (B (a, k)) = some 0 := by
        have := h0 0 (by simp) (by simp)
        simpa using this
      rw [hb]
      have := ih (k + 1) j (by simpa using hj)
        (fun i hi hne => by
          have := h0 (i + 1) (by simpa using hi) (by simpa using hne)
          simpa [List.getD_cons_succ, Nat.add_assoc, Nat.add_comm 1 i] using this)
        (by simpa [List.getD_cons_succ, Nat.add_assoc, Nat.add_comm 1 j] using h1)
      rw [this]
      cases S <;> simp


/-- **the expectation collapses**: with a one-hot row for `x` and the continuation defined at every node, the weighted sum
over the product of label grids equals the sum over the other stochastic states with `x` fixed at the label of the one -/
theorem onehot_nodes_sum (x : Name) (row : List Rat) (ℓ : Nat) (hoh : OneHot row ℓ) (W' : List (Name × List Rat))
    (K : List (Name × Rat) → Option Rat)
    (hK : ∀ p ∈ nodesOf ((x, row) :: W'), (K p.1).isSome = true) :
    seqSum ((nodesOf ((x, row) :: W')).map (gK K))
      = seqSum ((nodesOf W').map (gK fun a => K ((x, (ℓ : Rat)) :: a))) := by
  rw [nodesOf_cons, List.map_flatMap]
  have hmem : ∀ i, i < row.length → ∀ ap ∈ nodesOf W',
      (((x, ((i : Nat) : Rat)) :: ap.1, row.getD i 0 * ap.2) : List (Name × Rat) × Rat) ∈ nodesOf ((x, row) :: W') := by
    intro i hi ap hap
    rw [nodesOf_cons, List.mem_flatMap]
    refine ⟨(row.getD i 0, i), ?_, ?_⟩
    · rw [List.mem_zipIdx_iff_getElem?]
      simp [List.getD_eq_getElem?_getD, List.getElem?_eq_getElem hi]
    · exact List.mem_map.mpr ⟨ap, hap, rfl⟩
  have := seqSum_blocks
    (fun (wl : Rat × Nat) => ((nodesOf W').map fun (ap : List (Name × Rat) × Rat) =>
      ((x, (wl.2 : Rat)) :: ap.1, wl.1 * ap.2)).map (gK K))
    row 0 ℓ (seqSum ((nodesOf W').map (gK fun a => K ((x, (ℓ : Rat)) :: a)))) hoh.1
    (by
      intro i hi hne
      apply seqSum_zero
      intro o ho
      simp only [List.map_map, List.mem_map, Function.comp] at ho
      obtain ⟨ap, hap, rfl⟩ := ho
      have hdef := hK _ (hmem i hi ap hap)
      have hw : row.getD i 0 = 0 := by rw [hoh.2 i hi]; simp [hne]
      simp only [gK, Nat.zero_add, hw]
      cases hk : K ((x, (i : Rat)) :: ap.1) with
      | none => simp [hk] at hdef
      | some v => simp)
    (by
      simp only [List.map_map, Nat.zero_add]
      congr 1
      apply List.map_congr_left
      intro ap _
      have hw : row.getD ℓ 0 = 1 := by rw [hoh.2 ℓ hoh.1]; simp
      simp only [Function.comp, gK, hw, one_mul])
  simpa using this


/-- `m` has the stochastic state `x` with degenerate rows, `m'` the corresponding deterministic transition; everything
else evaluates alike -/
structure DegenerateTo (m m' : Model) (P : Params) (x : Name) : Prop where
  periods : m'.nPeriods = m.nPeriods
  grp : groups m' = groups m
  space : ∀ g t, mkSpace m' P g t = mkSpace m P g t
  constraints : ∀ env, allTrue m' P env (constraintNames m') = allTrue m P env (constraintNames m)
  util : ∀ env, utilOf m' P env = utilOf m P env
  /-- in `m` the row of `x` is one-hot at the label the deterministic transition of `m'` returns; the other transitions
  are the same (as sets of named values / named rows) -/
  trans : ∀ env d W, detOf m P env = some d → wrowsOf m P env = some W →
    ∃ (ℓ : Nat) (row : List Rat) (W' : List (Name × List Rat)) (d' : Env),
      OneHot row ℓ ∧ W.Perm ((x, row) :: W') ∧ wrowsOf m' P env = some W' ∧
      detOf m' P env = some d' ∧ d'.Perm ((x, Val.num (ℓ : Rat)) :: d)
  /-- transitions feed pairwise distinct states -/
  keys : ∀ env d W, detOf m P env = some d → wrowsOf m P env = some W → (d.map (·.1) ++ W.map (·.1)).Nodup

/-- the supported class for this law: wherever the static objective is defined, the transitions are, and the continuation
value is defined at every node of the expectation - the zero-weight ones included -/
def NodesDefined (m : Model) (P : Params) (g : Groups) (t : Nat) (V : Tensor Ext) (feas : List (List (Name × Rat))) : Prop :=
  ∀ env0, (allTrue m P (env0 ++ periodEnv t) (constraintNames m)).isSome = true →
    (utilOf m P (env0 ++ periodEnv t)).isSome = true →
    ∃ d W, detOf m P (env0 ++ periodEnv t) = some d ∧ wrowsOf m P (env0 ++ periodEnv t) = some W ∧
      ∀ p ∈ nodesOf W, (vhat g feas V (d ++ toEnv p.1)).isSome = true

theorem toEnv_keys (a : List (Name × Rat)) : (toEnv a).map (·.1) = a.map (·.1) := by
  simp [toEnv]

variable {m m' : Model} {P : Params} {x : Name}

/-- the objective of one state-choice combination is the same in both specifications -/
theorem DegenerateTo.uAndF (h : DegenerateTo m m' P x) (g : Groups) (t : Nat) (V : Tensor Ext)
    (feas : List (List (Name × Rat))) (hdef : NodesDefined m P g t V feas) (env0 : Env) :
    uAndF m' P g t (some (V, feas)) env0 = uAndF m P g t (some (V, feas)) env0 := by
  rw [uAndF_some_eq, uAndF_some_eq, h.constraints, h.util]
  cases hA : allTrue m P (env0 ++ periodEnv t) (constraintNames m) with
  | none => rfl
  | some f =>
    cases hU : utilOf m P (env0 ++ periodEnv t) with
    | none => rfl
    | some u =>
      obtain ⟨d, W, hd, hW, hnodes⟩ := hdef env0 (by rw [hA]; rfl) (by rw [hU]; rfl)
      obtain ⟨ℓ, row, W', d', hoh, hperm, hW', hd', hdperm⟩ := h.trans _ d W hd hW
      have hkeys := h.keys _ d W hd hW
      simp only [Option.bind_some, hd, hW, hd', hW']
      congr 1
      -- the two expectations
      let K : List (Name × Rat) → Option Rat := fun a => vhat g feas V (d ++ toEnv a)
      let K' : List (Name × Rat) → Option Rat := fun a => vhat g feas V (d' ++ toEnv a)
      have e1 := foldlM_eq_seqSum K (nodesOf W) 0
      have e2 := foldlM_eq_seqSum K' (nodesOf W') 0
      show List.foldlM (fun acc (p : List (Name × Rat) × Rat) => do
          let vn ← K' p.1; pure (acc + p.2 * vn)) (0 : Rat) (nodesOf W')
        = List.foldlM (fun acc (p : List (Name × Rat) × Rat) => do
          let vn ← K p.1; pure (acc + p.2 * vn)) (0 : Rat) (nodesOf W)
      rw [e1, e2]
      congr 1
      have hWnd : (W.map (·.1)).Nodup := (List.nodup_append.mp hkeys).2.1
      -- K does not depend on the order of the labels
      have hInv : InvOn K (W.map (·.1)) := by
        intro a a' hp hk
        show vhat g feas V (d ++ toEnv a) = vhat g feas V (d ++ toEnv a')
        apply vhat_congr_env
        exact (EnvEq.refl d).append (envEq_of_perm a a' hp (hk.nodup_iff.mpr hWnd))
      have hpermN := nodes_map_perm W ((x, row) :: W') hperm K hInv
      rw [seqSum_perm _ _ hpermN]
      -- definedness transfers along the permutation
      have hK : ∀ p ∈ nodesOf ((x, row) :: W'), (K p.1).isSome = true := by
        intro p hp
        have hmem : gK K p ∈ (nodesOf ((x, row) :: W')).map (gK K) := List.mem_map.mpr ⟨p, hp, rfl⟩
        have hmem' := hpermN.symm.mem_iff.mp hmem
        obtain ⟨p0, hp0, he⟩ := List.mem_map.mp hmem'
        have h0 := hnodes p0 hp0
        have : (gK K p).isSome = true := by
          rw [← he]; unfold gK
          show ((vhat g feas V (d ++ toEnv p0.1)).map _).isSome = true
          cases hv : vhat g feas V (d ++ toEnv p0.1) with
          | none => rw [hv] at h0; simp at h0
          | some v => rfl
        unfold gK at this
        cases hk : K p.1 with
        | none => rw [hk] at this; simp at this
        | some v => rfl
      rw [onehot_nodes_sum x row ℓ hoh W' K hK]
      congr 1
      apply List.map_congr_left
      intro p hp
      unfold gK
      have hpk := nodes_keys W' p hp
      have : K ((x, (ℓ : Rat)) :: p.1) = K' p.1 := by
        show vhat g feas V (d ++ toEnv ((x, (ℓ : Rat)) :: p.1)) = vhat g feas V (d' ++ toEnv p.1)
        apply vhat_congr_env
        have hp1 : (d' ++ toEnv p.1).Perm (d ++ toEnv ((x, (ℓ : Rat)) :: p.1)) := by
          have : toEnv ((x, (ℓ : Rat)) :: p.1) = (x, Val.num (ℓ : Rat)) :: toEnv p.1 := rfl
          rw [this]
          exact (List.Perm.append_right _ hdperm).trans (by
            simpa using (List.perm_middle (a := (x, Val.num (ℓ : Rat))) (l₁ := d) (l₂ := toEnv p.1)).symm)
        apply EnvEq.symm
        apply envEq_of_perm_env _ _ hp1
        -- keys of d' ++ toEnv p.1
        have hk1 : ((d' ++ toEnv p.1).map (·.1)).Perm (d.map (·.1) ++ W.map (·.1)) := by
          rw [List.map_append, toEnv_keys, hpk]
          have hd1 : (d'.map (·.1)).Perm (x :: d.map (·.1)) := by simpa using hdperm.map (·.1)
          have hw1 : (W.map (·.1)).Perm (x :: W'.map (·.1)) := by simpa using hperm.map (·.1)
          refine (List.Perm.append_right _ hd1).trans ?_
          refine List.Perm.trans ?_ (List.Perm.append_left _ hw1.symm)
          simpa using (List.perm_middle (a := x) (l₁ := d.map (·.1)) (l₂ := W'.map (·.1))).symm
        exact hk1.nodup_iff.mpr hkeys
      show Option.map (fun x => p.2 * x) (K' p.1) = Option.map (fun x => p.2 * x) (K ((x, (ℓ : Rat)) :: p.1))
      rw [this]


theorem DegenerateTo.uAndF_none (h : DegenerateTo m m' P x) (g : Groups) (t : Nat) (env0 : Env) :
    Lcm.uAndF m' P g t none env0 = Lcm.uAndF m P g t none env0 := by
  rw [uAndF_none_eq, uAndF_none_eq, h.constraints, h.util]

theorem solvePeriod_congr_obj (m m' : Model) (P : Params) (g : Groups) (t : Nat) (sp : Space)
    (next : Option (Tensor Ext × List (List (Name × Rat))))
    (hu : ∀ e, Lcm.uAndF m' P g t next e = Lcm.uAndF m P g t next e) :
    solvePeriod m' P g t sp next = solvePeriod m P g t sp next := by
  have hc : ∀ env, ccvEnv m' P g t next env = ccvEnv m P g t next env := by
    intro env; unfold ccvEnv; simp only [hu]
  unfold solvePeriod ccvSparse ccvDense
  simp only [hc]

/-- **C11, degenerate transition rows, every period of the executable `solve`** -/
theorem solve_degenerate (h : DegenerateTo m m' P x)
    (hdef : ∀ t, t + 1 < m.nPeriods →
      NodesDefined m P (groups m) t ((solve m P true).getD (t + 1) default) (mkSpace m P (groups m) (t + 1)).feas)
    (j : Nat) (hj : j < m.nPeriods) :
    (solve m' P true).getD (m.nPeriods - 1 - j) default = (solve m P true).getD (m.nPeriods - 1 - j) default := by
  induction j with
  | zero =>
    have ht : m.nPeriods - 1 - 0 < m.nPeriods := by omega
    have ht' : m.nPeriods - 1 - 0 < m'.nPeriods := by rw [h.periods]; exact ht
    rw [solve_getD m P _ ht, solve_getD m' P _ ht', h.grp, h.space]
    have hn : nextOf m P (solve m P true) (m.nPeriods - 1 - 0) = none := by unfold nextOf; split <;> [omega; rfl]
    have hn' : nextOf m' P (solve m' P true) (m.nPeriods - 1 - 0) = none := by
      unfold nextOf; rw [h.periods]; split <;> [omega; rfl]
    rw [hn, hn']
    exact solvePeriod_congr_obj m m' P _ _ _ _ (fun e => h.uAndF_none _ _ e)
  | succ j ih =>
    have ihj := ih (by omega)
    have ht : m.nPeriods - 1 - (j + 1) < m.nPeriods := by omega
    have ht' : m.nPeriods - 1 - (j + 1) < m'.nPeriods := by rw [h.periods]; exact ht
    have hsucc : m.nPeriods - 1 - (j + 1) + 1 = m.nPeriods - 1 - j := by omega
    rw [solve_getD m P _ ht, solve_getD m' P _ ht', h.grp, h.space]
    have hn : nextOf m P (solve m P true) (m.nPeriods - 1 - (j + 1))
        = some ((solve m P true).getD (m.nPeriods - 1 - j) default, (mkSpace m P (groups m) (m.nPeriods - 1 - j)).feas) := by
      unfold nextOf; rw [hsucc]; split <;> [rfl; omega]
    have hn' : nextOf m' P (solve m' P true) (m.nPeriods - 1 - (j + 1))
        = some ((solve m' P true).getD (m.nPeriods - 1 - j) default, (mkSpace m P (groups m) (m.nPeriods - 1 - j)).feas) := by
      unfold nextOf; rw [h.periods, hsucc, h.grp, h.space]; split <;> [rfl; omega]
    rw [hn, hn', ihj]
    have hd := hdef (m.nPeriods - 1 - (j + 1)) (by omega)
    rw [hsucc] at hd
    exact solvePeriod_congr_obj m m' P _ _ _ _ (fun e => h.uAndF _ _ _ _ hd e)

#print axioms solve_degenerate
end Lcm
