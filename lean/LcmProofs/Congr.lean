import LcmModel.Solve
namespace Lcm

/-! By-name evaluation depends on an environment only through `Env.get?` and on the parameters only
through `Params.get?` - the facts behind "argument order is irrelevant" (C09), "declaration order is
irrelevant" (C10), parameter routing (C07) and the bridge between the environments of `solve` and
`simulate` (C06). -/

/-- two environments that answer every lookup alike -/
def EnvEq (e e' : Env) : Prop := ∀ x, e.get? x = e'.get? x

theorem EnvEq.refl (e : Env) : EnvEq e e := fun _ => rfl
theorem EnvEq.symm {e e' : Env} (h : EnvEq e e') : EnvEq e' e := fun x => (h x).symm
theorem EnvEq.trans {a b c : Env} (h1 : EnvEq a b) (h2 : EnvEq b c) : EnvEq a c := fun x => (h1 x).trans (h2 x)

theorem get?_append (a b : Env) (x : Name) :
    (a ++ b).get? x = match a.get? x with | some v => some v | none => b.get? x := by
  unfold Env.get?
  rw [List.find?_append]
  cases h : List.find? (fun p => p.1 == x) a <;> simp

theorem EnvEq.append {a a' b b' : Env} (h1 : EnvEq a a') (h2 : EnvEq b b') : EnvEq (a ++ b) (a' ++ b') := by
  intro x
  rw [get?_append, get?_append, h1 x, h2 x]

theorem callF_congr_env (m : Model) (P : Params) (fuel : Nat) (e e' : Env) (h : EnvEq e e') (fname : Name) :
    callF m P fuel e fname = callF m P fuel e' fname := by
  induction fuel generalizing fname with
  | zero => rfl
  | succ fuel ih =>
    unfold callF
    have h' : ∀ x, e.get? x = e'.get? x := h
    simp only [ih, h']

theorem allTrue_congr_env (m : Model) (P : Params) (e e' : Env) (h : EnvEq e e') (names : List Name) :
    allTrue m P e names = allTrue m P e' names := by
  unfold allTrue
  have : (fun (acc : Bool) (n : Name) => do let v ← callF m P m.fuel e n; pure (acc && v.toBool))
      = (fun (acc : Bool) (n : Name) => do let v ← callF m P m.fuel e' n; pure (acc && v.toBool)) := by
    funext acc n
    rw [callF_congr_env m P m.fuel e e' h n]
  rw [this]

/-- parameters are read through `Params.get?` only -/
theorem callF_congr_params (m : Model) (P P' : Params) (hP : ∀ f p, P.get? f p = P'.get? f p)
    (fuel : Nat) (e : Env) (fname : Name) : callF m P fuel e fname = callF m P' fuel e fname := by
  induction fuel generalizing fname with
  | zero => rfl
  | succ fuel ih =>
    unfold callF
    simp only [ih, hP]

#print axioms callF_congr_env
end Lcm

namespace Lcm

/-- the period objective depends on the state-choice environment only through its lookups -/
theorem uAndF_congr_env (m : Model) (P : Params) (g : Groups) (t : Nat)
    (next : Option (Tensor Ext × List (List (Name × Rat)))) (e e' : Env) (h : EnvEq e e') :
    uAndF m P g t next e = uAndF m P g t next e' := by
  have henv : EnvEq (e ++ periodEnv t) (e' ++ periodEnv t) := h.append (EnvEq.refl _)
  have hc : ∀ n, callF m P m.fuel (e ++ periodEnv t) n = callF m P m.fuel (e' ++ periodEnv t) n :=
    fun n => callF_congr_env m P m.fuel _ _ henv n
  have hg : ∀ x, (e ++ periodEnv t).get? x = (e' ++ periodEnv t).get? x := henv
  have ha : ∀ names, allTrue m P (e ++ periodEnv t) names = allTrue m P (e' ++ periodEnv t) names :=
    fun names => allTrue_congr_env m P _ _ henv names
  unfold uAndF
  simp only [hc, hg, ha]

#print axioms uAndF_congr_env
end Lcm

namespace Lcm

/-- by-name evaluation depends on the model only through the name → function lookup -/
theorem callF_congr_funcs (m m' : Model) (h : ∀ n, m.func? n = m'.func? n) (P : Params) (fuel : Nat)
    (e : Env) (fname : Name) : callF m P fuel e fname = callF m' P fuel e fname := by
  induction fuel generalizing fname with
  | zero => rfl
  | succ fuel ih =>
    unfold callF
    simp only [ih, h]

end Lcm
