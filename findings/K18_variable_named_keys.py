# shim
import sys, types, os
WT = os.environ.get("LCM_WT")
sys.path.insert(0, os.path.join(WT, "src"))
import jax, jax._src.util as _u
m = types.ModuleType("jax.util"); m.safe_zip = _u.safe_zip; m.unzip2 = _u.unzip2
sys.modules["jax.util"] = m; jax.util = m
jax.config.update("jax_enable_x64", True)
import lcm
assert lcm.__file__.startswith(WT), lcm.__file__

from dataclasses import dataclass
import numpy as np
import jax.numpy as jnp
from lcm import DiscreteGrid, Model
from lcm.entry_point import get_lcm_function


@dataclass
class Two:
    lo: int = 0
    hi: int = 1

"""Finding 1: the name `keys` is silently reserved by the stochastic-draw machinery.

(a) a stochastic state called `keys` (dependency set {keys}) is accepted and solved, but
    simulate crashes when the draws are made;
(b) the same with an ordinary model whose *auxiliary function* is called `keys`.
"""
P = np.array([[0.3, 0.7], [1.0, 0.0]])
N = 1000
rng = np.random.default_rng(0)
bad = []


# (a) stochastic state named `keys` --------------------------------------------------
def utility_a(keys, c):
    return 1.0 * keys + 0.5 * (c == keys)


@lcm.mark.stochastic
def next_keys(keys):
    pass


model_a = Model(
    n_periods=3,
    functions={"utility": utility_a, "next_keys": next_keys},
    choices={"c": DiscreteGrid(Two)},
    states={"keys": DiscreteGrid(Two)},
)


# (b) auxiliary function named `keys`, stochastic state `a` ---------------------------
def keys(a):  # e.g. "number of keys the agent holds"
    return 2.0 * a


def utility_b(a, c, keys):
    return keys + 0.5 * (c == a)


@lcm.mark.stochastic
def next_a(a):
    pass


model_b = Model(
    n_periods=3,
    functions={"utility": utility_b, "keys": keys, "next_a": next_a},
    choices={"c": DiscreteGrid(Two)},
    states={"a": DiscreteGrid(Two)},
)

for label, model, var in [("(a) state named keys", model_a, "keys"), ("(b) auxiliary function named keys", model_b, "a")]:
    f, params = get_lcm_function(model, targets="solve_and_simulate", debug_mode=False)
    params["beta"] = 0.9
    params["shocks"] = {var: jnp.array(P)}
    init = {var: jnp.array(rng.integers(0, 2, N))}
    print(label, ": model accepted, params template:", {k: (v if k != "shocks" else {kk: vv.shape for kk, vv in v.items()}) for k, v in params.items()})
    try:
        df = f(params, initial_states=init, seed=1)
        nxt = df.loc[1][var].to_numpy(); cur = df.loc[0][var].to_numpy()
        print("   simulated; P(next=1 | cur=0) =", nxt[cur == 0].mean(), "(0.7 expected)")
    except Exception as e:  # noqa: BLE001
        print(f"   OBSERVED: simulate raises {type(e).__name__}: {str(e)[:160]}")
        print("   EXPECTED: a frame whose next-label frequencies follow the rows of", P.tolist())
        bad.append(label)

sys.exit(1 if bad else 0)
