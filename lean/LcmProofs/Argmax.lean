import LcmModel.Argmax
import LcmProofs.Space
namespace Lcm

def Ext.le : Ext → Ext → Prop
  | .ninf, _ => True
  | .fin _, .ninf => False
  | .fin a, .fin b => a ≤ b

theorem Ext.le_refl (a : Ext) : Ext.le a a := by cases a <;> simp [Ext.le]

theorem Ext.le_max_left (a b : Ext) : Ext.le a (Ext.max a b) := by
  cases a <;> cases b <;> simp [Ext.le, Ext.max]; grind
theorem Ext.le_max_right (a b : Ext) : Ext.le b (Ext.max a b) := by
  cases a <;> cases b <;> simp [Ext.le, Ext.max]; grind
theorem Ext.le_trans {a b c : Ext} (h1 : Ext.le a b) (h2 : Ext.le b c) : Ext.le a c := by
  cases a <;> cases b <;> cases c <;> simp_all [Ext.le]; grind
theorem Ext.max_eq_or (a b : Ext) : Ext.max a b = a ∨ Ext.max a b = b := by
  cases a <;> cases b <;> simp [Ext.max]; grind

theorem foldMax_cons (x : Ext) (xs : List Ext) : foldMax (x :: xs) = Ext.max x (foldMax xs) := by
  have := foldMax_append [x] xs
  simpa [foldMax, Ext.max_ninf_left] using this

theorem le_foldMax (xs : List Ext) (x : Ext) (h : x ∈ xs) : Ext.le x (foldMax xs) := by
  induction xs with
  | nil => simp at h
  | cons y ys ih =>
    rw [foldMax_cons]
    rcases List.mem_cons.mp h with rfl | h
    · exact Ext.le_max_left _ _
    · exact Ext.le_trans (ih h) (Ext.le_max_right _ _)

theorem foldMax_mem (xs : List Ext) (h : xs ≠ []) : foldMax xs ∈ xs := by
  induction xs with
  | nil => simp at h
  | cons y ys ih =>
    rw [foldMax_cons]
    by_cases hy : ys = []
    · subst hy; simp [foldMax_nil, Ext.max_ninf_right]
    · rcases Ext.max_eq_or y (foldMax ys) with e | e
      · rw [e]; simp
      · rw [e]; exact List.mem_cons_of_mem _ (ih hy)

/-- the masked maximum dominates every unmasked element -/
theorem le_maskedMax (xs : List Ext) (mask : List Bool) (i : Nat) (hi : i < xs.length)
    (hm : i < mask.length) (hmi : mask[i] = true) : Ext.le xs[i] (maskedMax xs mask) := by
  apply le_foldMax
  simp only [List.mem_filterMap]
  refine ⟨(xs[i], mask[i]), ?_, by simp [hmi]⟩
  have : (xs.zip mask)[i]'(by simp; omega) = (xs[i], mask[i]) := by simp
  rw [← this]; exact List.getElem_mem _

#print axioms le_maskedMax
end Lcm
